#!/bin/bash
# usage: seedtest.sh <seed-id> <prop> [<prop>...] — apply a seeded change to /repo, run the checks, undo
seed=$1; shift
cd /repo && git status --short | grep -q . && { echo "repo dirty"; exit 2; }
git -C /repo apply /verif/seeded/$seed/patch.diff || { echo apply-failed; exit 2; }
for p in "$@"; do (cd /verif && ./check $p --tier quick 2>&1 | grep -E "VIOLATION|KNOWN|quick:|corr:|proof:" | cut -c1-300); done
git -C /repo checkout -- . && (cd /verif/harness && cargo build --release -q 2>/dev/null; cargo build --release -q --no-default-features --features unicode --target-dir target-noalloc 2>/dev/null; cargo build --release -q --no-default-features --features alloc --target-dir target-nounicode 2>/dev/null)
