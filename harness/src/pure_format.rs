//! pure-probe suite `format` (property C06, boot-sector part; see /verif/ARCH.md).
//!
//! ```text
//! P format.bs bps=<n> total=<n> bpc=<n|none> fat=<12|16|32|none> root=<n> fats=<n> media=<n> spt=<n> heads=<n>
//!             drive=<n|none> volid=<n> label=<hex11|none> => <fatbits> <hex512> | ERR <code> | PANIC
//! P format.sweepblock <start> <end> => <nfail> <first_fail|none>
//! ```
//!
//! `format.bs` calls the hook `fatfs::verif::format_boot_sector_bytes` (= `format_boot_sector` + strict `validate` +
//! `serialize`, i.e. everything `format_volume` does before its first device write).
//!
//! Generator: every boundary of every case split of the Lean model (`Model/Format.lean`) ±2, for all option
//! combinations, plus a dense random grid. The optional mode `format-sweep`
//! (`harness pure format format-sweep <seed> [first_block [n_blocks]]`) runs the real function with default options
//! over every `total_sectors` of the 32-bit range and prints one summary line per 2^24 block.
use crate::rng::SplitMix64;
use crate::util::{catch, hex, opt, Tier};
use fatfs::{FatType, FormatVolumeOptions};
use std::io::Write;

#[derive(Clone, Debug)]
struct Case {
    bps: u16,
    total: u32,
    bpc: Option<u32>,
    fat: Option<u8>,
    root: u16,
    fats: u8,
    media: u8,
    spt: u16,
    heads: u16,
    drive: Option<u8>,
    volid: u32,
    label: Option<[u8; 11]>,
}

impl Case {
    fn new(bps: u16, total: u32, bpc: Option<u32>, fat: Option<u8>, root: u16, fats: u8) -> Self {
        Case {
            bps,
            total,
            bpc,
            fat,
            root,
            fats,
            media: 0xF8,
            spt: 0x20,
            heads: 0x40,
            drive: None,
            volid: 0x1234_5678,
            label: None,
        }
    }

    /// Only through the public builder: it is what defines the accepted options.
    fn options(&self) -> FormatVolumeOptions {
        let mut o = FormatVolumeOptions::new()
            .bytes_per_sector(self.bps)
            .total_sectors(self.total)
            .max_root_dir_entries(self.root)
            .fats(self.fats)
            .media(self.media)
            .sectors_per_track(self.spt)
            .heads(self.heads)
            .volume_id(self.volid);
        if let Some(c) = self.bpc {
            o = o.bytes_per_cluster(c);
        }
        if let Some(f) = self.fat {
            o = o.fat_type(fat_type(f));
        }
        if let Some(d) = self.drive {
            o = o.drive_num(d);
        }
        if let Some(l) = self.label {
            o = o.volume_label(l);
        }
        o
    }

    fn emit(&self, out: &mut dyn Write) {
        let opts = self.options();
        let total = self.total;
        let res = catch(|| fatfs::verif::format_boot_sector_bytes(&opts, total));
        let rhs = match res {
            None => "PANIC".to_string(),
            Some(Err(code)) => format!("ERR {}", code),
            Some(Ok((bytes, bits))) => format!("{} {}", bits, hex(&bytes)),
        };
        writeln!(
            out,
            "P format.bs bps={} total={} bpc={} fat={} root={} fats={} media={} spt={} heads={} drive={} volid={} label={} => {}",
            self.bps,
            self.total,
            opt(self.bpc),
            opt(self.fat),
            self.root,
            self.fats,
            self.media,
            self.spt,
            self.heads,
            opt(self.drive),
            self.volid,
            match self.label {
                Some(l) => hex(&l),
                None => "none".into(),
            },
            rhs
        )
        .unwrap();
    }
}

fn fat_type(bits: u8) -> FatType {
    match bits {
        12 => FatType::Fat12,
        16 => FatType::Fat16,
        _ => FatType::Fat32,
    }
}

const BPS: [u16; 5] = [512, 1024, 2048, 4096, 8192];
const BPS_ALL: [u16; 7] = [512, 1024, 2048, 4096, 8192, 16384, 32768];
const BPC: [Option<u32>; 10] = [
    None,
    Some(512),
    Some(1024),
    Some(2048),
    Some(4096),
    Some(8192),
    Some(16384),
    Some(32768),
    Some(65536),
    Some(1 << 20),
];
const FAT: [Option<u8>; 4] = [None, Some(12), Some(16), Some(32)];
const FATS: [u8; 2] = [1, 2];
const ROOTS: [u16; 9] = [0, 1, 15, 16, 17, 511, 512, 513, 65535];
const KB: u64 = 1024;
const MB: u64 = 1024 * KB;
const GB: u64 = 1024 * MB;
/// byte thresholds of `estimate_fat_type` / `determine_bytes_per_cluster`
const BYTE_THRESHOLDS: [u64; 6] = [4200 * KB, 512 * MB, 16 * MB, 128 * MB, 260 * MB, 8 * GB];

/// Wide-arithmetic replica of the layout arithmetic, used ONLY to aim the generator at the boundaries
/// (never to judge an answer). Returns (sectors_per_fat, clusters); clusters may be negative.
fn layout(total: u64, bps: u64, spc: u64, bits: u64, fats: u64, rds: u64) -> (i128, i128) {
    let reserved: u64 = if bits == 32 { 8 } else { 1 };
    let t0 = total as i128 - reserved as i128 - rds as i128;
    let t1 = t0 + 2 * spc as i128;
    let t2 = (spc * bps * 8 / bits + fats) as i128;
    let spf = (t1 + t2 - 1).div_euclid(t2);
    let data = t0 - spf * fats as i128;
    (spf, data.div_euclid(spc.max(1) as i128))
}

fn rds_of(root: u16, bps: u16, bits: u64) -> u64 {
    if bits == 32 {
        0
    } else {
        (u64::from(root) * 32 + u64::from(bps) - 1) / u64::from(bps)
    }
}

/// smallest total in [0, 2^32] for which `pred` holds (pred is monotone up to rounding noise)
fn first_total(pred: impl Fn(u64) -> bool) -> Option<u64> {
    let (mut lo, mut hi) = (0u64, 1u64 << 32);
    if !pred(hi) {
        return None;
    }
    while lo < hi {
        let mid = (lo + hi) / 2;
        if pred(mid) {
            hi = mid;
        } else {
            lo = mid + 1;
        }
    }
    Some(lo)
}

fn around(v: u64, radius: u64, out: &mut Vec<u32>) {
    for d in 0..=2 * radius {
        let x = (v + d).wrapping_sub(radius);
        if x <= u64::from(u32::MAX) {
            out.push(x as u32);
        }
    }
}

/// totals at which the cluster count crosses a FAT-width limit, or the FAT-capacity computation overflows `u32`,
/// for a fixed (bps, spc, width, fats, root)
fn layout_boundaries(bps: u16, spc: u64, bits: u64, fats: u8, root: u16, out: &mut Vec<u32>) {
    let rds = rds_of(root, bps, bits);
    let b = u64::from(bps);
    let f = u64::from(fats);
    for limit in [4085_i128, 65525, 0x0FFF_FFF5] {
        if let Some(t) = first_total(|t| layout(t, b, spc, bits, f, rds).1 >= limit) {
            around(t, 2, out);
            // one cluster further / one FAT sector further
            around(t + spc, 1, out);
            if t > spc {
                around(t - spc, 1, out);
            }
        }
    }
    // `sectors_per_fat * bytes_per_sector * 8` reaches 2^32 (validate_total_clusters)
    if let Some(t) = first_total(|t| layout(t, b, spc, bits, f, rds).0 * i128::from(bps) * 8 >= 1 << 32) {
        around(t, 2, out);
    }
    // sectors_per_fat reaches 2^16 (u16::try_from in format_bpb)
    if let Some(t) = first_total(|t| layout(t, b, spc, bits, f, rds).0 >= 1 << 16) {
        around(t, 2, out);
    }
    // `total <= reserved + root_dir_sectors + 8`
    let reserved: u64 = if bits == 32 { 8 } else { 1 };
    around(reserved + rds + 8, 2, out);
}

fn generic_totals(out: &mut Vec<u32>) {
    around(2, 2, out); // 0..4
    around(16, 2, out);
    around(42, 2, out);
    around(65536, 2, out);
    around(u64::from(u32::MAX) - 2, 2, out);
    out.extend_from_slice(&[1000, 8227, 20000, 1 << 20, 1 << 24, 1 << 28, 1 << 31]);
}

/// thresholds of the heuristics (they are in bytes) mapped to sectors
fn heuristic_totals(bps: u16, out: &mut Vec<u32>) {
    let b = u64::from(bps);
    for thr in BYTE_THRESHOLDS {
        around(thr / b, 2, out);
    }
    // `next_power_of_two` steps: total_bytes = 2^k
    for k in 9..=47 {
        let t = (1u64 << k) / b;
        if t >= 1 && t <= (1u64 << 32) + 2 {
            around(t, 1, out);
        }
    }
}

fn spc_values(bps: u16, bpc: Option<u32>) -> Vec<u64> {
    match bpc {
        Some(c) => vec![u64::from(c) / u64::from(bps)],
        // the heuristic picks a cluster size in [bps, 32 KiB]
        None => {
            let mut v = Vec::new();
            let mut c = u64::from(bps);
            while c <= 32768 {
                v.push(c / u64::from(bps));
                c *= 2;
            }
            if v.is_empty() {
                v.push(1);
            }
            v
        }
    }
}

fn boundary_cases(out: &mut dyn Write) -> usize {
    let mut n = 0;
    for &bps in &BPS {
        for (ci, &bpc) in BPC.iter().enumerate() {
            for &fat in &FAT {
                for &fats in &FATS {
                    let widths: Vec<u64> = match fat {
                        Some(f) => vec![u64::from(f)],
                        None => vec![32, 16, 12],
                    };
                    let spcs = spc_values(bps, bpc);
                    // the root-entry sweep is done for a subset of the cluster sizes
                    let root_sweep = matches!(ci, 0 | 1 | 4 | 8);
                    let roots: &[u16] = if root_sweep { &ROOTS } else { &[512] };
                    for &root in roots {
                        let mut totals: Vec<u32> = Vec::new();
                        if root == 512 {
                            generic_totals(&mut totals);
                            if bpc.is_none() {
                                heuristic_totals(bps, &mut totals);
                            }
                        } else {
                            totals.extend_from_slice(&[20000, 300_000]);
                        }
                        for &spc in &spcs {
                            // spc 0 (F11) and spc > 255 have no layout; their boundaries are the generic ones
                            if spc == 0 || spc > 255 {
                                for &w in &widths {
                                    let reserved: u64 = if w == 32 { 8 } else { 1 };
                                    around(reserved + rds_of(root, bps, w) + 8, 2, &mut totals);
                                }
                                continue;
                            }
                            for &w in &widths {
                                if root == 512 {
                                    layout_boundaries(bps, spc, w, fats, root, &mut totals);
                                } else if w != 32 {
                                    // the root count moves the FAT12/16 boundaries
                                    let rds = rds_of(root, bps, w);
                                    around(1 + rds + 8, 2, &mut totals);
                                    if let Some(t) = first_total(|t| {
                                        layout(t, u64::from(bps), spc, w, u64::from(fats), rds).1 >= 4085
                                    }) {
                                        around(t, 2, &mut totals);
                                    }
                                }
                            }
                        }
                        totals.sort_unstable();
                        totals.dedup();
                        for &total in &totals {
                            Case::new(bps, total, bpc, fat, root, fats).emit(out);
                            n += 1;
                        }
                    }
                }
            }
        }
    }
    // the two largest sector sizes the builder accepts, and cluster sizes up to 2^31: a thin slice
    for &bps in &[16384u16, 32768] {
        for &bpc in &[None, Some(512), Some(16384), Some(32768), Some(65536), Some(1 << 22), Some(1 << 31)] {
            for &fat in &FAT {
                let mut totals = Vec::new();
                generic_totals(&mut totals);
                if bpc.is_none() {
                    heuristic_totals(bps, &mut totals);
                }
                totals.sort_unstable();
                totals.dedup();
                for &total in &totals {
                    Case::new(bps, total, bpc, fat, 512, 2).emit(out);
                    n += 1;
                }
            }
        }
    }
    for &bpc in &[Some(1u32 << 23), Some(1 << 31)] {
        for &bps in &BPS {
            for &total in &[0u32, 17, 42, 100_000, u32::MAX] {
                Case::new(bps, total, bpc, None, 512, 2).emit(out);
                n += 1;
            }
        }
    }
    n
}

fn random_total(rng: &mut SplitMix64, bps: u16) -> u32 {
    match rng.below(10) {
        // log-uniform
        0..=4 => {
            let bits = rng.range(1, 32);
            (rng.next_u64() & ((1u64 << bits) - 1)) as u32
        }
        // near a heuristic threshold
        5..=6 => {
            let mut v = Vec::new();
            heuristic_totals(bps, &mut v);
            let base = *rng.pick(&v);
            base.wrapping_add(rng.range(0, 64) as u32).wrapping_sub(32)
        }
        // small volumes
        7 => rng.range(0, 70_000) as u32,
        // around a cluster-count limit for a random geometry
        8 => {
            let spc = 1u64 << rng.below(8);
            let bits = *rng.pick(&[12u64, 16, 32]);
            let limit = *rng.pick(&[4085i128, 65525, 0x0FFF_FFF5]);
            let fats = rng.range(1, 2);
            let rds = rds_of(*rng.pick(&ROOTS), bps, bits);
            match first_total(|t| layout(t, u64::from(bps), spc, bits, fats, rds).1 >= limit) {
                Some(t) => (t as u32).wrapping_add(rng.range(0, 16) as u32).wrapping_sub(8),
                None => rng.next_u32(),
            }
        }
        _ => rng.next_u32(),
    }
}

fn random_case(rng: &mut SplitMix64) -> Case {
    let bps = if rng.chance(1, 12) { *rng.pick(&BPS_ALL) } else { *rng.pick(&BPS) };
    let bpc = match rng.below(10) {
        0..=3 => None,
        4..=8 => Some(1u32 << rng.range(9, 17)),
        _ => Some(1u32 << rng.range(9, 31)),
    };
    let fat = *rng.pick(&FAT);
    let fats = *rng.pick(&FATS);
    let root = if rng.chance(1, 2) { *rng.pick(&ROOTS) } else if rng.chance(1, 2) { (rng.below(64) * 16) as u16 } else { rng.next_u32() as u16 };
    let total = random_total(rng, bps);
    let mut c = Case::new(bps, total, bpc, fat, root, fats);
    if rng.chance(1, 2) {
        c.media = rng.next_u32() as u8;
        c.spt = rng.next_u32() as u16;
        c.heads = rng.next_u32() as u16;
        c.volid = rng.next_u32();
        if rng.chance(1, 2) {
            c.drive = Some(rng.next_u32() as u8);
        }
        if rng.chance(1, 2) {
            let mut l = [0u8; 11];
            for b in l.iter_mut() {
                *b = if rng.chance(3, 4) { rng.range(0x20, 0x7E) as u8 } else { rng.next_u32() as u8 };
            }
            c.label = Some(l);
        }
    }
    c
}

/// default options, all totals in [start, end): (number of failures incl. panics, first failing total)
fn sweep_block(start: u64, end: u64) -> (u64, Option<u64>) {
    let opts = FormatVolumeOptions::new();
    let mut nfail = 0;
    let mut first = None;
    for t in start..end {
        let ok = matches!(catch(|| fatfs::verif::format_boot_sector_bytes(&opts, t as u32)), Some(Ok(_)));
        if !ok {
            nfail += 1;
            if first.is_none() {
                first = Some(t);
            }
        }
    }
    (nfail, first)
}

/// the full 2^32 sweep (or blocks `[first_block, first_block + n_blocks)` of 2^24 totals each)
pub fn run_sweep(first_block: u64, n_blocks: u64, out: &mut dyn Write) {
    const BLOCK: u64 = 1 << 24;
    let blocks: Vec<u64> = (first_block..(first_block + n_blocks).min(256)).collect();
    let nthreads = std::thread::available_parallelism().map(|n| n.get()).unwrap_or(4).min(blocks.len().max(1));
    let mut results: Vec<Option<(u64, Option<u64>)>> = vec![None; blocks.len()];
    std::thread::scope(|s| {
        let handles: Vec<_> = (0..nthreads)
            .map(|tid| {
                let blocks = &blocks;
                s.spawn(move || {
                    let mut r = Vec::new();
                    let mut i = tid;
                    while i < blocks.len() {
                        r.push((i, sweep_block(blocks[i] * BLOCK, (blocks[i] + 1) * BLOCK)));
                        i += nthreads;
                    }
                    r
                })
            })
            .collect();
        for h in handles {
            for (i, r) in h.join().unwrap() {
                results[i] = Some(r);
            }
        }
    });
    for (i, b) in blocks.iter().enumerate() {
        let (nfail, first) = results[i].unwrap();
        writeln!(out, "P format.sweepblock {} {} => {} {}", b * BLOCK, (b + 1) * BLOCK, nfail, opt(first)).unwrap();
    }
}

pub fn run(tier: Tier, seed: u64, out: &mut dyn Write) {
    // optional mode, selected by the tier argument (main.rs maps an unknown tier word to Quick)
    let args: Vec<String> = std::env::args().collect();
    if args.get(3).map(String::as_str) == Some("format-sweep") {
        let first = args.get(5).and_then(|s| s.parse().ok()).unwrap_or(0);
        let n = args.get(6).and_then(|s| s.parse().ok()).unwrap_or(256);
        run_sweep(first, n, out);
        return;
    }
    let mut rng = SplitMix64::new(seed ^ 0xF0_06);
    let n = boundary_cases(out);
    // a small exhaustive prefix of the default-options sweep (the 42-sector cliff) in every run
    run_sweep_prefix(out);
    let n_random = tier.pick(100_000usize, 1_000_000usize.saturating_sub(n));
    for _ in 0..n_random {
        random_case(&mut rng).emit(out);
    }
}

/// totals 0..4096 with default options, one `format.bs` line each, and the first 2^16 as one sweep line
fn run_sweep_prefix(out: &mut dyn Write) {
    for total in 0..4096u32 {
        Case::new(512, total, None, None, 512, 2).emit(out);
    }
    let (nfail, first) = sweep_block(0, 1 << 16);
    writeln!(out, "P format.sweepblock 0 65536 => {} {}", nfail, opt(first)).unwrap();
}
