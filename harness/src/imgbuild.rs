//! Independent, specification-driven FAT image builder (properties C08, C10, C20).
//!
//! Nothing in here calls the library under test: boot sector, FS-info, allocation tables, directory slots, long-name
//! runs and checksums are produced from the FAT specification. A built volume is a list of `(offset, bytes)` writes
//! over an all-zero device plus the ground truth (`G` lines) of what a correct reader must see.
//!
//! Ground-truth lines (passed through by the executor):
//!
//! ```text
//! G geo bits=<12|16|32> bps=<n> spc=<n> reserved=<n> fats=<n> spf=<n> root_entries=<n> total_sectors=<n>
//!       clusters=<n> mirror=<0|1> active=<n> root_cluster=<n> free=<n> fsinfo_free=<n|none> fsinfo_next=<n|none>
//!       label=<hex11|none> status=<n> fat1=<raw value of FAT entry 1> extsig=<n> volid=<n> bpblabel=<hex11>
//!       (label = the volume-label SLOT of the root directory; extsig/volid/bpblabel = the raw boot-sector fields: with
//!       extsig != 41 (0x29) a reader must ignore volid, bpblabel and the type string)
//! G dir <path-hex|-> <n>                       directory (path of display names from the root, `-` = root) with n
//!                                              live entries in slot order (`.`/`..` included, volume label not)
//! G ent <dirpath-hex|-> <name-hex|-> <short11-hex> <attrs> <size> <first_cluster> <crtTenth> <crtTime> <crtDate>
//!       <accDate> <wrtTime> <wrtDate> <content-fnv64 hex16> <ntres>
//!                                              name = long name (UTF-8) or `-` if the entry has only a short name;
//!                                              raw on-disk field values, decimal; fnv64 of the content (directories:
//!                                              of the empty string)
//! G chain <first_cluster> <c1,c2,…>            cluster chain of an object (also `G chain root …` on FAT32)
//! ```
use std::collections::{BTreeMap, BTreeSet};

use crate::rng::SplitMix64;
use crate::tools::fnv64;
use crate::util::hex;

// ---------------------------------------------------------------------------------------------------------------
// sparse byte store

#[derive(Default)]
pub struct Store {
    pages: BTreeMap<u64, Box<[u8; 512]>>,
}

impl Store {
    pub fn put(&mut self, mut off: u64, data: &[u8]) {
        let mut done = 0;
        while done < data.len() {
            let page = off / 512;
            let at = (off % 512) as usize;
            let n = (512 - at).min(data.len() - done);
            let p = self.pages.entry(page).or_insert_with(|| Box::new([0u8; 512]));
            p[at..at + n].copy_from_slice(&data[done..done + n]);
            done += n;
            off += n as u64;
        }
    }

    pub fn get(&self, off: u64, buf: &mut [u8]) {
        for (i, b) in buf.iter_mut().enumerate() {
            let o = off + i as u64;
            *b = self.pages.get(&(o / 512)).map_or(0, |p| p[(o % 512) as usize]);
        }
    }

    /// Non-zero content as writes of at most 4096 bytes, ascending offsets.
    pub fn writes(&self) -> Vec<(u64, Vec<u8>)> {
        let mut out: Vec<(u64, Vec<u8>)> = Vec::new();
        for (page, data) in &self.pages {
            if data.iter().all(|b| *b == 0) {
                continue;
            }
            let off = page * 512;
            if let Some((o, v)) = out.last_mut() {
                if *o + v.len() as u64 == off && v.len() < 4096 {
                    v.extend_from_slice(&data[..]);
                    continue;
                }
            }
            out.push((off, data.to_vec()));
        }
        out
    }
}

// ---------------------------------------------------------------------------------------------------------------
// geometry

#[derive(Clone, Debug)]
pub struct Geo {
    pub bits: u8,
    pub bps: u32,
    pub spc: u32,
    pub reserved: u32,
    pub fats: u32,
    pub spf: u32,
    pub root_entries: u32,
    pub total_sectors: u32,
    pub clusters: u32,
    /// FAT32 only: mirroring on/off and the active copy
    pub mirror: bool,
    pub active: u32,
    /// FAT32 only: bits of BPB_ExtFlags that carry no meaning and must be ignored: the active-copy nibble while
    /// mirroring is ON, and the reserved bits 4-6 / 8-15
    pub flag_noise: u16,
    /// extended boot signature (0x29 normally; with anything else the id / label / type fields are not valid)
    pub ext_sig: u8,
    pub root_cluster: u32,
    pub media: u8,
    pub volume_id: u32,
    pub bpb_label: [u8; 11],
    /// BPB status byte (reserved_1): bit 0 dirty, bit 1 io error
    pub status: u8,
    pub dev_size: u64,
}

impl Geo {
    pub fn cs(&self) -> u32 {
        self.bps * self.spc
    }
    pub fn root_secs(&self) -> u32 {
        (self.root_entries * 32 + self.bps - 1) / self.bps
    }
    pub fn fat_off(&self, copy: u32) -> u64 {
        (self.reserved as u64 + copy as u64 * self.spf as u64) * self.bps as u64
    }
    pub fn root_off(&self) -> u64 {
        (self.reserved as u64 + self.fats as u64 * self.spf as u64) * self.bps as u64
    }
    pub fn data_off(&self) -> u64 {
        self.root_off() + self.root_secs() as u64 * self.bps as u64
    }
    pub fn cl_off(&self, c: u32) -> u64 {
        self.data_off() + (c as u64 - 2) * self.cs() as u64
    }
    pub fn eoc_min(&self) -> u32 {
        match self.bits {
            12 => 0xFF8,
            16 => 0xFFF8,
            _ => 0x0FFF_FFF8,
        }
    }

    /// Lay a volume out from its free parameters. `spf_extra`: spare sectors per FAT; `tail`: unused sectors at the end.
    #[allow(clippy::too_many_arguments)]
    pub fn layout(
        bits: u8,
        bps: u32,
        spc: u32,
        reserved: u32,
        fats: u32,
        root_entries: u32,
        clusters: u32,
        spf_extra: u32,
        tail: u32,
    ) -> Geo {
        let fat_bytes = match bits {
            12 => ((clusters as u64 + 2) * 3 + 1) / 2,
            16 => (clusters as u64 + 2) * 2,
            _ => (clusters as u64 + 2) * 4,
        };
        let spf = ((fat_bytes + bps as u64 - 1) / bps as u64) as u32 + spf_extra;
        let root_entries = if bits == 32 { 0 } else { root_entries };
        let root_secs = (root_entries * 32 + bps - 1) / bps;
        let total = reserved as u64 + fats as u64 * spf as u64 + root_secs as u64 + clusters as u64 * spc as u64 + tail as u64;
        assert!(total <= u32::MAX as u64);
        Geo {
            bits,
            bps,
            spc,
            reserved,
            fats,
            spf,
            root_entries,
            total_sectors: total as u32,
            clusters,
            mirror: true,
            active: 0,
            flag_noise: 0,
            ext_sig: 0x29,
            root_cluster: if bits == 32 { 2 } else { 0 },
            media: 0xF8,
            volume_id: 0x1BAD_B002,
            bpb_label: *b"NO NAME    ",
            status: 0,
            dev_size: total * bps as u64,
        }
    }

    /// FAT32 volume filling exactly `total` sectors (cluster count derived).
    pub fn layout_total(bps: u32, spc: u32, reserved: u32, fats: u32, total: u32) -> Geo {
        let c0 = (total as u64 - reserved as u64) / spc as u64;
        let spf = (((c0 + 2) * 4 + bps as u64 - 1) / bps as u64) as u32;
        let data = total as u64 - reserved as u64 - fats as u64 * spf as u64;
        let clusters = (data / spc as u64) as u32;
        let mut g = Geo::layout(32, bps, spc, reserved, fats, 0, clusters, 0, 0);
        g.spf = spf;
        g.total_sectors = total;
        g.dev_size = total as u64 * bps as u64;
        g
    }

    pub fn boot_sector(&self) -> [u8; 512] {
        let mut b = [0u8; 512];
        b[0] = 0xEB;
        b[1] = if self.bits == 32 { 0x58 } else { 0x3C };
        b[2] = 0x90;
        b[3..11].copy_from_slice(b"FOREIGN ");
        b[11..13].copy_from_slice(&(self.bps as u16).to_le_bytes());
        b[13] = self.spc as u8;
        b[14..16].copy_from_slice(&(self.reserved as u16).to_le_bytes());
        b[16] = self.fats as u8;
        b[17..19].copy_from_slice(&(self.root_entries as u16).to_le_bytes());
        let small = self.bits != 32 && self.total_sectors < 0x10000;
        b[19..21].copy_from_slice(&(if small { self.total_sectors as u16 } else { 0 }).to_le_bytes());
        b[21] = self.media;
        b[22..24].copy_from_slice(&(if self.bits == 32 { 0 } else { self.spf as u16 }).to_le_bytes());
        b[24..26].copy_from_slice(&63u16.to_le_bytes());
        b[26..28].copy_from_slice(&255u16.to_le_bytes());
        b[28..32].copy_from_slice(&0u32.to_le_bytes());
        b[32..36].copy_from_slice(&(if small { 0 } else { self.total_sectors }).to_le_bytes());
        let mut at = 36;
        if self.bits == 32 {
            b[36..40].copy_from_slice(&self.spf.to_le_bytes());
            let flags: u16 = (if self.mirror { 0 } else { 0x80 | self.active as u16 }) | self.flag_noise;
            b[40..42].copy_from_slice(&flags.to_le_bytes());
            b[42..44].copy_from_slice(&0u16.to_le_bytes());
            b[44..48].copy_from_slice(&self.root_cluster.to_le_bytes());
            b[48..50].copy_from_slice(&1u16.to_le_bytes());
            b[50..52].copy_from_slice(&6u16.to_le_bytes());
            at = 64;
        }
        b[at] = if self.bits == 12 { 0 } else { 0x80 };
        b[at + 1] = self.status;
        b[at + 2] = self.ext_sig;
        b[at + 3..at + 7].copy_from_slice(&self.volume_id.to_le_bytes());
        b[at + 7..at + 18].copy_from_slice(&self.bpb_label);
        let ty: &[u8; 8] = match self.bits {
            12 => b"FAT12   ",
            16 => b"FAT16   ",
            _ => b"FAT32   ",
        };
        b[at + 18..at + 26].copy_from_slice(ty);
        b[510] = 0x55;
        b[511] = 0xAA;
        b
    }

    pub fn fsinfo(free: Option<u32>, next: Option<u32>) -> [u8; 512] {
        let mut b = [0u8; 512];
        b[0..4].copy_from_slice(&0x4161_5252u32.to_le_bytes());
        b[484..488].copy_from_slice(&0x6141_7272u32.to_le_bytes());
        b[488..492].copy_from_slice(&free.unwrap_or(0xFFFF_FFFF).to_le_bytes());
        b[492..496].copy_from_slice(&next.unwrap_or(0xFFFF_FFFF).to_le_bytes());
        b[508..512].copy_from_slice(&0xAA55_0000u32.to_le_bytes());
        b
    }

    /// Boot sector, backup and FS-info into the store.
    pub fn put_reserved(&self, st: &mut Store, free: Option<u32>, next: Option<u32>) {
        let bs = self.boot_sector();
        st.put(0, &bs);
        if self.bits == 32 {
            st.put(6 * self.bps as u64, &bs);
            st.put(self.bps as u64, &Self::fsinfo(free, next));
        }
    }

    /// Write raw FAT entries (sparse) into copy `copy`.
    pub fn put_fat(&self, st: &mut Store, copy: u32, entries: &BTreeMap<u32, u32>) {
        let base = self.fat_off(copy);
        for (c, v) in entries {
            match self.bits {
                12 => {
                    let o = base + (*c as u64 * 3) / 2;
                    let mut two = [0u8; 2];
                    st.get(o, &mut two);
                    let mut w = u16::from_le_bytes(two);
                    if c % 2 == 0 {
                        w = (w & 0xF000) | (*v as u16 & 0x0FFF);
                    } else {
                        w = (w & 0x000F) | ((*v as u16 & 0x0FFF) << 4);
                    }
                    st.put(o, &w.to_le_bytes());
                }
                16 => st.put(base + *c as u64 * 2, &(*v as u16).to_le_bytes()),
                _ => st.put(base + *c as u64 * 4, &v.to_le_bytes()),
            }
        }
    }
}

// ---------------------------------------------------------------------------------------------------------------
// directory slots

pub fn lfn_checksum(short: &[u8; 11]) -> u8 {
    let mut s: u8 = 0;
    for b in short {
        s = (s >> 1).wrapping_add(s << 7).wrapping_add(*b);
    }
    s
}

/// The long-name slots of `units` in on-disk order (highest ordinal first).
pub fn lfn_slots(units: &[u16], checksum: u8) -> Vec<[u8; 32]> {
    let n = (units.len() + 12) / 13;
    let mut out = Vec::new();
    for ord in (1..=n).rev() {
        let mut part = [0xFFFFu16; 13];
        for i in 0..13 {
            let k = (ord - 1) * 13 + i;
            if k < units.len() {
                part[i] = units[k];
            } else if k == units.len() {
                part[i] = 0;
            }
        }
        let mut s = [0u8; 32];
        s[0] = ord as u8 | if ord == n { 0x40 } else { 0 };
        for i in 0..5 {
            s[1 + 2 * i..3 + 2 * i].copy_from_slice(&part[i].to_le_bytes());
        }
        s[11] = 0x0F;
        s[12] = 0;
        s[13] = checksum;
        for i in 0..6 {
            s[14 + 2 * i..16 + 2 * i].copy_from_slice(&part[5 + i].to_le_bytes());
        }
        for i in 0..2 {
            s[28 + 2 * i..30 + 2 * i].copy_from_slice(&part[11 + i].to_le_bytes());
        }
        out.push(s);
    }
    out
}

#[derive(Clone, Debug, Default)]
pub struct Stamps {
    pub crt_tenth: u8,
    pub crt_time: u16,
    pub crt_date: u16,
    pub acc_date: u16,
    pub wrt_time: u16,
    pub wrt_date: u16,
}

pub fn sfn_slot(short: &[u8; 11], attrs: u8, nt: u8, t: &Stamps, first_cluster: u32, size: u32, fat32: bool) -> [u8; 32] {
    let mut s = [0u8; 32];
    s[0..11].copy_from_slice(short);
    s[11] = attrs;
    s[12] = nt;
    s[13] = t.crt_tenth;
    s[14..16].copy_from_slice(&t.crt_time.to_le_bytes());
    s[16..18].copy_from_slice(&t.crt_date.to_le_bytes());
    s[18..20].copy_from_slice(&t.acc_date.to_le_bytes());
    let hi = if fat32 { (first_cluster >> 16) as u16 } else { 0 };
    s[20..22].copy_from_slice(&hi.to_le_bytes());
    s[22..24].copy_from_slice(&t.wrt_time.to_le_bytes());
    s[24..26].copy_from_slice(&t.wrt_date.to_le_bytes());
    s[26..28].copy_from_slice(&(first_cluster as u16).to_le_bytes());
    s[28..32].copy_from_slice(&size.to_le_bytes());
    s
}

// ---------------------------------------------------------------------------------------------------------------
// tree specification

#[derive(Clone, Debug)]
pub enum Junk {
    /// n deleted short-name slots
    Deleted(u32),
    /// a deleted run: n long-name slots + 1 short slot, all marked 0xE5
    DeletedRun(u32),
    /// n long-name slots of a complete run whose checksum does not match what follows (only before a short-only entry)
    OrphanWrongSum(u32),
    /// the first slot (ordinal 0x42) of a two-slot run without its second slot (only before a short-only entry)
    OrphanPartial,
    /// n long-name slots followed by one deleted short slot
    OrphanThenDeleted(u32),
}

#[derive(Clone, Debug)]
pub struct Node {
    pub long: Option<String>,
    pub short: [u8; 11],
    pub nt: u8,
    pub attrs: u8,
    pub t: Stamps,
    pub is_dir: bool,
    pub content: Vec<u8>,
    pub kids: Vec<Node>,
    pub junk: Vec<Junk>,
    /// name by which the library can be asked for this entry (None: not addressable through the lossy OEM converter)
    pub open_name: Option<String>,
    /// chain to be threaded through the topmost clusters of the volume (volume kind `Max`)
    pub top: bool,
    /// the file that takes every cluster nobody else wants (its data is all zero and never written)
    pub filler: bool,
    /// zero bytes of content that are not materialised (filler only)
    pub zero_len: u64,
    // filled by the layout
    pub first_cluster: u32,
    pub chain: Vec<u32>,
}

impl Node {
    fn slots(&self) -> u32 {
        let mut n = 1;
        if let Some(l) = &self.long {
            n += ((units_of(l).len() + 12) / 13) as u32;
        }
        for j in &self.junk {
            n += match j {
                Junk::Deleted(k) => *k,
                Junk::DeletedRun(k) => *k + 1,
                Junk::OrphanWrongSum(k) => *k,
                Junk::OrphanPartial => 1,
                Junk::OrphanThenDeleted(k) => *k + 1,
            };
        }
        n
    }
}

/// Display name of a short-only entry: base/ext lower-cased per the NT flags (bit 3 base, bit 4 extension).
pub fn display_short(short: &[u8; 11], nt: u8) -> Option<String> {
    if short.iter().any(|b| *b >= 0x80) || short[0] == 0x05 {
        return None;
    }
    let mut base: Vec<u8> = short[..8].to_vec();
    while base.last() == Some(&b' ') {
        base.pop();
    }
    let mut ext: Vec<u8> = short[8..].to_vec();
    while ext.last() == Some(&b' ') {
        ext.pop();
    }
    if nt & 0x08 != 0 {
        base.make_ascii_lowercase();
    }
    if nt & 0x10 != 0 {
        ext.make_ascii_lowercase();
    }
    let mut s = String::from_utf8(base).ok()?;
    if !ext.is_empty() {
        s.push('.');
        s.push_str(&String::from_utf8(ext).ok()?);
    }
    Some(s)
}

pub struct Built {
    pub geo: Geo,
    pub writes: Vec<(u64, Vec<u8>)>,
    pub gtruth: Vec<String>,
    pub root: Node,
    pub free_clusters: u32,
    /// raw FS-info values as stored (FAT32)
    pub fs_free: Option<u32>,
    pub fs_next: Option<u32>,
    pub kind: VolKind,
    pub freedoms: BTreeMap<String, u64>,
}

struct Alloc {
    used: BTreeSet<u32>,
    clusters: u32,
    /// clusters kept for the `top` chains (never handed out by `take`)
    top_pool: Vec<u32>,
}

impl Alloc {
    /// A chain of `n` clusters that alternates between ordinary clusters and the top pool (links INTO the topmost
    /// cluster numbers, out of order).
    fn take_top(&mut self, rng: &mut SplitMix64, n: usize, fr: &mut BTreeMap<String, u64>) -> Vec<u32> {
        let low = self.take(rng, (n + 1) / 2, fr);
        let mut v = Vec::new();
        let mut li = low.into_iter();
        for i in 0..n {
            if i % 2 == 1 && !self.top_pool.is_empty() {
                let k = rng.below(self.top_pool.len() as u64) as usize;
                let c = self.top_pool.remove(k);
                self.used.insert(c);
                v.push(c);
                *fr.entry("chain.link_into_top_cluster".into()).or_default() += 1;
            } else if let Some(c) = li.next() {
                v.push(c);
            } else {
                let extra = self.take(rng, 1, fr);
                v.push(extra[0]);
            }
        }
        v
    }

    /// `n` distinct free clusters: scattered and out of order most of the time.
    fn take(&mut self, rng: &mut SplitMix64, n: usize, fr: &mut BTreeMap<String, u64>) -> Vec<u32> {
        let mut v = Vec::new();
        if n == 0 {
            return v;
        }
        let mode = rng.below(4);
        if mode == 0 {
            // contiguous ascending run if one is found quickly
            for _ in 0..50 {
                let start = 2 + rng.below(self.clusters as u64) as u32;
                if (start..start + n as u32)
                    .all(|c| c < self.clusters + 2 && !self.used.contains(&c) && !self.top_pool.contains(&c))
                {
                    v = (start..start + n as u32).collect();
                    break;
                }
            }
        }
        if v.is_empty() {
            let mut guard = 0;
            while v.len() < n && guard < 1_000_000 {
                guard += 1;
                let c = 2 + rng.below(self.clusters as u64) as u32;
                if !self.used.contains(&c) && !v.contains(&c) && !self.top_pool.contains(&c) {
                    v.push(c);
                }
            }
            assert!(v.len() == n, "volume too small for the tree");
            if mode == 1 {
                v.sort_unstable();
                *fr.entry("chain.ascending_fragmented".into()).or_default() += 1;
            } else if n > 1 {
                *fr.entry("chain.out_of_order".into()).or_default() += 1;
            }
        } else if n > 1 {
            *fr.entry("chain.contiguous".into()).or_default() += 1;
        }
        for c in &v {
            self.used.insert(*c);
        }
        v
    }
}

fn put_chain(geo: &Geo, rng: &mut SplitMix64, fat: &mut BTreeMap<u32, u32>, chain: &[u32], fr: &mut BTreeMap<String, u64>) {
    for (i, c) in chain.iter().enumerate() {
        let mut v = if i + 1 < chain.len() {
            chain[i + 1]
        } else {
            let e = geo.eoc_min() + rng.below(8) as u32;
            *fr.entry(format!("eoc.{:x}", e & 0xF)).or_default() += 1;
            e
        };
        if geo.bits == 32 {
            let nib = rng.below(16) as u32;
            if nib != 0 {
                *fr.entry("fat32.top_nibble_nonzero".into()).or_default() += 1;
            }
            v |= nib << 28;
        }
        fat.insert(*c, v);
    }
}

fn dir_path_hex(path: &str) -> String {
    hex(path.as_bytes())
}

/// Serialise the slots of one directory; appends the ground truth of its entries.
#[allow(clippy::too_many_arguments)]
fn dir_bytes(
    geo: &Geo,
    rng: &mut SplitMix64,
    dir: &Node,
    is_root: bool,
    parent_cluster: u32,
    label: Option<(usize, [u8; 11])>,
    path: &str,
    gt: &mut Vec<String>,
) -> Vec<u8> {
    let fat32 = geo.bits == 32;
    let mut out: Vec<u8> = Vec::new();
    let mut ents: Vec<String> = Vec::new();
    let mut g_ent = |name: Option<&str>, short: &[u8; 11], attrs: u8, nt: u8, t: &Stamps, fc: u32, size: u32, hash: u64| {
        ents.push(format!(
            "G ent {} {} {} {} {} {} {} {} {} {} {} {} {:016x} {}",
            dir_path_hex(path),
            name.map_or("-".to_string(), |n| hex(n.as_bytes())),
            hex(short),
            attrs,
            size,
            fc,
            t.crt_tenth,
            t.crt_time,
            t.crt_date,
            t.acc_date,
            t.wrt_time,
            t.wrt_date,
            hash,
            nt
        ));
    };
    if !is_root {
        let mut dot = [b' '; 11];
        dot[0] = b'.';
        out.extend_from_slice(&sfn_slot(&dot, 0x10, 0, &dir.t, dir.first_cluster, 0, fat32));
        g_ent(None, &dot, 0x10, 0, &dir.t, dir.first_cluster, 0, fnv64(&[]));
        dot[1] = b'.';
        out.extend_from_slice(&sfn_slot(&dot, 0x10, 0, &dir.t, parent_cluster, 0, fat32));
        g_ent(None, &dot, 0x10, 0, &dir.t, parent_cluster, 0, fnv64(&[]));
    }
    for (i, k) in dir.kids.iter().enumerate() {
        if let Some((pos, l)) = label {
            if pos == i {
                out.extend_from_slice(&sfn_slot(&l, 0x08, 0, &k.t, 0, 0, fat32));
            }
        }
        for j in &k.junk {
            match j {
                Junk::Deleted(n) => {
                    for _ in 0..*n {
                        let mut nm = *b"DELETED TMP";
                        nm[0] = 0xE5;
                        out.extend_from_slice(&sfn_slot(&nm, 0x20, 0, &k.t, 0, rng.below(5000) as u32, fat32));
                    }
                }
                Junk::DeletedRun(n) | Junk::OrphanThenDeleted(n) => {
                    let units: Vec<u16> = (0..(*n as usize * 13 - 3)).map(|i| b'a' as u16 + (i % 26) as u16).collect();
                    let mut nm = *b"GONEFI~1TXT";
                    let sum = lfn_checksum(&nm);
                    let deleted_run = matches!(j, Junk::DeletedRun(_));
                    for mut s in lfn_slots(&units, sum) {
                        if deleted_run {
                            s[0] = 0xE5;
                        }
                        out.extend_from_slice(&s);
                    }
                    nm[0] = 0xE5;
                    out.extend_from_slice(&sfn_slot(&nm, 0x20, 0, &k.t, 0, 0, fat32));
                }
                Junk::OrphanWrongSum(n) => {
                    let units: Vec<u16> = (0..(*n as usize * 13 - 5)).map(|i| b'o' as u16 + (i % 5) as u16).collect();
                    let sum = lfn_checksum(&k.short).wrapping_add(1 + rng.below(254) as u8);
                    for s in lfn_slots(&units, sum) {
                        out.extend_from_slice(&s);
                    }
                }
                Junk::OrphanPartial => {
                    let units: Vec<u16> = (0..20).map(|i| b'p' as u16 + (i % 3) as u16).collect();
                    let s = lfn_slots(&units, lfn_checksum(&k.short));
                    out.extend_from_slice(&s[0]);
                }
            }
        }
        if let Some(l) = &k.long {
            let units: Vec<u16> = units_of(l);
            for s in lfn_slots(&units, lfn_checksum(&k.short)) {
                out.extend_from_slice(&s);
            }
        }
        let size = if k.is_dir {
            0
        } else if k.filler {
            k.zero_len as u32
        } else {
            k.content.len() as u32
        };
        let hash = if k.filler { fnv_zeros(k.zero_len) } else { fnv64(&k.content) };
        out.extend_from_slice(&sfn_slot(&k.short, k.attrs, k.nt, &k.t, k.first_cluster, size, fat32));
        let shown = k.long.as_deref().map(display_of);
        g_ent(shown.as_deref(), &k.short, k.attrs, k.nt, &k.t, k.first_cluster, size, hash);
    }
    if let Some((pos, l)) = label {
        if pos >= dir.kids.len() {
            out.extend_from_slice(&sfn_slot(&l, 0x08, 0, &dir.t, 0, 0, fat32));
        }
    }
    gt.push(format!("G dir {} {}", dir_path_hex(path), ents.len()));
    gt.extend(ents);
    out
}

/// In a node's long name the private-use character U+E000 stands for an UNPAIRED SURROGATE (unit 0xD800) on the disk;
/// a reader that decodes lossily shows U+FFFD there.
pub const LONE: char = '\u{E000}';

/// Names with an unpaired surrogate are generated only when the environment variable HARNESS_LONE_SURROGATE is set:
/// the library lists such a name lossily (U+FFFD) while the current Lean model drops the long name (a MODEL
/// difference, see /verif/COVERAGE.md), so the default scenario stays silent.
pub fn lone_enabled() -> bool {
    std::env::var_os("HARNESS_LONE_SURROGATE").is_some()
}

pub fn units_of(l: &str) -> Vec<u16> {
    l.encode_utf16().map(|u| if u == 0xE000 { 0xD800 } else { u }).collect()
}

pub fn display_of(l: &str) -> String {
    l.replace(LONE, "\u{FFFD}")
}

/// FNV-1a-64 of `n` zero bytes.
pub fn fnv_zeros(n: u64) -> u64 {
    let mut h = crate::tools::FNV_OFFSET;
    for _ in 0..n {
        h = h.wrapping_mul(crate::tools::FNV_PRIME);
    }
    h
}

fn node_name(k: &Node) -> String {
    k.long.as_deref().map(display_of).or_else(|| display_short(&k.short, k.nt)).unwrap_or_else(|| "?".to_string())
}

/// Allocate clusters for everything below `dir` (chains recorded in the nodes and in `fat`).
fn allocate(
    geo: &Geo,
    rng: &mut SplitMix64,
    dir: &mut Node,
    al: &mut Alloc,
    fat: &mut BTreeMap<u32, u32>,
    fr: &mut BTreeMap<String, u64>,
) {
    let cs = geo.cs() as usize;
    for k in dir.kids.iter_mut() {
        let need = if k.is_dir {
            let slots: u32 = 2 + k.kids.iter().map(Node::slots).sum::<u32>();
            // sometimes a spare (all-zero) cluster at the end
            ((slots as usize * 32 + cs - 1) / cs).max(1) + usize::from(rng.chance(1, 6))
        } else {
            (k.content.len() + cs - 1) / cs
        };
        if k.filler {
            continue;
        }
        k.chain = if k.top && need > 1 { al.take_top(rng, need, fr) } else { al.take(rng, need, fr) };
        k.first_cluster = k.chain.first().copied().unwrap_or(0);
        put_chain(geo, rng, fat, &k.chain, fr);
        if k.is_dir {
            allocate(geo, rng, k, al, fat, fr);
        }
    }
}

fn emit_tree(
    geo: &Geo,
    rng: &mut SplitMix64,
    st: &mut Store,
    dir: &Node,
    parent_cluster: u32,
    path: &str,
    gt: &mut Vec<String>,
) {
    let cs = geo.cs() as usize;
    for k in &dir.kids {
        if !k.chain.is_empty() {
            gt.push(format!(
                "G chain {} {}",
                k.first_cluster,
                k.chain.iter().map(|c| c.to_string()).collect::<Vec<_>>().join(",")
            ));
        }
        if k.is_dir {
            let sub = if path.is_empty() { node_name(k) } else { format!("{}/{}", path, node_name(k)) };
            // `..` of a child of the root is 0 on every FAT width
            let bytes = dir_bytes(geo, rng, k, false, parent_cluster, None, &sub, gt);
            for (i, c) in k.chain.iter().enumerate() {
                let lo = i * cs;
                if lo < bytes.len() {
                    st.put(geo.cl_off(*c), &bytes[lo..(lo + cs).min(bytes.len())]);
                }
            }
            emit_tree(geo, rng, st, k, k.first_cluster, &sub, gt);
        } else if !k.filler {
            for (i, c) in k.chain.iter().enumerate() {
                let lo = i * cs;
                st.put(geo.cl_off(*c), &k.content[lo..(lo + cs).min(k.content.len())]);
            }
        }
    }
}

// ---------------------------------------------------------------------------------------------------------------
// random volumes

fn stamps(rng: &mut SplitMix64) -> Stamps {
    let date = |rng: &mut SplitMix64| -> u16 {
        ((rng.range(0, 127) as u16) << 9) | ((rng.range(1, 12) as u16) << 5) | rng.range(1, 28) as u16
    };
    let time = |rng: &mut SplitMix64| -> u16 {
        ((rng.range(0, 23) as u16) << 11) | ((rng.range(0, 59) as u16) << 5) | rng.range(0, 29) as u16
    };
    Stamps {
        crt_tenth: rng.range(0, 199) as u8,
        crt_time: time(rng),
        crt_date: date(rng),
        acc_date: date(rng),
        wrt_time: time(rng),
        wrt_date: date(rng),
    }
}

pub fn pattern(rng: &mut SplitMix64, len: usize) -> Vec<u8> {
    let a = rng.next_u32();
    (0..len).map(|i| ((a as usize).wrapping_add(i.wrapping_mul(31)) % 251) as u8 + 1).collect()
}

const LONG_NAMES: [&str; 12] = [
    "Read Me First.txt",
    "abcdefghi.txt",                // 13 units
    "abcdefghijklmnopqrstuv.txt",   // 26 units
    "lower case name.dat",
    "MiXeD.CaSe.Name",
    "\u{dc}ml\u{e4}ut \u{3a9}.txt",
    "\u{65e5}\u{672c}\u{8a9e}.doc",
    "x",
    "name.with.many.dots.tar.gz",
    "UPPERCASE LONG NAME.BIN",
    "a+b=c;[d],e",
    "trailing.long.extension",
];

struct TreeGen<'a> {
    rng: &'a mut SplitMix64,
    fr: &'a mut BTreeMap<String, u64>,
    cs: usize,
    budget: usize,
    serial: u32,
    /// no deleted / orphaned slots between the entries
    no_junk: bool,
}

impl TreeGen<'_> {
    fn count(&mut self, k: &str) {
        *self.fr.entry(k.to_string()).or_default() += 1;
    }

    fn short_for_long(&mut self, long: &str, taken: &[[u8; 11]]) -> [u8; 11] {
        let mut base: Vec<u8> = Vec::new();
        let stem = long.rsplit_once('.').map_or(long, |x| x.0);
        let ext = long.rsplit_once('.').map_or("", |x| x.1);
        for c in stem.chars() {
            if c.is_ascii_alphanumeric() {
                base.push(c.to_ascii_uppercase() as u8);
            } else if !c.is_ascii() {
                base.push(b'_');
            }
            if base.len() == 6 {
                break;
            }
        }
        if base.is_empty() {
            base.push(b'X');
        }
        for n in 1..100u32 {
            let mut s = [b' '; 11];
            let tail = format!("~{}", n);
            let keep = base.len().min(8 - tail.len());
            s[..keep].copy_from_slice(&base[..keep]);
            s[keep..keep + tail.len()].copy_from_slice(tail.as_bytes());
            for (i, c) in ext.chars().filter(|c| c.is_ascii_alphanumeric()).take(3).enumerate() {
                s[8 + i] = c.to_ascii_uppercase() as u8;
            }
            if !taken.contains(&s) {
                return s;
            }
        }
        unreachable!()
    }

    fn short_only(&mut self, taken: &[[u8; 11]]) -> ([u8; 11], u8, bool) {
        loop {
            self.serial += 1;
            let mut s = [b' '; 11];
            let base = match self.rng.below(4) {
                0 => format!("F{}", self.serial),
                1 => format!("DATA{:04}", self.serial % 10000),
                2 => format!("A_{}", self.serial),
                _ => format!("N{}X", self.serial),
            };
            for (i, b) in base.bytes().take(8).enumerate() {
                s[i] = b;
            }
            let ext = *self.rng.pick(&["", "TXT", "B", "DA"]);
            for (i, b) in ext.bytes().enumerate() {
                s[8 + i] = b;
            }
            let mut oem = false;
            match self.rng.below(10) {
                0 => {
                    s[0] = 0x05;
                    oem = true;
                    self.count("sfn.lead_05");
                }
                1 => {
                    s[1] = 0x80 + self.rng.below(0x7F) as u8;
                    oem = true;
                    self.count("sfn.oem_high_byte");
                }
                _ => {}
            }
            let nt = *self.rng.pick(&[0u8, 0, 0x08, 0x10, 0x18]);
            if nt != 0 {
                self.count(&format!("sfn.ntres_{:02x}", nt));
            }
            if !taken.contains(&s) {
                return (s, nt, oem);
            }
        }
    }

    fn attrs(&mut self, is_dir: bool) -> u8 {
        let mut a = if is_dir { 0x10 } else { 0 };
        for (bit, name) in [(0x01u8, "attr.ro"), (0x02, "attr.hidden"), (0x04, "attr.system"), (0x20, "attr.archive")] {
            if self.rng.chance(1, 4) {
                a |= bit;
                self.count(name);
            }
        }
        a
    }

    fn junk(&mut self, sfn_only: bool) -> Vec<Junk> {
        let mut v = Vec::new();
        if !self.no_junk && self.rng.chance(1, 4) {
            let n = self.rng.range(1, 3) as u32;
            let j = match self.rng.below(if sfn_only { 5 } else { 3 }) {
                0 => {
                    self.count("junk.deleted_sfn");
                    Junk::Deleted(n)
                }
                1 => {
                    self.count("junk.deleted_run");
                    Junk::DeletedRun(n)
                }
                2 => {
                    self.count("junk.orphan_lfn_then_deleted");
                    Junk::OrphanThenDeleted(n)
                }
                3 => {
                    self.count("junk.orphan_lfn_wrong_checksum");
                    Junk::OrphanWrongSum(n)
                }
                _ => {
                    self.count("junk.orphan_lfn_partial");
                    Junk::OrphanPartial
                }
            };
            v.push(j);
        }
        v
    }

    fn file_size(&mut self) -> usize {
        let cs = self.cs;
        let s = match self.rng.below(7) {
            0 => 0,
            1 => 1,
            2 => cs - 1,
            3 => cs,
            4 => cs + 1,
            5 => 3 * cs + 7,
            _ => self.rng.range(2, 700) as usize,
        };
        let s = if s > self.budget { self.rng.range(0, 40) as usize } else { s };
        self.budget -= s.min(self.budget);
        let label = if s == 0 {
            "size.0"
        } else if s == 1 {
            "size.1"
        } else if s == cs - 1 {
            "size.cs-1"
        } else if s == cs {
            "size.cs"
        } else if s == cs + 1 {
            "size.cs+1"
        } else if s == 3 * cs + 7 {
            "size.3cs+7"
        } else {
            "size.other"
        };
        self.count(label);
        s
    }

    fn dir(&mut self, depth: u32, max_kids: u32) -> Vec<Node> {
        let mut kids: Vec<Node> = Vec::new();
        let n = self.rng.range(if depth == 0 { 2 } else { 0 }, max_kids as u64);
        let mut taken: Vec<[u8; 11]> = Vec::new();
        let mut taken_long: Vec<String> = Vec::new();
        for _ in 0..n {
            let is_dir = depth < 2 && self.rng.chance(if depth == 0 { 2 } else { 1 }, 5);
            let use_long = self.rng.chance(3, 5);
            let (long, short, nt, open_name) = if use_long {
                let mut l = match self.rng.below(14) {
                    0 => {
                        self.count("lfn.255_units");
                        let mut s = "L".repeat(251);
                        s.push_str(".txt");
                        s
                    }
                    1 => {
                        self.serial += 1;
                        format!("generated long name number {}.bin", self.serial)
                    }
                    2 if !is_dir && lone_enabled() && !taken_long.iter().any(|t| t.contains(LONE)) => {
                        // an unpaired surrogate inside the name (listed lossily, found by no spelling)
                        self.count("lfn.lone_surrogate");
                        format!("ab{}cd.txt", LONE)
                    }
                    _ => self.rng.pick(&LONG_NAMES).to_string(),
                };
                if taken_long.iter().any(|t| t.to_uppercase() == l.to_uppercase()) {
                    self.serial += 1;
                    l = format!("{} {}", self.serial, l);
                    if l.encode_utf16().count() > 255 {
                        l = format!("dup{}", self.serial);
                    }
                }
                let units = l.encode_utf16().count();
                self.count(match units {
                    13 => "lfn.13_units",
                    26 => "lfn.26_units",
                    255 => "lfn.255",
                    _ => "lfn.other",
                });
                if !l.is_ascii() {
                    self.count("lfn.non_ascii");
                }
                let s = self.short_for_long(&l, &taken);
                taken_long.push(l.clone());
                let addressable = if l.contains(LONE) { None } else { Some(l.clone()) };
                (Some(l.clone()), s, 0u8, addressable)
            } else {
                let (s, nt, oem) = self.short_only(&taken);
                self.count("sfn.only");
                let dn = if oem { None } else { display_short(&s, nt) };
                (None, s, nt, dn)
            };
            taken.push(short);
            let attrs = self.attrs(is_dir);
            let t = stamps(self.rng);
            let junk = self.junk(long.is_none());
            let (content, sub) = if is_dir {
                (Vec::new(), self.dir(depth + 1, 5))
            } else {
                let sz = self.file_size();
                (pattern(self.rng, sz), Vec::new())
            };
            if is_dir {
                self.count(&format!("dir.depth{}", depth + 1));
            }
            kids.push(Node {
                long,
                short,
                nt,
                attrs,
                t,
                is_dir,
                content,
                kids: sub,
                junk,
                open_name,
                top: false,
                filler: false,
                zero_len: 0,
                first_cluster: 0,
                chain: Vec::new(),
            });
        }
        kids
    }
}

fn count_slots(kids: &[Node]) -> u32 {
    kids.iter().map(Node::slots).sum()
}

fn count_clusters(kids: &[Node], cs: usize) -> usize {
    kids.iter()
        .map(|k| {
            if k.is_dir {
                ((2 + count_slots(&k.kids)) as usize * 32 + cs - 1) / cs + 1 + count_clusters(&k.kids, cs)
            } else {
                (k.content.len() + cs - 1) / cs
            }
        })
        .sum()
}

#[derive(Clone, Copy, Debug, PartialEq, Eq)]
pub enum VolKind {
    Normal,
    /// like `Normal`, but without deleted / orphaned slots (for scenarios that rename and remove freely afterwards)
    Plain,
    /// FAT12 with 4079..=4084 / FAT16 with 65519..=65524 clusters of 512 bytes, nearly full, with file chains and a
    /// directory chain threaded through the topmost clusters (numbers >= 0xFF0 / 0xFFF0 are ordinary links there)
    Max,
    /// FAT32 filled up: 0, 1 or 2 free clusters, the FS-info sector stores exactly that count
    Full,
}

/// A random valid volume of FAT width `bits`.
pub fn random_volume(rng: &mut SplitMix64, bits: u8) -> Built {
    random_volume_kind(rng, bits, VolKind::Normal)
}

fn plain_file(name: &str, content: Vec<u8>, t: Stamps) -> Node {
    let mut short = [b' '; 11];
    let (b, e) = name.split_once('.').unwrap_or((name, ""));
    short[..b.len()].copy_from_slice(b.as_bytes());
    short[8..8 + e.len()].copy_from_slice(e.as_bytes());
    Node {
        long: None,
        short,
        nt: 0,
        attrs: 0x20,
        t,
        is_dir: false,
        content,
        kids: Vec::new(),
        junk: Vec::new(),
        open_name: Some(name.to_string()),
        top: false,
        filler: false,
        zero_len: 0,
        first_cluster: 0,
        chain: Vec::new(),
    }
}

pub fn random_volume_kind(rng: &mut SplitMix64, bits: u8, kind: VolKind) -> Built {
    let mut fr: BTreeMap<String, u64> = BTreeMap::new();
    let special = !matches!(kind, VolKind::Normal | VolKind::Plain);
    let bps = if special { 512 } else { *rng.pick(&[512u32, 512, 1024, 2048, 4096]) };
    let spc = if special { 1 } else { *rng.pick(&[1u32, 1, 2, 4, 8, 16, 32, 64]) };
    if special {
        *fr.entry(format!("kind.{:?}{}", kind, bits)).or_default() += 1;
    }
    let cs = (bps * spc) as usize;
    let reserved = if bits == 32 { *rng.pick(&[9u32, 32, 32, 12]) } else { *rng.pick(&[1u32, 1, 8, 32]) };
    let fats = rng.range(1, 3) as u32;
    *fr.entry(format!("bits.{}", bits)).or_default() += 1;
    *fr.entry(format!("bps.{}", bps)).or_default() += 1;
    *fr.entry(format!("spc.{}", spc)).or_default() += 1;
    *fr.entry(format!("reserved.{}", reserved)).or_default() += 1;
    *fr.entry(format!("fats.{}", fats)).or_default() += 1;

    // the tree first (its size decides the minimum number of clusters and root entries)
    let kids = {
        let mut tg = TreeGen {
            rng: &mut *rng,
            fr: &mut fr,
            cs,
            budget: 48 * 1024,
            serial: 0,
            no_junk: kind == VolKind::Plain,
        };
        tg.dir(0, 7)
    };
    let mut kids = kids;
    if kind == VolKind::Max {
        // chains that run through the topmost clusters: two files and one directory
        let mut f1 = plain_file("TOPFILE1.BIN", pattern(rng, 4 * cs + 9), stamps(rng));
        f1.top = true;
        let mut f2 = plain_file("TOPFILE2.BIN", pattern(rng, 3 * cs), stamps(rng));
        f2.top = true;
        let mut d = plain_file("TOPDIR", Vec::new(), stamps(rng));
        d.is_dir = true;
        d.attrs = 0x10;
        d.top = true;
        for i in 0..rng.range(16, 24) {
            d.kids.push(plain_file(&format!("IN{:03}.DAT", i), pattern(rng, (i % 3) as usize * 7), stamps(rng)));
        }
        kids.push(f1);
        kids.push(d);
        kids.push(f2);
    }
    if special {
        let mut f = plain_file("FILLER.BIN", Vec::new(), stamps(rng));
        f.filler = true;
        f.open_name = None; // megabytes of zeros: listed, not read back
        let at = rng.below(kids.len() as u64 + 1) as usize;
        kids.insert(at, f);
    }
    let label: Option<[u8; 11]> = if rng.chance(2, 3) {
        Some(*rng.pick(&[*b"FOREIGN VOL", *b"LABEL      ", *b"MY DISK 01 "]))
    } else {
        None
    };
    let root_slots = count_slots(&kids) + u32::from(label.is_some());
    let need = count_clusters(&kids, cs) + (root_slots as usize * 32 + cs - 1) / cs + 2;
    let clusters = match (kind, bits) {
        (VolKind::Max, 12) => *rng.pick(&[4084u32, 4084, 4084, 4083, 4081, 4079]),
        (VolKind::Max, _) => *rng.pick(&[65_524u32, 65_524, 65_524, 65_523, 65_520, 65_519]),
        (VolKind::Full, _) => rng.range(65_525, 66_200) as u32,
        _ => 0,
    };
    let clusters = if clusters != 0 { clusters } else { match bits {
        12 => {
            let lo = (need as u32 + 12).max(20);
            match rng.below(6) {
                0 => 4084,
                1 => rng.range(lo as u64, 4084.max(lo as u64)) as u32,
                _ => rng.range(lo as u64, (lo + 300).min(4084) as u64) as u32,
            }
        }
        16 => match rng.below(5) {
            0 => 4085,
            1 => 65_524,
            _ => rng.range(4085, 9000) as u32,
        },
        _ => match rng.below(4) {
            0 => 65_525,
            _ => rng.range(65_525, 70_000) as u32,
        },
    } };
    match clusters {
        4084 | 4085 | 65_524 | 65_525 => *fr.entry(format!("clusters.boundary_{}", clusters)).or_default() += 1,
        _ => {}
    }
    let per_sec = bps / 32;
    let root_entries = if bits == 32 {
        0
    } else {
        let want = *rng.pick(&[16u32, 32, 64, 224, 512]);
        let min = (root_slots + 6 + per_sec - 1) / per_sec * per_sec;
        want.max(min)
    };
    let mut geo = Geo::layout(bits, bps, spc, reserved, fats, root_entries, clusters, rng.below(3) as u32, rng.below(spc as u64) as u32);
    geo.media = *rng.pick(&[0xF8u8, 0xF0, 0xF9]);
    geo.volume_id = rng.next_u32();
    if rng.chance(1, 2) {
        geo.bpb_label = *b"BPB LABEL  ";
    }
    if bits == 32 && fats > 1 && rng.chance(1, 2) {
        geo.mirror = false;
        geo.active = rng.below(fats as u64) as u32;
        *fr.entry(format!("fat32.mirror_off_active{}", geo.active)).or_default() += 1;
    } else if bits == 32 {
        *fr.entry("fat32.mirror_on".into()).or_default() += 1;
        // a stale active-copy number left in the nibble: meaningless while mirroring is on
        if fats > 1 && rng.chance(1, 3) {
            geo.flag_noise = rng.range(1, fats as u64) as u16;
            *fr.entry("fat32.mirror_on_stale_active_nibble".into()).or_default() += 1;
        }
    }
    if rng.chance(1, 10) {
        geo.dev_size += rng.range(1, 5000);
    }

    let mut root = Node {
        long: None,
        short: [b' '; 11],
        nt: 0,
        attrs: 0x10,
        t: stamps(rng),
        is_dir: true,
        content: Vec::new(),
        kids,
        junk: Vec::new(),
        open_name: None,
        top: false,
        filler: false,
        zero_len: 0,
        first_cluster: 0,
        chain: Vec::new(),
    };
    let mut fat: BTreeMap<u32, u32> = BTreeMap::new();
    let last = clusters + 1;
    let mut al = Alloc {
        used: BTreeSet::new(),
        clusters,
        top_pool: if kind == VolKind::Max { (last - 7..=last).collect() } else { Vec::new() },
    };
    // FAT entries 0 and 1
    let (e0, mut e1) = match bits {
        12 => (0xF00 | geo.media as u32, 0xFFF),
        16 => (0xFF00 | geo.media as u32, 0xFFFF),
        _ => (0x0FFF_FF00 | geo.media as u32, 0x0FFF_FFFF),
    };
    if bits != 12 && rng.chance(1, 8) {
        // "volume dirty" / "io error" bits of entry 1 cleared
        let (dirty_bit, err_bit) = if bits == 16 { (1u32 << 15, 1u32 << 14) } else { (1u32 << 27, 1u32 << 26) };
        if rng.chance(1, 2) {
            e1 &= !dirty_bit;
            *fr.entry("fat1.dirty".into()).or_default() += 1;
        } else {
            e1 &= !err_bit;
            *fr.entry("fat1.io_error".into()).or_default() += 1;
        }
    }
    if bits == 32 {
        e1 |= (rng.below(16) as u32) << 28;
    }
    fat.insert(0, e0);
    fat.insert(1, e1);
    if bits == 32 {
        // the root directory chain: anywhere, not necessarily cluster 2
        let n = ((root_slots as usize * 32 + cs - 1) / cs).max(1) + usize::from(rng.chance(1, 4));
        root.chain = al.take(rng, n, &mut fr);
        root.first_cluster = root.chain[0];
        geo.root_cluster = root.first_cluster;
        if geo.root_cluster != 2 {
            *fr.entry("fat32.root_cluster_not_2".into()).or_default() += 1;
        }
        put_chain(&geo, rng, &mut fat, &root.chain.clone(), &mut fr);
    }
    allocate(&geo, rng, &mut root, &mut al, &mut fat, &mut fr);
    if special {
        // how many clusters stay free: on `Max` volumes what is left of the top pool, on `Full` volumes 0, 1 or 2
        let keep_free: Vec<u32> = match kind {
            VolKind::Max => al.top_pool.clone(),
            _ => {
                let n = rng.below(3) as usize;
                let mut v = Vec::new();
                while v.len() < n {
                    let c = 2 + rng.below(clusters as u64) as u32;
                    if !al.used.contains(&c) && !v.contains(&c) {
                        v.push(c);
                    }
                }
                v
            }
        };
        let chain: Vec<u32> = (2..=last).filter(|c| !al.used.contains(c) && !keep_free.contains(c)).collect();
        for c in &chain {
            al.used.insert(*c);
        }
        put_chain(&geo, rng, &mut fat, &chain, &mut fr);
        let f = root.kids.iter_mut().find(|k| k.filler).unwrap();
        f.zero_len = chain.len() as u64 * cs as u64 - rng.below(cs as u64);
        f.first_cluster = chain[0];
        f.chain = chain;
        *fr.entry(format!("full.free_left_{}", keep_free.len())).or_default() += 1;
    }
    if bits == 32 && !special {
        // reserved top nibbles on some free entries too
        for _ in 0..rng.range(0, 40) {
            let c = 2 + rng.below(clusters as u64) as u32;
            if !al.used.contains(&c) {
                fat.insert(c, (rng.range(1, 15) as u32) << 28);
                *fr.entry("fat32.top_nibble_on_free_entry".into()).or_default() += 1;
            }
        }
    }
    let free_clusters = clusters - al.used.len() as u32;

    let mut st = Store::default();
    let (fs_free, fs_next) = if bits == 32 {
        // the stored values are what `G geo … fsinfo_free= fsinfo_next=` reports, valid or not
        let f = match if kind == VolKind::Full { 7 } else { rng.below(8) } {
            0 | 1 => {
                *fr.entry("fsinfo.free_unknown".into()).or_default() += 1;
                None
            }
            2 => {
                // out of range: more free clusters than the volume has
                *fr.entry("fsinfo.free_out_of_range".into()).or_default() += 1;
                Some(*rng.pick(&[clusters + 1, clusters + 2, 0xFFFF_FFF0, 0x7FFF_FFFF]))
            }
            _ => Some(free_clusters),
        };
        let n = match rng.below(12) {
            0 => None,
            1 => Some(2),
            2 => {
                *fr.entry("fsinfo.next_0_or_1".into()).or_default() += 1;
                Some(rng.below(2) as u32)
            }
            3 => {
                // the last value still accepted: total + 2
                *fr.entry("fsinfo.next_total+2".into()).or_default() += 1;
                Some(clusters + 2)
            }
            4 | 5 => {
                *fr.entry("fsinfo.next_out_of_range".into()).or_default() += 1;
                Some(*rng.pick(&[clusters + 3, clusters + 4, 2 * clusters, 0x0020_0000.max(clusters + 3), 0xFFFF_FFF0, 0x0FFF_FFFF]))
            }
            6 => Some(clusters + 1),
            _ => Some(2 + rng.below(clusters as u64) as u32),
        };
        (f, n)
    } else {
        (None, None)
    };
    if rng.chance(1, 4) {
        geo.status = *rng.pick(&[1u8, 2, 3, 1, 2, 3, 0x84, 0x85]);
        *fr.entry(format!("bpb.status_{}", geo.status)).or_default() += 1;
    }
    if rng.chance(1, 4) {
        // older / absent extended boot record: volume id, label and type string are not valid then
        geo.ext_sig = *rng.pick(&[0x28u8, 0x00]);
        *fr.entry(format!("bpb.ext_sig_{:02x}", geo.ext_sig)).or_default() += 1;
    }
    geo.put_reserved(&mut st, fs_free, fs_next);
    // allocation tables
    for copy in 0..fats {
        if geo.mirror || copy == geo.active {
            geo.put_fat(&mut st, copy, &fat);
        } else {
            // inactive copy: a different, valid-looking table that must stay untouched
            let mut decoy: BTreeMap<u32, u32> = BTreeMap::new();
            decoy.insert(0, e0);
            decoy.insert(1, 0x0FFF_FFFF);
            decoy.insert(2, 0x0FFF_FFFF);
            decoy.insert(3, 4);
            decoy.insert(4, 5);
            decoy.insert(5, 0x0FFF_FFF8 + copy);
            geo.put_fat(&mut st, copy, &decoy);
        }
    }
    // directories and data
    let mut gt: Vec<String> = Vec::new();
    let label_pos = label.map(|l| (rng.below(root.kids.len() as u64 + 1) as usize, l));
    if label.is_some() {
        *fr.entry("root.volume_label_slot".into()).or_default() += 1;
    }
    let root_bytes = dir_bytes(&geo, rng, &root, true, 0, label_pos, "", &mut gt);
    if bits == 32 {
        gt.push(format!(
            "G chain root {}",
            root.chain.iter().map(|c| c.to_string()).collect::<Vec<_>>().join(",")
        ));
        for (i, c) in root.chain.iter().enumerate() {
            let lo = i * cs;
            if lo < root_bytes.len() {
                st.put(geo.cl_off(*c), &root_bytes[lo..(lo + cs).min(root_bytes.len())]);
            }
        }
    } else {
        assert!(root_bytes.len() <= (geo.root_entries * 32) as usize);
        st.put(geo.root_off(), &root_bytes);
    }
    // children of the root carry 0 in `..`
    emit_tree(&geo, rng, &mut st, &root, 0, "", &mut gt);
    let geo_line = format!(
        "G geo bits={} bps={} spc={} reserved={} fats={} spf={} root_entries={} total_sectors={} clusters={} mirror={} active={} root_cluster={} free={} fsinfo_free={} fsinfo_next={} label={} status={} fat1={} extsig={} volid={} bpblabel={}",
        geo.bits,
        geo.bps,
        geo.spc,
        geo.reserved,
        geo.fats,
        geo.spf,
        geo.root_entries,
        geo.total_sectors,
        geo.clusters,
        geo.mirror as u8,
        geo.active,
        geo.root_cluster,
        free_clusters,
        fs_free.map_or("none".to_string(), |v| v.to_string()),
        fs_next.map_or("none".to_string(), |v| v.to_string()),
        label.map_or("none".to_string(), |l| hex(&l)),
        geo.status,
        e1,
        geo.ext_sig,
        geo.volume_id,
        hex(&geo.bpb_label)
    );
    gt.insert(0, geo_line);
    Built {
        writes: st.writes(),
        geo,
        gtruth: gt,
        root,
        free_clusters,
        fs_free,
        fs_next,
        kind,
        freedoms: fr,
    }
}
