//! Scenario generators of the history protocol (`harness gen|hist <scenario> <tier> <seed>`), see /verif/ARCH.md.
//!
//! Histories are generated ONLINE: the generator keeps a private session on the real library, runs every operation
//! it emits, and uses the outcome (and a private walk of the tree) only to decide what is sensible to do next —
//! which objects exist, which handles are live, whether the session died. Nothing of the private session is
//! printed; `exec` re-runs the script from scratch. All random choices come from one `SplitMix64`.
use std::collections::BTreeMap;
use std::io::Write;

use crate::exec::{Res, Session, TreeNode};
use crate::rng::SplitMix64;
use crate::script::{Cfg, FormatArgs, History, Op};
use crate::util::Tier;

#[path = "gen_big.rs"]
mod gen_big;
#[path = "gen_dirty.rs"]
mod gen_dirty;
#[path = "gen_edge.rs"]
mod gen_edge;
#[path = "gen_fault.rs"]
mod gen_fault;
#[path = "gen_faultgo.rs"]
mod gen_faultgo;
#[path = "gen_feat.rs"]
mod gen_feat;
#[path = "gen_file.rs"]
mod gen_file;
#[path = "gen_flush.rs"]
mod gen_flush;
#[path = "gen_foreign.rs"]
mod gen_foreign;
#[path = "gen_ns.rs"]
mod gen_ns;
#[path = "gen_ro.rs"]
mod gen_ro;
#[path = "gen_shortio.rs"]
mod gen_shortio;
#[path = "gen_space.rs"]
mod gen_space;
#[path = "gen_time.rs"]
mod gen_time;

pub const SCENARIOS: [&str; 12] =
    ["ns", "file", "space", "ro", "dirty", "time", "flush", "fault", "feat", "foreign", "big", "edge"];

/// Where finished histories go: printed as scripts (`gen`) or executed (`hist`).
pub struct Sink<'a> {
    pub out: &'a mut dyn Write,
    pub exec: bool,
    pub count: u64,
}

impl Sink<'_> {
    /// A `# …` line between histories (the same in scripts and traces).
    pub fn comment(&mut self, line: &str) {
        writeln!(self.out, "{}", line).unwrap();
    }

    pub fn emit(&mut self, h: History) {
        self.count += 1;
        if self.exec {
            // go through the printer and the parser so that `hist` == `gen | exec` by construction
            let text = h.print();
            let mut rd = std::io::BufReader::new(text.as_bytes());
            crate::exec::exec_script(&mut rd, self.out);
        } else {
            self.out.write_all(h.print().as_bytes()).unwrap();
        }
    }
}

pub fn run(scenario: &str, tier: Tier, seed: u64, exec: bool, extra: &[String], out: &mut dyn Write) -> bool {
    let mut sink = Sink { out, exec, count: 0 };
    let mut rng = SplitMix64::new(seed ^ scenario_salt(scenario));
    // optional extra argument: number of random histories (overrides the tier default)
    let n_override: Option<u64> = extra.first().and_then(|s| s.parse().ok());
    match scenario {
        "ns" => gen_ns::run(tier, seed, &mut rng, n_override, &mut sink),
        "file" => gen_file::run(tier, seed, &mut rng, n_override, &mut sink),
        "space" => gen_space::run(tier, seed, &mut rng, n_override, &mut sink),
        "ro" => gen_ro::run(tier, seed, &mut rng, n_override, &mut sink),
        "dirty" => gen_dirty::run(tier, seed, &mut rng, n_override, &mut sink),
        "time" => gen_time::run(tier, seed, &mut rng, n_override, &mut sink),
        "flush" => gen_flush::run(tier, seed, &mut rng, n_override, &mut sink),
        "fault" => gen_fault::run(tier, seed, &mut rng, n_override, &mut sink),
        "faultgo" => gen_faultgo::run(tier, seed, &mut rng, n_override, &mut sink),
        "feat" => gen_feat::run(tier, seed, &mut rng, n_override, &mut sink),
        "foreign" => gen_foreign::run(tier, seed, &mut rng, n_override, &mut sink),
        "big" => gen_big::run(tier, seed, &mut rng, n_override, &mut sink),
        "edge" => gen_edge::run(tier, seed, &mut rng, n_override, &mut sink),
        "shortio" => gen_shortio::run(tier, seed, &mut rng, n_override, &mut sink),
        _ => return false,
    }
    true
}

/// Which chain of `FsOptions` builder calls a history uses (cfg `optorder=`): derived from its id, not from the random
/// stream, so that the histories themselves stay what they were.
pub fn optorder_of(id: &str) -> u8 {
    (scenario_salt(id) % 8) as u8
}

fn scenario_salt(s: &str) -> u64 {
    let mut h: u64 = 0xcbf2_9ce4_8422_2325;
    for b in s.bytes() {
        h ^= b as u64;
        h = h.wrapping_mul(0x0000_0100_0000_01B3);
    }
    h
}

// ---------------------------------------------------------------------------------------------------------------
// volume configurations

#[derive(Clone, Copy, Debug, PartialEq, Eq)]
pub enum VolClass {
    /// FAT12, at most 64 clusters
    Tiny,
    /// FAT12, hundreds to thousands of clusters
    Mid,
    Fat16,
    Fat32,
}

#[derive(Clone, Debug)]
pub struct VolCfg {
    pub fmt: FormatArgs,
    pub dev_size: u64,
    pub class: VolClass,
    pub bits: u8,
    pub bps: u32,
    pub cs: u32,
    pub clusters: u32,
    /// number of root directory entries (0 on FAT32)
    pub root_entries: u32,
    /// byte offset of the mount-time status byte in the boot sector
    pub status_off: u64,
    /// reserved sectors, sectors per FAT, number of FAT copies
    pub reserved: u32,
    pub spf: u32,
    pub fats: u32,
}

impl VolCfg {
    /// Byte offset of FAT entry 1 in copy `copy` (FAT16 / FAT32).
    pub fn fat1_off(&self, copy: u32) -> u64 {
        (self.reserved as u64 + copy as u64 * self.spf as u64) * self.bps as u64 + if self.bits == 32 { 4 } else { 2 }
    }
}

fn probe_cfg(fmt: &FormatArgs, total_sectors: u32, dev_size: u64, want: VolClass) -> Option<VolCfg> {
    let o = Session::make_format_options_pub(fmt)?;
    let (bytes, bits) = crate::util::catch(|| fatfs::verif::format_boot_sector_bytes(&o, total_sectors))?.ok()?;
    let p = fatfs::verif::bpb_probe(&bytes, true).ok()?;
    let class = match (bits, p.total_clusters) {
        (12, n) if n <= 64 => VolClass::Tiny,
        (12, _) => VolClass::Mid,
        (16, _) => VolClass::Fat16,
        _ => VolClass::Fat32,
    };
    if class != want {
        return None;
    }
    Some(VolCfg {
        fmt: fmt.clone(),
        dev_size,
        class,
        bits,
        bps: p.bytes_per_sector as u32,
        cs: p.cluster_size,
        clusters: p.total_clusters,
        root_entries: if bits == 32 { 0 } else { fmt.root as u32 },
        status_off: if bits == 32 { 0x41 } else { 0x25 },
        reserved: p.reserved_sectors,
        spf: p.sectors_per_fat,
        fats: p.fats as u32,
    })
}

/// Build one candidate: `clusters` data clusters of `spc` sectors. `variant` selects how the size is conveyed.
fn candidate(
    class: VolClass,
    bps: u32,
    spc: u32,
    clusters: u32,
    fats: u8,
    root: u16,
    variant: u32,
) -> Option<VolCfg> {
    let bits: u32 = match class {
        VolClass::Tiny | VolClass::Mid => 12,
        VolClass::Fat16 => 16,
        VolClass::Fat32 => 32,
    };
    let reserved: u32 = if bits == 32 { 8 } else { 1 };
    let root_secs = if bits == 32 { 0 } else { (root as u32 * 32 + bps - 1) / bps };
    let spf = ((clusters + 2) * bits + 8 * bps - 1) / (8 * bps);
    let total = reserved + fats as u32 * spf + root_secs + clusters * spc;
    let mut fmt = FormatArgs {
        bps: bps as u16,
        bpc: Some(bps * spc),
        root,
        fats,
        ..FormatArgs::default()
    };
    let mut dev_size = total as u64 * bps as u64;
    match variant % 4 {
        0 => {}
        1 => fmt.fat = Some(bits as u8),
        2 => {
            // explicit sector count on a larger device
            fmt.total = Some(total);
            dev_size += 3 * bps as u64 + 17;
        }
        _ => {
            // device size not a multiple of the sector size; label and non-default ids
            dev_size += 100;
            fmt.label = Some(*b"VERIF VOL  ");
            fmt.volid = 0xCAFE_0000 + variant;
            fmt.media = 0xF0;
        }
    }
    probe_cfg(&fmt, total, dev_size, class)
}

pub struct Catalogue {
    pub tiny: Vec<VolCfg>,
    pub mid: Vec<VolCfg>,
    pub fat16: Vec<VolCfg>,
    pub fat32: Vec<VolCfg>,
}

impl Catalogue {
    pub fn build() -> Catalogue {
        let mut c = Catalogue {
            tiny: Vec::new(),
            mid: Vec::new(),
            fat16: Vec::new(),
            fat32: Vec::new(),
        };
        let mut v = 0u32;
        // tiny FAT12 volumes: 12..64 clusters
        for &bps in &[512u32, 1024, 2048, 4096] {
            for &spc in &[1u32, 2, 4, 8, 32, 128] {
                for &clusters in &[12u32, 24, 40, 64] {
                    if spc >= 32 && clusters > 24 {
                        continue;
                    }
                    for &fats in &[1u8, 2] {
                        for &root in &[16u16, 32] {
                            v += 1;
                            if let Some(x) = candidate(VolClass::Tiny, bps, spc, clusters, fats, root, v) {
                                c.tiny.push(x);
                            }
                        }
                    }
                }
            }
        }
        // mid FAT12
        for &(bps, spc, clusters, root) in &[
            (512u32, 1u32, 2847u32, 224u16),
            (512, 2, 1000, 512),
            (512, 4, 300, 64),
            (1024, 1, 700, 112),
            (2048, 2, 200, 16),
            (4096, 1, 400, 128),
            (512, 16, 4000, 512),
        ] {
            for &fats in &[1u8, 2] {
                v += 1;
                if let Some(x) = candidate(VolClass::Mid, bps, spc, clusters, fats, root, v) {
                    c.mid.push(x);
                }
            }
        }
        // FAT16
        for &(bps, spc) in &[(512u32, 1u32), (512, 4), (512, 64), (1024, 1), (2048, 2), (4096, 1), (4096, 128), (512, 128)] {
            for &clusters in &[4090u32, 5000] {
                for &fats in &[1u8, 2] {
                    for &root in &[16u16, 512] {
                        v += 1;
                        if let Some(x) = candidate(VolClass::Fat16, bps, spc, clusters, fats, root, v) {
                            c.fat16.push(x);
                        }
                    }
                }
            }
        }
        // FAT32
        for &(bps, spc) in &[(512u32, 1u32), (512, 8), (1024, 1), (2048, 1), (4096, 1), (4096, 8), (512, 2)] {
            for &fats in &[1u8, 2] {
                v += 1;
                if let Some(x) = candidate(VolClass::Fat32, bps, spc, 65_600, fats, 512, v) {
                    c.fat32.push(x);
                }
            }
        }
        c
    }

    /// Default mix: tiny 40 %, mid 15 %, FAT16 25 %, FAT32 20 %.
    pub fn pick(&self, rng: &mut SplitMix64) -> VolCfg {
        let r = rng.below(100);
        let list = if r < 40 {
            &self.tiny
        } else if r < 55 {
            &self.mid
        } else if r < 80 {
            &self.fat16
        } else {
            &self.fat32
        };
        rng.pick(list).clone()
    }

    pub fn pick_small_cluster(&self, rng: &mut SplitMix64, max_cs: u32) -> VolCfg {
        for _ in 0..64 {
            let c = self.pick(rng);
            if c.cs <= max_cs {
                return c;
            }
        }
        self.tiny[0].clone()
    }
}

// ---------------------------------------------------------------------------------------------------------------
// names

pub const FAMILY_CASE: [&str; 4] = ["Foo.txt", "FOO.TXT", "foo.TXT", "fOO.tXT"];
pub const FAMILY_LONG: [&str; 7] = [
    "longfilename1.txt",
    "longfilename2.txt",
    "longfilename3.txt",
    "longfilename4.txt",
    "longfilename5.txt",
    "longfilename6.txt",
    "LongFileName1.TXT",
];
pub const CLEAN_83: [&str; 6] = ["README.TXT", "A.B", "DATA", "file.c", "DIR1", "sub"];
pub const LOSSY: [&str; 5] = ["my file.txt", "a.b.c", ".hidden", "x+y=z.txt", "LONGFI~1.TXT"];
pub const NON_ASCII: [&str; 4] = ["a\u{dc}n\u{ef}.txt", "x\u{df}", "a\u{65e5}\u{672c}.txt", "A\u{dc}N\u{cf}.TXT"];
/// long names that end in dots / spaces: stored verbatim and found under exactly that spelling (both the alloc and
/// the fixed-buffer build)
pub const TRAILING: [&str; 6] = ["report.", "notes ", "v1.2..", "a. .", "Trailing Dot.txt.", "x  "];
/// rejected with a user error, no panic
pub const INVALID: [&str; 5] = ["a:b", "x*y", "q?", "a\\b", "tab\tx"];
/// Edge names: empty, or first char multi-byte. `ShortNameGenerator::new` used to panic on these (defect F5, fixed
/// in /repo); they are used like any other name now (a regression shows up as `panic` + `dead`).
pub const PANICKY: [&str; 3] = ["", "\u{dc}n\u{ef}.txt", "\u{df}"];
/// Names that differ only by non-ASCII case (the `unicode` feature decides whether they collide):
/// Ünï/ÜNÏ, ß/SS (ß upper-cases to two units), ǆ/ǅ/Ǆ, Greek sigma / final sigma.
pub const FAMILY_UNI: [&str; 12] = [
    "\u{dc}n\u{ef}.txt",
    "\u{dc}N\u{cf}.TXT",
    "\u{fc}n\u{ef}.TXT",
    "\u{df}",
    "SS",
    "ss",
    "a\u{1c6}",
    "a\u{1c5}",
    "A\u{1c4}",
    "\u{3c3}\u{3b1}\u{3c2}.txt",
    "\u{3a3}\u{391}\u{3a3}.TXT",
    "\u{3c3}\u{3b1}\u{3c3}.txt",
];

pub fn name_13() -> String {
    "abcdefghi.txt".to_string()
}
pub fn name_26() -> String {
    "abcdefghijklmnopqrstuv.txt".to_string()
}
pub fn name_255() -> String {
    let mut s = "x".repeat(251);
    s.push_str(".txt");
    s
}
pub fn name_256() -> String {
    "y".repeat(256)
}

pub fn is_panicky(name: &str) -> bool {
    name.is_empty() || !name.is_char_boundary(1)
}

/// A path component that cannot be used to walk to an object.
fn unusable(name: &str) -> bool {
    name.is_empty() || name.contains('/')
}

/// Last path component the way `split_path` sees it (for the panic check of create / rename destinations).
pub fn last_component(path: &str) -> &str {
    let t = path.trim_matches('/');
    match t.rfind('/') {
        Some(i) => t[i + 1..].trim_matches('/'),
        None => t,
    }
}

/// An alphabet of 6–10 names chosen to collide.
pub fn alphabet(rng: &mut SplitMix64) -> Vec<String> {
    let mut v: Vec<String> = Vec::new();
    let n = rng.range(6, 10) as usize;
    // one or two families in full or in part
    if rng.chance(1, 4) {
        // names ending in dots / spaces, with and without their trimmed twin
        let t = *rng.pick(&TRAILING);
        v.push(t.to_string());
        if rng.chance(1, 2) {
            v.push(t.trim_end_matches(['.', ' ']).to_string());
        }
    }
    if rng.chance(1, 6) {
        // names that differ only by non-ASCII case
        let k = rng.below(4) as usize * 3;
        for s in FAMILY_UNI.iter().skip(k).take(3) {
            v.push(s.to_string());
        }
        if rng.chance(1, 2) {
            let k2 = rng.below(4) as usize * 3;
            for s in FAMILY_UNI.iter().skip(k2).take(3) {
                if !v.contains(&s.to_string()) {
                    v.push(s.to_string());
                }
            }
        }
    }
    match rng.below(3) {
        0 => {
            for s in FAMILY_CASE.iter().take(rng.range(2, 4) as usize) {
                v.push(s.to_string());
            }
        }
        1 => {
            for s in FAMILY_LONG.iter().take(rng.range(3, 7) as usize) {
                v.push(s.to_string());
            }
        }
        _ => {
            v.push(FAMILY_CASE[0].to_string());
            v.push(FAMILY_CASE[1].to_string());
            v.push(FAMILY_LONG[0].to_string());
            v.push(FAMILY_LONG[1].to_string());
        }
    }
    let mut guard = 0;
    while v.len() < n && guard < 100 {
        guard += 1;
        let s: String = match rng.below(20) {
            0..=4 => rng.pick(&CLEAN_83).to_string(),
            5..=6 => rng.pick(&LOSSY).to_string(),
            7..=8 => rng.pick(&NON_ASCII).to_string(),
            9 => name_13(),
            10 => name_26(),
            11 => name_255(),
            12 => rng.pick(&INVALID).to_string(),
            13 => {
                if rng.chance(1, 3) {
                    String::new()
                } else {
                    rng.pick(&FAMILY_UNI).to_string()
                }
            }
            14 => name_256(),
            15..=16 => rng.pick(&FAMILY_LONG).to_string(),
            17 => rng.pick(&FAMILY_CASE).to_string(),
            _ => rng.pick(&CLEAN_83).to_string(),
        };
        if !v.contains(&s) {
            v.push(s);
        }
    }
    v
}

pub fn upper(s: &str) -> String {
    #[cfg(feature = "unicode")]
    {
        s.chars().flat_map(char::to_uppercase).collect()
    }
    #[cfg(not(feature = "unicode"))]
    {
        s.chars().map(|c| c.to_ascii_uppercase()).collect()
    }
}

/// Random case variant of an ASCII-ish name (used to exercise case-insensitive lookup).
pub fn recase(rng: &mut SplitMix64, s: &str) -> String {
    if !s.is_ascii() && rng.chance(1, 2) {
        // full Unicode case change (matches only when the library is built with `unicode`)
        return if rng.chance(1, 2) { s.to_uppercase() } else { s.to_lowercase() };
    }
    match rng.below(3) {
        0 => s.to_ascii_uppercase(),
        1 => s.to_ascii_lowercase(),
        _ => s
            .chars()
            .enumerate()
            .map(|(i, c)| if i % 2 == 0 { c.to_ascii_uppercase() } else { c.to_ascii_lowercase() })
            .collect(),
    }
}

pub fn content(rng: &mut SplitMix64, len: usize) -> Vec<u8> {
    // never all-zero, cheap to recognise in traces
    let tag = rng.range(0x41, 0x5a) as u8;
    (0..len).map(|i| if i % 7 == 0 { tag } else { (rng.next_u32() & 0xff) as u8 | 1 }).collect()
}

// ---------------------------------------------------------------------------------------------------------------
// online generation context

/// An object is identified by the path of SHORT names from the root (unique per directory); root = empty path.
pub type Key = Vec<Vec<u8>>;

#[derive(Clone, Debug, PartialEq, Eq)]
pub enum Out {
    Ok(String),
    Err(u8),
    /// panic / hang / already dead / bad-script: nothing more can be learnt from this history
    Dead,
}

impl Out {
    pub fn is_ok(&self) -> bool {
        matches!(self, Out::Ok(_))
    }
}

#[derive(Clone, Debug, PartialEq, Eq)]
pub enum Resolved {
    Found { key: Key, is_dir: bool },
    /// every intermediate component exists and is a directory, the last one does not exist
    Missing { parent: Key },
    /// an intermediate component is missing or not a directory
    Broken,
}

pub struct Ctx {
    pub h: History,
    pub s: Session,
    pub vol: VolCfg,
    pub mounted: bool,
    pub dead: bool,
    pub tree: TreeNode,
    pub dirs: BTreeMap<u32, Key>,
    pub files: BTreeMap<u32, Key>,
    next_d: u32,
    next_f: u32,
    pub n_ok: u32,
    pub n_err: u32,
    /// observation emitted automatically after every other operation while mounted (e.g. `status`)
    pub auto: Option<Op>,
    /// seq of the last operation emitted through `step` (not counting the automatic observation)
    pub last_seq: u64,
    pending_fault: Option<u64>,
    /// trace of the private session (only kept when HARNESS_SELFCHECK is set)
    pub private_trace: Option<Vec<u8>>,
}

fn empty_root() -> TreeNode {
    TreeNode {
        long: String::new(),
        short: Vec::new(),
        is_dir: true,
        size: 0,
        kids: Vec::new(),
    }
}

impl Ctx {
    pub fn new(id: String, scenario: &str, seed: u64, vol: VolCfg, cfg: Cfg) -> Ctx {
        let h = History::new(id, scenario, seed, vol.dev_size, cfg);
        let s = Session::new(&h);
        Ctx {
            h,
            s,
            vol,
            mounted: false,
            dead: false,
            tree: empty_root(),
            dirs: BTreeMap::new(),
            files: BTreeMap::new(),
            next_d: 1,
            next_f: 1,
            n_ok: 0,
            n_err: 0,
            auto: None,
            last_seq: 0,
            pending_fault: None,
            private_trace: if std::env::var_os("HARNESS_SELFCHECK").is_some() { Some(Vec::new()) } else { None },
        }
    }

    pub fn new_d(&mut self) -> u32 {
        self.next_d += 1;
        self.next_d - 1
    }
    pub fn new_f(&mut self) -> u32 {
        self.next_f += 1;
        self.next_f - 1
    }

    /// Emit an operation and run it on the private session. Handle tables of the context are NOT touched here.
    pub fn step(&mut self, op: Op) -> Out {
        let r = self.step_inner(op.clone());
        self.last_seq = self.h.n_ops() as u64;
        if let Some(a) = self.auto.clone() {
            if a != op && self.mounted && !self.dead {
                self.step_inner(a);
            }
        }
        r
    }

    /// Like `step`, but the operation runs with a one-shot fault at its k-th device call (a `fault k` line precedes it).
    pub fn step_fault(&mut self, k: u64, op: Op) -> Out {
        self.h.fault(k);
        self.pending_fault = Some(k);
        let r = self.step_inner(op);
        self.pending_fault = None;
        self.last_seq = self.h.n_ops() as u64;
        r
    }

    fn step_inner(&mut self, op: Op) -> Out {
        let skip_online = matches!(op, Op::CrashProbe(..));
        let seq = self.h.op(op.clone());
        if self.dead {
            return Out::Dead;
        }
        if skip_online {
            return Out::Ok(String::new());
        }
        let r = match self.private_trace.as_mut() {
            Some(buf) => self.s.step(seq, &op, self.pending_fault, Some(buf)),
            None => self.s.step(seq, &op, self.pending_fault, None),
        };
        match r {
            Res::Ok(v, _) => {
                self.n_ok += 1;
                match op {
                    Op::Mount => {
                        self.mounted = true;
                        self.dirs.insert(0, Vec::new());
                    }
                    Op::Unmount | Op::DropFs | Op::Forget => {
                        self.mounted = false;
                        self.dirs.clear();
                        self.files.clear();
                    }
                    _ => {}
                }
                Out::Ok(v)
            }
            Res::Err(e) => {
                self.n_err += 1;
                if matches!(op, Op::Unmount) {
                    self.mounted = false;
                    self.dirs.clear();
                    self.files.clear();
                }
                let code: u8 = e.split(' ').next().and_then(|s| s.parse().ok()).unwrap_or(0);
                Out::Err(code)
            }
            Res::Panic | Res::Hang | Res::Bad => {
                self.dead = true;
                Out::Dead
            }
        }
    }

    pub fn format(&mut self) -> Out {
        let f = self.vol.fmt.clone();
        self.step(Op::Format(f))
    }

    /// What an earlier use of the medium may have left where the new volume's tables and root directory will be:
    /// plausible directory records over the head of every FAT copy, the whole root region (all of its sectors) and
    /// the first data clusters. Formatting must produce the same empty volume whatever was there.
    pub fn junk_before_format(&mut self) {
        let v = self.vol.clone();
        let bps = v.bps as u64;
        let record = |i: u64| -> Vec<u8> {
            let mut r = Vec::with_capacity(32);
            r.extend_from_slice(format!("JUNK{:04}BIN", i % 10000).as_bytes());
            r.push(0x20);
            r.extend_from_slice(&[0u8; 14]);
            r.extend_from_slice(&((3 + i % 7) as u16).to_le_bytes());
            r.extend_from_slice(&(1000u32 + i as u32).to_le_bytes());
            r
        };
        let fill = |off: u64, len: u64| -> (u64, Vec<u8>) {
            let mut b = Vec::with_capacity(len as usize);
            let mut i = off / 32;
            while (b.len() as u64) < len {
                b.extend_from_slice(&record(i));
                i += 1;
            }
            b.truncate(len as usize);
            (off, b)
        };
        let mut ws = Vec::new();
        for c in 0..v.fats as u64 {
            ws.push(fill((v.reserved as u64 + c * v.spf as u64) * bps, (v.spf as u64 * bps).min(1024)));
        }
        let root_start = (v.reserved as u64 + v.fats as u64 * v.spf as u64) * bps;
        let root_bytes = (v.root_entries as u64 * 32 + bps - 1) / bps * bps;
        if root_bytes > 0 {
            ws.push(fill(root_start, root_bytes.min(32 * 1024)));
            // the last sector of the root region in any case
            if root_bytes > 32 * 1024 {
                ws.push(fill(root_start + root_bytes - bps, bps));
            }
        }
        ws.push(fill(root_start + root_bytes, (2 * v.cs as u64).min(8 * 1024)));
        let ws: Vec<(u64, Vec<u8>)> = ws.into_iter().filter(|(o, b)| o + b.len() as u64 <= v.dev_size).collect();
        if !ws.is_empty() {
            self.step(Op::Raw(ws));
        }
    }

    pub fn mount(&mut self) -> Out {
        let r = self.step(Op::Mount);
        if r.is_ok() {
            self.resync();
        }
        r
    }

    /// Re-read the tree of the private session.
    pub fn resync(&mut self) {
        if self.dead || !self.mounted {
            return;
        }
        match self.s.probe_tree() {
            Some(t) => self.tree = t,
            None => {}
        }
    }

    pub fn node(&self, key: &Key) -> Option<&TreeNode> {
        let mut n = &self.tree;
        for c in key {
            n = n.kids.iter().find(|k| &k.short == c)?;
        }
        Some(n)
    }

    fn match_kid<'a>(n: &'a TreeNode, comp: &str) -> Option<&'a TreeNode> {
        let u = upper(comp);
        n.kids
            .iter()
            .find(|k| upper(&k.long) == u || k.short.eq_ignore_ascii_case(comp.as_bytes()))
    }

    /// Resolve `path` relative to the directory `base` in the shadow tree (`.`/`..` understood).
    pub fn resolve(&self, base: &Key, path: &str) -> Resolved {
        let comps: Vec<&str> = path.split('/').filter(|c| !c.is_empty()).collect();
        let mut key = base.clone();
        if comps.is_empty() {
            return Resolved::Missing { parent: key };
        }
        for (i, c) in comps.iter().enumerate() {
            let last = i + 1 == comps.len();
            let Some(n) = self.node(&key) else { return Resolved::Broken };
            if !n.is_dir {
                return Resolved::Broken;
            }
            if *c == "." || *c == ".." {
                if key.is_empty() {
                    // the root has no dot entries
                    return if last { Resolved::Missing { parent: key } } else { Resolved::Broken };
                }
                if *c == ".." {
                    key.pop();
                }
                if last {
                    return Resolved::Found { key, is_dir: true };
                }
                continue;
            }
            match Self::match_kid(n, c) {
                Some(k) => {
                    key.push(k.short.clone());
                    if last {
                        return Resolved::Found { key, is_dir: k.is_dir };
                    }
                    if !k.is_dir {
                        return Resolved::Broken;
                    }
                }
                None => {
                    return if last { Resolved::Missing { parent: key } } else { Resolved::Broken };
                }
            }
        }
        Resolved::Broken
    }

    pub fn is_live(&self, key: &Key) -> bool {
        self.dirs.values().any(|k| k == key) || self.files.values().any(|k| k == key)
    }

    /// Some live handle (other than a root handle) refers to `key` or to something beneath it.
    pub fn live_beneath(&self, key: &Key) -> bool {
        let under = |k: &Key| k.len() >= key.len() && k[..key.len()] == key[..];
        self.dirs.values().any(|k| !k.is_empty() && under(k)) || self.files.values().any(under)
    }

    pub fn n_live(&self) -> usize {
        self.dirs.keys().filter(|d| **d != 0).count() + self.files.len()
    }

    /// All directories of the shadow tree as (key, path of long names from the root), preorder, root first.
    pub fn all_dirs(&self) -> Vec<(Key, String)> {
        fn walk(n: &TreeNode, key: &Key, path: &str, out: &mut Vec<(Key, String)>) {
            for k in &n.kids {
                if k.is_dir {
                    let mut kk = key.clone();
                    kk.push(k.short.clone());
                    let name = if unusable(&k.long) {
                        String::from_utf8_lossy(&k.short).to_string()
                    } else {
                        k.long.clone()
                    };
                    let p = if path.is_empty() { name } else { format!("{}/{}", path, name) };
                    out.push((kk.clone(), p.clone()));
                    walk(k, &kk, &p, out);
                }
            }
        }
        let mut out = vec![(Vec::new(), String::new())];
        walk(&self.tree, &Vec::new(), "", &mut out);
        out
    }

    /// All files of the shadow tree as (key, path of long names, size).
    pub fn all_files(&self) -> Vec<(Key, String, u64)> {
        fn walk(n: &TreeNode, key: &Key, path: &str, out: &mut Vec<(Key, String, u64)>) {
            for k in &n.kids {
                let mut kk = key.clone();
                kk.push(k.short.clone());
                let name = if unusable(&k.long) {
                    String::from_utf8_lossy(&k.short).to_string()
                } else {
                    k.long.clone()
                };
                let p = if path.is_empty() { name } else { format!("{}/{}", path, name) };
                if k.is_dir {
                    walk(k, &kk, &p, out);
                } else {
                    out.push((kk, p, k.size));
                }
            }
        }
        let mut out = Vec::new();
        walk(&self.tree, &Vec::new(), "", &mut out);
        out
    }

    /// Path (long names) from the root to `key`.
    pub fn long_path(&self, key: &Key) -> String {
        let mut n = &self.tree;
        let mut parts: Vec<String> = Vec::new();
        for c in key {
            match n.kids.iter().find(|k| &k.short == c) {
                Some(k) => {
                    parts.push(if unusable(&k.long) {
                        String::from_utf8_lossy(&k.short).to_string()
                    } else {
                        k.long.clone()
                    });
                    n = k;
                }
                None => parts.push(String::from_utf8_lossy(c).to_string()),
            }
        }
        parts.join("/")
    }

    pub fn drop_all_handles(&mut self) {
        let fs: Vec<u32> = self.files.keys().copied().collect();
        for f in fs {
            self.step(Op::DropF(f));
            self.files.remove(&f);
        }
        let ds: Vec<u32> = self.dirs.keys().copied().filter(|d| *d != 0).collect();
        for d in ds {
            self.step(Op::DropD(d));
            self.dirs.remove(&d);
        }
    }

    /// Closing sequence of most scenarios: drop all handles, list every reachable directory, stats.
    pub fn closing_lists(&mut self) {
        if !self.mounted {
            return;
        }
        self.drop_all_handles();
        self.resync();
        if !self.dirs.contains_key(&0) {
            let d = 0;
            if self.step(Op::Root(d)).is_ok() {
                self.dirs.insert(0, Vec::new());
            }
        }
        for (key, path) in self.all_dirs() {
            if key.is_empty() {
                self.step(Op::List(0));
            } else {
                let d = self.new_d();
                if self.step(Op::OpenDir { d: 0, path: path.into_bytes(), new: d }).is_ok() {
                    self.step(Op::List(d));
                    self.step(Op::DropD(d));
                }
            }
        }
        self.step(Op::Stats);
    }

    pub fn finish(mut self, sink: &mut Sink) {
        // the private session may still hold the volume: abandon it
        self.s.leak_all();
        if let Some(private) = self.private_trace.take() {
            // self-check: the replay must produce the same R lines as the private session
            let text = self.h.print();
            let mut rd = std::io::BufReader::new(text.as_bytes());
            let mut replay: Vec<u8> = Vec::new();
            crate::exec::exec_script(&mut rd, &mut replay);
            let pick = |b: &[u8]| -> BTreeMap<String, String> {
                String::from_utf8_lossy(b)
                    .lines()
                    .filter(|l| l.starts_with("R "))
                    .map(|l| (l.split(' ').nth(1).unwrap_or("?").to_string(), l.to_string()))
                    .collect()
            };
            let (a, b) = (pick(&private), pick(&replay));
            // (crashprobe is not run privately: compare the operations both sides have)
            for (seq, x) in &a {
                match b.get(seq) {
                    Some(y) if y == x => {}
                    other => {
                        eprintln!("SELFCHECK {}: private `{}` vs replay `{:?}`", self.h.id, x, other);
                        break;
                    }
                }
            }
        }
        sink.emit(self.h);
    }
}

pub fn hist_id(scenario: &str, seed: u64, n: u64) -> String {
    format!("{}-{}-{}", scenario, seed, n)
}

pub fn tier_count(tier: Tier, n_override: Option<u64>, quick: u64, thorough: u64) -> u64 {
    n_override.unwrap_or(tier.pick(quick, thorough))
}
