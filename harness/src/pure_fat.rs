//! pure-probe suite `fat` (see /verif/ARCH.md): the crate-private FAT codec and table algorithms of `table.rs`
//! (hooks `fatfs::verif::verif_table`) run on an in-memory stream that holds the bytes of ONE FAT copy.
//!
//! Stream semantics (= the `Dev` semantics of ARCH.md, no faults): `seek(Start n)` always succeeds, `read`/`write`
//! transfer `min(len, size - pos)` bytes. The stream's error type is `fatfs::Error<PErr>` (like the library's own
//! `DiskSlice`), so a short `read_exact` surfaces as `Error::UnexpectedEof` and a zero-length `write` as
//! `Error::WriteZero`. Every stream call decrements a budget; an exhausted budget panics with a marker payload that is
//! reported as `HANG`.
use crate::rng::SplitMix64;
use crate::util::{hex, opt, Tier};
use fatfs::verif::{error_code, verif_table as vt};
use fatfs::{Error, IoBase, IoError, Read, Seek, SeekFrom, Write};
use std::io::Write as IoWrite;

/// the (never constructed by the stream itself) storage error
#[derive(Debug, Clone, Copy, PartialEq, Eq)]
pub struct PErr;

impl IoError for PErr {
    fn is_interrupted(&self) -> bool {
        false
    }
    fn new_unexpected_eof_error() -> Self {
        PErr
    }
    fn new_write_zero_error() -> Self {
        PErr
    }
}

struct HangMarker;

pub struct MemStream {
    pub data: Vec<u8>,
    pub pos: u64,
    pub budget: u64,
}

impl MemStream {
    pub fn new(data: Vec<u8>, budget: u64) -> Self {
        Self { data, pos: 0, budget }
    }
    fn tick(&mut self) {
        if self.budget == 0 {
            std::panic::panic_any(HangMarker);
        }
        self.budget -= 1;
    }
}

impl IoBase for MemStream {
    type Error = Error<PErr>;
}

impl Read for MemStream {
    fn read(&mut self, buf: &mut [u8]) -> Result<usize, Self::Error> {
        self.tick();
        let size = self.data.len() as u64;
        if self.pos >= size {
            return Ok(0);
        }
        let n = (buf.len() as u64).min(size - self.pos) as usize;
        let p = self.pos as usize;
        buf[..n].copy_from_slice(&self.data[p..p + n]);
        self.pos += n as u64;
        Ok(n)
    }
}

impl Write for MemStream {
    fn write(&mut self, buf: &[u8]) -> Result<usize, Self::Error> {
        self.tick();
        let size = self.data.len() as u64;
        if self.pos >= size {
            return Ok(0);
        }
        let n = (buf.len() as u64).min(size - self.pos) as usize;
        let p = self.pos as usize;
        self.data[p..p + n].copy_from_slice(&buf[..n]);
        self.pos += n as u64;
        Ok(n)
    }
    fn flush(&mut self) -> Result<(), Self::Error> {
        self.tick();
        Ok(())
    }
}

impl Seek for MemStream {
    fn seek(&mut self, pos: SeekFrom) -> Result<u64, Self::Error> {
        self.tick();
        let new = match pos {
            SeekFrom::Start(n) => Some(n),
            SeekFrom::Current(d) => (self.pos as i64).checked_add(d).and_then(|n| u64::try_from(n).ok()),
            SeekFrom::End(d) => (self.data.len() as i64).checked_add(d).and_then(|n| u64::try_from(n).ok()),
        };
        match new {
            Some(n) => {
                self.pos = n;
                Ok(n)
            }
            None => Err(Error::InvalidInput),
        }
    }
}

enum Outcome<T> {
    Done(T),
    Panic,
    Hang,
}

fn guarded<T>(f: impl FnOnce() -> T) -> Outcome<T> {
    match std::panic::catch_unwind(std::panic::AssertUnwindSafe(f)) {
        Ok(v) => Outcome::Done(v),
        Err(p) => {
            if p.is::<HangMarker>() {
                Outcome::Hang
            } else {
                Outcome::Panic
            }
        }
    }
}

const BUDGET: u64 = 200_000;

type R<T> = Result<T, Error<PErr>>;

/// result without the bytes
fn show_plain<T>(o: Outcome<R<T>>, ok: impl FnOnce(T) -> String) -> String {
    match o {
        Outcome::Done(Ok(v)) => ok(v),
        Outcome::Done(Err(e)) => format!("ERR {}", error_code(&e)),
        Outcome::Panic => "PANIC".into(),
        Outcome::Hang => "HANG".into(),
    }
}

/// result followed by the bytes (also after an error)
fn show_with_fat<T: std::fmt::Display>(o: Outcome<R<T>>, s: &MemStream) -> String {
    match o {
        Outcome::Done(Ok(v)) => format!("{} {}", v, hex(&s.data)),
        Outcome::Done(Err(e)) => format!("ERR {} {}", error_code(&e), hex(&s.data)),
        Outcome::Panic => "PANIC".into(),
        Outcome::Hang => "HANG".into(),
    }
}

struct Emit<'a> {
    out: &'a mut dyn IoWrite,
    count: u64,
}

impl<'a> Emit<'a> {
    fn line(&mut self, lhs: String, rhs: String) {
        writeln!(self.out, "P {} => {}", lhs, rhs).unwrap();
        self.count += 1;
    }

    fn get(&mut self, bits: u8, fat: &[u8], c: u32) {
        let mut s = MemStream::new(fat.to_vec(), BUDGET);
        let o = guarded(|| vt::get::<MemStream, PErr>(&mut s, bits, c));
        let rhs = show_plain(o, |(k, n)| format!("{} {}", k, n));
        self.line(format!("fat.get {} {} {}", bits, hex(fat), c), rhs);
    }

    fn set(&mut self, bits: u8, fat: &[u8], c: u32, kind: u8, n: u32) {
        let mut s = MemStream::new(fat.to_vec(), BUDGET);
        let o = guarded(|| vt::set::<MemStream, PErr>(&mut s, bits, c, kind, n));
        let rhs = match o {
            Outcome::Done(Ok(())) => hex(&s.data),
            Outcome::Done(Err(e)) => format!("ERR {}", error_code(&e)),
            Outcome::Panic => "PANIC".into(),
            Outcome::Hang => "HANG".into(),
        };
        self.line(format!("fat.set {} {} {} {} {}", bits, hex(fat), c, kind, n), rhs);
    }

    fn find_free(&mut self, bits: u8, fat: &[u8], start: u32, end: u32) {
        let mut s = MemStream::new(fat.to_vec(), BUDGET);
        let o = guarded(|| vt::find_free::<MemStream, PErr>(&mut s, bits, start, end));
        let rhs = show_plain(o, |c| c.to_string());
        self.line(format!("fat.find_free {} {} {} {}", bits, hex(fat), start, end), rhs);
    }

    fn count_free(&mut self, bits: u8, fat: &[u8], total: u32) {
        let mut s = MemStream::new(fat.to_vec(), BUDGET);
        let o = guarded(|| vt::count_free::<MemStream, PErr>(&mut s, bits, total));
        let rhs = show_plain(o, |c| c.to_string());
        self.line(format!("fat.count_free {} {} {}", bits, hex(fat), total), rhs);
    }

    fn alloc(&mut self, bits: u8, fat: &[u8], prev: Option<u32>, hint: Option<u32>, total: u32) {
        let mut s = MemStream::new(fat.to_vec(), BUDGET);
        let o = guarded(|| vt::alloc::<MemStream, PErr>(&mut s, bits, prev, hint, total));
        let rhs = show_with_fat(o, &s);
        self.line(
            format!("fat.alloc {} {} {} {} {}", bits, hex(fat), opt(prev), opt(hint), total),
            rhs,
        );
    }

    fn free(&mut self, bits: u8, fat: &[u8], c: u32, budget: u64) {
        let mut s = MemStream::new(fat.to_vec(), budget);
        let o = guarded(|| vt::free_chain::<MemStream, PErr>(&mut s, bits, c));
        let rhs = show_with_fat(o, &s);
        self.line(format!("fat.free {} {} {} {}", bits, hex(fat), c, budget), rhs);
    }

    fn truncate(&mut self, bits: u8, fat: &[u8], c: u32, budget: u64) {
        let mut s = MemStream::new(fat.to_vec(), budget);
        let o = guarded(|| vt::truncate_chain::<MemStream, PErr>(&mut s, bits, c));
        let rhs = show_with_fat(o, &s);
        self.line(format!("fat.truncate {} {} {} {}", bits, hex(fat), c, budget), rhs);
    }

    fn chain(&mut self, bits: u8, fat: &[u8], c: u32, max: usize) {
        let mut s = MemStream::new(fat.to_vec(), BUDGET);
        let o = guarded(|| vt::chain::<MemStream, PErr>(&mut s, bits, c, max));
        let rhs = show_plain(o, |v| {
            if v.is_empty() {
                "-".to_string()
            } else {
                v.iter().map(|c| c.to_string()).collect::<Vec<_>>().join(",")
            }
        });
        self.line(format!("fat.chain {} {} {} {}", bits, hex(fat), c, max), rhs);
    }

    fn flags(&mut self, bits: u8, fat: &[u8]) {
        let mut s = MemStream::new(fat.to_vec(), BUDGET);
        let o = guarded(|| vt::flags::<MemStream, PErr>(&mut s, bits));
        let rhs = show_plain(o, |(d, i)| format!("{} {}", d as u8, i as u8));
        self.line(format!("fat.flags {} {}", bits, hex(fat)), rhs);
    }

    fn format(&mut self, bits: u8, media: u8, bytes_per_fat: u64, total: u32) {
        let mut s = MemStream::new(vec![0u8; bytes_per_fat as usize], BUDGET);
        let o = guarded(|| vt::format::<MemStream, PErr>(&mut s, bits, media, bytes_per_fat, total));
        let rhs = match o {
            Outcome::Done(Ok(())) => hex(&s.data),
            Outcome::Done(Err(e)) => format!("ERR {} {}", error_code(&e), hex(&s.data)),
            Outcome::Panic => "PANIC".into(),
            Outcome::Hang => "HANG".into(),
        };
        self.line(format!("fat.format {} {} {} {}", bits, media, bytes_per_fat, total), rhs);
    }
}

// ---------------------------------------------------------------------------------------------------------------
// table builder (an encoder written for the harness, independent of the library and of the Lean model)

fn max_val(bits: u8) -> u32 {
    match bits {
        12 => 0xFFF,
        16 => 0xFFFF,
        _ => 0x0FFF_FFFF,
    }
}

/// minimal number of bytes that holds `n` whole entries
fn bytes_for(bits: u8, n: usize) -> usize {
    match bits {
        12 => (n * 3 + 1) / 2,
        16 => n * 2,
        _ => n * 4,
    }
}

/// encode entry values (FAT32: full 32-bit words, i.e. including the reserved nibble)
fn encode(bits: u8, entries: &[u32], extra: usize) -> Vec<u8> {
    let mut v = vec![0u8; bytes_for(bits, entries.len()) + extra];
    for (k, &e) in entries.iter().enumerate() {
        match bits {
            12 => {
                let bit = k * 12;
                let byte = bit / 8;
                let e = e & 0xFFF;
                if bit % 8 == 0 {
                    v[byte] = (e & 0xFF) as u8;
                    v[byte + 1] = (v[byte + 1] & 0xF0) | ((e >> 8) as u8);
                } else {
                    v[byte] = (v[byte] & 0x0F) | (((e & 0xF) as u8) << 4);
                    v[byte + 1] = (e >> 4) as u8;
                }
            }
            16 => {
                v[2 * k] = e as u8;
                v[2 * k + 1] = (e >> 8) as u8;
            }
            _ => {
                v[4 * k..4 * k + 4].copy_from_slice(&e.to_le_bytes());
            }
        }
    }
    v
}

fn pick_size(rng: &mut SplitMix64) -> usize {
    match rng.below(10) {
        0..=5 => rng.range(8, 40) as usize,
        6..=8 => rng.range(41, 128) as usize,
        _ => rng.range(129, 400) as usize,
    }
}

fn eoc_variant(rng: &mut SplitMix64, bits: u8) -> u32 {
    max_val(bits) - rng.below(8) as u32
}

#[derive(Clone, Copy, PartialEq, Eq, Debug)]
enum Style {
    Sparse,
    Dense,
    Full,
    OneFreeFirst,
    OneFreeLast,
    OneFreeMid,
    Empty,
    Raw,
    Broken,
}

struct Table {
    bits: u8,
    n: usize,         // number of entries encoded (incl. the two reserved ones)
    bytes: Vec<u8>,   // encoded
    heads: Vec<u32>,  // heads of the well-formed chains
    members: Vec<u32>, // clusters on chains (allocated)
}

/// structured table: reserved entries, random fragmented chains, bad clusters, EOC variants, FAT32 top nibbles
fn build(rng: &mut SplitMix64, bits: u8, n: usize, style: Style) -> Table {
    let mv = max_val(bits);
    let mut e = vec![0u32; n];
    let mut heads = Vec::new();
    let mut members = Vec::new();
    if style == Style::Raw {
        let len = bytes_for(bits, n);
        let bytes: Vec<u8> = (0..len).map(|_| rng.next_u64() as u8).collect();
        return Table { bits, n, bytes, heads, members };
    }
    e[0] = (mv & !0xFF) | 0xF8;
    e[1] = mv;
    if n > 2 && style != Style::Empty {
        // clusters 2..n in random order
        let mut order: Vec<u32> = (2..n as u32).collect();
        for i in (1..order.len()).rev() {
            let j = rng.below(i as u64 + 1) as usize;
            order.swap(i, j);
        }
        let fill = match style {
            Style::Sparse => rng.range(0, 40),
            Style::Dense => rng.range(60, 95),
            Style::Broken => rng.range(30, 80),
            _ => 100,
        } as usize;
        let used = (order.len() * fill + 99) / 100;
        let used = used.min(order.len());
        let mut i = 0;
        while i < used {
            if rng.chance(1, 12) {
                e[order[i] as usize] = mv - 8; // bad cluster
                i += 1;
                continue;
            }
            let sequential = rng.chance(1, 3);
            let len = (rng.range(1, 9) as usize).min(used - i);
            let mut cl: Vec<u32> = order[i..i + len].to_vec();
            if sequential {
                cl.sort_unstable();
            }
            for w in 0..len {
                let c = cl[w] as usize;
                e[c] = if w + 1 < len { cl[w + 1] } else { eoc_variant(rng, bits) };
            }
            heads.push(cl[0]);
            members.extend_from_slice(&cl);
            i += len;
        }
        let free_at = |e: &mut Vec<u32>, c: usize, heads: &mut Vec<u32>, members: &mut Vec<u32>| {
            // make entry c free: cut whatever pointed to it
            for k in 2..e.len() {
                if e[k] == c as u32 {
                    e[k] = mv;
                }
            }
            e[c] = 0;
            heads.retain(|&h| h != c as u32);
            members.retain(|&h| h != c as u32);
        };
        match style {
            Style::OneFreeFirst => free_at(&mut e, 2, &mut heads, &mut members),
            Style::OneFreeLast => free_at(&mut e, n - 1, &mut heads, &mut members),
            Style::OneFreeMid => {
                let c = rng.range(2, n as u64 - 1) as usize;
                free_at(&mut e, c, &mut heads, &mut members)
            }
            _ => {}
        }
        if style == Style::Broken {
            // cycles, links out of range, links to reserved entries, links to free entries
            for _ in 0..rng.range(1, 4) {
                let c = rng.range(2, n as u64 - 1) as usize;
                e[c] = match rng.below(6) {
                    0 => c as u32,                                   // self loop
                    1 => rng.range(2, n as u64 - 1) as u32,          // arbitrary in-range link (cycle/merge)
                    2 => n as u32 + rng.below(3) as u32,             // just out of range
                    3 => rng.below(2) as u32 + if rng.chance(1, 2) { 0 } else { 1 }, // 0/1/2
                    4 => mv - 9 - rng.below(8) as u32,               // reserved values 0x?FF0..6
                    _ => rng.range(2, mv as u64) as u32,             // anything
                };
            }
        }
    }
    if bits == 32 {
        for k in 0..n {
            if rng.chance(1, 2) {
                e[k] |= (rng.below(16) as u32) << 28;
            }
        }
    }
    let extra = if rng.chance(1, 4) { rng.range(1, 5) as usize } else { 0 };
    let bytes = encode(bits, &e, extra);
    Table { bits, n, bytes, heads, members }
}

fn random_style(rng: &mut SplitMix64) -> Style {
    *rng.pick(&[
        Style::Sparse,
        Style::Sparse,
        Style::Dense,
        Style::Dense,
        Style::Full,
        Style::OneFreeFirst,
        Style::OneFreeLast,
        Style::OneFreeMid,
        Style::Empty,
        Style::Raw,
        Style::Broken,
        Style::Broken,
    ])
}

/// sometimes cut 1..3 bytes off the end (reads/writes past the end)
fn maybe_cut(rng: &mut SplitMix64, bytes: &[u8]) -> Vec<u8> {
    let mut v = bytes.to_vec();
    if rng.chance(1, 10) {
        let k = rng.range(1, 3) as usize;
        let l = v.len().saturating_sub(k);
        v.truncate(l);
    }
    v
}

const BITS: [u8; 3] = [12, 16, 32];

// ---------------------------------------------------------------------------------------------------------------

fn gen_get(em: &mut Emit, rng: &mut SplitMix64, tier: Tier) {
    // every raw 12-bit value at an even and at an odd position, neighbours random
    for v in 0..4096u32 {
        for pos in [2usize, 3] {
            let mut e = [rng.next_u32() & 0xFFF, rng.next_u32() & 0xFFF, rng.next_u32() & 0xFFF, rng.next_u32() & 0xFFF, rng.next_u32() & 0xFFF];
            e[pos] = v;
            let fat = encode(12, &e, 0);
            em.get(12, &fat, pos as u32);
        }
    }
    // every raw 16-bit value
    for v in 0..65536u32 {
        let e = [rng.next_u32() & 0xFFFF, v, rng.next_u32() & 0xFFFF];
        let fat = encode(16, &e, 0);
        em.get(16, &fat, 1);
    }
    // FAT32: boundaries of the classification ±2 under every top nibble, plus a random grid
    let marks: [u32; 6] = [0, 0x0FFF_FFF0, 0x0FFF_FFF7, 0x0FFF_FFF8, 0x0FFF_FFFF, 0x0800_0000];
    for &m in &marks {
        for d in -2i64..=2 {
            let v = (m as i64 + d).rem_euclid(0x1000_0000) as u32;
            for top in 0..16u32 {
                let e = [rng.next_u32(), rng.next_u32(), v | (top << 28), rng.next_u32()];
                let fat = encode(32, &e, 0);
                em.get(32, &fat, 2);
            }
        }
    }
    for _ in 0..tier.pick(3000, 200_000) {
        let v = match rng.below(4) {
            0 => rng.next_u32(),
            1 => rng.next_u32() & 0xF000_00FF,
            2 => 0x0FFF_FF00 | (rng.next_u32() & 0xF000_00FF),
            _ => rng.below(500) as u32,
        };
        let e = [rng.next_u32(), v, rng.next_u32()];
        let fat = encode(32, &e, 0);
        em.get(32, &fat, 1);
    }
    // cluster numbers: past the end of the bytes, the special FAT32 numbers, u32 overflow of the offset
    let clusters: [u32; 24] = [
        0, 1, 2, 3, 4, 5, 6, 7, 8, 9, 100,
        0x0FFF_FFF6, 0x0FFF_FFF7, 0x0FFF_FFF8, 0x0FFF_FFFF, 0x1000_0000,
        0x3FFF_FFFF, 0x4000_0000, 0x7FFF_FFFF, 0x8000_0000,
        2_863_311_530, 2_863_311_531, 0xFFFF_FFFE, 0xFFFF_FFFF,
    ];
    for &bits in &BITS {
        for len in 0..=13usize {
            let fat: Vec<u8> = (0..len).map(|_| rng.next_u64() as u8).collect();
            for &c in &clusters {
                em.get(bits, &fat, c);
            }
        }
    }
}

fn value_grid(bits: u8) -> Vec<(u8, u32)> {
    let mut v: Vec<(u8, u32)> = vec![(0, 0), (2, 0), (3, 0), (7, 5)];
    let ns: [u32; 26] = [
        0, 1, 2, 3, 0x0F, 0x10, 0xFF, 0x100, 0xABC, 0xFF0, 0xFF6, 0xFF7, 0xFF8, 0xFFF, 0x1000, 0x1234, 0xFFF6, 0xFFF7,
        0xFFFF, 0x1_0000, 0x0FFF_FFF6, 0x0FFF_FFF7, 0x0FFF_FFFF, 0x1000_0000, 0xF000_0001, 0xFFFF_FFFF,
    ];
    for &n in &ns {
        if bits == 12 && n > 0x1_0000 && n != 0xFFFF_FFFF {
            continue;
        }
        v.push((1, n));
    }
    v
}

fn gen_set(em: &mut Emit, rng: &mut SplitMix64, tier: Tier) {
    for &bits in &BITS {
        // all (cluster, value) pairs on small tables, structured and raw, incl. clusters past the end
        for round in 0..tier.pick(3, 30) {
            let n = 3 + round % 4 + rng.below(3) as usize;
            let style = if round % 2 == 0 { Style::Raw } else { Style::Dense };
            let t = build(rng, bits, n, style);
            for cut in 0..=2usize {
                let bytes = &t.bytes[..t.bytes.len().saturating_sub(cut)];
                for c in 0..(n as u32 + 3) {
                    for (k, nv) in value_grid(bits) {
                        em.set(bits, bytes, c, k, nv);
                    }
                }
            }
        }
        // random cells of larger tables
        for _ in 0..tier.pick(300, 20_000) {
            let n = pick_size(rng);
            let st = random_style(rng);
            let t = build(rng, bits, n, st);
            let c = rng.below(n as u64 + 2) as u32;
            let (k, nv) = match rng.below(4) {
                0 => (0, 0),
                1 => (2, 0),
                2 => (3, 0),
                _ => (1, rng.range(0, max_val(bits) as u64 + 2) as u32),
            };
            em.set(bits, &t.bytes, c, k, nv);
        }
        // huge cluster numbers (overflow / special FAT32 numbers)
        let fat: Vec<u8> = (0..16).map(|_| rng.next_u64() as u8).collect();
        for &c in &[0x0FFF_FFF6u32, 0x0FFF_FFF7, 0x0FFF_FFFF, 0x3FFF_FFFF, 0x4000_0000, 0x7FFF_FFFF, 0x8000_0000, 2_863_311_530, 2_863_311_531, 0xFFFF_FFFF] {
            for (k, nv) in [(0u8, 0u32), (1, 7), (2, 0), (3, 0)] {
                em.set(bits, &fat, c, k, nv);
            }
        }
    }
}

fn gen_scan(em: &mut Emit, rng: &mut SplitMix64, tier: Tier) {
    for &bits in &BITS {
        for _ in 0..tier.pick(1200, 60_000) {
            let n = pick_size(rng);
            let st = random_style(rng);
            let t = build(rng, bits, n, st);
            let bytes = maybe_cut(rng, &t.bytes);
            let endc = n as u32;
            // find_free: start/end grid around the boundaries
            let starts = [0u32, 1, 2, 3, endc / 2, endc.saturating_sub(2), endc - 1, endc, endc + 1];
            let s = *rng.pick(&starts);
            let e = match rng.below(8) {
                0 => s,
                1 => s + 1,
                2 => s.saturating_sub(1),
                3 => endc + 1 + rng.below(3) as u32,
                4 => rng.below(endc as u64 + 2) as u32,
                _ => endc,
            };
            em.find_free(bits, &bytes, s, e);
            // count_free: total = n-2 mostly; smaller (padding entries), larger (short table), 0, 1
            let total = match rng.below(10) {
                0 => 0,
                1 => 1,
                2 => (n as u32 - 2) + 1 + rng.below(3) as u32,
                3 => rng.below(n as u64 - 1) as u32,
                _ => n as u32 - 2,
            };
            em.count_free(bits, &bytes, total);
        }
        for &t in &[0xFFFF_FFFDu32, 0xFFFF_FFFE, 0xFFFF_FFFF] {
            em.count_free(bits, &[0u8; 16], t);
            em.alloc(bits, &[0u8; 16], None, None, t);
        }
        for &s in &[0x3FFF_FFFFu32, 0x4000_0000, 0x7FFF_FFFF, 0x8000_0000, 2_863_311_530, 2_863_311_531, 0xFFFF_FFFF] {
            em.find_free(bits, &[0u8; 16], s, s.wrapping_add(1));
            em.find_free(bits, &[0u8; 16], s, 10);
        }
    }
}

fn gen_alloc(em: &mut Emit, rng: &mut SplitMix64, tier: Tier) {
    for &bits in &BITS {
        for _ in 0..tier.pick(1300, 60_000) {
            let n = pick_size(rng);
            let st = random_style(rng);
            let t = build(rng, bits, n, st);
            let bytes = maybe_cut(rng, &t.bytes);
            // total: usually exactly the table; sometimes the table has padding entries; rarely too short
            let total = match rng.below(12) {
                0 => (n as u32 - 2).saturating_sub(1 + rng.below(3) as u32),
                1 => n as u32 - 2 + 1 + rng.below(2) as u32,
                2 => 0,
                _ => n as u32 - 2,
            };
            let endc = total + 2;
            let hint = match rng.below(12) {
                0 | 1 => None,
                2 => Some(2),
                3 => Some(endc / 2 + 1),
                4 => Some(endc.saturating_sub(2)),          // last-1
                5 => Some(endc.saturating_sub(1)),          // last
                6 => Some(endc),                             // last+1 = total+2
                7 => Some(endc + 1 + rng.below(1000) as u32), // beyond
                8 => Some(rng.below(2) as u32),              // 0 / 1 (violates hint_ge_2)
                9 => Some(3),
                _ => Some(rng.below(endc as u64 + 1) as u32),
            };
            let prev = match rng.below(8) {
                0 | 1 | 2 => None,
                3 | 4 | 5 => {
                    if t.members.is_empty() {
                        None
                    } else {
                        Some(*rng.pick(&t.members))
                    }
                }
                6 => Some(rng.below(n as u64 + 3) as u32),
                _ => Some(n as u32 + rng.below(3) as u32),
            };
            em.alloc(bits, &bytes, prev, hint, total);
        }
        // tiny exhaustive corner: 1..4 data clusters, every free/used pattern, every hint 0..=total+3 and none
        for total in 0..=tier.pick(3u32, 5u32) {
            let n = total as usize + 2;
            for pat in 0..(1u32 << total) {
                let mut e = vec![0u32; n];
                e[0] = (max_val(bits) & !0xFF) | 0xF8;
                e[1] = max_val(bits);
                for k in 0..total {
                    if pat >> k & 1 == 1 {
                        e[2 + k as usize] = max_val(bits);
                    }
                }
                for extra in [0usize, 3] {
                    let bytes = encode(bits, &e, extra);
                    em.alloc(bits, &bytes, None, None, total);
                    for h in 0..=total + 3 {
                        em.alloc(bits, &bytes, None, Some(h), total);
                    }
                    em.count_free(bits, &bytes, total);
                }
            }
        }
    }
}

fn gen_chain(em: &mut Emit, rng: &mut SplitMix64, tier: Tier) {
    for &bits in &BITS {
        for _ in 0..tier.pick(1000, 50_000) {
            let n = pick_size(rng);
            let style = match rng.below(6) {
                0 | 1 => Style::Dense,
                2 => Style::Sparse,
                3 => Style::Full,
                4 => Style::Broken,
                _ => random_style(rng),
            };
            let t = build(rng, bits, n, style);
            let bytes = maybe_cut(rng, &t.bytes);
            let c = match rng.below(8) {
                0 | 1 | 2 | 3 => {
                    if t.heads.is_empty() {
                        2
                    } else {
                        *rng.pick(&t.heads)
                    }
                }
                4 | 5 => {
                    if t.members.is_empty() {
                        2
                    } else {
                        *rng.pick(&t.members)
                    }
                }
                6 => rng.below(n as u64 + 3) as u32,
                _ => rng.below(3) as u32,
            };
            match rng.below(3) {
                0 => em.free(bits, &bytes, c, BUDGET),
                1 => em.truncate(bits, &bytes, c, BUDGET),
                _ => {
                    let max = *rng.pick(&[0usize, 1, 2, 3, 8, n, n + 5]);
                    em.chain(bits, &bytes, c, max)
                }
            }
        }
        // out of range / overflowing start clusters
        let fat: Vec<u8> = (0..24).map(|_| rng.next_u64() as u8).collect();
        for &c in &[30u32, 0x0FFF_FFF7, 0x3FFF_FFFF, 0x4000_0000, 0x8000_0000, 2_863_311_531, 0xFFFF_FFFF] {
            em.free(bits, &fat, c, BUDGET);
            em.truncate(bits, &fat, c, BUDGET);
            em.chain(bits, &fat, c, 4);
        }
    }
}

fn gen_flags_format(em: &mut Emit, rng: &mut SplitMix64, tier: Tier) {
    for &bits in &BITS {
        // flags: every combination of the two bits, other bits random; short tables
        for _ in 0..tier.pick(60, 2000) {
            let mv = max_val(bits);
            let mut e1 = rng.next_u32();
            let (b_dirty, b_err) = match bits {
                16 => (15, 14),
                32 => (27, 26),
                _ => (11, 10),
            };
            e1 &= !((1 << b_dirty) | (1 << b_err));
            e1 |= (rng.below(2) as u32) << b_dirty;
            e1 |= (rng.below(2) as u32) << b_err;
            let e = [rng.next_u32() & mv, if bits == 32 { e1 } else { e1 & mv }, rng.next_u32() & mv];
            let bytes = encode(bits, &e, 0);
            em.flags(bits, &bytes);
        }
        for len in 0..=9usize {
            let fat: Vec<u8> = (0..len).map(|_| rng.next_u64() as u8).collect();
            em.flags(bits, &fat);
        }
        // format: header boundaries, the padding loop, totals around the end
        for bpf in 0..=40u64 {
            for &total in &[0u32, 1, 2, 5, 20] {
                em.format(bits, 0xF8, bpf, total);
            }
        }
        for _ in 0..tier.pick(250, 5000) {
            let bpf = *rng.pick(&[32u64, 48, 64, 96, 128, 200, 256, 512, 513, 1024, 1536]);
            let cap = (bpf * 8 / bits as u64) as u32;
            let total = match rng.below(8) {
                0 => 0,
                1 => cap.saturating_sub(2),
                2 => cap.saturating_sub(3),
                3 => cap.saturating_sub(1),
                4 => cap,
                5 => cap + 1 + rng.below(5) as u32,
                _ => rng.below(cap as u64 + 1) as u32,
            };
            let media = *rng.pick(&[0xF8u8, 0xF0, 0x00, 0xFF, 0x5A]);
            em.format(bits, media, bpf, total);
        }
        for &t in &[0xFFFF_FFFDu32, 0xFFFF_FFFE, 0xFFFF_FFFF] {
            em.format(bits, 0xF8, 16, t);
        }
    }
}

pub fn run(tier: Tier, seed: u64, out: &mut dyn IoWrite) {
    let mut rng = SplitMix64::new(seed ^ 0xFA7_7AB1E);
    let mut em = Emit { out, count: 0 };
    let mut r = rng.fork();
    gen_get(&mut em, &mut r, tier);
    let mut r = rng.fork();
    gen_set(&mut em, &mut r, tier);
    let mut r = rng.fork();
    gen_scan(&mut em, &mut r, tier);
    let mut r = rng.fork();
    gen_alloc(&mut em, &mut r, tier);
    let mut r = rng.fork();
    gen_chain(&mut em, &mut r, tier);
    let mut r = rng.fork();
    gen_flags_format(&mut em, &mut r, tier);
    writeln!(em.out, "# fat probes={}", em.count).unwrap();
}
