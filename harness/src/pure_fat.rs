//! pure-probe suite `fat` (see /verif/ARCH.md). STUB — to be replaced.
use crate::util::Tier;
use std::io::Write;

pub fn run(_tier: Tier, _seed: u64, _out: &mut dyn Write) {}
