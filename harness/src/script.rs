//! Scripts of the history protocol: data types, printer and parser (see /verif/ARCH.md, "History protocol").
//!
//! A script is a sequence of blocks
//!
//! ```text
//! H <id> <scenario> seed=<n>
//! dev <size>
//! cfg strict=<0|1> accdate=<0|1> clock=<const|tick> alloc=<0|1> unicode=<0|1> [budget=<n>] [optorder=<k>] [shortio=<n>] [nomodel=1]
//! G … | # …                   ground truth / comment lines: echoed by the executor, otherwise ignored
//! O <seq> <op> <args…>        (for `raw <n>`: followed by n lines `w <offset> <payload>`)
//! fault <k>
//! E
//! ```
//!
//! Byte strings (paths, names, data) are lower-case hex, `-` for empty. A `w` payload (and any data argument) may
//! also be `z<n>` = n zero bytes. Handles are `d<n>` / `f<n>`; `d0` is the implicit root handle made by `mount`.
//!
//! Operations (arguments as in ARCH.md) with the refinements of this implementation:
//!
//! ```text
//! format bps=<n> total=<n|none> bpc=<n|none> fat=<12|16|32|none> root=<n> fats=<n> media=<n> volid=<n>
//!        label=<hex11|none> [spt=<n>] [heads=<n>] [drive=<n|none>]      (first nine keys mandatory, in this order)
//! seek <f> <start|cur|end> <n>          n is signed for cur/end, non-negative for start
//! crashprobe <path> [<seq0>]            see exec.rs
//! fault <k>                             a line of its own (no `O`, no seq)
//! ```
use crate::clock::ClockMode;
use crate::util::{hex, opt};

#[derive(Clone, Debug, PartialEq, Eq)]
pub struct Cfg {
    pub strict: bool,
    pub accdate: bool,
    pub clock: ClockMode,
    pub alloc: bool,
    pub unicode: bool,
    /// device-call budget per operation (hang detection); printed as a trailing `budget=<n>` only when not the default
    pub budget: u64,
    /// which chain of `FsOptions` builder calls `mount` uses (0 = the classic one); every chain asks for the same
    /// effective options. Printed only when not 0.
    pub optorder: u8,
    /// the device makes LEGAL SHORT transfers: a read / write never crosses a multiple of n (absolute device offset)
    pub shortio: Option<u64>,
    /// the history uses a device feature the model does not have (shortio): the driver skips the model comparison
    pub nomodel: bool,
}

impl Cfg {
    pub fn new(strict: bool, accdate: bool, clock: ClockMode) -> Cfg {
        Cfg {
            strict,
            accdate,
            clock,
            alloc: cfg!(feature = "alloc"),
            unicode: cfg!(feature = "unicode"),
            budget: crate::dev::DEFAULT_BUDGET,
            optorder: 0,
            shortio: None,
            nomodel: false,
        }
    }
    pub fn default_build() -> Cfg {
        Cfg::new(true, false, ClockMode::Const)
    }
    pub fn print(&self) -> String {
        let mut s = format!(
            "cfg strict={} accdate={} clock={} alloc={} unicode={}",
            self.strict as u8,
            self.accdate as u8,
            match self.clock {
                ClockMode::Const => "const",
                ClockMode::Tick => "tick",
            },
            self.alloc as u8,
            self.unicode as u8
        );
        if self.budget != crate::dev::DEFAULT_BUDGET {
            s.push_str(&format!(" budget={}", self.budget));
        }
        if self.optorder != 0 {
            s.push_str(&format!(" optorder={}", self.optorder));
        }
        if let Some(n) = self.shortio {
            s.push_str(&format!(" shortio={}", n));
        }
        if self.nomodel {
            s.push_str(" nomodel=1");
        }
        s
    }
}

#[derive(Clone, Debug, PartialEq, Eq)]
pub struct FormatArgs {
    pub bps: u16,
    pub total: Option<u32>,
    pub bpc: Option<u32>,
    pub fat: Option<u8>,
    pub root: u16,
    pub fats: u8,
    pub media: u8,
    pub volid: u32,
    pub label: Option<[u8; 11]>,
    pub spt: u16,
    pub heads: u16,
    pub drive: Option<u8>,
}

impl Default for FormatArgs {
    fn default() -> Self {
        FormatArgs {
            bps: 512,
            total: None,
            bpc: None,
            fat: None,
            root: 512,
            fats: 2,
            media: 0xF8,
            volid: 0x1234_5678,
            label: None,
            spt: 0x20,
            heads: 0x40,
            drive: None,
        }
    }
}

#[derive(Clone, Copy, Debug, PartialEq, Eq)]
pub enum Whence {
    Start,
    Cur,
    End,
}

#[derive(Clone, Debug, PartialEq, Eq)]
pub struct Stamp {
    pub y: u16,
    pub m: u16,
    pub d: u16,
    pub h: u16,
    pub mi: u16,
    pub s: u16,
    pub ms: u16,
}

pub type Bytes = Vec<u8>;

#[derive(Clone, Debug, PartialEq, Eq)]
pub enum Op {
    Format(FormatArgs),
    Raw(Vec<(u64, Bytes)>),
    Mount,
    Unmount,
    DropFs,
    Forget,
    Root(u32),
    OpenDir { d: u32, path: Bytes, new: u32 },
    CreateDir { d: u32, path: Bytes, new: u32 },
    OpenFile { d: u32, path: Bytes, new: u32 },
    CreateFile { d: u32, path: Bytes, new: u32 },
    Remove { d: u32, path: Bytes },
    Rename { d: u32, src: Bytes, d2: u32, dst: Bytes },
    List(u32),
    Read { f: u32, n: u64 },
    ReadX { f: u32, n: u64 },
    ReadAll(u32),
    Write { f: u32, data: Bytes },
    WriteAll { f: u32, data: Bytes },
    Seek { f: u32, whence: Whence, n: i64 },
    Truncate(u32),
    Flush(u32),
    DropF(u32),
    DropD(u32),
    SetCreated { f: u32, t: Stamp },
    SetModified { f: u32, t: Stamp },
    SetAccessed { f: u32, y: u16, m: u16, d: u16 },
    Extents(u32),
    Stats,
    Status,
    Label,
    LabelRoot,
    VolId,
    FatType,
    /// path, and optionally the seq of an earlier operation: cuts start at the end of that operation
    CrashProbe(Bytes, Option<u64>),
}

#[derive(Clone, Debug, PartialEq, Eq)]
pub enum Item {
    Op { seq: u64, op: Op },
    Fault(u64),
    /// `G …` ground-truth lines and `# …` comments: echoed, otherwise ignored
    Comment,
    /// a line that could not be parsed; `seq` as far as it could be read
    Bad { seq: Option<u64> },
}

#[derive(Clone, Debug)]
pub struct History {
    pub id: String,
    pub scenario: String,
    pub seed: u64,
    pub dev_size: u64,
    pub cfg: Cfg,
    /// (text to echo — one or more lines without trailing newline, item)
    pub items: Vec<(String, Item)>,
    next_seq: u64,
}

impl History {
    pub fn new(id: String, scenario: &str, seed: u64, dev_size: u64, cfg: Cfg) -> History {
        History {
            id,
            scenario: scenario.to_string(),
            seed,
            dev_size,
            cfg,
            items: Vec::new(),
            next_seq: 1,
        }
    }

    /// Append an operation with the next sequence number; returns the number.
    pub fn op(&mut self, op: Op) -> u64 {
        let seq = self.next_seq;
        self.next_seq += 1;
        self.items.push((print_op(seq, &op), Item::Op { seq, op }));
        seq
    }

    /// A `G …` / `# …` line (may contain several lines separated by `\n`).
    pub fn comment(&mut self, text: String) {
        self.items.push((text, Item::Comment));
    }

    pub fn fault(&mut self, k: u64) {
        self.items.push((format!("fault {}", k), Item::Fault(k)));
    }

    pub fn n_ops(&self) -> usize {
        self.items.iter().filter(|(_, i)| matches!(i, Item::Op { .. })).count()
    }

    pub fn header(&self) -> String {
        format!(
            "H {} {} seed={}\ndev {}\n{}",
            self.id,
            self.scenario,
            self.seed,
            self.dev_size,
            self.cfg.print()
        )
    }

    pub fn print(&self) -> String {
        let mut s = self.header();
        s.push('\n');
        for (text, _) in &self.items {
            s.push_str(text);
            s.push('\n');
        }
        s.push_str("E\n");
        s
    }
}

pub fn payload(bytes: &[u8]) -> String {
    if !bytes.is_empty() && bytes.iter().all(|b| *b == 0) {
        format!("z{}", bytes.len())
    } else {
        hex(bytes)
    }
}

fn whence_str(w: Whence) -> &'static str {
    match w {
        Whence::Start => "start",
        Whence::Cur => "cur",
        Whence::End => "end",
    }
}

fn stamp_str(t: &Stamp) -> String {
    format!("{} {} {} {} {} {} {}", t.y, t.m, t.d, t.h, t.mi, t.s, t.ms)
}

pub fn print_op(seq: u64, op: &Op) -> String {
    let body = match op {
        Op::Format(a) => format!(
            "format bps={} total={} bpc={} fat={} root={} fats={} media={} volid={} label={} spt={} heads={} drive={}",
            a.bps,
            opt(a.total),
            opt(a.bpc),
            opt(a.fat),
            a.root,
            a.fats,
            a.media,
            a.volid,
            a.label.map_or("none".to_string(), |l| hex(&l)),
            a.spt,
            a.heads,
            opt(a.drive)
        ),
        Op::Raw(ws) => {
            let mut s = format!("raw {}", ws.len());
            for (off, data) in ws {
                s.push_str(&format!("\nw {} {}", off, payload(data)));
            }
            s
        }
        Op::Mount => "mount".into(),
        Op::Unmount => "unmount".into(),
        Op::DropFs => "dropfs".into(),
        Op::Forget => "forget".into(),
        Op::Root(d) => format!("root d{}", d),
        Op::OpenDir { d, path, new } => format!("open_dir d{} {} d{}", d, hex(path), new),
        Op::CreateDir { d, path, new } => format!("create_dir d{} {} d{}", d, hex(path), new),
        Op::OpenFile { d, path, new } => format!("open_file d{} {} f{}", d, hex(path), new),
        Op::CreateFile { d, path, new } => format!("create_file d{} {} f{}", d, hex(path), new),
        Op::Remove { d, path } => format!("remove d{} {}", d, hex(path)),
        Op::Rename { d, src, d2, dst } => format!("rename d{} {} d{} {}", d, hex(src), d2, hex(dst)),
        Op::List(d) => format!("list d{}", d),
        Op::Read { f, n } => format!("read f{} {}", f, n),
        Op::ReadX { f, n } => format!("readx f{} {}", f, n),
        Op::ReadAll(f) => format!("readall f{}", f),
        Op::Write { f, data } => format!("write f{} {}", f, payload(data)),
        Op::WriteAll { f, data } => format!("writeall f{} {}", f, payload(data)),
        Op::Seek { f, whence, n } => format!("seek f{} {} {}", f, whence_str(*whence), n),
        Op::Truncate(f) => format!("truncate f{}", f),
        Op::Flush(f) => format!("flush f{}", f),
        Op::DropF(f) => format!("dropf f{}", f),
        Op::DropD(d) => format!("dropd d{}", d),
        Op::SetCreated { f, t } => format!("set_created f{} {}", f, stamp_str(t)),
        Op::SetModified { f, t } => format!("set_modified f{} {}", f, stamp_str(t)),
        Op::SetAccessed { f, y, m, d } => format!("set_accessed f{} {} {} {}", f, y, m, d),
        Op::Extents(f) => format!("extents f{}", f),
        Op::Stats => "stats".into(),
        Op::Status => "status".into(),
        Op::Label => "label".into(),
        Op::LabelRoot => "label_root".into(),
        Op::VolId => "volid".into(),
        Op::FatType => "fattype".into(),
        Op::CrashProbe(p, None) => format!("crashprobe {}", hex(p)),
        Op::CrashProbe(p, Some(since)) => format!("crashprobe {} {}", hex(p), since),
    };
    format!("O {} {}", seq, body)
}

// ---------------------------------------------------------------------------------------------------------------
// parser

fn p_num<T: std::str::FromStr>(s: &str) -> Option<T> {
    s.parse::<T>().ok()
}

fn p_opt<T: std::str::FromStr>(s: &str) -> Option<Option<T>> {
    if s == "none" {
        Some(None)
    } else {
        s.parse::<T>().ok().map(Some)
    }
}

fn p_bool(s: &str) -> Option<bool> {
    match s {
        "0" => Some(false),
        "1" => Some(true),
        _ => None,
    }
}

pub fn p_bytes(s: &str) -> Option<Vec<u8>> {
    if s == "-" {
        return Some(Vec::new());
    }
    if let Some(n) = s.strip_prefix('z') {
        let n: usize = n.parse().ok()?;
        if n > (1 << 28) {
            return None;
        }
        return Some(vec![0u8; n]);
    }
    if s.len() % 2 != 0 || s.is_empty() {
        return None;
    }
    let b = s.as_bytes();
    let mut out = Vec::with_capacity(s.len() / 2);
    for i in 0..s.len() / 2 {
        let hi = (b[2 * i] as char).to_digit(16)?;
        let lo = (b[2 * i + 1] as char).to_digit(16)?;
        out.push((hi * 16 + lo) as u8);
    }
    Some(out)
}

fn p_handle(s: &str, prefix: char) -> Option<u32> {
    let rest = s.strip_prefix(prefix)?;
    if rest.is_empty() || !rest.bytes().all(|c| c.is_ascii_digit()) {
        return None;
    }
    rest.parse().ok()
}

fn p_kv<'a>(tok: &'a str, key: &str) -> Option<&'a str> {
    let (k, v) = tok.split_once('=')?;
    if k == key {
        Some(v)
    } else {
        None
    }
}

fn p_stamp(a: &[&str]) -> Option<Stamp> {
    if a.len() != 7 {
        return None;
    }
    Some(Stamp {
        y: p_num(a[0])?,
        m: p_num(a[1])?,
        d: p_num(a[2])?,
        h: p_num(a[3])?,
        mi: p_num(a[4])?,
        s: p_num(a[5])?,
        ms: p_num(a[6])?,
    })
}

fn p_format(a: &[&str]) -> Option<FormatArgs> {
    let mut f = FormatArgs::default();
    // the first nine keys are mandatory and ordered; spt/heads/drive are optional trailing keys
    if a.len() < 9 {
        return None;
    }
    f.bps = p_num(p_kv(a[0], "bps")?)?;
    f.total = p_opt(p_kv(a[1], "total")?)?;
    f.bpc = p_opt(p_kv(a[2], "bpc")?)?;
    f.fat = p_opt(p_kv(a[3], "fat")?)?;
    f.root = p_num(p_kv(a[4], "root")?)?;
    f.fats = p_num(p_kv(a[5], "fats")?)?;
    f.media = p_num(p_kv(a[6], "media")?)?;
    f.volid = p_num(p_kv(a[7], "volid")?)?;
    let l = p_kv(a[8], "label")?;
    f.label = if l == "none" {
        None
    } else {
        let b = p_bytes(l)?;
        if b.len() != 11 {
            return None;
        }
        let mut arr = [0u8; 11];
        arr.copy_from_slice(&b);
        Some(arr)
    };
    for tok in &a[9..] {
        if let Some(v) = p_kv(tok, "spt") {
            f.spt = p_num(v)?;
        } else if let Some(v) = p_kv(tok, "heads") {
            f.heads = p_num(v)?;
        } else if let Some(v) = p_kv(tok, "drive") {
            f.drive = p_opt(v)?;
        } else {
            return None;
        }
    }
    Some(f)
}

/// Parse the operation tokens (after `O <seq>`). `raw` returns `Op::Raw(vec![])` plus the announced count.
fn p_op(a: &[&str]) -> Option<(Op, usize)> {
    let name = *a.first()?;
    let r = &a[1..];
    let n = r.len();
    let op = match name {
        "format" => Op::Format(p_format(r)?),
        "raw" if n == 1 => {
            let cnt: usize = p_num(r[0])?;
            return Some((Op::Raw(Vec::new()), cnt));
        }
        "mount" if n == 0 => Op::Mount,
        "unmount" if n == 0 => Op::Unmount,
        "dropfs" if n == 0 => Op::DropFs,
        "forget" if n == 0 => Op::Forget,
        "root" if n == 1 => Op::Root(p_handle(r[0], 'd')?),
        "open_dir" if n == 3 => Op::OpenDir {
            d: p_handle(r[0], 'd')?,
            path: p_bytes(r[1])?,
            new: p_handle(r[2], 'd')?,
        },
        "create_dir" if n == 3 => Op::CreateDir {
            d: p_handle(r[0], 'd')?,
            path: p_bytes(r[1])?,
            new: p_handle(r[2], 'd')?,
        },
        "open_file" if n == 3 => Op::OpenFile {
            d: p_handle(r[0], 'd')?,
            path: p_bytes(r[1])?,
            new: p_handle(r[2], 'f')?,
        },
        "create_file" if n == 3 => Op::CreateFile {
            d: p_handle(r[0], 'd')?,
            path: p_bytes(r[1])?,
            new: p_handle(r[2], 'f')?,
        },
        "remove" if n == 2 => Op::Remove {
            d: p_handle(r[0], 'd')?,
            path: p_bytes(r[1])?,
        },
        "rename" if n == 4 => Op::Rename {
            d: p_handle(r[0], 'd')?,
            src: p_bytes(r[1])?,
            d2: p_handle(r[2], 'd')?,
            dst: p_bytes(r[3])?,
        },
        "list" if n == 1 => Op::List(p_handle(r[0], 'd')?),
        "read" if n == 2 => Op::Read {
            f: p_handle(r[0], 'f')?,
            n: p_num(r[1])?,
        },
        "readx" if n == 2 => Op::ReadX {
            f: p_handle(r[0], 'f')?,
            n: p_num(r[1])?,
        },
        "readall" if n == 1 => Op::ReadAll(p_handle(r[0], 'f')?),
        "write" if n == 2 => Op::Write {
            f: p_handle(r[0], 'f')?,
            data: p_bytes(r[1])?,
        },
        "writeall" if n == 2 => Op::WriteAll {
            f: p_handle(r[0], 'f')?,
            data: p_bytes(r[1])?,
        },
        "seek" if n == 3 => {
            let whence = match r[1] {
                "start" => Whence::Start,
                "cur" => Whence::Cur,
                "end" => Whence::End,
                _ => return None,
            };
            let v: i64 = p_num(r[2])?;
            if whence == Whence::Start && v < 0 {
                return None;
            }
            Op::Seek {
                f: p_handle(r[0], 'f')?,
                whence,
                n: v,
            }
        }
        "truncate" if n == 1 => Op::Truncate(p_handle(r[0], 'f')?),
        "flush" if n == 1 => Op::Flush(p_handle(r[0], 'f')?),
        "dropf" if n == 1 => Op::DropF(p_handle(r[0], 'f')?),
        "dropd" if n == 1 => Op::DropD(p_handle(r[0], 'd')?),
        "set_created" if n == 8 => Op::SetCreated {
            f: p_handle(r[0], 'f')?,
            t: p_stamp(&r[1..])?,
        },
        "set_modified" if n == 8 => Op::SetModified {
            f: p_handle(r[0], 'f')?,
            t: p_stamp(&r[1..])?,
        },
        "set_accessed" if n == 4 => Op::SetAccessed {
            f: p_handle(r[0], 'f')?,
            y: p_num(r[1])?,
            m: p_num(r[2])?,
            d: p_num(r[3])?,
        },
        "extents" if n == 1 => Op::Extents(p_handle(r[0], 'f')?),
        "stats" if n == 0 => Op::Stats,
        "status" if n == 0 => Op::Status,
        "label" if n == 0 => Op::Label,
        "label_root" if n == 0 => Op::LabelRoot,
        "volid" if n == 0 => Op::VolId,
        "fattype" if n == 0 => Op::FatType,
        "crashprobe" if n == 1 => Op::CrashProbe(p_bytes(r[0])?, None),
        "crashprobe" if n == 2 => Op::CrashProbe(p_bytes(r[0])?, Some(p_num(r[1])?)),
        _ => return None,
    };
    Some((op, 0))
}

fn p_cfg(line: &str) -> Option<Cfg> {
    let t: Vec<&str> = line.split(' ').collect();
    if t.len() < 6 || t[0] != "cfg" {
        return None;
    }
    let mut c = Cfg {
        strict: p_bool(p_kv(t[1], "strict")?)?,
        accdate: p_bool(p_kv(t[2], "accdate")?)?,
        clock: match p_kv(t[3], "clock")? {
            "const" => ClockMode::Const,
            "tick" => ClockMode::Tick,
            _ => return None,
        },
        alloc: p_bool(p_kv(t[4], "alloc")?)?,
        unicode: p_bool(p_kv(t[5], "unicode")?)?,
        budget: crate::dev::DEFAULT_BUDGET,
        optorder: 0,
        shortio: None,
        nomodel: false,
    };
    // optional trailing keys, any order
    for tok in &t[6..] {
        let (k, v) = tok.split_once('=')?;
        match k {
            "budget" => c.budget = p_num(v)?,
            "optorder" => c.optorder = p_num(v)?,
            "shortio" => {
                let n: u64 = p_num(v)?;
                if n == 0 {
                    return None;
                }
                c.shortio = Some(n);
            }
            "nomodel" => c.nomodel = p_bool(v)?,
            _ => return None,
        }
    }
    Some(c)
}

/// Result of parsing one `H … E` block. `header_ok == false` means the `H`/`dev`/`cfg` lines were unusable.
pub struct Parsed {
    pub hist: History,
    pub h_line: String,
    pub header_ok: bool,
}

/// Parse the lines of one block: `lines[0]` is the `H` line, the `E` line is not included.
pub fn parse_block(lines: &[String]) -> Parsed {
    let h_line = lines[0].clone();
    let mut header_ok = true;
    let ht: Vec<&str> = h_line.split(' ').collect();
    let (id, scenario, seed) = if ht.len() == 4 && ht[0] == "H" && p_kv(ht[3], "seed").and_then(p_num::<u64>).is_some() {
        (
            ht[1].to_string(),
            ht[2].to_string(),
            p_kv(ht[3], "seed").and_then(p_num::<u64>).unwrap(),
        )
    } else {
        header_ok = false;
        ("?".to_string(), "?".to_string(), 0)
    };
    let mut i = 1;
    let mut dev_size = 0u64;
    match lines.get(i).map(|l| l.split(' ').collect::<Vec<_>>()) {
        Some(t) if t.len() == 2 && t[0] == "dev" && p_num::<u64>(t[1]).is_some() => {
            dev_size = p_num(t[1]).unwrap();
            i += 1;
        }
        _ => header_ok = false,
    }
    let mut cfg = Cfg::default_build();
    match lines.get(i).and_then(|l| p_cfg(l)) {
        Some(c) => {
            cfg = c;
            i += 1;
        }
        None => header_ok = false,
    }
    let mut hist = History::new(id, &scenario, seed, dev_size, cfg);
    while i < lines.len() {
        let line = &lines[i];
        i += 1;
        let t: Vec<&str> = line.split(' ').collect();
        match t[0] {
            "G" | "#" => hist.items.push((line.clone(), Item::Comment)),
            _ if line.starts_with('#') => hist.items.push((line.clone(), Item::Comment)),
            "fault" => {
                let item = match (t.len(), t.get(1).and_then(|s| p_num::<u64>(s))) {
                    (2, Some(k)) => Item::Fault(k),
                    _ => Item::Bad { seq: None },
                };
                hist.items.push((line.clone(), item));
            }
            "O" => {
                let seq = t.get(1).and_then(|s| p_num::<u64>(s));
                let parsed = if seq.is_some() { p_op(&t[2..]) } else { None };
                match (seq, parsed) {
                    (Some(seq), Some((Op::Raw(_), cnt))) => {
                        let mut ws = Vec::new();
                        let mut text = line.clone();
                        let mut ok = true;
                        for _ in 0..cnt {
                            let Some(wl) = lines.get(i) else {
                                ok = false;
                                break;
                            };
                            let wt: Vec<&str> = wl.split(' ').collect();
                            if wt.len() == 3 && wt[0] == "w" {
                                i += 1;
                                text.push('\n');
                                text.push_str(wl);
                                match (p_num::<u64>(wt[1]), p_bytes(wt[2])) {
                                    (Some(off), Some(data)) => ws.push((off, data)),
                                    _ => ok = false,
                                }
                            } else {
                                ok = false;
                                break;
                            }
                        }
                        let item = if ok {
                            Item::Op { seq, op: Op::Raw(ws) }
                        } else {
                            Item::Bad { seq: Some(seq) }
                        };
                        hist.items.push((text, item));
                    }
                    (Some(seq), Some((op, _))) => hist.items.push((line.clone(), Item::Op { seq, op })),
                    (seq, _) => hist.items.push((line.clone(), Item::Bad { seq })),
                }
            }
            _ => hist.items.push((line.clone(), Item::Bad { seq: None })),
        }
    }
    Parsed { hist, h_line, header_ok }
}
