//! Scenario `big` (property C20): sparse devices of 4 GiB, 1 TiB + ε and 2 TiB − 512 B with 512-byte sectors, FAT32,
//! clusters of 4–32 KiB. The volumes come from the image builder, which writes ONLY the boot sector, its backup, the
//! FS-info sector, the touched FAT sectors and one root-directory sector (everything else is zero = free).
//! FS-info always carries a KNOWN free count (so `stats` never scans the table); its next-free hint is placed at
//! last−1 / last / last+1 (= clusters+2) / beyond / 0xFFFFFFFF / just below the 4 GiB or 1 TiB byte mark / 2.
//! A file `PREALLOC.BIN` owns a few clusters around the marks (and optionally the last cluster), so that allocation
//! lands beyond the marks.
//!
//! Extra ground truth: `G mark <4g|1t> <cluster>` = first cluster whose data lies at or beyond that byte offset;
//! `G hint <kind> <value|none>`; `G last <cluster> <free|taken>`.
use super::*;
use crate::clock::ClockMode;
use crate::imgbuild::{sfn_slot, Geo, Stamps, Store};
use crate::script::Whence;
use crate::tools::fnv64;
use crate::util::hex;

fn one(id: String, seed: u64, idx: u64, rng: &mut SplitMix64, sink: &mut Sink) {
    // (total sectors, allowed sectors per cluster)
    let (total, spcs): (u32, &[u32]) = match idx % 3 {
        0 => (8_388_608, &[8, 16, 32, 64]),                  // 4 GiB
        1 => ((1u32 << 31) + 2048 + 8 * rng.below(64) as u32, &[16, 32, 64]), // 1 TiB + ε
        _ => (u32::MAX, &[32, 64]),                           // 2 TiB − 512 B
    };
    let spc = *rng.pick(spcs);
    let reserved = *rng.pick(&[32u32, 32, 9, 64]);
    let fats = if rng.chance(1, 6) { 1 } else { 2 };
    let mut geo = Geo::layout_total(512, spc, reserved, fats, total);
    if fats == 2 && rng.chance(1, 6) {
        geo.mirror = false;
        geo.active = rng.below(2) as u32;
    }
    geo.volume_id = rng.next_u32();
    let cs = geo.cs() as u64;
    let last = geo.clusters + 1;
    let mark = |byte: u64| -> Option<u32> {
        if byte <= geo.data_off() || byte >= geo.cl_off(last) {
            return None;
        }
        Some(((byte - geo.data_off() + cs - 1) / cs) as u32 + 2)
    };
    let m4g = mark(1 << 32);
    let m1t = mark(1 << 40);
    // pre-allocated clusters
    let mut pre: Vec<u32> = Vec::new();
    let near: Option<u32> = match (m4g, m1t, rng.below(3)) {
        (_, Some(m), 0) => Some(m),
        (Some(m), _, 1) => Some(m),
        (Some(m), None, 0) => Some(m),
        _ => None,
    };
    if let Some(m) = near {
        pre.extend([m - 1, m, m + 1]);
    }
    let last_taken = rng.chance(1, 2);
    if last_taken {
        pre.push(last);
    }
    if rng.chance(1, 3) {
        pre.push(3);
    }
    // out of order on purpose
    if pre.len() > 1 && rng.chance(1, 2) {
        pre.reverse();
    }
    let (hint_kind, hint): (&str, Option<u32>) = match rng.below(8) {
        0 => ("last-1", Some(last - 1)),
        1 => ("last", Some(last)),
        2 => ("last+1", Some(last + 1)),
        3 => ("beyond", Some(last + 2 + rng.below(100_000) as u32)),
        4 => ("none", None),
        5 => ("two", Some(2)),
        _ => match near {
            Some(m) => ("below-mark", Some(m - 2)),
            None => ("last-1", Some(last - 1)),
        },
    };
    let used = 1 + pre.len() as u32;
    let free = geo.clusters - used;
    let mut st = Store::default();
    geo.put_reserved(&mut st, Some(free), hint);
    let mut fat: BTreeMap<u32, u32> = BTreeMap::new();
    fat.insert(0, 0x0FFF_FF00 | geo.media as u32);
    fat.insert(1, 0x0FFF_FFFF);
    fat.insert(2, 0x0FFF_FFF8 + rng.below(8) as u32);
    for (i, c) in pre.iter().enumerate() {
        let v = if i + 1 < pre.len() { pre[i + 1] } else { 0x0FFF_FFFF };
        fat.insert(*c, v | ((rng.below(16) as u32) << 28));
    }
    for copy in 0..fats {
        if geo.mirror || copy == geo.active {
            geo.put_fat(&mut st, copy, &fat);
        }
    }
    let mut gt: Vec<String> = Vec::new();
    gt.push(format!(
        "G geo bits=32 bps=512 spc={} reserved={} fats={} spf={} root_entries=0 total_sectors={} clusters={} mirror={} active={} root_cluster=2 free={} fsinfo_free={} fsinfo_next={} label=none status=0 fat1={}",
        spc, reserved, fats, geo.spf, geo.total_sectors, geo.clusters, geo.mirror as u8, geo.active, free, free,
        hint.map_or("none".to_string(), |h| h.to_string()), 0x0FFF_FFFFu32
    ));
    if let Some(m) = m4g {
        gt.push(format!("G mark 4g {}", m));
    }
    if let Some(m) = m1t {
        gt.push(format!("G mark 1t {}", m));
    }
    gt.push(format!("G hint {} {}", hint_kind, hint.map_or("none".to_string(), |h| h.to_string())));
    gt.push(format!("G last {} {}", last, if last_taken { "taken" } else { "free" }));
    if pre.is_empty() {
        gt.push("G dir - 0".to_string());
    } else {
        let short = *b"PREALLOCBIN";
        let t = Stamps { crt_tenth: 0, crt_time: 0x6000, crt_date: 0x5021, acc_date: 0x5021, wrt_time: 0x6000, wrt_date: 0x5021 };
        // sizes are 32-bit: the file claims its full clusters unless that exceeds 4 GiB − 1
        let size = (pre.len() as u64 * cs).min(u32::MAX as u64) as u32;
        st.put(geo.cl_off(2), &sfn_slot(&short, 0x20, 0, &t, pre[0], size, true));
        gt.push("G dir - 1".to_string());
        gt.push(format!(
            "G ent - - {} 32 {} {} 0 {} {} {} {} {} {:016x} 0",
            hex(&short), size, pre[0], t.crt_time, t.crt_date, t.acc_date, t.wrt_time, t.wrt_date, fnv64(&[])
        ));
        gt.push(format!("G chain {} {}", pre[0], pre.iter().map(|c| c.to_string()).collect::<Vec<_>>().join(",")));
    }

    let vol = VolCfg {
        fmt: FormatArgs::default(),
        dev_size: geo.dev_size,
        class: VolClass::Fat32,
        bits: 32,
        bps: 512,
        cs: geo.cs(),
        clusters: geo.clusters,
        root_entries: 0,
        status_off: 0x41,
        reserved,
        spf: geo.spf,
        fats,
    };
    let mut cx = Ctx::new(id, "big", seed, vol, Cfg::new(true, false, ClockMode::Const));
    cx.step(Op::Raw(st.writes()));
    cx.h.comment(gt.join("\n"));
    if cx.step(Op::Mount).is_ok() {
        cx.step(Op::Stats);
        cx.step(Op::List(0));
        let f = cx.new_f();
        if cx.step(Op::CreateFile { d: 0, path: b"big volume file.bin".to_vec(), new: f }).is_ok() {
            let n = rng.range(2, 3) * cs + rng.below(3) * 7;
            let data = content(rng, n as usize);
            cx.step(Op::WriteAll { f, data });
            cx.step(Op::Flush(f));
            cx.step(Op::Seek { f, whence: Whence::Start, n: 0 });
            cx.step(Op::ReadAll(f));
            cx.step(Op::Extents(f));
            cx.step(Op::Stats);
            if rng.chance(1, 2) {
                cx.step(Op::Seek { f, whence: Whence::Start, n: cs as i64 + 1 });
                cx.step(Op::Truncate(f));
                cx.step(Op::Extents(f));
                cx.step(Op::Stats);
            }
            cx.step(Op::DropF(f));
        }
        if rng.chance(1, 2) {
            let d = cx.new_d();
            if cx.step(Op::CreateDir { d: 0, path: b"dir".to_vec(), new: d }).is_ok() {
                cx.step(Op::DropD(d));
            }
            cx.step(Op::Stats);
        }
        cx.step(Op::List(0));
        cx.step(Op::Remove { d: 0, path: b"big volume file.bin".to_vec() });
        cx.step(Op::Stats);
        cx.step(Op::Status);
        cx.step(Op::Unmount);
        // what a second session sees
        if !cx.dead && cx.step(Op::Mount).is_ok() {
            cx.step(Op::Stats);
            cx.step(Op::List(0));
            cx.step(Op::Unmount);
        }
    }
    cx.finish(sink);
}

pub fn run(tier: Tier, seed: u64, rng: &mut SplitMix64, n_override: Option<u64>, sink: &mut Sink) {
    let n = tier_count(tier, n_override, 40, 600);
    for i in 1..=n {
        let mut r = rng.fork();
        one(hist_id("big", seed, i), seed, i, &mut r, sink);
    }
}
