//! Scenario `big` (property C20): sparse devices of 4 GiB, 1 TiB + ε and 2 TiB − 512 B with 512-byte sectors, FAT32,
//! clusters of 4–32 KiB. The volumes come from the image builder, which writes ONLY the boot sector, its backup, the
//! FS-info sector, the touched FAT sectors and one root-directory sector (everything else is zero = free).
//! FS-info always carries a KNOWN free count (so `stats` never scans the table); its next-free hint is placed at
//! last−1 / last / last+1 (= clusters+2) / beyond / 0xFFFFFFFF / just below the 4 GiB or 1 TiB byte mark / 2.
//! A file `PREALLOC.BIN` owns a few clusters around the marks (and optionally the last cluster), so that allocation
//! lands beyond the marks.
//!
//! Extra ground truth: `G mark <4g|1t> <cluster>` = first cluster whose data lies at or beyond that byte offset;
//! `G hint <kind> <value|none>`; `G last <cluster> <free|taken>`.
use super::*;
use crate::clock::ClockMode;
use crate::imgbuild::{sfn_slot, Geo, Stamps, Store};
use crate::script::Whence;
use crate::tools::fnv64;
use crate::util::hex;

fn one(id: String, seed: u64, idx: u64, rng: &mut SplitMix64, sink: &mut Sink) {
    // (total sectors, allowed sectors per cluster)
    let (total, spcs): (u32, &[u32]) = match idx % 3 {
        0 => (8_388_608, &[8, 16, 32, 64]),                  // 4 GiB
        1 => ((1u32 << 31) + 2048 + 8 * rng.below(64) as u32, &[16, 32, 64]), // 1 TiB + ε
        _ => (u32::MAX, &[32, 64]),                           // 2 TiB − 512 B
    };
    // one volume in eight instead: 4 KiB sectors, one sector per cluster, the MAXIMAL number of clusters FAT32 allows
    // (0x0FFFFFF4, about 1 TiB): the cluster numbers 0x0FFFFFF0.. exist there, which the library never hands out and
    // hides when another implementation has used them
    let maxc = idx % 8 == 7;
    let spc = if maxc { 1 } else { *rng.pick(spcs) };
    let bps: u32 = if maxc { 4096 } else { 512 };
    let reserved = *rng.pick(&[32u32, 32, 9, 64]);
    let fats = if rng.chance(1, 6) { 1 } else { 2 };
    let mut geo = if maxc {
        let clusters = *rng.pick(&[0x0FFF_FFF4u32, 0x0FFF_FFF4, 0x0FFF_FFF3, 0x0FFF_FFF0, 0x0FFF_FFEF]);
        Geo::layout(32, bps, spc, reserved, fats, 0, clusters, 0, 0)
    } else {
        Geo::layout_total(512, spc, reserved, fats, total)
    };
    if fats == 2 && rng.chance(1, 6) {
        geo.mirror = false;
        geo.active = rng.below(2) as u32;
    }
    geo.volume_id = rng.next_u32();
    let cs = geo.cs() as u64;
    let last = geo.clusters + 1;
    let mark = |byte: u64| -> Option<u32> {
        if byte <= geo.data_off() || byte >= geo.cl_off(last) {
            return None;
        }
        Some(((byte - geo.data_off() + cs - 1) / cs) as u32 + 2)
    };
    let m4g = mark(1 << 32);
    let m1t = mark(1 << 40);
    // pre-allocated clusters
    let mut pre: Vec<u32> = Vec::new();
    let near: Option<u32> = match (m4g, m1t, rng.below(3)) {
        (_, Some(m), 0) => Some(m),
        (Some(m), _, 1) => Some(m),
        (Some(m), None, 0) => Some(m),
        _ => None,
    };
    if let Some(m) = near {
        pre.extend([m - 1, m, m + 1]);
    }
    let last_taken = rng.chance(1, 2);
    if last_taken {
        pre.push(last);
    }
    if rng.chance(1, 3) {
        pre.push(3);
    }
    // out of order on purpose
    if pre.len() > 1 && rng.chance(1, 2) {
        pre.reverse();
    }
    // `far`: directories get clusters beyond the 4 GiB mark (the hint points near the end of the volume), and entries
    // stored in them are written back; `root_high`: the root directory chain continues in a high cluster and its
    // first cluster is full, so new root entries land beyond the mark as well
    let far = m4g.is_some() && rng.chance(3, 5);
    let root_high: Option<u32> = if m4g.is_some() && rng.chance(1, 4) {
        let h = last - 3 - rng.below(50) as u32;
        if pre.contains(&h) { None } else { Some(h) }
    } else {
        None
    };
    let pick = if maxc {
        8 + rng.below(3)
    } else if far {
        rng.below(2)
    } else {
        rng.below(8)
    };
    let (hint_kind, hint): (&str, Option<u32>) = match pick {
        // maximal cluster count: just below / inside the cluster numbers the library treats as special
        8 => ("below-special", Some(0x0FFF_FFEE.min(last - 1))),
        9 => ("special", Some(0x0FFF_FFF0.min(last))),
        10 => ("last", Some(last)),
        0 => ("last-1", Some(last - 1)),
        1 => ("last", Some(last)),
        2 => ("last+1", Some(last + 1)),
        3 => ("beyond", Some(last + 2 + rng.below(100_000) as u32)),
        4 => ("none", None),
        5 => ("two", Some(2)),
        _ => match near {
            Some(m) => ("below-mark", Some(m - 2)),
            None => ("last-1", Some(last - 1)),
        },
    };
    let used = 1 + pre.len() as u32 + u32::from(root_high.is_some());
    let free = geo.clusters - used;
    let mut st = Store::default();
    geo.put_reserved(&mut st, Some(free), hint);
    let mut fat: BTreeMap<u32, u32> = BTreeMap::new();
    fat.insert(0, 0x0FFF_FF00 | geo.media as u32);
    fat.insert(1, 0x0FFF_FFFF);
    match root_high {
        Some(h) => {
            fat.insert(2, h);
            fat.insert(h, 0x0FFF_FFF8 + rng.below(8) as u32);
        }
        None => {
            fat.insert(2, 0x0FFF_FFF8 + rng.below(8) as u32);
        }
    }
    for (i, c) in pre.iter().enumerate() {
        let v = if i + 1 < pre.len() { pre[i + 1] } else { 0x0FFF_FFFF };
        fat.insert(*c, v | ((rng.below(16) as u32) << 28));
    }
    for copy in 0..fats {
        if geo.mirror || copy == geo.active {
            geo.put_fat(&mut st, copy, &fat);
        }
    }
    let mut gt: Vec<String> = Vec::new();
    gt.push(format!(
        "G geo bits=32 bps={} spc={} reserved={} fats={} spf={} root_entries=0 total_sectors={} clusters={} mirror={} active={} root_cluster=2 free={} fsinfo_free={} fsinfo_next={} label=none status=0 fat1={}",
        bps, spc, reserved, fats, geo.spf, geo.total_sectors, geo.clusters, geo.mirror as u8, geo.active, free, free,
        hint.map_or("none".to_string(), |h| h.to_string()), 0x0FFF_FFFFu32
    ));
    if let Some(m) = m4g {
        gt.push(format!("G mark 4g {}", m));
    }
    if let Some(m) = m1t {
        gt.push(format!("G mark 1t {}", m));
    }
    gt.push(format!("G hint {} {}", hint_kind, hint.map_or("none".to_string(), |h| h.to_string())));
    gt.push(format!("G last {} {}", last, if last_taken { "taken" } else { "free" }));
    {
        // root directory: PREALLOC.BIN (if any), and with `root_high` enough empty files to fill the first cluster
        let t = Stamps { crt_tenth: 0, crt_time: 0x6000, crt_date: 0x5021, acc_date: 0x5021, wrt_time: 0x6000, wrt_date: 0x5021 };
        let mut slots: Vec<u8> = Vec::new();
        let mut ents: Vec<String> = Vec::new();
        let mut ent = |short: &[u8; 11], size: u32, fc: u32, slots: &mut Vec<u8>| {
            slots.extend_from_slice(&sfn_slot(short, 0x20, 0, &t, fc, size, true));
            ents.push(format!(
                "G ent - - {} 32 {} {} 0 {} {} {} {} {} {:016x} 0",
                hex(short), size, fc, t.crt_time, t.crt_date, t.acc_date, t.wrt_time, t.wrt_date, fnv64(&[])
            ));
        };
        if !pre.is_empty() {
            // sizes are 32-bit: the file claims its full clusters unless that exceeds 4 GiB − 1
            let size = (pre.len() as u64 * cs).min(u32::MAX as u64) as u32;
            ent(b"PREALLOCBIN", size, pre[0], &mut slots);
        }
        if root_high.is_some() {
            let per_cluster = (cs / 32) as usize;
            let mut i = 0;
            while slots.len() / 32 < per_cluster {
                let name = format!("FILL{:04}BIN", i);
                let mut short = [b' '; 11];
                short.copy_from_slice(name.as_bytes());
                ent(&short, 0, 0, &mut slots);
                i += 1;
            }
        }
        if !slots.is_empty() {
            st.put(geo.cl_off(2), &slots);
        }
        gt.push(format!("G dir - {}", ents.len()));
        gt.extend(ents);
        if !pre.is_empty() {
            gt.push(format!("G chain {} {}", pre[0], pre.iter().map(|c| c.to_string()).collect::<Vec<_>>().join(",")));
        }
        if let Some(h) = root_high {
            gt.push(format!("G chain root 2,{}", h));
        }
    }

    let vol = VolCfg {
        fmt: FormatArgs::default(),
        dev_size: geo.dev_size,
        class: VolClass::Fat32,
        bits: 32,
        bps,
        cs: geo.cs(),
        clusters: geo.clusters,
        root_entries: 0,
        status_off: 0x41,
        reserved,
        spf: geo.spf,
        fats,
    };
    let mut cx = Ctx::new(id, "big", seed, vol, Cfg::new(true, false, ClockMode::Const));
    cx.step(Op::Raw(st.writes()));
    cx.h.comment(gt.join("\n"));
    if cx.step(Op::Mount).is_ok() {
        cx.step(Op::Stats);
        cx.step(Op::List(0));
        let f = cx.new_f();
        if cx.step(Op::CreateFile { d: 0, path: b"big volume file.bin".to_vec(), new: f }).is_ok() {
            let n = rng.range(2, 3) * cs + rng.below(3) * 7;
            let data = content(rng, n as usize);
            cx.step(Op::WriteAll { f, data });
            cx.step(Op::Flush(f));
            cx.step(Op::Seek { f, whence: Whence::Start, n: 0 });
            cx.step(Op::ReadAll(f));
            cx.step(Op::Extents(f));
            cx.step(Op::Stats);
            if rng.chance(1, 2) {
                cx.step(Op::Seek { f, whence: Whence::Start, n: cs as i64 + 1 });
                cx.step(Op::Truncate(f));
                cx.step(Op::Extents(f));
                cx.step(Op::Stats);
            }
            cx.step(Op::DropF(f));
            // empty the file through one handle, fill it again through a fresh one: the entry must not keep anything
            // of the old first cluster (its high word matters when the cluster number is >= 0x10000)
            if rng.chance(1, 2) {
                let f2 = cx.new_f();
                if cx.step(Op::OpenFile { d: 0, path: b"big volume file.bin".to_vec(), new: f2 }).is_ok() {
                    cx.step(Op::Truncate(f2));
                    cx.step(Op::Extents(f2));
                    cx.step(Op::DropF(f2));
                    cx.step(Op::Stats);
                    let f3 = cx.new_f();
                    if cx.step(Op::OpenFile { d: 0, path: b"big volume file.bin".to_vec(), new: f3 }).is_ok() {
                        let data = content(rng, cs as usize + 3);
                        cx.step(Op::WriteAll { f: f3, data });
                        cx.step(Op::Flush(f3));
                        cx.step(Op::Seek { f: f3, whence: Whence::Start, n: 0 });
                        cx.step(Op::ReadAll(f3));
                        cx.step(Op::Extents(f3));
                        cx.step(Op::DropF(f3));
                        cx.step(Op::Stats);
                    }
                }
            }
        }
        if far || root_high.is_some() {
            far_ops(&mut cx, rng, cs);
        }
        if rng.chance(1, 2) {
            let d = cx.new_d();
            if cx.step(Op::CreateDir { d: 0, path: b"dir".to_vec(), new: d }).is_ok() {
                cx.step(Op::DropD(d));
            }
            cx.step(Op::Stats);
        }
        cx.step(Op::List(0));
        cx.step(Op::Remove { d: 0, path: b"big volume file.bin".to_vec() });
        cx.step(Op::Stats);
        cx.step(Op::Status);
        cx.step(Op::Unmount);
        // what a second session sees
        if !cx.dead && cx.step(Op::Mount).is_ok() {
            cx.step(Op::Stats);
            cx.step(Op::List(0));
            if far || root_high.is_some() {
                for (dir, file) in [("far moved", "far moved/renamed inside.bin"), ("sub at top", "sub at top/deep.txt")] {
                    let d = cx.new_d();
                    if cx.step(Op::OpenDir { d: 0, path: dir.as_bytes().to_vec(), new: d }).is_ok() {
                        cx.step(Op::List(d));
                        cx.step(Op::DropD(d));
                    }
                    let f = cx.new_f();
                    if cx.step(Op::OpenFile { d: 0, path: file.as_bytes().to_vec(), new: f }).is_ok() {
                        cx.step(Op::ReadAll(f));
                        cx.step(Op::Extents(f));
                        cx.step(Op::DropF(f));
                    }
                }
                let d = cx.new_d();
                if cx.step(Op::OpenDir { d: 0, path: b"sub at top/..".to_vec(), new: d }).is_ok() {
                    cx.step(Op::DropD(d));
                }
                let f = cx.new_f();
                if cx.step(Op::OpenFile { d: 0, path: b"root file.txt".to_vec(), new: f }).is_ok() {
                    cx.step(Op::ReadAll(f));
                    cx.step(Op::DropF(f));
                }
            }
            cx.step(Op::Unmount);
        }
    }
    cx.finish(sink);
}

/// Directories (and, with a full first root cluster, root entries) beyond the 4 GiB mark, with entry write-backs.
fn far_ops(cx: &mut Ctx, rng: &mut SplitMix64, cs: u64) {
    let p = |s: &str| s.as_bytes().to_vec();
    let d = cx.new_d();
    if !cx.step(Op::CreateDir { d: 0, path: p("far"), new: d }).is_ok() {
        return;
    }
    cx.step(Op::DropD(d));
    // a file in the root too (its entry lies in the high root cluster when the first one is full)
    let f = cx.new_f();
    if cx.step(Op::CreateFile { d: 0, path: p("root file.txt"), new: f }).is_ok() {
        cx.step(Op::WriteAll { f, data: content(rng, 33) });
        cx.step(Op::DropF(f));
    }
    let f = cx.new_f();
    if cx.step(Op::CreateFile { d: 0, path: p("far/inside file.bin"), new: f }).is_ok() {
        let n = (cs + cs / 2) as usize;
        cx.step(Op::WriteAll { f, data: content(rng, n) });
        cx.step(Op::Flush(f));
        cx.step(Op::DropF(f));
    }
    // reopen + extend
    let f = cx.new_f();
    if cx.step(Op::OpenFile { d: 0, path: p("far/inside file.bin"), new: f }).is_ok() {
        cx.step(Op::Seek { f, whence: Whence::End, n: 0 });
        cx.step(Op::WriteAll { f, data: content(rng, 100) });
        cx.step(Op::DropF(f));
    }
    // truncate
    let f = cx.new_f();
    if cx.step(Op::OpenFile { d: 0, path: p("far/inside file.bin"), new: f }).is_ok() {
        cx.step(Op::Seek { f, whence: Whence::Start, n: cs as i64 + 5 });
        cx.step(Op::Truncate(f));
        cx.step(Op::Flush(f));
        cx.step(Op::SetModified { f, t: crate::script::Stamp { y: 2001, m: 2, d: 3, h: 4, mi: 5, s: 6, ms: 0 } });
        cx.step(Op::DropF(f));
    }
    cx.step(Op::Rename { d: 0, src: p("far/inside file.bin"), d2: 0, dst: p("far/renamed inside.bin") });
    // a directory inside, with a file; then it moves to the root (its `..` entry is rewritten in its own cluster)
    let d = cx.new_d();
    if cx.step(Op::CreateDir { d: 0, path: p("far/sub"), new: d }).is_ok() {
        cx.step(Op::DropD(d));
        let f = cx.new_f();
        if cx.step(Op::CreateFile { d: 0, path: p("far/sub/deep.txt"), new: f }).is_ok() {
            cx.step(Op::WriteAll { f, data: content(rng, 9) });
            cx.step(Op::DropF(f));
        }
    }
    cx.step(Op::Rename { d: 0, src: p("far"), d2: 0, dst: p("far moved") });
    cx.step(Op::Rename { d: 0, src: p("far moved/sub"), d2: 0, dst: p("sub at top") });
    let d = cx.new_d();
    if cx.step(Op::OpenDir { d: 0, path: p("far moved"), new: d }).is_ok() {
        cx.step(Op::List(d));
        cx.step(Op::DropD(d));
    }
    let f = cx.new_f();
    if cx.step(Op::OpenFile { d: 0, path: p("far moved/renamed inside.bin"), new: f }).is_ok() {
        cx.step(Op::ReadAll(f));
        cx.step(Op::Extents(f));
        cx.step(Op::DropF(f));
    }
    cx.step(Op::Stats);
}

pub fn run(tier: Tier, seed: u64, rng: &mut SplitMix64, n_override: Option<u64>, sink: &mut Sink) {
    let n = tier_count(tier, n_override, 40, 600);
    for i in 1..=n {
        let mut r = rng.fork();
        one(hist_id("big", seed, i), seed, i, &mut r, sink);
    }
}
