//! Scenario `dirty`: namespace / file I/O mixes with `status` after every operation, `forget` + `mount` + `status`
//! at random positions, and mount-time status bytes 0–3 planted with `raw` between format and mount.
use super::gen_ns::NsGen;
use super::*;
use crate::clock::ClockMode;
use crate::script::Whence;

fn file_op(g: &mut NsGen, rng: &mut SplitMix64) -> bool {
    let fs: Vec<u32> = g.cx.files.keys().copied().collect();
    if fs.is_empty() {
        return false;
    }
    let f = *rng.pick(&fs);
    let cs = g.cx.vol.cs as u64;
    let cap = (2 * cs + 1).min(12_000);
    match rng.below(10) {
        0..=1 => {
            let n = *rng.pick(&[0, 1, cs - 1, cs, cs + 1]);
            g.cx.step(Op::Seek { f, whence: Whence::Start, n: n.min(cap) as i64 });
        }
        2 => {
            g.cx.step(Op::Seek { f, whence: Whence::End, n: -(rng.below(3) as i64) });
        }
        3..=5 => {
            let len = (*rng.pick(&[0, 1, 7, cs - 1, cs, cs + 1, 2 * cs + 1])).min(cap) as usize;
            let data = content(rng, len);
            if rng.chance(1, 2) {
                g.cx.step(Op::Write { f, data });
            } else {
                g.cx.step(Op::WriteAll { f, data });
            }
        }
        6 => {
            g.cx.step(Op::Read { f, n: rng.below(cs + 2).min(cap) });
        }
        7 => {
            g.cx.step(Op::Truncate(f));
        }
        8 => {
            g.cx.step(Op::Flush(f));
        }
        _ => {
            g.cx.step(Op::Seek { f, whence: Whence::Start, n: 0 });
            g.cx.step(Op::ReadAll(f));
        }
    }
    true
}

fn random_history(id: String, seed: u64, cat: &Catalogue, rng: &mut SplitMix64, sink: &mut Sink) {
    let vol = if rng.chance(4, 5) { cat.pick_small_cluster(rng, 8192) } else { cat.pick(rng) };
    let mut cfg = Cfg::new(!rng.chance(1, 6), rng.chance(1, 8), ClockMode::Const);
    cfg.optorder = optorder_of(&id);
    let mut cx = Ctx::new(id, "dirty", seed, vol, cfg);
    cx.format();
    if rng.chance(2, 3) {
        // mount-time status byte: bit 0 = dirty, bit 1 = io error (sometimes with high bits set as well)
        let mut v = rng.below(4) as u8;
        if rng.chance(1, 8) {
            v |= 0x84;
        }
        let off = cx.vol.status_off;
        cx.step(Op::Raw(vec![(off, vec![v])]));
    }
    cx.auto = Some(Op::Status);
    cx.mount();
    let mut g = NsGen {
        cx,
        names: alphabet(rng),
        max_live: 3,
    };
    let target = rng.range(8, 50) as usize * 2;
    let mut guard = 0;
    while g.cx.h.n_ops() < target && !g.cx.dead && guard < 300 {
        guard += 1;
        if !g.cx.mounted {
            break;
        }
        match rng.below(100) {
            0..=7 => {
                // power cut: abandon the session (all handles are gone), mount again
                g.cx.step(Op::Forget);
                g.cx.mount();
            }
            8..=11 => {
                // orderly remount
                g.cx.drop_all_handles();
                g.cx.step(if rng.chance(1, 3) { Op::DropFs } else { Op::Unmount });
                g.cx.mount();
            }
            12..=40 => {
                if !file_op(&mut g, rng) {
                    g.op_create(rng, false);
                }
            }
            _ => {
                g.random_op(rng);
            }
        }
    }
    if g.cx.mounted {
        g.cx.closing_lists();
        if !g.cx.dead {
            g.cx.step(if rng.chance(1, 5) { Op::DropFs } else { Op::Unmount });
        }
        // what does the next mount see?
        if !g.cx.dead {
            g.cx.mount();
            g.cx.step(Op::Unmount);
        }
    }
    g.cx.finish(sink);
}

/// A clean session whose first change of the volume is an IN-PLACE write through a handle whose entry is already
/// waiting to be written back (a timestamp was set first, or — with access dates on — a read): nothing is allocated,
/// no directory is touched, so marking the volume dirty is entirely up to `File::write`.
fn stamp_then_write(id: String, seed: u64, cat: &Catalogue, rng: &mut SplitMix64, sink: &mut Sink) {
    let vol = cat.pick_small_cluster(rng, 4096);
    let accdate = rng.chance(1, 3);
    // a ticking clock, so that a read with access dates on changes the access date
    let mut cfg = Cfg::new(true, accdate, if accdate { ClockMode::Tick } else { ClockMode::Const });
    cfg.optorder = optorder_of(&id);
    let cs = vol.cs as usize;
    let mut cx = Ctx::new(id, "dirty", seed, vol, cfg);
    cx.format();
    cx.auto = Some(Op::Status);
    cx.mount();
    let size = 2 * cs + cs / 2;
    let f = cx.new_f();
    if cx.step(Op::CreateFile { d: 0, path: b"multi cluster.bin".to_vec(), new: f }).is_ok() {
        cx.step(Op::WriteAll { f, data: content(rng, size.min(10_000)) });
        cx.step(Op::DropF(f));
    }
    cx.step(Op::Unmount);
    cx.mount(); // clean
    let f = cx.new_f();
    if !cx.dead && cx.step(Op::OpenFile { d: 0, path: b"multi cluster.bin".to_vec(), new: f }).is_ok() {
        use crate::script::Stamp;
        let t = Stamp { y: 2001, m: 2, d: 3, h: 4, mi: 5, s: 6, ms: 0 };
        match rng.below(if accdate { 5 } else { 4 }) {
            0 => {
                cx.step(Op::SetModified { f, t });
            }
            1 => {
                cx.step(Op::SetCreated { f, t });
            }
            2 => {
                cx.step(Op::SetAccessed { f, y: 2002, m: 3, d: 4 });
            }
            3 => {
                cx.step(Op::SetCreated { f, t: t.clone() });
                cx.step(Op::SetModified { f, t });
            }
            _ => {
                // access dates on: the read makes the entry pending
                cx.step(Op::Read { f, n: 7 });
            }
        }
        // in place: inside the first cluster, across a cluster boundary, or inside the last cluster up to the old end
        let real = size.min(10_000) as i64;
        let (pos, len) = match rng.below(4) {
            0 => (3, 10),
            1 => (cs as i64 - 5, 10),
            2 => (real - 20, 20),
            _ => (cs as i64, cs.min(700) as i64),
        };
        cx.step(Op::Seek { f, whence: Whence::Start, n: pos });
        let data = content(rng, len as usize);
        if rng.chance(1, 2) {
            cx.step(Op::Write { f, data });
        } else {
            cx.step(Op::WriteAll { f, data });
        }
        if rng.chance(1, 2) {
            // append, still inside the last cluster
            cx.step(Op::Seek { f, whence: Whence::End, n: 0 });
            cx.step(Op::WriteAll { f, data: content(rng, 9) });
        }
        cx.step(Op::Flush(f));
        if rng.chance(1, 2) {
            cx.step(Op::DropF(f));
        }
        // power cut, and what the next mount reports
        cx.step(Op::Forget);
        if cx.mount().is_ok() {
            cx.closing_lists();
            if !cx.dead {
                cx.step(Op::Unmount);
            }
        }
    }
    cx.finish(sink);
}

pub fn run(tier: Tier, seed: u64, rng: &mut SplitMix64, n_override: Option<u64>, sink: &mut Sink) {
    let cat = Catalogue::build();
    let n = tier_count(tier, n_override, 260, 5200);
    for i in 1..=n {
        let mut r = rng.fork();
        random_history(hist_id("dirty", seed, i), seed, &cat, &mut r, sink);
    }
    // (appended, so that the numbered histories stay what they were)
    let extra = if n_override.is_some() { 0 } else { tier.pick(40, 800) };
    for k in 0..extra {
        let mut r = rng.fork();
        stamp_then_write(hist_id("dirty", seed, n + 1 + k), seed, &cat, &mut r, sink);
    }
}
