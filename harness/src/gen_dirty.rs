//! Scenario `dirty`: namespace / file I/O mixes with `status` after every operation, `forget` + `mount` + `status`
//! at random positions, and mount-time status bytes 0–3 planted with `raw` between format and mount.
use super::gen_ns::NsGen;
use super::*;
use crate::clock::ClockMode;
use crate::script::Whence;

fn file_op(g: &mut NsGen, rng: &mut SplitMix64) -> bool {
    let fs: Vec<u32> = g.cx.files.keys().copied().collect();
    if fs.is_empty() {
        return false;
    }
    let f = *rng.pick(&fs);
    let cs = g.cx.vol.cs as u64;
    let cap = (2 * cs + 1).min(12_000);
    match rng.below(10) {
        0..=1 => {
            let n = *rng.pick(&[0, 1, cs - 1, cs, cs + 1]);
            g.cx.step(Op::Seek { f, whence: Whence::Start, n: n.min(cap) as i64 });
        }
        2 => {
            g.cx.step(Op::Seek { f, whence: Whence::End, n: -(rng.below(3) as i64) });
        }
        3..=5 => {
            let len = (*rng.pick(&[0, 1, 7, cs - 1, cs, cs + 1, 2 * cs + 1])).min(cap) as usize;
            let data = content(rng, len);
            if rng.chance(1, 2) {
                g.cx.step(Op::Write { f, data });
            } else {
                g.cx.step(Op::WriteAll { f, data });
            }
        }
        6 => {
            g.cx.step(Op::Read { f, n: rng.below(cs + 2).min(cap) });
        }
        7 => {
            g.cx.step(Op::Truncate(f));
        }
        8 => {
            g.cx.step(Op::Flush(f));
        }
        _ => {
            g.cx.step(Op::Seek { f, whence: Whence::Start, n: 0 });
            g.cx.step(Op::ReadAll(f));
        }
    }
    true
}

fn random_history(id: String, seed: u64, cat: &Catalogue, rng: &mut SplitMix64, sink: &mut Sink) {
    let vol = if rng.chance(4, 5) { cat.pick_small_cluster(rng, 8192) } else { cat.pick(rng) };
    let cfg = Cfg::new(!rng.chance(1, 6), rng.chance(1, 8), ClockMode::Const);
    let mut cx = Ctx::new(id, "dirty", seed, vol, cfg);
    cx.format();
    if rng.chance(2, 3) {
        // mount-time status byte: bit 0 = dirty, bit 1 = io error (sometimes with high bits set as well)
        let mut v = rng.below(4) as u8;
        if rng.chance(1, 8) {
            v |= 0x84;
        }
        let off = cx.vol.status_off;
        cx.step(Op::Raw(vec![(off, vec![v])]));
    }
    cx.auto = Some(Op::Status);
    cx.mount();
    let mut g = NsGen {
        cx,
        names: alphabet(rng),
        max_live: 3,
    };
    let target = rng.range(8, 50) as usize * 2;
    let mut guard = 0;
    while g.cx.h.n_ops() < target && !g.cx.dead && guard < 300 {
        guard += 1;
        if !g.cx.mounted {
            break;
        }
        match rng.below(100) {
            0..=7 => {
                // power cut: abandon the session (all handles are gone), mount again
                g.cx.step(Op::Forget);
                g.cx.mount();
            }
            8..=11 => {
                // orderly remount
                g.cx.drop_all_handles();
                g.cx.step(if rng.chance(1, 3) { Op::DropFs } else { Op::Unmount });
                g.cx.mount();
            }
            12..=40 => {
                if !file_op(&mut g, rng) {
                    g.op_create(rng, false);
                }
            }
            _ => {
                g.random_op(rng);
            }
        }
    }
    if g.cx.mounted {
        g.cx.closing_lists();
        if !g.cx.dead {
            g.cx.step(if rng.chance(1, 5) { Op::DropFs } else { Op::Unmount });
        }
        // what does the next mount see?
        if !g.cx.dead {
            g.cx.mount();
            g.cx.step(Op::Unmount);
        }
    }
    g.cx.finish(sink);
}

pub fn run(tier: Tier, seed: u64, rng: &mut SplitMix64, n_override: Option<u64>, sink: &mut Sink) {
    let cat = Catalogue::build();
    let n = tier_count(tier, n_override, 260, 5200);
    for i in 1..=n {
        let mut r = rng.fork();
        random_history(hist_id("dirty", seed, i), seed, &cat, &mut r, sink);
    }
}
