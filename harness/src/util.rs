//! Token encoding shared by all suites (see /verif/ARCH.md).
use std::fmt::Write as _;

#[derive(Clone, Copy, Debug, PartialEq, Eq)]
pub enum Tier {
    Quick,
    Thorough,
}

impl Tier {
    pub fn parse(s: &str) -> Tier {
        match s {
            "thorough" => Tier::Thorough,
            _ => Tier::Quick,
        }
    }
    pub fn pick<T>(self, quick: T, thorough: T) -> T {
        match self {
            Tier::Quick => quick,
            Tier::Thorough => thorough,
        }
    }
}

pub fn hex(bytes: &[u8]) -> String {
    if bytes.is_empty() {
        return "-".into();
    }
    let mut s = String::with_capacity(bytes.len() * 2);
    for b in bytes {
        write!(s, "{:02x}", b).unwrap();
    }
    s
}

pub fn hex_str(s: &str) -> String {
    hex(s.as_bytes())
}

pub fn hex_units(units: &[u16]) -> String {
    if units.is_empty() {
        return "-".into();
    }
    let mut s = String::with_capacity(units.len() * 4);
    for u in units {
        write!(s, "{:04x}", u).unwrap();
    }
    s
}

pub fn hex_list(items: &[Vec<u8>]) -> String {
    if items.is_empty() {
        return "-".into();
    }
    items.iter().map(|b| hex(b)).collect::<Vec<_>>().join(",")
}

pub fn unhex(s: &str) -> Vec<u8> {
    if s == "-" {
        return Vec::new();
    }
    (0..s.len() / 2).map(|i| u8::from_str_radix(&s[2 * i..2 * i + 2], 16).unwrap()).collect()
}

pub fn opt<T: std::fmt::Display>(o: Option<T>) -> String {
    match o {
        Some(v) => v.to_string(),
        None => "none".into(),
    }
}

pub fn b(v: bool) -> &'static str {
    if v {
        "1"
    } else {
        "0"
    }
}

/// Run `f`, mapping a panic to `None`. The default panic hook is silenced by `main`.
pub fn catch<T>(f: impl FnOnce() -> T) -> Option<T> {
    std::panic::catch_unwind(std::panic::AssertUnwindSafe(f)).ok()
}
