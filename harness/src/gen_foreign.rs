//! Scenario `foreign` (properties C08, C10): volumes made by the independent image builder (`imgbuild.rs`), planted
//! with `raw`, followed by the ground truth (`G` lines), then read completely and mutated a little through the library.
use super::*;
use crate::clock::ClockMode;
use crate::imgbuild::{random_volume_kind, Built, Node, VolKind};
use crate::script::Whence;

fn vol_of(b: &Built) -> VolCfg {
    let g = &b.geo;
    VolCfg {
        fmt: FormatArgs::default(),
        dev_size: g.dev_size,
        class: match g.bits {
            12 => VolClass::Mid,
            16 => VolClass::Fat16,
            _ => VolClass::Fat32,
        },
        bits: g.bits,
        bps: g.bps,
        cs: g.cs(),
        clusters: g.clusters,
        root_entries: g.root_entries,
        status_off: if g.bits == 32 { 0x41 } else { 0x25 },
        reserved: g.reserved,
        spf: g.spf,
        fats: g.fats,
    }
}

/// Paths (lossy spelling) of entries whose long name holds an unpaired surrogate: found by no spelling.
fn surrogate_paths(n: &Node, path: &str, out: &mut Vec<String>) {
    for k in &n.kids {
        if let Some(l) = &k.long {
            if l.contains(crate::imgbuild::LONE) {
                let shown = crate::imgbuild::display_of(l);
                out.push(if path.is_empty() { shown } else { format!("{}/{}", path, shown) });
            }
        }
        if k.is_dir {
            if let Some(name) = &k.open_name {
                let p = if path.is_empty() { name.clone() } else { format!("{}/{}", path, name) };
                surrogate_paths(k, &p, out);
            }
        }
    }
}

/// (path, is_dir, size) of everything that can be addressed by name, parents before children.
fn addressable(n: &Node, path: &str, out: &mut Vec<(String, bool, usize)>) {
    for k in &n.kids {
        let Some(name) = &k.open_name else { continue };
        let p = if path.is_empty() { name.clone() } else { format!("{}/{}", path, name) };
        out.push((p.clone(), k.is_dir, k.content.len()));
        if k.is_dir {
            addressable(k, &p, out);
        }
    }
}

fn one(id: String, seed: u64, bits: u8, kind: VolKind, rng: &mut SplitMix64, sink: &mut Sink, fr: &mut BTreeMap<String, u64>) {
    let built = random_volume_kind(rng, bits, kind);
    for (k, v) in &built.freedoms {
        *fr.entry(k.clone()).or_default() += v;
    }
    let strict = !rng.chance(1, 10);
    let mut cfg = Cfg::new(strict, false, ClockMode::Const);
    cfg.optorder = optorder_of(&id);
    let mut cx = Ctx::new(id, "foreign", seed, vol_of(&built), cfg);
    cx.step(Op::Raw(built.writes.clone()));
    cx.h.comment(built.gtruth.join("\n"));
    if !cx.mount().is_ok() {
        *fr.entry("MOUNT_FAILED".into()).or_default() += 1;
        cx.finish(sink);
        return;
    }
    let mut objs = Vec::new();
    addressable(&built.root, "", &mut objs);
    // ---- read everything (the status first: it must report what the boot sector and FAT[1] say)
    cx.step(Op::Status);
    cx.step(Op::List(0));
    for (p, is_dir, _) in &objs {
        if *is_dir {
            let d = cx.new_d();
            if cx.step(Op::OpenDir { d: 0, path: p.clone().into_bytes(), new: d }).is_ok() {
                cx.step(Op::List(d));
                cx.step(Op::DropD(d));
            }
        } else {
            let f = cx.new_f();
            if cx.step(Op::OpenFile { d: 0, path: p.clone().into_bytes(), new: f }).is_ok() {
                cx.step(Op::ReadAll(f));
                cx.step(Op::Extents(f));
                if kind == VolKind::Max && p.starts_with("TOPFILE") {
                    // walk the chain from the start again, into its later clusters
                    let cs = built.geo.cs() as i64;
                    cx.step(Op::Seek { f, whence: Whence::Start, n: 2 * cs + 1 });
                    cx.step(Op::Read { f, n: 40 });
                    cx.step(Op::Seek { f, whence: Whence::End, n: -3 });
                    cx.step(Op::Read { f, n: 10 });
                }
                cx.step(Op::DropF(f));
            }
        }
    }
    // names with an unpaired surrogate: the comparison stops at the undecodable unit
    let mut lone = Vec::new();
    surrogate_paths(&built.root, "", &mut lone);
    for p in lone {
        let f = cx.new_f();
        if cx.step(Op::OpenFile { d: 0, path: p.into_bytes(), new: f }).is_ok() {
            cx.step(Op::DropF(f));
        }
    }
    // (a stored free count beyond the number of clusters is treated like a missing one: `stats` recounts and the
    // FS-info sector is legitimately rewritten at unmount - the exception C13 names)
    cx.step(Op::Stats);
    cx.step(Op::Status);
    cx.step(Op::LabelRoot);
    cx.step(Op::Label);
    // the read-only session ends here (unmount or dropfs must write nothing); mutations get a session of their own
    cx.step(if rng.chance(1, 2) { Op::Unmount } else { Op::DropFs });
    if cx.dead || !cx.mount().is_ok() {
        cx.finish(sink);
        return;
    }
    // ---- a few mutations
    let cs = built.geo.cs() as usize;
    if kind == VolKind::Max {
        // the only free clusters are among the topmost ones: growth links INTO cluster numbers >= 0xFF0 / 0xFFF0
        let f = cx.new_f();
        if cx.step(Op::OpenFile { d: 0, path: b"TOPFILE1.BIN".to_vec(), new: f }).is_ok() {
            cx.step(Op::Seek { f, whence: Whence::End, n: 0 });
            cx.step(Op::WriteAll { f, data: content(rng, cs + 5) });
            cx.step(Op::Seek { f, whence: Whence::Start, n: 0 });
            cx.step(Op::ReadAll(f));
            cx.step(Op::Extents(f));
            cx.step(Op::DropF(f));
        }
        // new names in the high directory until it has grown by a cluster
        for i in 0..9 {
            let f = cx.new_f();
            let p = format!("TOPDIR/a new long name number {}.txt", i);
            if cx.step(Op::CreateFile { d: 0, path: p.into_bytes(), new: f }).is_ok() {
                cx.step(Op::DropF(f));
            } else {
                break;
            }
        }
        let d = cx.new_d();
        if cx.step(Op::OpenDir { d: 0, path: b"TOPDIR".to_vec(), new: d }).is_ok() {
            cx.step(Op::List(d));
            cx.step(Op::DropD(d));
        }
        cx.step(Op::Stats);
        let f = cx.new_f();
        if cx.step(Op::OpenFile { d: 0, path: b"TOPFILE1.BIN".to_vec(), new: f }).is_ok() {
            cx.step(Op::Seek { f, whence: Whence::Start, n: cs as i64 + 3 });
            cx.step(Op::Truncate(f));
            cx.step(Op::Seek { f, whence: Whence::Start, n: 0 });
            cx.step(Op::ReadAll(f));
            cx.step(Op::DropF(f));
        }
        cx.step(Op::Remove { d: 0, path: b"TOPFILE2.BIN".to_vec() });
        cx.step(Op::Stats);
    }
    let dirs: Vec<&(String, bool, usize)> = objs.iter().filter(|o| o.1).collect();
    let files: Vec<&(String, bool, usize)> = objs.iter().filter(|o| !o.1).collect();
    let target_dir = if dirs.is_empty() { String::new() } else { rng.pick(&dirs).0.clone() };
    let new_path = if target_dir.is_empty() {
        "a new file with a long name.txt".to_string()
    } else {
        format!("{}/a new file with a long name.txt", target_dir)
    };
    let f = cx.new_f();
    if cx.step(Op::CreateFile { d: 0, path: new_path.into_bytes(), new: f }).is_ok() {
        let len = if cs <= 16 * 1024 { 2 * cs } else { 100 };
        let data = content(rng, len);
        cx.step(Op::WriteAll { f, data });
        cx.step(Op::DropF(f));
    }
    let mut gone: Vec<String> = Vec::new();
    if !files.is_empty() {
        let victim = rng.pick(&files).0.clone();
        cx.step(Op::Remove { d: 0, path: victim.clone().into_bytes() });
        gone.push(victim);
    }
    let rest: Vec<&&(String, bool, usize)> = files.iter().filter(|o| !gone.contains(&o.0)).collect();
    if !rest.is_empty() {
        let src = rng.pick(&rest).0.clone();
        let dst = match src.rfind('/') {
            Some(i) if rng.chance(1, 2) => format!("{}/renamed by the library.dat", &src[..i]),
            _ => "renamed by the library.dat".to_string(),
        };
        cx.step(Op::Rename { d: 0, src: src.clone().into_bytes(), d2: 0, dst: dst.into_bytes() });
        gone.push(src);
    }
    let rest: Vec<&&(String, bool, usize)> = files.iter().filter(|o| !gone.contains(&o.0)).collect();
    if !rest.is_empty() {
        let (p, _, size) = (**rng.pick(&rest)).clone();
        let f = cx.new_f();
        if cx.step(Op::OpenFile { d: 0, path: p.into_bytes(), new: f }).is_ok() {
            let at = if size == 0 { 0 } else { rng.below(size as u64 + 1) };
            cx.step(Op::Seek { f, whence: Whence::Start, n: at as i64 });
            cx.step(Op::Truncate(f));
            cx.step(Op::DropF(f));
        }
    }
    // ---- look again (driven by what the library reports now), then unmount
    cx.resync();
    cx.closing_lists();
    if !cx.dead {
        cx.step(Op::Unmount);
    }
    // ---- sometimes a third session that is abandoned, then what the next mount reports
    if !cx.dead && rng.chance(1, 3) && cx.mount().is_ok() {
        cx.step(Op::Status);
        let f = cx.new_f();
        if cx.step(Op::CreateFile { d: 0, path: b"abandoned.txt".to_vec(), new: f }).is_ok() {
            cx.step(Op::WriteAll { f, data: content(rng, 12) });
            if rng.chance(1, 2) {
                cx.step(Op::DropF(f));
            }
        }
        cx.step(Op::Forget);
        if cx.mount().is_ok() {
            cx.step(Op::Status);
            cx.step(Op::List(0));
            cx.step(Op::Unmount);
        }
    }
    cx.finish(sink);
}

pub fn run(tier: Tier, seed: u64, rng: &mut SplitMix64, n_override: Option<u64>, sink: &mut Sink) {
    let n = tier_count(tier, n_override, 300, 6000);
    let mut fr: BTreeMap<String, u64> = BTreeMap::new();
    for i in 1..=n {
        let mut r = rng.fork();
        let bits = match r.below(10) {
            0..=4 => 12,
            5..=7 => 16,
            _ => 32,
        };
        // maximal FAT12 / FAT16 volumes with chains through the topmost clusters; full FAT32 volumes
        let kind = match (bits, r.below(60)) {
            (12, 0..=5) => VolKind::Max,
            (16, 0..=1) => VolKind::Max,
            (32, 0..=8) => VolKind::Full,
            _ => VolKind::Normal,
        };
        one(hist_id("foreign", seed, i), seed, bits, kind, &mut r, sink, &mut fr);
    }
    let line: Vec<String> = fr.iter().map(|(k, v)| format!("{}={}", k, v)).collect();
    sink.comment(&format!("# freedoms volumes={} {}", n, line.join(" ")));
}
