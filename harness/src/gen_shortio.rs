//! Scenario `shortio` (properties C10, C03, C02, C01): the device makes LEGAL SHORT transfers — a `read` / `write`
//! never crosses a multiple of n of the absolute device offset (cfg `shortio=<n>`, n ∈ {1, 3, 7, 512, 4096}).
//! Every loop of the library that must tolerate short transfers is exercised: `read_exact` / `write_all` on the
//! device, the per-copy FAT writes of `DiskSlice` (a FAT12/16/32 entry that straddles an n-boundary in one copy but
//! not in the other), cluster zeroing, file data.
//!
//! The Lean model has no such device: the histories carry `nomodel=1` (the driver skips the model comparison, the
//! oracles still run on the implementation's own log and image).
//!
//! Volumes: two FAT copies (library-formatted, all widths), and builder-made volumes with two or three copies.
//! Operation mix of the `ns` generator plus file I/O on the open handles; every history ends with: drop handles,
//! list everything, stats, unmount, mount, list everything, read every file, unmount.
use super::gen_ns::NsGen;
use super::*;
use crate::clock::ClockMode;
use crate::imgbuild::{random_volume_kind, VolKind};
use crate::script::Whence;

fn file_op(g: &mut NsGen, rng: &mut SplitMix64) -> bool {
    let fs: Vec<u32> = g.cx.files.keys().copied().collect();
    if fs.is_empty() {
        return false;
    }
    let f = *rng.pick(&fs);
    let cs = g.cx.vol.cs as u64;
    let cap = (2 * cs + 1).min(9_000);
    match rng.below(10) {
        0..=1 => {
            let n = *rng.pick(&[0, 1, cs - 1, cs, cs + 1]);
            g.cx.step(Op::Seek { f, whence: Whence::Start, n: n.min(cap) as i64 });
        }
        2 => {
            g.cx.step(Op::Seek { f, whence: Whence::End, n: -(rng.below(3) as i64) });
        }
        3..=5 => {
            let len = (*rng.pick(&[1, 7, cs - 1, cs, cs + 1, 2 * cs + 1])).min(cap) as usize;
            let data = content(rng, len);
            // (the loops only: how much ONE call transfers is up to the device here)
            g.cx.step(Op::WriteAll { f, data });
        }
        6 | 7 => {
            g.cx.step(Op::ReadX { f, n: rng.below(cs + 2).min(cap) });
        }
        8 => {
            g.cx.step(Op::Truncate(f));
        }
        _ => {
            g.cx.step(Op::Seek { f, whence: Whence::Start, n: 0 });
            g.cx.step(Op::ReadAll(f));
        }
    }
    true
}

fn read_everything(cx: &mut Ctx) {
    cx.resync();
    for (_, path, _) in cx.all_files() {
        let f = cx.new_f();
        if cx.step(Op::OpenFile { d: 0, path: path.into_bytes(), new: f }).is_ok() {
            cx.step(Op::ReadAll(f));
            cx.step(Op::Extents(f));
            cx.step(Op::DropF(f));
        }
    }
}

fn one(id: String, seed: u64, cat: &Catalogue, rng: &mut SplitMix64, sink: &mut Sink) {
    let mut cfg = Cfg::new(true, false, ClockMode::Const);
    cfg.nomodel = true;
    let foreign = rng.chance(1, 5);
    let mut cx = if foreign {
        // builder-made volume: two or three FAT copies
        let built = loop {
            let bits = *rng.pick(&[12u8, 12, 16, 32]);
            let b = random_volume_kind(rng, bits, VolKind::Plain);
            if b.geo.fats >= 2 && b.geo.cs() <= 4096 {
                break b;
            }
        };
        cfg.shortio = Some(*rng.pick(&[3u64, 7, 512, 4096]));
        let g = &built.geo;
        let vol = VolCfg {
            fmt: FormatArgs::default(),
            dev_size: g.dev_size,
            class: match g.bits {
                12 => VolClass::Mid,
                16 => VolClass::Fat16,
                _ => VolClass::Fat32,
            },
            bits: g.bits,
            bps: g.bps,
            cs: g.cs(),
            clusters: g.clusters,
            root_entries: g.root_entries,
            status_off: if g.bits == 32 { 0x41 } else { 0x25 },
            reserved: g.reserved,
            spf: g.spf,
            fats: g.fats,
        };
        let mut cx = Ctx::new(id, "shortio", seed, vol, cfg);
        cx.step(Op::Raw(built.writes.clone()));
        cx.h.comment(built.gtruth.join("\n"));
        cx
    } else {
        let vol = loop {
            let v = cat.pick_small_cluster(rng, 4096);
            if v.fats == 2 {
                break v;
            }
        };
        cfg.shortio = Some(match v_class(&vol) {
            0 => *rng.pick(&[1u64, 3, 7, 7, 512, 4096]),
            1 => *rng.pick(&[3u64, 7, 512, 4096, 4096]),
            _ => *rng.pick(&[512u64, 4096, 4096, 7]),
        });
        let mut cx = Ctx::new(id, "shortio", seed, vol, cfg);
        cx.format();
        cx
    };
    cx.mount();
    let mut g = NsGen {
        cx,
        names: alphabet(rng),
        max_live: 3,
    };
    let target = g.cx.h.n_ops() + rng.range(8, 45) as usize;
    let mut guard = 0;
    while g.cx.h.n_ops() < target && !g.cx.dead && g.cx.mounted && guard < 300 {
        guard += 1;
        match rng.below(100) {
            0..=34 => {
                if !file_op(&mut g, rng) {
                    g.op_create(rng, false);
                }
            }
            35..=39 => {
                g.cx.step(Op::Stats);
            }
            _ => {
                g.random_op(rng);
            }
        }
    }
    if g.cx.mounted {
        g.cx.closing_lists();
        if !g.cx.dead {
            g.cx.step(Op::Unmount);
        }
        if !g.cx.dead && g.cx.mount().is_ok() {
            g.cx.closing_lists();
            read_everything(&mut g.cx);
            if !g.cx.dead {
                g.cx.step(Op::Unmount);
            }
        }
    }
    g.cx.finish(sink);
}

fn v_class(v: &VolCfg) -> u8 {
    match v.class {
        VolClass::Tiny => 0,
        VolClass::Mid | VolClass::Fat16 => 1,
        VolClass::Fat32 => 2,
    }
}

pub fn run(tier: Tier, seed: u64, rng: &mut SplitMix64, n_override: Option<u64>, sink: &mut Sink) {
    let cat = Catalogue::build();
    let n = tier_count(tier, n_override, 200, 4000);
    for i in 1..=n {
        let mut r = rng.fork();
        one(hist_id("shortio", seed, i), seed, &cat, &mut r, sink);
    }
}
