//! pure-probe suite `lfn` (see /verif/ARCH.md and lean/FatVerif/Model/LfnDriver.lean for the line formats).
//!
//! * `lfn.generate <alloc> <units> <chk>`: `fatfs::verif_dir::lfn_generate` (the crate's `LfnEntriesGenerator`).
//! * `lfn.readdir <alloc> <root|sub> <slots>`: the slots are planted in a FAT12 image (root directory region resp.
//!   a cluster-chain sub-directory); the answer comes from the PUBLIC API only: mount, `Dir::iter()`, every accessor
//!   of every `DirEntry`, `read_volume_label_from_root_dir_as_bytes`.
//! * `lfn.range <alloc> <slots>`: `offset_range / 32` of every entry, observed through `Dir::remove`.
use crate::rng::SplitMix64;
use crate::util::{catch, hex, hex_list, hex_str, hex_units, Tier};
use fatfs::{FatType, FileSystem, FormatVolumeOptions, FsOptions, StdIoWrapper};
use std::io::{Cursor, Write};

const ALLOC: bool = cfg!(feature = "alloc");
const SECTOR: usize = 512;
const ROOT_ENTRIES: usize = 64;
const IMG_SECTORS: usize = 256;

type Slot = [u8; 32];

fn alloc_flag() -> &'static str {
    if ALLOC {
        "1"
    } else {
        "0"
    }
}

/// `lfn_checksum` (input generation only; the implementation computes its own)
fn sfn_chk(name: &[u8]) -> u8 {
    let mut c: u8 = 0;
    for b in &name[..11] {
        c = (c << 7).wrapping_add(c >> 1).wrapping_add(*b);
    }
    c
}

// ---------------------------------------------------------------------------------------------------------------
// image
// ---------------------------------------------------------------------------------------------------------------

struct Img {
    base: Vec<u8>,
    data: Vec<u8>,
    fat_off: usize,
    fat_len: usize,
    fats: usize,
    root_off: usize,
    data_off: usize,
    dirty_root: usize,
    dirty_fat: usize,
    dirty_data: usize,
}

impl Img {
    fn new() -> Img {
        let mut data = vec![0_u8; IMG_SECTORS * SECTOR];
        {
            let mut io = StdIoWrapper::new(Cursor::new(&mut data[..]));
            let opts = FormatVolumeOptions::new()
                .fat_type(FatType::Fat12)
                .bytes_per_sector(SECTOR as u16)
                .bytes_per_cluster(SECTOR as u32)
                .max_root_dir_entries(ROOT_ENTRIES as u16)
                .total_sectors(IMG_SECTORS as u32);
            fatfs::format_volume(&mut io, opts).expect("format");
        }
        let le16 = |o: usize| usize::from(data[o]) | (usize::from(data[o + 1]) << 8);
        assert_eq!(le16(11), SECTOR);
        assert_eq!(usize::from(data[13]), 1);
        let reserved = le16(14);
        let fats = usize::from(data[16]);
        assert_eq!(le16(17), ROOT_ENTRIES);
        let spf = le16(22);
        let fat_off = reserved * SECTOR;
        let fat_len = spf * SECTOR;
        let root_off = fat_off + fats * fat_len;
        let data_off = root_off + ROOT_ENTRIES * 32;
        // the formatter may have written a volume-label slot: the base image has an EMPTY root directory
        for x in &mut data[root_off..data_off] {
            *x = 0;
        }
        Img { base: data.clone(), data, fat_off, fat_len, fats, root_off, data_off, dirty_root: 0, dirty_fat: 0, dirty_data: 0 }
    }

    fn restore(&mut self) {
        let (r, n) = (self.root_off, self.dirty_root);
        self.data[r..r + n].copy_from_slice(&self.base[r..r + n]);
        for k in 0..self.fats {
            let o = self.fat_off + k * self.fat_len;
            let n = self.dirty_fat;
            self.data[o..o + n].copy_from_slice(&self.base[o..o + n]);
        }
        let (d, n) = (self.data_off, self.dirty_data);
        self.data[d..d + n].copy_from_slice(&self.base[d..d + n]);
        self.dirty_root = 0;
        self.dirty_fat = 0;
        self.dirty_data = 0;
    }

    fn set_fat12(&mut self, cluster: usize, value: usize) {
        for k in 0..self.fats {
            let o = self.fat_off + k * self.fat_len + cluster + cluster / 2;
            let (b0, b1) = (self.data[o], self.data[o + 1]);
            if cluster % 2 == 0 {
                self.data[o] = (value & 0xFF) as u8;
                self.data[o + 1] = (b1 & 0xF0) | ((value >> 8) & 0x0F) as u8;
            } else {
                self.data[o] = (b0 & 0x0F) | ((value & 0x0F) << 4) as u8;
                self.data[o + 1] = (value >> 4) as u8;
            }
        }
        self.dirty_fat = self.dirty_fat.max(cluster + cluster / 2 + 2);
    }

    /// slots at the start of the root directory region, the rest zero
    fn plant_root(&mut self, slots: &[Slot]) {
        self.restore();
        assert!(slots.len() <= ROOT_ENTRIES);
        for (i, s) in slots.iter().enumerate() {
            let o = self.root_off + 32 * i;
            self.data[o..o + 32].copy_from_slice(s);
        }
        self.dirty_root = slots.len() * 32;
    }

    /// root = one directory entry `D` → cluster chain 2,3,… holding the slots (rest of the last cluster zero)
    fn plant_sub(&mut self, slots: &[Slot]) {
        self.restore();
        let mut d: Slot = [0; 32];
        d[..11].copy_from_slice(b"D          ");
        d[11] = 0x10;
        d[26] = 2;
        let o = self.root_off;
        self.data[o..o + 32].copy_from_slice(&d);
        self.dirty_root = 32;
        let clusters = ((slots.len() * 32 + SECTOR - 1) / SECTOR).max(1);
        for c in 0..clusters {
            let next = if c + 1 == clusters { 0xFFF } else { 2 + c + 1 };
            self.set_fat12(2 + c, next);
        }
        for (i, s) in slots.iter().enumerate() {
            let o = self.data_off + 32 * i;
            self.data[o..o + 32].copy_from_slice(s);
        }
        self.dirty_data = clusters * SECTOR;
    }
}

// ---------------------------------------------------------------------------------------------------------------
// the implementation's answer
// ---------------------------------------------------------------------------------------------------------------

fn entry_token<IO, TP, OCC>(e: &fatfs::DirEntry<'_, IO, TP, OCC>) -> String
where
    IO: fatfs::ReadWriteSeek,
    TP: fatfs::TimeProvider,
    OCC: fatfs::OemCpConverter,
{
    let short = hex(e.short_file_name_as_bytes());
    let attrs = e.attributes().bits();
    let (is_dir, is_file) = (e.is_dir(), e.is_file());
    let len = e.len();
    let c = e.created();
    let a = e.accessed();
    let m = e.modified();
    let units = match e.long_file_name_as_ucs2_units() {
        Some(u) => hex_units(u),
        None => "-".to_string(),
    };
    #[cfg(feature = "alloc")]
    let (fname, sname) = (hex_str(&e.file_name()), hex_str(&e.short_file_name()));
    #[cfg(not(feature = "alloc"))]
    let (fname, sname) = ("-".to_string(), "-".to_string());
    format!(
        "{}:{}:{}{}:{}:{}.{}.{}.{}.{}.{}.{}:{}.{}.{}:{}.{}.{}.{}.{}.{}.{}:{}:{}:{}",
        short,
        attrs,
        u8::from(is_dir),
        u8::from(is_file),
        len,
        c.date.year,
        c.date.month,
        c.date.day,
        c.time.hour,
        c.time.min,
        c.time.sec,
        c.time.millis,
        a.year,
        a.month,
        a.day,
        m.date.year,
        m.date.month,
        m.date.day,
        m.time.hour,
        m.time.min,
        m.time.sec,
        m.time.millis,
        units,
        fname,
        sname
    )
}

/// mount the image, list the directory, query every accessor
fn list(img: &mut [u8], sub: bool) -> Result<(Vec<String>, String), String> {
    let fs = FileSystem::new(Cursor::new(img), FsOptions::new()).map_err(|e| format!("ERR {}", fatfs::verif::error_code(&e)))?;
    let root = fs.root_dir();
    let dir = if sub { root.open_dir("D").map_err(|e| format!("ERR {}", fatfs::verif::error_code(&e)))? } else { root };
    let mut toks = Vec::new();
    for r in dir.iter() {
        match r {
            Ok(e) => toks.push(entry_token(&e)),
            Err(e) => return Err(format!("ERR {}", fatfs::verif::error_code(&e))),
        }
    }
    let vol = if sub {
        "-".to_string()
    } else {
        match fs.read_volume_label_from_root_dir_as_bytes() {
            Ok(Some(n)) => hex(&n),
            Ok(None) => "none".to_string(),
            Err(e) => return Err(format!("ERR {}", fatfs::verif::error_code(&e))),
        }
    };
    Ok((toks, vol))
}

fn slots_arg(slots: &[Slot]) -> String {
    hex_list(&slots.iter().map(|s| s.to_vec()).collect::<Vec<_>>())
}

fn emit_readdir(out: &mut dyn Write, img: &mut Img, slots: &[Slot], sub: bool) {
    if sub {
        img.plant_sub(slots);
    } else {
        img.plant_root(slots);
    }
    let res = catch(|| list(&mut img.data[..], sub));
    let rhs = match res {
        None => "PANIC".to_string(),
        Some(Err(e)) => e,
        Some(Ok((toks, vol))) => {
            let body = if toks.is_empty() { "-".to_string() } else { toks.join(";") };
            format!("{} {} {}", toks.len(), body, vol)
        }
    };
    writeln!(out, "P lfn.readdir {} {} {} => {}", alloc_flag(), if sub { "sub" } else { "root" }, slots_arg(slots), rhs).unwrap();
}

fn emit_both(out: &mut dyn Write, img: &mut Img, slots: &[Slot]) {
    emit_readdir(out, img, slots, false);
    emit_readdir(out, img, slots, true);
}

/// `offset_range / 32` of each entry, via `Dir::remove` on a fresh copy of the image per entry
fn emit_range(out: &mut dyn Write, img: &mut Img, slots: &[Slot]) {
    img.plant_root(slots);
    let names: Option<Result<Vec<Vec<u8>>, String>> = catch(|| {
        let fs = FileSystem::new(Cursor::new(&mut img.data[..]), FsOptions::new()).map_err(|e| format!("ERR {}", fatfs::verif::error_code(&e)))?;
        let mut v = Vec::new();
        for r in fs.root_dir().iter() {
            match r {
                Ok(e) => v.push(e.short_file_name_as_bytes().to_vec()),
                Err(e) => return Err(format!("ERR {}", fatfs::verif::error_code(&e))),
            }
        }
        Ok(v)
    });
    let rhs = match names {
        None => "PANIC".to_string(),
        Some(Err(e)) => e,
        Some(Ok(names)) => {
            let mut toks = Vec::new();
            for n in &names {
                let mut copy = img.data.clone();
                let name = String::from_utf8_lossy(n).to_string();
                let r = catch(|| {
                    let fs = FileSystem::new(Cursor::new(&mut copy[..]), FsOptions::new()).map_err(|e| fatfs::verif::error_code(&e))?;
                    let r = fs.root_dir().remove(&name).map_err(|e| fatfs::verif::error_code(&e));
                    drop(fs);
                    r
                });
                match r {
                    None => toks.push("PANIC".to_string()),
                    Some(Err(c)) => toks.push(format!("ERR{}", c)),
                    Some(Ok(())) => {
                        let changed: Vec<usize> = (0..slots.len())
                            .filter(|i| {
                                let o = img.root_off + 32 * i;
                                copy[o] == 0xE5 && img.data[o] != 0xE5
                            })
                            .collect();
                        if changed.is_empty() {
                            toks.push("none".to_string());
                        } else {
                            let (lo, hi) = (changed[0], changed[changed.len() - 1] + 1);
                            if hi - lo == changed.len() {
                                toks.push(format!("{}:{}", lo, hi));
                            } else {
                                toks.push(format!("gap{}:{}", lo, hi));
                            }
                        }
                    }
                }
            }
            if toks.is_empty() {
                "-".to_string()
            } else {
                toks.join(",")
            }
        }
    };
    writeln!(out, "P lfn.range {} {} => {}", alloc_flag(), slots_arg(slots), rhs).unwrap();
}

fn emit_generate(out: &mut dyn Write, units: &[u16], chk: u8) {
    let r = catch(|| fatfs::verif_dir::lfn_generate(units, chk));
    let rhs = match r {
        None => "PANIC".to_string(),
        Some(slots) => hex_list(&slots.iter().map(|s| s.to_vec()).collect::<Vec<_>>()),
    };
    writeln!(out, "P lfn.generate {} {} {} => {}", alloc_flag(), hex_units(units), chk, rhs).unwrap();
}

// ---------------------------------------------------------------------------------------------------------------
// slot builders
// ---------------------------------------------------------------------------------------------------------------

fn lfn_slot(order: u8, chk: u8, units: &[u16; 13]) -> Slot {
    let mut s: Slot = [0; 32];
    s[0] = order;
    let offs = [1, 3, 5, 7, 9, 14, 16, 18, 20, 22, 24, 28, 30];
    for (u, o) in units.iter().zip(offs.iter()) {
        s[*o] = (*u & 0xFF) as u8;
        s[*o + 1] = (*u >> 8) as u8;
    }
    s[11] = 0x0F;
    s[13] = chk;
    s
}

fn sfn_slot(name: &[u8; 11], attr: u8) -> Slot {
    let mut s: Slot = [0; 32];
    s[..11].copy_from_slice(name);
    s[11] = attr;
    s
}

fn rich_sfn(rng: &mut SplitMix64, name: &[u8; 11], attr: u8) -> Slot {
    let mut s = sfn_slot(name, attr);
    for i in 12..32 {
        s[i] = if rng.chance(1, 3) { *rng.pick(&[0_u8, 0xFF, 0x18, 0x08, 0x10, 0x21, 199, 200, 99, 100]) } else { rng.below(256) as u8 };
    }
    s
}

const UNIT_POOL: [u16; 24] = [
    0x0041, 0x0061, 0x007A, 0x0020, 0x002E, 0x0000, 0xFFFF, 0xFFFE, 0x0001, 0x00E9, 0x0130, 0x017F, 0x4E2D, 0xD7FF, 0xD800, 0xDBFF,
    0xDC00, 0xDFFF, 0xE000, 0xFFFD, 0x2028, 0x0031, 0x005C, 0x002F,
];

fn rand_unit(rng: &mut SplitMix64) -> u16 {
    match rng.below(10) {
        0..=3 => *rng.pick(&UNIT_POOL),
        4..=7 => rng.range(0x61, 0x7A) as u16,
        _ => rng.below(65536) as u16,
    }
}

fn rand_units13(rng: &mut SplitMix64) -> [u16; 13] {
    let mut u = [0_u16; 13];
    for x in &mut u {
        *x = rand_unit(rng);
    }
    // sometimes a terminator + padding tail
    if rng.chance(1, 3) {
        let k = rng.below(13) as usize;
        u[k] = 0;
        for x in &mut u[k + 1..] {
            *x = 0xFFFF;
        }
        // a name ending in U+FFFF right before the terminator is the former F12 shape
        if k > 0 && u[k - 1] == 0xFFFF && !rng.chance(1, 64) {
            u[k - 1] = 0x62;
        }
    } else if u[12] == 0xFFFF && !rng.chance(1, 64) {
        u[12] = 0x63;
    }
    u
}

fn rand_name_units(rng: &mut SplitMix64, len: usize) -> Vec<u16> {
    (0..len)
        .map(|_| match rng.below(8) {
            0 => *rng.pick(&[0x00E9_u16, 0x4E2D, 0xD83D, 0xDE00, 0xFFFD, 0xFFFE]),
            _ => rng.range(0x61, 0x7A) as u16,
        })
        .collect()
}

fn rand_sfn_name(rng: &mut SplitMix64) -> [u8; 11] {
    let mut n = *b"           ";
    match rng.below(12) {
        0 => {
            for b in &mut n {
                *b = rng.below(256) as u8;
            }
            if n[0] == 0 || n[0] == 0xE5 {
                n[0] = b'Q';
            }
        }
        1 => {
            n[0] = 0x05;
            n[1] = b'A';
        }
        2 => {
            n = *b".          ";
        }
        3 => {
            n = *b"..         ";
        }
        4 => {
            // empty base, extension only / all blanks
            if rng.chance(1, 2) {
                n[8] = b'X';
            }
        }
        _ => {
            let bl = rng.range(1, 8) as usize;
            for b in &mut n[..bl] {
                *b = *rng.pick(b"ABCDEFGHIJKLMNOPQRSTUVWXYZ0123456789_~\x80\xE5 ");
            }
            if n[0] == b' ' || n[0] == 0xE5 {
                n[0] = b'K';
            }
            let el = rng.below(4) as usize;
            for b in &mut n[8..8 + el] {
                *b = *rng.pick(b"ABCXYZ019~\xFF ");
            }
        }
    }
    n
}

/// the slots of a complete run for `units` + checksum, through the crate's own generator
fn gen_run(units: &[u16], chk: u8) -> Vec<Slot> {
    fatfs::verif_dir::lfn_generate(units, chk)
}

// ---------------------------------------------------------------------------------------------------------------
// streams
// ---------------------------------------------------------------------------------------------------------------

fn stream_generate(tier: Tier, rng: &mut SplitMix64, out: &mut dyn Write) {
    let reps = tier.pick(2, 12);
    for len in 0..=260_usize {
        for rep in 0..reps {
            let mut units: Vec<u16> = (0..len).map(|_| rand_unit(rng)).collect();
            if rep == 0 {
                // plain ASCII, last unit good
                units = (0..len).map(|i| 0x61 + (i % 26) as u16).collect();
            } else if rep == 1 && len > 0 {
                let k = rng.below(len as u64) as usize;
                units[len - 1] = *rng.pick(&[0_u16, 0xFFFF, 0x0041]);
                units[k] = *rng.pick(&[0_u16, 0xFFFF, 0xD800, 0xDC00]);
            }
            let chk = match rep {
                0 => 0,
                1 => 255,
                _ => rng.below(256) as u8,
            };
            emit_generate(out, &units, chk);
        }
    }
    // names that end in dots / spaces are stored verbatim, by every build (no rng use: later cases stay what they were)
    for name in ["report.", "notes ", "v1.2..", "a. .", ".", "..", " ", "  ", "x  ", "Trailing Dot.txt.", "abcdefghijkl.", "abcdefghijklm.", "abcdefghijklm ", "abcdefghijklmn. ", "abcdefghijklmnopqrstuvwxy.", "abcdefghijklmnopqrstuvwxyz "] {
        let units: Vec<u16> = name.encode_utf16().collect();
        emit_generate(out, &units, 0x5A);
    }
    for len in [1usize, 12, 13, 14, 25, 26, 27, 254, 255] {
        for tail in [0x2E_u16, 0x20] {
            let mut units: Vec<u16> = (0..len).map(|i| 0x61 + (i % 26) as u16).collect();
            units[len - 1] = tail;
            emit_generate(out, &units, 3);
            if len > 1 {
                units[len - 2] = if tail == 0x2E { 0x20 } else { 0x2E };
                emit_generate(out, &units, 4);
            }
        }
    }
    // one over-long input per build: the fixed buffer indexes out of range (model predicts the panic), the Vec grows
    let units: Vec<u16> = (0..261).map(|i| 0x41 + (i % 26) as u16).collect();
    emit_generate(out, &units, 7);
    let units: Vec<u16> = (0..300).map(|i| 0x41 + (i % 26) as u16).collect();
    emit_generate(out, &units, 9);
}

const ORDERS: [u8; 11] = [0x00, 0x01, 0x02, 0x03, 0x41, 0x42, 0x43, 0x14, 0x54, 0x55, 0xE5];

fn pattern_units(pos: usize, terminate: bool) -> [u16; 13] {
    let mut u = [0x61 + pos as u16; 13];
    u[12] = 0x30 + pos as u16;
    if terminate {
        u[3] = 0;
        for x in &mut u[4..] {
            *x = 0xFFFF;
        }
    }
    u
}

/// exhaustive order/flag/checksum patterns for runs of ≤ 3 long-name slots before a short entry
fn stream_patterns(tier: Tier, rng: &mut SplitMix64, img: &mut Img, out: &mut dyn Write) {
    let name = *b"PATTERN TXT";
    let good = sfn_chk(&name);
    let bad = good.wrapping_add(1);
    let sfn = sfn_slot(&name, 0x20);
    let next = sfn_slot(b"NEXT       ", 0x20);
    let mut deleted = lfn_slot(0xE5, good, &pattern_units(7, false));
    deleted[1] = 0x44;
    let abandoned = [lfn_slot(0x44, good, &[0x58; 13]), lfn_slot(0x03, good, &[0x59; 13])];
    let mut count = 0_u64;
    for k in 0..=3_usize {
        let n_orders = ORDERS.len().pow(k as u32);
        for oi in 0..n_orders {
            for cm in 0..(1_usize << k) {
                let mut run: Vec<Slot> = Vec::new();
                let mut x = oi;
                for pos in 0..k {
                    let order = ORDERS[x % ORDERS.len()];
                    x /= ORDERS.len();
                    let chk = if (cm >> pos) & 1 == 0 { good } else { bad };
                    run.push(lfn_slot(order, chk, &pattern_units(pos, pos == 0)));
                }
                // variants: plain / deleted slot inside / preceded by an abandoned longer run / both
                for variant in 0..4_usize {
                    count += 1;
                    // quick tier: everything for ≤ 2 slots; 3-slot patterns with bad checksums and variants subsampled
                    if tier == Tier::Quick && k == 3 && (variant != 0 || cm != 0) && !rng.chance(1, 8) {
                        continue;
                    }
                    let mut slots: Vec<Slot> = Vec::new();
                    if variant & 2 != 0 {
                        slots.extend_from_slice(&abandoned);
                    }
                    for (pos, s) in run.iter().enumerate() {
                        if variant & 1 != 0 && pos == (k + 1) / 2 {
                            slots.push(deleted);
                        }
                        slots.push(*s);
                    }
                    if variant & 1 != 0 && k <= 1 {
                        if k == 0 {
                            slots.push(deleted);
                        }
                    }
                    slots.push(sfn);
                    slots.push(next);
                    let sub = match tier {
                        Tier::Quick => count % 4 == 0,
                        Tier::Thorough => true,
                    };
                    emit_readdir(out, img, &slots, false);
                    if sub {
                        emit_readdir(out, img, &slots, true);
                    }
                }
            }
        }
    }
}

/// every value of every byte of one slot in context (valid 2-slot run + short entry + another short entry)
fn stream_byte_sweep(tier: Tier, img: &mut Img, out: &mut dyn Write) {
    let name = *b"SWEEP   BIN";
    let good = sfn_chk(&name);
    let mut units: Vec<u16> = (0..20).map(|i| 0x61 + i as u16).collect();
    units[19] = 0x7A;
    let run = gen_run(&units, good);
    assert_eq!(run.len(), 2);
    let mut sfn = sfn_slot(&name, 0x20);
    sfn[12] = 0x18;
    sfn[13] = 150;
    sfn[14..20].copy_from_slice(&[0x6F, 0x7B, 0x5A, 0x51, 0x5A, 0x51]);
    sfn[22..26].copy_from_slice(&[0x6F, 0x7B, 0x5A, 0x51]);
    sfn[28] = 0x39;
    sfn[29] = 0x30;
    let next = sfn_slot(b"NEXT       ", 0x10);
    let base = vec![run[0], run[1], sfn, next];
    let targets: &[usize] = match tier {
        Tier::Quick => &[1, 2],
        Tier::Thorough => &[0, 1, 2],
    };
    for &t in targets {
        for j in 0..32 {
            for v in 0..=255_u8 {
                let mut slots = base.clone();
                slots[t][j] = v;
                emit_readdir(out, img, &slots, (usize::from(v) + j) % 2 == 1);
            }
        }
    }
}

/// one random directory of 1–40 slots from a weighted alphabet of mostly valid material
fn soup(rng: &mut SplitMix64) -> Vec<Slot> {
    let target = rng.range(1, 40) as usize;
    let mut slots: Vec<Slot> = Vec::new();
    while slots.len() < target {
        let name = rand_sfn_name(rng);
        let chk = sfn_chk(&name);
        let attr = *rng.pick(&[0x20_u8, 0x20, 0x20, 0x10, 0x00, 0x01, 0x27, 0x30, 0x16, 0x80 | 0x20, 0x40 | 0x10]);
        match rng.below(100) {
            // complete run + short entry
            0..=29 => {
                let len = match rng.below(6) {
                    0 => *rng.pick(&[1_usize, 12, 13, 14, 25, 26, 27]),
                    _ => rng.range(1, 30) as usize,
                };
                let mut units = rand_name_units(rng, len);
                if rng.chance(1, 200) {
                    units[len - 1] = *rng.pick(&[0xFFFF_u16, 0]);
                }
                let mut run = gen_run(&units, chk);
                // mutate the run
                match rng.below(14) {
                    0 => {
                        let i = rng.below(run.len() as u64) as usize;
                        run[i][13] = run[i][13].wrapping_add(1);
                    }
                    1 => {
                        let i = rng.below(run.len() as u64) as usize;
                        run[i][0] = *rng.pick(&[0x01_u8, 0x41, 0x02, 0x42, 0x54, 0x55, 0x40, 0x60, 0x81, 0xC1, 0x21]);
                    }
                    2 => {
                        let i = rng.below(run.len() as u64) as usize;
                        run.remove(i);
                    }
                    3 => {
                        let i = rng.below(run.len() as u64) as usize;
                        let s = run[i];
                        run.insert(i, s);
                    }
                    4 => {
                        let i = rng.below(run.len() as u64) as usize;
                        run[i][0] = 0xE5;
                    }
                    5 => {
                        let i = rng.below(run.len() as u64) as usize;
                        let j = 1 + rng.below(31) as usize;
                        run[i][j] = rng.below(256) as u8;
                    }
                    6 => {
                        // a longer abandoned run directly before (F18 shape)
                        let n = rng.range(2, 5) as u8;
                        let mut pre = vec![lfn_slot(0x40 | n, chk, &rand_units13(rng))];
                        if rng.chance(1, 2) {
                            pre.push(lfn_slot(n - 1, chk, &rand_units13(rng)));
                        }
                        pre.extend_from_slice(&run);
                        run = pre;
                    }
                    _ => {}
                }
                slots.extend_from_slice(&run);
                slots.push(rich_sfn(rng, &name, attr));
            }
            // hand-made run material
            30..=49 => {
                let k = rng.range(1, 4) as usize;
                for i in 0..k {
                    let order = match rng.below(6) {
                        0 => *rng.pick(&[0x41_u8, 0x42, 0x43, 0x01, 0x02, 0x03, 0x14, 0x54, 0x55, 0x5F, 0x40, 0x20, 0x81, 0xFF]),
                        _ => {
                            let o = (k - i) as u8;
                            if i == 0 {
                                o | 0x40
                            } else {
                                o
                            }
                        }
                    };
                    let c = if rng.chance(1, 8) { rng.below(256) as u8 } else { chk };
                    let mut s = lfn_slot(order, c, &rand_units13(rng));
                    if rng.chance(1, 10) {
                        s[11] = *rng.pick(&[0x0F_u8, 0x1F, 0x2F, 0x3F, 0x4F, 0x8F, 0xCF, 0xFF]);
                    }
                    slots.push(s);
                }
                if rng.chance(3, 4) {
                    slots.push(rich_sfn(rng, &name, attr));
                }
            }
            // plain short entry
            50..=69 => slots.push(rich_sfn(rng, &name, attr)),
            // deleted (short or long shaped)
            70..=79 => {
                let mut s = if rng.chance(1, 2) { rich_sfn(rng, &name, attr) } else { lfn_slot(0xE5, chk, &rand_units13(rng)) };
                s[0] = 0xE5;
                slots.push(s);
            }
            // label
            80..=86 => {
                let a = *rng.pick(&[0x08_u8, 0x28, 0x18, 0x09, 0x0E, 0x48]);
                slots.push(rich_sfn(rng, &name, a));
            }
            // garbage
            87..=96 => {
                let mut s: Slot = [0; 32];
                for b in &mut s {
                    *b = rng.below(256) as u8;
                }
                if rng.chance(1, 3) {
                    s[11] = *rng.pick(&[0x0F_u8, 0x20, 0x10, 0x08, 0x3F]);
                }
                if rng.chance(1, 3) {
                    s[0] = *rng.pick(&[0x41_u8, 0x01, 0x42, 0x02, 0x05, 0x2E, 0x20, 0xE5]);
                }
                slots.push(s);
            }
            // end marker (rare) followed by more material
            _ => {
                let mut s = rich_sfn(rng, &name, attr);
                s[0] = 0;
                slots.push(s);
            }
        }
    }
    slots.truncate(40.max(target));
    slots
}

fn stream_soup(tier: Tier, rng: &mut SplitMix64, img: &mut Img, out: &mut dyn Write) {
    let n = tier.pick(5_000, 200_000);
    for i in 0..n {
        let mut slots = soup(rng);
        // hit the end-of-stream branch in the cluster chain: exactly 16 / 32 slots, no end marker needed
        if i % 16 == 0 {
            let want = if i % 32 == 0 { 16 } else { 32 };
            while slots.len() < want {
                let name = rand_sfn_name(rng);
                slots.push(rich_sfn(rng, &name, 0x20));
            }
            slots.truncate(want);
        }
        if slots.len() > ROOT_ENTRIES {
            slots.truncate(ROOT_ENTRIES);
        }
        emit_readdir(out, img, &slots, i % 2 == 1);
        if i % 8 == 0 {
            emit_readdir(out, img, &slots, i % 2 == 0);
        }
    }
}

fn stream_witnesses(rng: &mut SplitMix64, img: &mut Img, out: &mut dyn Write) {
    let next = sfn_slot(b"NEXT       ", 0x20);
    // former F17 (fixed in 6c58f9d; oracle `C17 name-too-long` fires if it returns): 20-slot run 0x54, 19, …, 1 → 260 units → no long name
    {
        let name = *b"LONG260 TXT";
        let chk = sfn_chk(&name);
        for fill in [0x41_u16, 0x4E2D] {
            let mut slots: Vec<Slot> = Vec::new();
            for k in (1..=20_u8).rev() {
                let order = if k == 20 { 0x40 | k } else { k };
                slots.push(lfn_slot(order, chk, &[fill; 13]));
            }
            slots.push(sfn_slot(&name, 0x20));
            slots.push(next);
            emit_both(out, img, &slots);
        }
        // 20 slots, name of exactly 255 / 254 / 256 units (terminated where it fits)
        for len in [247_usize, 248, 254, 255, 256, 259, 260] {
            let units: Vec<u16> = (0..len).map(|i| 0x61 + (i % 26) as u16).collect();
            let mut slots = gen_run(&units, chk);
            slots.push(sfn_slot(&name, 0x20));
            slots.push(next);
            emit_both(out, img, &slots);
        }
        // index 21 … 31 are rejected
        for n in [21_u8, 31] {
            let mut slots = vec![lfn_slot(0x40 | n, chk, &[0x42; 13])];
            for k in (1..n).rev() {
                slots.push(lfn_slot(k, chk, &[0x42; 13]));
            }
            slots.push(sfn_slot(&name, 0x20));
            emit_both(out, img, &slots);
        }
    }
    // former F18 (fixed in 11043bc; oracle `C17 foreign-or-partial-name` fires if it returns): abandoned longer run directly followed by a new 0x40 slot
    {
        let name = *b"LEAK    TXT";
        let chk = sfn_chk(&name);
        let slots = vec![lfn_slot(0x42, chk, &[0x58; 13]), lfn_slot(0x41, chk, &[0x61; 13]), sfn_slot(&name, 0x20), next];
        emit_both(out, img, &slots);
        let slots = vec![
            lfn_slot(0x43, chk, &[0x58; 13]),
            lfn_slot(0x02, chk, &[0x59; 13]),
            lfn_slot(0x41, chk, &pattern_units(0, true)),
            sfn_slot(&name, 0x20),
            next,
        ];
        emit_both(out, img, &slots);
        // the stale units are padding only: no leak even in the fixed buffer
        let slots = vec![lfn_slot(0x42, chk, &[0xFFFF; 13]), lfn_slot(0x41, chk, &[0x61; 13]), sfn_slot(&name, 0x20), next];
        emit_both(out, img, &slots);
        // a deleted slot / corrupted slot between the two runs clears the buffer
        let mut del = lfn_slot(0xE5, chk, &[0x5A; 13]);
        del[0] = 0xE5;
        let slots = vec![lfn_slot(0x42, chk, &[0x58; 13]), del, lfn_slot(0x41, chk, &[0x61; 13]), sfn_slot(&name, 0x20), next];
        emit_both(out, img, &slots);
        let slots =
            vec![lfn_slot(0x42, chk, &[0x58; 13]), lfn_slot(0x55, chk, &[0x5A; 13]), lfn_slot(0x41, chk, &[0x61; 13]), sfn_slot(&name, 0x20), next];
        emit_both(out, img, &slots);
    }
    // former F12 (fixed in 712f847; oracle `C15 trailing-ffff-lost` fires if it returns): trailing U+FFFF
    {
        let name = *b"FFFF    TXT";
        let chk = sfn_chk(&name);
        for units in [vec![0x61_u16, 0xFFFF], vec![0xFFFF_u16], vec![0x61_u16; 12].into_iter().chain([0xFFFF]).collect::<Vec<u16>>(), vec![0x61, 0xFFFF, 0xFFFF, 0x62]] {
            let mut slots = gen_run(&units, chk);
            slots.push(sfn_slot(&name, 0x20));
            slots.push(next);
            emit_both(out, img, &slots);
        }
    }
    // empty directory, end marker first, full root / exactly full cluster chain (end of stream without end marker)
    {
        emit_both(out, img, &[]);
        emit_both(out, img, &[[0_u8; 32], sfn_slot(b"AFTER   END", 0x20)]);
        let mut slots: Vec<Slot> = Vec::new();
        for i in 0..ROOT_ENTRIES {
            let name = rand_sfn_name(rng);
            let mut s = rich_sfn(rng, &name, 0x20);
            if i % 7 == 3 {
                s = lfn_slot(0x41, sfn_chk(&name), &rand_units13(rng));
                slots.push(s);
                if slots.len() < ROOT_ENTRIES {
                    slots.push(rich_sfn(rng, &name, 0x20));
                }
            } else {
                slots.push(s);
            }
            if slots.len() >= ROOT_ENTRIES {
                break;
            }
        }
        slots.truncate(ROOT_ENTRIES);
        emit_both(out, img, &slots);
        // a run cut off by the end of the stream
        let name = *b"CUTOFF  TXT";
        let chk = sfn_chk(&name);
        let mut cut: Vec<Slot> = (0..15).map(|i| sfn_slot(&[b'A' + i as u8; 11], 0x20)).collect();
        cut.push(lfn_slot(0x41, chk, &[0x61; 13]));
        emit_both(out, img, &cut);
    }
    // label handling: label first / label after entries / label with a long name / LFN-attr slot is not a label
    {
        let name = *b"MYLABEL    ";
        let chk = sfn_chk(&name);
        let slots = vec![sfn_slot(&name, 0x08), sfn_slot(b"FILE    TXT", 0x20)];
        emit_both(out, img, &slots);
        let slots = vec![sfn_slot(b"FILE    TXT", 0x20), lfn_slot(0x41, chk, &pattern_units(1, true)), sfn_slot(&name, 0x28), sfn_slot(b"OTHER      ", 0x08)];
        emit_both(out, img, &slots);
    }
}

/// a directory with unique, plainly named short entries (`Fnnnnnnn`), complete / broken / orphan runs, deleted slots, labels
fn plain_dir(rng: &mut SplitMix64) -> Vec<Slot> {
    let target = rng.range(1, 24) as usize;
    let mut slots: Vec<Slot> = Vec::new();
    let mut serial = 0_u32;
    while slots.len() < target {
        serial += 1;
        let mut name = *b"F0000000   ";
        let digits = format!("{:07}", serial);
        name[1..8].copy_from_slice(digits.as_bytes());
        let chk = sfn_chk(&name);
        let units13 = |rng: &mut SplitMix64| {
            let mut u = [0_u16; 13];
            for x in &mut u {
                *x = *rng.pick(&[0x78_u16, 0x79, 0x7A, 0x78, 0x79, 0x7A, 0, 0xFFFF]);
            }
            u
        };
        match rng.below(10) {
            0..=3 => {
                let len = rng.range(1, 40) as usize;
                let units: Vec<u16> = (0..len).map(|_| *rng.pick(&[0x78_u16, 0x79, 0x7A])).collect();
                let mut run = gen_run(&units, chk);
                match rng.below(8) {
                    0 => {
                        let i = rng.below(run.len() as u64) as usize;
                        run[i][13] ^= 0x10;
                    }
                    1 => {
                        let i = rng.below(run.len() as u64) as usize;
                        run[i][0] = *rng.pick(&[0x41_u8, 0x01, 0x55, 0x42]);
                    }
                    2 => {
                        let i = rng.below(run.len() as u64) as usize;
                        run[i][0] = 0xE5;
                    }
                    _ => {}
                }
                slots.extend_from_slice(&run);
                slots.push(sfn_slot(&name, 0x20));
            }
            4..=5 => {
                let k = rng.range(1, 3) as usize;
                for _ in 0..k {
                    let order = *rng.pick(&[0x41_u8, 0x42, 0x01, 0x02, 0x43, 0x55]);
                    slots.push(lfn_slot(order, chk, &units13(rng)));
                }
                slots.push(sfn_slot(&name, 0x20));
            }
            6 => {
                let mut s = sfn_slot(&name, 0x20);
                s[0] = 0xE5;
                slots.push(s);
            }
            7 => slots.push(sfn_slot(&name, 0x08)),
            _ => slots.push(sfn_slot(&name, 0x20)),
        }
    }
    slots
}

/// every entry's slot range through `Dir::remove`
fn stream_range(tier: Tier, rng: &mut SplitMix64, img: &mut Img, out: &mut dyn Write) {
    let n = tier.pick(400, 10_000);
    for _ in 0..n {
        let slots = plain_dir(rng);
        emit_range(out, img, &slots);
    }
}

/// all slots of the directory's allocated space after an operation: the root region, or the cluster chain of `D`
fn read_back(data: &[u8], img: &Img, sub: bool) -> Vec<Slot> {
    let mut v = Vec::new();
    if !sub {
        for i in 0..ROOT_ENTRIES {
            let o = img.root_off + 32 * i;
            let mut s: Slot = [0; 32];
            s.copy_from_slice(&data[o..o + 32]);
            v.push(s);
        }
        return v;
    }
    let get12 = |c: usize| -> usize {
        let o = img.fat_off + c + c / 2;
        let w = usize::from(data[o]) | (usize::from(data[o + 1]) << 8);
        if c % 2 == 0 {
            w & 0xFFF
        } else {
            w >> 4
        }
    };
    let mut c = 2;
    let mut guard = 0;
    while (2..0xFF8).contains(&c) && guard < 64 {
        for i in 0..SECTOR / 32 {
            let o = img.data_off + (c - 2) * SECTOR + 32 * i;
            let mut s: Slot = [0; 32];
            s.copy_from_slice(&data[o..o + 32]);
            v.push(s);
        }
        c = get12(c);
        guard += 1;
    }
    v
}

/// display form of a raw short name (`base[.ext]`, generator-side helper)
fn display_of_raw(raw: &[u8; 11]) -> String {
    let base = String::from_utf8_lossy(&raw[..8]).trim_end().to_string();
    let ext = String::from_utf8_lossy(&raw[8..]).trim_end().to_string();
    if ext.is_empty() {
        base
    } else {
        format!("{}.{}", base, ext)
    }
}

fn mixed_case(rng: &mut SplitMix64, s: &str) -> String {
    s.chars().map(|c| if rng.chance(1, 2) { c.to_ascii_lowercase() } else { c.to_ascii_uppercase() }).collect()
}

/// an entry with the long name `long` and the raw short name `raw`
fn long_entry(long: &str, raw: &[u8; 11], attr: u8) -> Vec<Slot> {
    let units: Vec<u16> = long.encode_utf16().collect();
    let mut v = gen_run(&units, sfn_chk(raw));
    v.push(sfn_slot(raw, attr));
    v
}

/// Engineered `create_file` cases for the alias choice (F23 and its neighbours): returns the entries to plant in front
/// of the directory and the name to create.  The first candidates the generator would choose for the name are
/// answered by LONG names of entries with unrelated raw short names (and/or taken as raw short names), or the name
/// itself already exists (long-name match, alias match, or as a directory).
fn engineered_create(rng: &mut SplitMix64, k: usize) -> (Vec<Slot>, String) {
    let w1 = *rng.pick(&["my", "a", "ab", "long", "report", "x", "te", "data"]);
    let w2 = *rng.pick(&["file", "st", "b", "name", "q", "set"]);
    let ext = *rng.pick(&["txt", "", "c", "tar gz", "dat"]);
    let name = if ext.is_empty() { format!("{} {}{}", w1, w2, k % 7) } else { format!("{} {}{}.{}", w1, w2, k % 7, ext) };
    // the candidates in the order the generator tries them: ~1 … ~4, then the hash forms
    let mut cands: Vec<[u8; 11]> = Vec::new();
    for _ in 0..7 {
        match fatfs::verif_dir::short_name_generate(&name, &cands, 3) {
            Some((c, _)) => cands.push(c),
            None => break,
        }
    }
    let mut serial = 0_usize;
    let mut fresh_raw = || {
        serial += 1;
        let mut r = *b"Q0000000   ";
        r[1..8].copy_from_slice(format!("{:07}", serial).as_bytes());
        r
    };
    let mut extra: Vec<Slot> = Vec::new();
    let mut create = name.clone();
    let mut by_long = |extra: &mut Vec<Slot>, rng: &mut SplitMix64, c: &[u8; 11]| {
        let d = mixed_case(rng, &display_of_raw(c));
        extra.extend(long_entry(&d, &fresh_raw(), 0x20));
    };
    let by_raw = |extra: &mut Vec<Slot>, c: &[u8; 11]| extra.push(sfn_slot(c, 0x20));
    if cands.len() < 7 {
        return (extra, create);
    }
    match rng.below(10) {
        0 => by_long(&mut extra, rng, &cands[0]),
        1 => {
            by_long(&mut extra, rng, &cands[0]);
            by_long(&mut extra, rng, &cands[1]);
        }
        2 => {
            for c in &cands[..4] {
                by_long(&mut extra, rng, c);
            }
        }
        3 => {
            for c in &cands[..4] {
                by_raw(&mut extra, c);
            }
            by_long(&mut extra, rng, &cands[4]);
        }
        4 => {
            by_raw(&mut extra, &cands[0]);
            by_long(&mut extra, rng, &cands[1]);
            by_raw(&mut extra, &cands[2]);
        }
        5 => {
            // the second candidate only: no effect on the choice
            by_long(&mut extra, rng, &cands[1]);
        }
        6 => {
            for c in &cands[..4] {
                by_long(&mut extra, rng, c);
            }
            by_long(&mut extra, rng, &cands[4]);
            by_raw(&mut extra, &cands[5]);
        }
        7 => {
            // the name exists already (long-name match ignoring case): create_file opens it, nothing is written
            let l = mixed_case(rng, &name);
            extra.extend(long_entry(&l, &fresh_raw(), 0x20));
        }
        8 => {
            // the name exists already by its alias
            by_raw(&mut extra, &cands[0]);
            create = mixed_case(rng, &display_of_raw(&cands[0]));
        }
        _ => {
            // the name exists as a DIRECTORY: InvalidInput
            let l = mixed_case(rng, &name);
            extra.extend(long_entry(&l, &fresh_raw(), 0x10));
        }
    }
    (extra, create)
}

/// `create_file(name)` / `remove(name)` on planted directories: the slots of the whole directory before and after go
/// into the probe line; the model answers `ok` iff `after = writeEntry before …` resp. `deleteRange before …`
/// (`DirSlots.checkCreate` / `checkDelete`)
fn stream_dirops(tier: Tier, rng: &mut SplitMix64, img: &mut Img, out: &mut dyn Write) {
    let n = tier.pick(600, 12_000);
    for k in 0..n {
        let mut slots = plain_dir(rng);
        let sub = k % 2 == 1;
        // about a quarter of the create cases: engineered alias collisions / existing names
        let mut engineered: Option<String> = None;
        if k % 3 != 0 && rng.chance(3, 8) && slots.len() <= 40 {
            let (extra, name) = engineered_create(rng, k);
            if !extra.is_empty() {
                if rng.chance(1, 2) {
                    let mut v = extra;
                    v.extend_from_slice(&slots);
                    slots = v;
                } else {
                    slots.extend_from_slice(&extra);
                }
                engineered = Some(name);
            }
        }
        // sometimes fill the allocated space exactly / leave a trailing deleted run before the end marker
        if rng.chance(1, 4) {
            let mut d = sfn_slot(b"ZZZZZZZZ   ", 0x20);
            d[0] = 0xE5;
            for _ in 0..rng.range(1, 3) {
                slots.push(d);
            }
        }
        if rng.chance(1, 6) {
            while slots.len() % 16 != 0 {
                let mut d = sfn_slot(b"YYYYYYYY   ", 0x20);
                if rng.chance(1, 2) {
                    d[0] = 0xE5;
                } else {
                    let digits = format!("{:07}", 9_000_000 + slots.len());
                    d[1..8].copy_from_slice(digits.as_bytes());
                }
                slots.push(d);
            }
        }
        // undefined attribute bits 6/7 on some slots: the delete loop writes them back masked
        for s in slots.iter_mut() {
            if rng.chance(1, 10) {
                s[11] |= *rng.pick(&[0x40_u8, 0x80, 0xC0]);
            }
        }
        // a (nearly) full fixed root: the creating call must fail only when there is really no room
        if !sub && rng.chance(1, 8) {
            let keep = ROOT_ENTRIES - rng.below(4) as usize;
            while slots.len() < keep {
                let mut d = sfn_slot(b"X0000000   ", 0x20);
                let digits = format!("{:07}", 8_000_000 + slots.len());
                d[1..8].copy_from_slice(digits.as_bytes());
                slots.push(d);
            }
        }
        if sub {
            img.plant_sub(&slots);
        } else {
            img.plant_root(&slots);
        }
        let before = read_back(&img.data, img, sub);
        if k % 3 != 0 {
            // create
            let len = match rng.below(5) {
                0 => *rng.pick(&[1_usize, 12, 13, 14, 26, 27]),
                _ => rng.range(1, 45) as usize,
            };
            let name: String = if let Some(n) = engineered.clone() {
                n
            } else if rng.chance(1, 5) {
                format!("NEW{:04}.TXT", k % 10000)
            } else if k % 11 == 5 {
                // a name that ends in dots / spaces (chosen without the random stream)
                format!("trail{}{}", k % 1000, ["." , " ", "..", ". .", " .", "  "][(k / 11) % 6])
            } else {
                (0..len).map(|i| if i % 7 == 3 { 'é' } else { (b'g' + ((i + k) % 13) as u8) as char }).collect()
            };
            let mut copy = img.data.clone();
            let r = catch(|| {
                let fs = FileSystem::new(Cursor::new(&mut copy[..]), FsOptions::new()).map_err(|e| fatfs::verif::error_code(&e))?;
                let r = (|| {
                    let root = fs.root_dir();
                    let dir = if sub { root.open_dir("D").map_err(|e| fatfs::verif::error_code(&e))? } else { root.clone() };
                    dir.create_file(&name).map(|_| ()).map_err(|e| fatfs::verif::error_code(&e))
                })();
                drop(fs);
                r
            });
            let units: Vec<u16> = name.encode_utf16().collect();
            match r {
                None => writeln!(out, "P lfn.create {} {} {} {} - => PANIC", alloc_flag(), if sub { "sub" } else { "root" }, slots_arg(&before), hex_units(&units)).unwrap(),
                Some(Err(c)) => {
                    // only a full fixed root may fail; the model checks that there is really no room
                    writeln!(out, "P lfn.create {} {} {} {} - => ERR {}", alloc_flag(), if sub { "sub" } else { "root" }, slots_arg(&before), hex_units(&units), c).unwrap()
                }
                Some(Ok(())) => {
                    let after = read_back(&copy, img, sub);
                    writeln!(out, "P lfn.create {} {} {} {} {} => ok", alloc_flag(), if sub { "sub" } else { "root" }, slots_arg(&before), hex_units(&units), slots_arg(&after)).unwrap()
                }
            }
        } else {
            // remove the j-th listed entry by its (unique) short name
            let names: Vec<Vec<u8>> = {
                let fs = FileSystem::new(Cursor::new(&mut img.data[..]), FsOptions::new()).unwrap();
                let root = fs.root_dir();
                let dir = if sub { root.open_dir("D").unwrap() } else { root.clone() };
                let v: Vec<Vec<u8>> = dir.iter().filter_map(|r| r.ok()).map(|e| e.short_file_name_as_bytes().to_vec()).collect();
                drop(dir);
                drop(root);
                v
            };
            if names.is_empty() {
                continue;
            }
            let j = rng.below(names.len() as u64) as usize;
            let name = String::from_utf8_lossy(&names[j]).to_string();
            let mut copy = img.data.clone();
            let r = catch(|| {
                let fs = FileSystem::new(Cursor::new(&mut copy[..]), FsOptions::new()).map_err(|e| fatfs::verif::error_code(&e))?;
                let r = (|| {
                    let root = fs.root_dir();
                    let dir = if sub { root.open_dir("D").map_err(|e| fatfs::verif::error_code(&e))? } else { root.clone() };
                    dir.remove(&name).map_err(|e| fatfs::verif::error_code(&e))
                })();
                drop(fs);
                r
            });
            match r {
                None => writeln!(out, "P lfn.remove {} {} {} {} - => PANIC", alloc_flag(), if sub { "sub" } else { "root" }, slots_arg(&before), j).unwrap(),
                Some(Err(c)) => writeln!(out, "P lfn.remove {} {} {} {} - => ERR {}", alloc_flag(), if sub { "sub" } else { "root" }, slots_arg(&before), j, c).unwrap(),
                Some(Ok(())) => {
                    let after = read_back(&copy, img, sub);
                    writeln!(out, "P lfn.remove {} {} {} {} {} => ok", alloc_flag(), if sub { "sub" } else { "root" }, slots_arg(&before), j, slots_arg(&after)).unwrap()
                }
            }
        }
    }
}

pub fn run(tier: Tier, seed: u64, out: &mut dyn Write) {
    let mut rng = SplitMix64::new(seed ^ 0x4C46_4E00);
    let mut img = Img::new();
    stream_generate(tier, &mut rng.fork(), out);
    stream_witnesses(&mut rng.fork(), &mut img, out);
    stream_patterns(tier, &mut rng.fork(), &mut img, out);
    stream_byte_sweep(tier, &mut img, out);
    stream_soup(tier, &mut rng.fork(), &mut img, out);
    stream_range(tier, &mut rng.fork(), &mut img, out);
    stream_dirops(tier, &mut rng.fork(), &mut img, out);
}
