//! Executes scripts on the real library and prints traces (see /verif/ARCH.md, "History protocol").
//!
//! Per operation the trace is, in this order:
//!
//! ```text
//! O <seq> <op> …            echo of the script line (for `raw <n>`: plus its n `w` lines)
//! w <offset> <payload>      every successful device write that transferred n > 0 bytes, in device order;
//!                           payload = lower-case hex of the n bytes, or `z<n>` when all n bytes are zero
//! f                         every successful device flush, in device order (interleaved with the w lines)
//! K …                       crashprobe rows (only for `crashprobe`)
//! x <k> <r|w|s|f> <0|1>     the injected fault fired at device call k (1-based within this operation), which was a
//!                           read/write/seek/flush, issued inside a library destructor (1) or not (0)
//! c <reads> <writes> <seeks> <flushes> <calls_in_drop>
//!                           device calls ISSUED during the operation (failed ones included; their sum is the number
//!                           of calls), and how many of them were issued while a library destructor was running
//! R <seq> ok [<values…>] | R <seq> err <code> [<k>] | R <seq> panic | R <seq> hang
//! L …                       listing rows (only after `R <seq> ok <n>` of `list`)
//! ```
//!
//! `R <seq> bad-script` (malformed line, unknown/dead/duplicate handle, operation impossible in the current session
//! state, non-UTF-8 path) and `R <seq> dead` (an earlier operation of this history ended in `panic`/`hang`) are
//! printed directly after the `O` line, without `w/f/x/c` lines. A pending `fault` is consumed by the next `O` line
//! whatever its outcome. Lines that cannot be attributed to an operation give `R ? bad-script`.
//!
//! Values of `R <seq> ok`:
//!
//! ```text
//! format, raw, unmount, dropfs, forget, root, open_*, create_*, remove, rename, writeall, truncate, flush, dropf,
//! dropd, set_*                 (none)
//! mount                        <fat bits 12|16|32> <cluster size in bytes>
//! list                         <n>, followed by n L rows
//! read, readx, readall         <hex of the bytes read | ->
//! write                        <n>
//! seek                         <new position>
//! extents                      <offset:size,offset:size,… | ->
//! stats                        <cluster_size> <total_clusters> <free_clusters>
//! status                       <dirty 0|1> <io_error 0|1>
//! label                        <hex of volume_label_as_bytes | ->
//! label_root                   <hex of the 11 raw bytes | none>
//! volid                        <decimal u32>
//! fattype                      <12|16|32>
//! crashprobe                   <number of K rows>
//! ```
//!
//! `err <code> [<k>]`: code = `fatfs::verif::error_code`; for code 1 (Io) `<k>` is `DevError.k`: the index of the
//! injected fault, or 18446744073709551614 (u64::MAX-1) = "unexpected eof" made by `read_exact` on the device,
//! u64::MAX-2 = "write zero" made by `write_all` on the device, u64::MAX-3 = device seek to a negative position,
//! u64::MAX-4 = device call after the call budget tripped, u64::MAX-5 = write to the read-only crash-probe image.
//!
//! Listing row (all numbers unpadded decimal; dates `y-m-d`, times `h:mi:s.ms` resp. `h:mi:s`):
//!
//! ```text
//! L <file_name() utf-8 hex | - when the alloc feature is off (or the name is empty)> <short_file_name_as_bytes hex>
//!   <attributes bits> <len> <created date> <created time h:mi:s.ms> <accessed date> <modified date>
//!   <modified time h:mi:s> <long_file_name_as_ucs2_units, 4 hex digits per unit | - if there is none>
//! ```
//!
//! Crash probe: the executor keeps the ordered log of all device writes and flush marks of the history (raw-planted
//! bytes count as writes; write j, j ≥ 1, is the j-th `w` line of the history counting the `w` lines of `raw` too).
//! `crashprobe <path>` probes every cut j from "number of writes before the last flush mark" (0 if there is none) to
//! "number of writes so far", both inclusive; `crashprobe <path> <seq0>` starts instead at "number of writes when
//! operation seq0 had finished". For each cut a fresh zero device receives the first j writes, is mounted (strict,
//! constant clock, no access dates, writes refused), the file is opened by `<path>` from the root and read to the
//! end, everything is dropped:
//!
//! ```text
//! K <j> 1 <size> <hex | - | =>      found and read; `=`: same bytes as the previous K row of this probe (also a 1-row)
//! K <j> 0 0 -                       open_file failed (whatever the error)
//! K <j> readerr <code> [<k>]        open_file succeeded, reading failed
//! K <j> mounterr <code> [<k>]       mount failed
//! K <j> panic | K <j> hang
//! ```
//!
//! Session rules: `mount` seeks the device to 0 (uncounted), calls `FileSystem::new`, and on success creates the
//! implicit handle `d0 = fs.root_dir()` (no device call). `unmount`/`dropfs` require that no file handle and no
//! directory handle other than `d0` is live (else bad-script); they first drop `d0` (if still live), then
//! unmount/drop the file system — all device calls of both steps are attributed to the operation (fault indices
//! count across both). `unmount` that returns an error still consumes the file system. `forget` leaks every handle
//! and the file system without running destructors. `format` requires that nothing is mounted; it seeks the device
//! to 0 (uncounted) first. After `panic`/`hang` everything is leaked and the rest of the history answers `dead`.
//! A script that ends while mounted leaks the session silently. `readall` gives `hang` after 64 MiB.
//! The `cfg` line of the trace reports `alloc=`/`unicode=` of the executing build, not of the script; an optional
//! seventh key `budget=<n>` sets the per-operation device-call budget (default 2 000 000; scenario `fault`: 200 000).
//! Lines starting with `G ` (ground truth of the image builder) or `#` inside a history are echoed at their place and
//! otherwise ignored; `#` lines between histories are passed through as well.
use std::collections::HashMap;
use std::io::Write as IoWrite;
use std::panic::{catch_unwind, AssertUnwindSafe};

use fatfs::{
    Date, DateTime, Dir, Error, File, FileSystem, FormatVolumeOptions, FsOptions, LossyOemCpConverter, Read, Seek,
    SeekFrom, Time, Write,
};

use crate::clock::{Clock, ClockMode};
use crate::dev::{Counters, Dev, DevError, Fired, HangMarker, LogItem};
use crate::script::{parse_block, payload, Cfg, FormatArgs, History, Item, Op, Stamp, Whence};
use crate::util::{hex, hex_units};

type Fs = FileSystem<Dev, Clock, LossyOemCpConverter>;
type D = Dir<'static, Dev, Clock, LossyOemCpConverter>;
type F = File<'static, Dev, Clock, LossyOemCpConverter>;
type E = Error<DevError>;

const MAX_IO: u64 = 1 << 26;

enum Abort {
    Panic,
    Hang,
}

/// What one operation produced.
pub enum Res {
    /// `ok` + value tokens (may be empty) + rows printed AFTER the R line
    Ok(String, Vec<String>),
    Err(String),
    Panic,
    Hang,
    Bad,
}

fn guarded<T>(f: impl FnOnce() -> T) -> Result<T, Abort> {
    match catch_unwind(AssertUnwindSafe(f)) {
        Ok(v) => Ok(v),
        Err(p) => {
            if p.is::<HangMarker>() {
                Err(Abort::Hang)
            } else {
                Err(Abort::Panic)
            }
        }
    }
}

fn err_str(e: &E) -> String {
    let code = fatfs::verif::error_code(e);
    match e {
        Error::Io(d) => format!("{} {}", code, d.k),
        _ => format!("{}", code),
    }
}

fn lift<T>(r: Result<Result<T, E>, Abort>, ok: impl FnOnce(T) -> (String, Vec<String>)) -> Res {
    match r {
        Ok(Ok(v)) => {
            let (s, rows) = ok(v);
            Res::Ok(s, rows)
        }
        Ok(Err(e)) => Res::Err(err_str(&e)),
        Err(Abort::Panic) => Res::Panic,
        Err(Abort::Hang) => Res::Hang,
    }
}

fn plain<T>(r: Result<Result<T, E>, Abort>) -> Res {
    lift(r, |_| (String::new(), Vec::new()))
}

fn fat_bits(t: fatfs::FatType) -> u8 {
    match t {
        fatfs::FatType::Fat12 => 12,
        fatfs::FatType::Fat16 => 16,
        fatfs::FatType::Fat32 => 32,
    }
}

fn utf8(b: &[u8]) -> Option<&str> {
    std::str::from_utf8(b).ok()
}

pub struct Session {
    pub dev: Dev,
    clock: Clock,
    cfg: Cfg,
    fs: Option<*mut Fs>,
    dirs: HashMap<u32, D>,
    files: HashMap<u32, F>,
    pub dead: bool,
    /// complete ordered log of device writes / flush marks of the history (raw-planted bytes included as writes)
    glog: Vec<LogItem>,
    /// device counters of the last executed operation
    pub last_cnt: Counters,
    /// seq of an executed operation → number of writes in `glog` when it had finished
    wcount_at_end: HashMap<u64, usize>,
    n_writes: usize,
}

/// One object of the volume as seen by `Session::probe_tree` (`.` and `..` omitted).
#[derive(Clone, Debug)]
pub struct TreeNode {
    pub long: String,
    pub short: Vec<u8>,
    pub is_dir: bool,
    pub size: u64,
    pub kids: Vec<TreeNode>,
}

impl Session {
    pub fn new(h: &History) -> Session {
        let dev = Dev::new(h.dev_size);
        dev.with(|d| {
            d.budget = h.cfg.budget;
            d.shortio = h.cfg.shortio;
        });
        Session {
            dev,
            clock: Clock::new(h.cfg.clock),
            cfg: h.cfg.clone(),
            fs: None,
            dirs: HashMap::new(),
            files: HashMap::new(),
            dead: false,
            glog: Vec::new(),
            last_cnt: Counters::default(),
            wcount_at_end: HashMap::new(),
            n_writes: 0,
        }
    }

    pub fn fs_ref(&self) -> Option<&'static Fs> {
        // SAFETY: the box is only reclaimed after every handle borrowing from it is gone (or everything is leaked)
        self.fs.map(|p| unsafe { &*p })
    }

    /// Abandon everything without running any destructor.
    pub fn leak_all(&mut self) {
        for (_, d) in self.dirs.drain() {
            std::mem::forget(d);
        }
        for (_, f) in self.files.drain() {
            std::mem::forget(f);
        }
        self.fs = None; // the box stays allocated forever
    }

    /// `None` when a builder method of `FormatVolumeOptions` panics on these values.
    pub fn make_format_options_pub(a: &FormatArgs) -> Option<FormatVolumeOptions> {
        crate::util::catch(|| Self::make_format_options(a))
    }

    fn make_format_options(a: &FormatArgs) -> FormatVolumeOptions {
        let mut o = FormatVolumeOptions::new()
            .bytes_per_sector(a.bps)
            .max_root_dir_entries(a.root)
            .fats(a.fats)
            .media(a.media)
            .volume_id(a.volid)
            .sectors_per_track(a.spt)
            .heads(a.heads);
        if let Some(t) = a.total {
            o = o.total_sectors(t);
        }
        if let Some(b) = a.bpc {
            o = o.bytes_per_cluster(b);
        }
        if let Some(f) = a.fat {
            o = o.fat_type(match f {
                12 => fatfs::FatType::Fat12,
                16 => fatfs::FatType::Fat16,
                _ => fatfs::FatType::Fat32,
            });
        }
        if let Some(l) = a.label {
            o = o.volume_label(l);
        }
        if let Some(d) = a.drive {
            o = o.drive_num(d);
        }
        o
    }

    fn list_rows(d: &D) -> Result<Vec<String>, E> {
        let mut rows = Vec::new();
        let mut it = d.iter();
        while let Some(r) = it.next() {
            let e = match r {
                Ok(e) => e,
                Err(err) => {
                    // after an error the iterator is finished: one more poll gives `None` without any device call
                    assert!(it.next().is_none(), "DirIter yields items after an error");
                    return Err(err);
                }
            };
            #[cfg(feature = "alloc")]
            let name = {
                // query the String accessors as well; short_file_name() must agree with the bytes variant for ASCII
                let _ = e.short_file_name();
                hex(e.file_name().as_bytes())
            };
            #[cfg(not(feature = "alloc"))]
            let name = "-".to_string();
            let short = hex(e.short_file_name_as_bytes());
            let attrs = e.attributes().bits();
            let _ = (e.is_dir(), e.is_file());
            let c = e.created();
            let a = e.accessed();
            let m = e.modified();
            let lfn = match e.long_file_name_as_ucs2_units() {
                Some(u) => hex_units(u),
                None => "-".to_string(),
            };
            rows.push(format!(
                "L {} {} {} {} {}-{}-{} {}:{}:{}.{} {}-{}-{} {}-{}-{} {}:{}:{} {}",
                name,
                short,
                attrs,
                e.len(),
                c.date.year,
                c.date.month,
                c.date.day,
                c.time.hour,
                c.time.min,
                c.time.sec,
                c.time.millis,
                a.year,
                a.month,
                a.day,
                m.date.year,
                m.date.month,
                m.date.day,
                m.time.hour,
                m.time.min,
                m.time.sec,
                lfn
            ));
        }
        Ok(rows)
    }

    fn mk_dt(t: &Stamp) -> DateTime {
        DateTime::new(Date::new(t.y, t.m, t.d), Time::new(t.h, t.mi, t.s, t.ms))
    }

    /// Run one parsed operation. `fault` is the pending one-shot fault (consumed in any case).
    fn run(&mut self, op: &Op, fault: Option<u64>, out: &mut dyn IoWrite) -> Res {
        let dev = self.dev.clone();
        // ---- operations that are not library calls on the live session
        match op {
            Op::Raw(ws) => {
                for (off, data) in ws {
                    dev.with(|d| d.poke(*off, data));
                    let n = (data.len() as u64).min(dev.size().saturating_sub(*off)) as usize;
                    if n > 0 {
                        self.glog.push(LogItem::Write(*off, data[..n].to_vec()));
                        self.n_writes += 1;
                    }
                }
                dev.begin_op(None);
                return Res::Ok(String::new(), Vec::new());
            }
            Op::Forget => {
                if self.fs.is_none() {
                    return Res::Bad;
                }
                self.leak_all();
                dev.begin_op(None);
                return Res::Ok(String::new(), Vec::new());
            }
            Op::CrashProbe(p, since) => {
                let Some(path) = utf8(p) else { return Res::Bad };
                let from = match since {
                    None => None,
                    Some(q) => match self.wcount_at_end.get(q) {
                        Some(w) => Some(*w),
                        None => return Res::Bad,
                    },
                };
                dev.begin_op(None);
                let n = self.crashprobe(path, from, out);
                return Res::Ok(format!("{}", n), Vec::new());
            }
            _ => {}
        }
        // ---- operations that need no mounted file system
        match op {
            Op::Format(a) => {
                if self.fs.is_some() {
                    return Res::Bad;
                }
                dev.set_pos_uncounted(0);
                dev.begin_op(fault);
                let mut dh = dev.clone();
                return plain(guarded(|| {
                    let o = Self::make_format_options(a);
                    fatfs::format_volume(&mut dh, o)
                }));
            }
            Op::Mount => {
                if self.fs.is_some() {
                    return Res::Bad;
                }
                dev.set_pos_uncounted(0);
                dev.begin_op(fault);
                let clock = self.clock.clone();
                let (accdate, strict) = (self.cfg.accdate, self.cfg.strict);
                let order = self.cfg.optorder;
                let r = guarded(|| Fs::new(dev.clone(), build_options(order, clock, accdate, strict)));
                return match r {
                    Ok(Ok(fs)) => {
                        let p = Box::into_raw(Box::new(fs));
                        self.fs = Some(p);
                        let fsr = self.fs_ref().unwrap();
                        // implicit d0; issues no device call
                        match guarded(|| fsr.root_dir()) {
                            Ok(root) => {
                                self.dirs.insert(0, root);
                                Res::Ok(format!("{} {}", fat_bits(fsr.fat_type()), fsr.cluster_size()), Vec::new())
                            }
                            Err(Abort::Hang) => Res::Hang,
                            Err(Abort::Panic) => Res::Panic,
                        }
                    }
                    Ok(Err(e)) => Res::Err(err_str(&e)),
                    Err(Abort::Panic) => Res::Panic,
                    Err(Abort::Hang) => Res::Hang,
                };
            }
            _ => {}
        }
        // ---- everything else needs a mounted file system
        let Some(fsr) = self.fs_ref() else { return Res::Bad };
        match op {
            Op::Unmount | Op::DropFs => {
                if !self.files.is_empty() || self.dirs.keys().any(|k| *k != 0) {
                    return Res::Bad;
                }
                let d0 = self.dirs.remove(&0);
                let p = self.fs.take().unwrap();
                dev.begin_op(fault);
                let unmount = matches!(op, Op::Unmount);
                plain(guarded(move || {
                    drop(d0);
                    // SAFETY: no handle borrows from the box any more
                    let fs = unsafe { Box::from_raw(p) };
                    if unmount {
                        fs.unmount()
                    } else {
                        drop(fs);
                        Ok(())
                    }
                }))
            }
            Op::Root(d) => {
                if self.dirs.contains_key(d) {
                    return Res::Bad;
                }
                dev.begin_op(fault);
                match guarded(|| fsr.root_dir()) {
                    Ok(root) => {
                        self.dirs.insert(*d, root);
                        Res::Ok(String::new(), Vec::new())
                    }
                    Err(Abort::Hang) => Res::Hang,
                    Err(Abort::Panic) => Res::Panic,
                }
            }
            Op::OpenDir { d, path, new } | Op::CreateDir { d, path, new } => {
                let (Some(dir), Some(path)) = (self.dirs.get(d), utf8(path)) else {
                    return Res::Bad;
                };
                if self.dirs.contains_key(new) {
                    return Res::Bad;
                }
                dev.begin_op(fault);
                let create = matches!(op, Op::CreateDir { .. });
                let r = guarded(|| if create { dir.create_dir(path) } else { dir.open_dir(path) });
                match r {
                    Ok(Ok(nd)) => {
                        self.dirs.insert(*new, nd);
                        Res::Ok(String::new(), Vec::new())
                    }
                    other => plain(other),
                }
            }
            Op::OpenFile { d, path, new } | Op::CreateFile { d, path, new } => {
                let (Some(dir), Some(path)) = (self.dirs.get(d), utf8(path)) else {
                    return Res::Bad;
                };
                if self.files.contains_key(new) {
                    return Res::Bad;
                }
                dev.begin_op(fault);
                let create = matches!(op, Op::CreateFile { .. });
                let r = guarded(|| if create { dir.create_file(path) } else { dir.open_file(path) });
                match r {
                    Ok(Ok(nf)) => {
                        self.files.insert(*new, nf);
                        Res::Ok(String::new(), Vec::new())
                    }
                    other => plain(other),
                }
            }
            Op::Remove { d, path } => {
                let (Some(dir), Some(path)) = (self.dirs.get(d), utf8(path)) else {
                    return Res::Bad;
                };
                dev.begin_op(fault);
                plain(guarded(|| dir.remove(path)))
            }
            Op::Rename { d, src, d2, dst } => {
                let (Some(dir), Some(dir2), Some(src), Some(dst)) =
                    (self.dirs.get(d), self.dirs.get(d2), utf8(src), utf8(dst))
                else {
                    return Res::Bad;
                };
                dev.begin_op(fault);
                plain(guarded(|| dir.rename(src, dir2, dst)))
            }
            Op::List(d) => {
                let Some(dir) = self.dirs.get(d) else { return Res::Bad };
                dev.begin_op(fault);
                lift(guarded(|| Self::list_rows(dir)), |rows| (format!("{}", rows.len()), rows))
            }
            Op::Read { f, n } | Op::ReadX { f, n } => {
                let Some(file) = self.files.get_mut(f) else { return Res::Bad };
                if *n > MAX_IO {
                    return Res::Bad;
                }
                let mut buf = vec![0u8; *n as usize];
                dev.begin_op(fault);
                let exact = matches!(op, Op::ReadX { .. });
                let r = guarded(|| {
                    if exact {
                        file.read_exact(&mut buf).map(|()| buf.len())
                    } else {
                        file.read(&mut buf)
                    }
                });
                lift(r, |k| (hex(&buf[..k.min(buf.len())]), Vec::new()))
            }
            Op::ReadAll(f) => {
                let Some(file) = self.files.get_mut(f) else { return Res::Bad };
                dev.begin_op(fault);
                let r = guarded(|| read_all(file));
                match r {
                    Ok(Ok(None)) => Res::Hang,
                    Ok(Ok(Some(v))) => Res::Ok(hex(&v), Vec::new()),
                    Ok(Err(e)) => Res::Err(err_str(&e)),
                    Err(Abort::Panic) => Res::Panic,
                    Err(Abort::Hang) => Res::Hang,
                }
            }
            Op::Write { f, data } => {
                let Some(file) = self.files.get_mut(f) else { return Res::Bad };
                dev.begin_op(fault);
                lift(guarded(|| file.write(data)), |n| (format!("{}", n), Vec::new()))
            }
            Op::WriteAll { f, data } => {
                let Some(file) = self.files.get_mut(f) else { return Res::Bad };
                dev.begin_op(fault);
                plain(guarded(|| file.write_all(data)))
            }
            Op::Seek { f, whence, n } => {
                let Some(file) = self.files.get_mut(f) else { return Res::Bad };
                let pos = match whence {
                    Whence::Start => SeekFrom::Start(*n as u64),
                    Whence::Cur => SeekFrom::Current(*n),
                    Whence::End => SeekFrom::End(*n),
                };
                dev.begin_op(fault);
                lift(guarded(|| file.seek(pos)), |p| (format!("{}", p), Vec::new()))
            }
            Op::Truncate(f) => {
                let Some(file) = self.files.get_mut(f) else { return Res::Bad };
                dev.begin_op(fault);
                plain(guarded(|| file.truncate()))
            }
            Op::Flush(f) => {
                let Some(file) = self.files.get_mut(f) else { return Res::Bad };
                dev.begin_op(fault);
                plain(guarded(|| Write::flush(file)))
            }
            Op::DropF(f) => {
                let Some(file) = self.files.remove(f) else { return Res::Bad };
                dev.begin_op(fault);
                plain(guarded(move || {
                    drop(file);
                    Ok(())
                }))
            }
            Op::DropD(d) => {
                let Some(dir) = self.dirs.remove(d) else { return Res::Bad };
                dev.begin_op(fault);
                plain(guarded(move || {
                    drop(dir);
                    Ok(())
                }))
            }
            Op::SetCreated { f, t } | Op::SetModified { f, t } => {
                let Some(file) = self.files.get_mut(f) else { return Res::Bad };
                dev.begin_op(fault);
                let created = matches!(op, Op::SetCreated { .. });
                plain(guarded(|| {
                    let dt = Self::mk_dt(t);
                    if created {
                        file.set_created(dt);
                    } else {
                        file.set_modified(dt);
                    }
                    Ok(())
                }))
            }
            Op::SetAccessed { f, y, m, d } => {
                let Some(file) = self.files.get_mut(f) else { return Res::Bad };
                dev.begin_op(fault);
                plain(guarded(|| {
                    file.set_accessed(Date::new(*y, *m, *d));
                    Ok(())
                }))
            }
            Op::Extents(f) => {
                let Some(file) = self.files.get_mut(f) else { return Res::Bad };
                dev.begin_op(fault);
                let r = guarded(|| {
                    let mut v = Vec::new();
                    let mut it = file.extents();
                    let mut ended = false;
                    while let Some(x) = it.next() {
                        let x = match x {
                            Ok(x) => x,
                            Err(err) => {
                                // finished after an error (no device call for the extra poll)
                                assert!(it.next().is_none(), "extents yields items after an error");
                                return Err(err);
                            }
                        };
                        v.push(format!("{}:{}", x.offset, x.size));
                        if v.len() as u64 > MAX_IO {
                            ended = true;
                            break;
                        }
                    }
                    if !ended {
                        // and it stays finished at the end of the chain (again without a device call)
                        assert!(it.next().is_none(), "extents yields items after its end");
                    }
                    Ok(v)
                });
                lift(r, |v| (if v.is_empty() { "-".to_string() } else { v.join(",") }, Vec::new()))
            }
            Op::Stats => {
                dev.begin_op(fault);
                lift(guarded(|| fsr.stats()), |s| {
                    (
                        format!("{} {} {}", s.cluster_size(), s.total_clusters(), s.free_clusters()),
                        Vec::new(),
                    )
                })
            }
            Op::Status => {
                dev.begin_op(fault);
                lift(guarded(|| fsr.read_status_flags()), |s| {
                    (format!("{} {}", s.dirty() as u8, s.io_error() as u8), Vec::new())
                })
            }
            Op::Label => {
                dev.begin_op(fault);
                lift(
                    guarded(|| {
                        #[cfg(feature = "alloc")]
                        let _ = fsr.volume_label();
                        Ok(fsr.volume_label_as_bytes().to_vec())
                    }),
                    |l| (hex(&l), Vec::new()),
                )
            }
            Op::LabelRoot => {
                dev.begin_op(fault);
                lift(guarded(|| fsr.read_volume_label_from_root_dir_as_bytes()), |l| {
                    (l.map_or("none".to_string(), |b| hex(&b)), Vec::new())
                })
            }
            Op::VolId => {
                dev.begin_op(fault);
                lift(guarded(|| Ok(fsr.volume_id())), |v| (format!("{}", v), Vec::new()))
            }
            Op::FatType => {
                dev.begin_op(fault);
                lift(guarded(|| Ok(fat_bits(fsr.fat_type()))), |v| (format!("{}", v), Vec::new()))
            }
            Op::Format(_) | Op::Mount | Op::Raw(_) | Op::Forget | Op::CrashProbe(..) => unreachable!(),
        }
    }

    /// Run one operation (dead check, effects, bookkeeping); prints the trace lines of the operation (everything
    /// after the echoed `O` line) when `out` is given. Returns the result (`Res::Bad` also stands for `dead`).
    pub fn step(&mut self, seq: u64, op: &Op, fault: Option<u64>, out: Option<&mut dyn IoWrite>) -> Res {
        let mut sink = std::io::sink();
        let out: &mut dyn IoWrite = match out {
            Some(o) => o,
            None => &mut sink,
        };
        if self.dead {
            writeln!(out, "R {} dead", seq).unwrap();
            return Res::Bad;
        }
        if !matches!(op, Op::Raw(_) | Op::Root(_) | Op::CrashProbe(..)) {
            self.clock.advance();
        }
        let res = self.run(op, fault, out);
        if let Res::Bad = res {
            writeln!(out, "R {} bad-script", seq).unwrap();
            return res;
        }
        let (cnt, log, fired) = self.dev.end_op();
        print_effects(out, &cnt, &log, &fired);
        self.last_cnt = cnt;
        self.n_writes += log.iter().filter(|l| matches!(l, LogItem::Write(..))).count();
        self.glog.extend(log);
        self.wcount_at_end.insert(seq, self.n_writes);
        match &res {
            Res::Ok(vals, rows) => {
                if vals.is_empty() {
                    writeln!(out, "R {} ok", seq).unwrap();
                } else {
                    writeln!(out, "R {} ok {}", seq, vals).unwrap();
                }
                for r in rows {
                    writeln!(out, "{}", r).unwrap();
                }
            }
            Res::Err(e) => writeln!(out, "R {} err {}", seq, e).unwrap(),
            Res::Panic | Res::Hang => {
                let w = if matches!(res, Res::Panic) { "panic" } else { "hang" };
                writeln!(out, "R {} {}", seq, w).unwrap();
                self.dead = true;
                self.leak_all();
            }
            Res::Bad => unreachable!(),
        }
        res
    }

    /// Generator support: walk the whole tree of the mounted volume with fresh handles (not part of any script).
    /// Returns `None` when nothing is mounted or the walk fails.
    pub fn probe_tree(&self) -> Option<TreeNode> {
        let fsr = self.fs_ref()?;
        // directory cycles exist (known defect F3): bound depth and the number of entries visited
        fn walk(d: &Dir<'_, Dev, Clock, LossyOemCpConverter>, depth: u32, left: &mut u32) -> Result<Vec<TreeNode>, E> {
            let mut kids = Vec::new();
            for r in d.iter() {
                let e = r?;
                if *left == 0 {
                    break;
                }
                *left -= 1;
                let short = e.short_file_name_as_bytes().to_vec();
                if short == b"." || short == b".." {
                    continue;
                }
                let long = match e.long_file_name_as_ucs2_units() {
                    Some(u) => String::from_utf16_lossy(u),
                    None => String::from_utf8_lossy(&short).to_lowercase(),
                };
                let is_dir = e.is_dir();
                let sub = if is_dir && depth < 5 { walk(&e.to_dir(), depth + 1, left)? } else { Vec::new() };
                kids.push(TreeNode {
                    long,
                    short,
                    is_dir,
                    size: e.len(),
                    kids: sub,
                });
            }
            Ok(kids)
        }
        let mut left = 3000u32;
        let r = guarded(|| walk(&fsr.root_dir(), 0, &mut left));
        self.dev.begin_op(None);
        // a tripped budget only concerns the probe itself
        self.dev.with(|d| d.tripped = false);
        match r {
            Ok(Ok(kids)) => Some(TreeNode {
                long: String::new(),
                short: Vec::new(),
                is_dir: true,
                size: 0,
                kids,
            }),
            _ => None,
        }
    }

    /// Crash probe (property C14): for every cut j between the last flush mark and the end of the global log,
    /// mount the image made of the first j writes and read the file at `path`. Returns the number of K lines.
    fn crashprobe(&self, path: &str, from: Option<usize>, out: &mut dyn IoWrite) -> usize {
        let mut writes: Vec<(u64, &[u8])> = Vec::new();
        let mut start = 0usize;
        for it in &self.glog {
            match it {
                LogItem::Write(off, data) => writes.push((*off, data)),
                LogItem::Flush => start = writes.len(),
            }
        }
        if let Some(f) = from {
            start = f.min(writes.len());
        }
        let img = Dev::new(self.dev.size());
        for (off, data) in &writes[..start] {
            img.with(|d| d.poke(*off, data));
        }
        img.with(|d| d.readonly = true);
        let mut n = 0;
        let mut prev: Option<Vec<u8>> = None;
        for j in start..=writes.len() {
            if j > start {
                let (off, data) = writes[j - 1];
                img.with(|d| d.poke(off, data));
            }
            img.set_pos_uncounted(0);
            img.begin_op(None);
            let r = guarded(|| -> Result<Result<Option<Vec<u8>>, String>, E> {
                let fs = Fs::new(
                    img.clone(),
                    FsOptions::new()
                        .time_provider(Clock::new(ClockMode::Const))
                        .update_accessed_date(false)
                        .strict(true),
                )
                .map_err(|e| e)?;
                let root = fs.root_dir();
                let res = match root.open_file(path) {
                    Err(_) => Ok(None),
                    Ok(mut f) => match read_all(&mut f) {
                        Ok(Some(v)) => Ok(Some(v)),
                        Ok(None) => Err("hang".to_string()),
                        Err(e) => Err(format!("readerr {}", err_str(&e))),
                    },
                };
                drop(root);
                drop(fs);
                Ok(res)
            });
            let line = match r {
                Ok(Ok(Ok(Some(v)))) => {
                    // `=`: same content as the previous K line of this probe (which was a found-line too)
                    let same = prev.as_ref() == Some(&v);
                    let l = format!("K {} 1 {} {}", j, v.len(), if same { "=".to_string() } else { hex(&v) });
                    prev = Some(v);
                    l
                }
                Ok(Ok(Ok(None))) => format!("K {} 0 0 -", j),
                Ok(Ok(Err(s))) => format!("K {} {}", j, s),
                Ok(Err(e)) => format!("K {} mounterr {}", j, err_str(&e)),
                Err(Abort::Panic) => format!("K {} panic", j),
                Err(Abort::Hang) => format!("K {} hang", j),
            };
            if line.split(' ').nth(2) != Some("1") {
                prev = None;
            }
            writeln!(out, "{}", line).unwrap();
            n += 1;
            if img.with(|d| d.tripped) {
                break;
            }
        }
        n
    }
}

/// The mount options, built through one of several chains of builder calls (cfg `optorder=<k>`, k mod 8). Every chain
/// asks for the same effective options — time provider `clock`, lossy OEM code page, `update_accessed_date = accdate`,
/// `strict = strict` — but the chains differ in the ORDER of the setters and in WHICH setters are called at all
/// (a setter whose value is the default may be left out; the default converter may be set explicitly), so that a
/// setter that forgets or mixes up another field is noticed.
fn build_options(order: u8, clock: Clock, accdate: bool, strict: bool) -> FsOptions<Clock, LossyOemCpConverter> {
    let lossy = LossyOemCpConverter::new;
    match order % 8 {
        // the classic chain
        0 => FsOptions::new().time_provider(clock).update_accessed_date(accdate).strict(strict),
        // flags first, provider last
        1 => FsOptions::new().update_accessed_date(accdate).strict(strict).time_provider(clock),
        2 => FsOptions::new().strict(strict).update_accessed_date(accdate).time_provider(clock).oem_cp_converter(lossy()),
        // converter in the middle
        3 => FsOptions::new().update_accessed_date(accdate).oem_cp_converter(lossy()).strict(strict).time_provider(clock),
        // only the setters that change a default (defaults: strict = true, update_accessed_date = false), then the provider
        4 => {
            let mut o = FsOptions::new();
            if accdate {
                o = o.update_accessed_date(true);
            }
            if !strict {
                o = o.strict(false);
            }
            o.time_provider(clock)
        }
        // provider first, then only the non-default flags, converter last
        5 => {
            let mut o = FsOptions::new().time_provider(clock);
            if !strict {
                o = o.strict(false);
            }
            if accdate {
                o = o.update_accessed_date(true);
            }
            o.oem_cp_converter(lossy())
        }
        // one flag on each side of the provider
        6 => FsOptions::new().strict(strict).time_provider(clock).update_accessed_date(accdate).oem_cp_converter(lossy()),
        // converter first
        _ => FsOptions::new().oem_cp_converter(lossy()).update_accessed_date(accdate).time_provider(clock).strict(strict),
    }
}

/// `None` = gave up (more than MAX_IO bytes: treated as non-termination)
fn read_all(f: &mut File<'_, Dev, Clock, LossyOemCpConverter>) -> Result<Option<Vec<u8>>, E> {
    let mut v = Vec::new();
    let mut buf = [0u8; 4096];
    loop {
        let n = f.read(&mut buf)?;
        if n == 0 {
            return Ok(Some(v));
        }
        v.extend_from_slice(&buf[..n]);
        if v.len() as u64 > MAX_IO {
            return Ok(None);
        }
    }
}

fn print_effects(out: &mut dyn IoWrite, cnt: &Counters, log: &[LogItem], fired: &Option<Fired>) {
    for it in log {
        match it {
            LogItem::Write(off, data) => writeln!(out, "w {} {}", off, payload(data)).unwrap(),
            LogItem::Flush => writeln!(out, "f").unwrap(),
        }
    }
    if let Some(x) = fired {
        writeln!(out, "x {} {} {}", x.k, x.kind, x.in_drop as u8).unwrap();
    }
    writeln!(
        out,
        "c {} {} {} {} {}",
        cnt.reads, cnt.writes, cnt.seeks, cnt.flushes, cnt.calls_in_drop
    )
    .unwrap();
}

/// Execute one history and print its trace.
pub fn exec_history(h: &History, out: &mut dyn IoWrite) {
    let mut cfg = h.cfg.clone();
    // the cfg line of the trace states the features of THIS build
    cfg.alloc = cfg!(feature = "alloc");
    cfg.unicode = cfg!(feature = "unicode");
    writeln!(out, "H {} {} seed={}\ndev {}\n{}", h.id, h.scenario, h.seed, h.dev_size, cfg.print()).unwrap();
    let mut s = Session::new(h);
    let mut pending: Option<u64> = None;
    for (text, item) in &h.items {
        writeln!(out, "{}", text).unwrap();
        match item {
            Item::Fault(k) => pending = Some(*k),
            Item::Comment => {}
            Item::Bad { seq } => {
                pending = None;
                match seq {
                    Some(n) => writeln!(out, "R {} bad-script", n).unwrap(),
                    None => writeln!(out, "R ? bad-script").unwrap(),
                }
            }
            Item::Op { seq, op } => {
                let fault = pending.take();
                s.step(*seq, op, fault, Some(out));
            }
        }
    }
    // a script that ends with a live session: abandon it (no destructor runs, nothing is printed)
    s.leak_all();
    writeln!(out, "E").unwrap();
}

/// Execute every `H … E` block of a script text.
pub fn exec_script(input: &mut dyn std::io::BufRead, out: &mut dyn IoWrite) {
    let mut block: Vec<String> = Vec::new();
    let mut line = String::new();
    loop {
        line.clear();
        let n = input.read_line(&mut line).unwrap_or(0);
        let eof = n == 0;
        let l = line.trim_end_matches(['\n', '\r']).to_string();
        let is_h = l.starts_with("H ") || l == "H";
        if (eof || is_h || l == "E") && !block.is_empty() {
            run_block(&block, out);
            block.clear();
        }
        if eof {
            break;
        }
        if is_h {
            block.push(l);
        } else if l == "E" || l.is_empty() {
            // block end handled above; blank lines are ignored
        } else if l.starts_with('#') && block.is_empty() {
            // comment between histories: passed through
            writeln!(out, "{}", l).unwrap();
        } else if !block.is_empty() {
            block.push(l);
        } else {
            // line outside any block
            writeln!(out, "{}\nR ? bad-script", l).unwrap();
        }
    }
}

fn run_block(block: &[String], out: &mut dyn IoWrite) {
    let p = parse_block(block);
    if !p.header_ok {
        writeln!(out, "{}\nR ? bad-script\nE", p.h_line).unwrap();
        return;
    }
    exec_history(&p.hist, out);
}
