//! pure-probe suite `api` (model: lean/FatVerif/Model/ApiGlue.lean): the parts of the PUBLIC API that no history
//! reaches because they are glue rather than file-system behaviour — found by the coverage audit (/verif/COVERAGE.md).
//!
//! ```text
//! P api.error_display <code>          => <hex of `format!("{}", Error::<std::io::Error>::…)`>
//! P api.error_to_io <code>            => <kind of `std::io::Error::from(Error<std::io::Error>)`>
//! P api.error_source <code>           => <1 if `source()` is there>
//! P api.unit_ioerror                  => <is_interrupted> <both constructors ran>
//! P api.stdio_file <fat bits>         => std::io::{Write,Seek,Read} on a `fatfs::File` over `StdIoWrapper<Cursor>`
//! P api.labels <fat bits> <label|none> => volume_label() read_volume_label_from_root_dir() (both hex) volume_id fat_type cluster_size
//! P api.oem <fat bits>                => names of a short-only entry with OEM bytes under the lossy and a custom converter; LossyOemCpConverter::encode
//! P api.diriter_clone <fat bits>      => the rest of a cloned DirIter equals the rest of the original: names
//! P api.null_time                     => NullTimeProvider's date and date-time
//! P api.glue                          => StdIoWrapper::from / into_inner, SeekFrom conversions
//! P api.panics <case>                 => ok | PANIC      (documented panics of builders / accessors)
//! P api.fat32_tail                    => format_fat / get / set on FAT32 entries 0x0FFFFFF0.. (sparse 1 GiB table)
//! ```
//! codes: 1 Io(Other) 2 UnexpectedEof 3 WriteZero 4 InvalidInput 5 NotFound 6 AlreadyExists 7 DirectoryIsNotEmpty
//! 8 CorruptedFileSystem 9 NotEnoughSpace 10 InvalidFileNameLength 11 UnsupportedFileNameCharacter.
use crate::dev::{Dev, DevError};
use crate::util::{catch, hex, Tier};
use fatfs::{
    Date, DateTime, Error, FatType, FileSystem, FormatVolumeOptions, FsOptions, IoError, LossyOemCpConverter,
    NullTimeProvider, OemCpConverter, StdIoWrapper, Time, TimeProvider,
};
use std::cell::RefCell;
use std::io::{Cursor, ErrorKind, Read as _, Seek as _, Write as _};
use std::rc::Rc;

type E = Error<std::io::Error>;

fn mk(code: u8) -> E {
    match code {
        1 => Error::Io(std::io::Error::new(ErrorKind::Other, "device says no")),
        2 => Error::UnexpectedEof,
        3 => Error::WriteZero,
        4 => Error::InvalidInput,
        5 => Error::NotFound,
        6 => Error::AlreadyExists,
        7 => Error::DirectoryIsNotEmpty,
        8 => Error::CorruptedFileSystem,
        9 => Error::NotEnoughSpace,
        10 => Error::InvalidFileNameLength,
        _ => Error::UnsupportedFileNameCharacter,
    }
}

fn kind_letter(k: ErrorKind) -> &'static str {
    match k {
        ErrorKind::Other => "o",
        ErrorKind::UnexpectedEof => "u",
        ErrorKind::WriteZero => "z",
        ErrorKind::InvalidInput => "v",
        ErrorKind::NotFound => "n",
        ErrorKind::AlreadyExists => "a",
        ErrorKind::InvalidData => "d",
        _ => "?",
    }
}

#[derive(Debug, Clone, Copy)]
struct Custom;
impl OemCpConverter for Custom {
    fn decode(&self, c: u8) -> char {
        if c < 0x80 {
            c as char
        } else {
            char::from_u32(0x400 + c as u32).unwrap()
        }
    }
    fn encode(&self, c: char) -> Option<u8> {
        if (c as u32) < 0x80 {
            Some(c as u8)
        } else {
            None
        }
    }
}

/// a std::io storage that can be looked at (and patched) while / after a FileSystem owned a handle on it
#[derive(Clone)]
struct Shared(Rc<RefCell<Cursor<Vec<u8>>>>);
impl std::io::Read for Shared {
    fn read(&mut self, b: &mut [u8]) -> std::io::Result<usize> {
        self.0.borrow_mut().read(b)
    }
}
impl std::io::Write for Shared {
    fn write(&mut self, b: &[u8]) -> std::io::Result<usize> {
        self.0.borrow_mut().write(b)
    }
    fn flush(&mut self) -> std::io::Result<()> {
        self.0.borrow_mut().flush()
    }
}
impl std::io::Seek for Shared {
    fn seek(&mut self, p: std::io::SeekFrom) -> std::io::Result<u64> {
        self.0.borrow_mut().seek(p)
    }
}
impl Shared {
    fn rewind(&self) -> Shared {
        self.0.borrow_mut().set_position(0);
        self.clone()
    }
}

type Storage = StdIoWrapper<Shared>;

fn volume(bits: u8, label: Option<[u8; 11]>) -> Shared {
    let (size, ft) = match bits {
        12 => (1 << 20, FatType::Fat12),
        16 => (8 << 20, FatType::Fat16),
        _ => (40 << 20, FatType::Fat32),
    };
    let sh = Shared(Rc::new(RefCell::new(Cursor::new(vec![0u8; size]))));
    let mut st = StdIoWrapper::new(sh.clone());
    let mut o = FormatVolumeOptions::new().fat_type(ft).bytes_per_cluster(512).volume_id(0xABCD_0123);
    if let Some(l) = label {
        o = o.volume_label(l);
    }
    fatfs::format_volume(&mut st, o).expect("format");
    sh.rewind()
}

fn p(out: &mut dyn std::io::Write, lhs: &str, rhs: Option<String>) {
    writeln!(out, "P {} => {}", lhs, rhs.unwrap_or_else(|| "PANIC".to_string())).unwrap();
}

pub fn run(_tier: Tier, _seed: u64, out: &mut dyn std::io::Write) {
    for code in 1..=11u8 {
        p(out, &format!("api.error_display {}", code), catch(|| hex(format!("{}", mk(code)).as_bytes())));
        p(
            out,
            &format!("api.error_to_io {}", code),
            catch(|| kind_letter(std::io::Error::from(mk(code)).kind()).to_string()),
        );
        p(
            out,
            &format!("api.error_source {}", code),
            catch(|| (std::error::Error::source(&mk(code)).is_some() as u8).to_string()),
        );
    }
    p(
        out,
        "api.unit_ioerror",
        catch(|| {
            let a: () = IoError::new_unexpected_eof_error();
            let b: () = IoError::new_write_zero_error();
            format!("{} {}", IoError::is_interrupted(&a) as u8, (a == b) as u8)
        }),
    );
    for bits in [12u8, 16, 32] {
        // ---- std::io traits of File
        p(
            out,
            &format!("api.stdio_file {}", bits),
            catch(|| {
                use std::io::{Read, Seek, SeekFrom, Write};
                let fs = FileSystem::new(volume(bits, None), FsOptions::new().time_provider(NullTimeProvider::new())).unwrap();
                let root = fs.root_dir();
                let mut f = root.create_file("std io.bin").unwrap();
                let n = Write::write(&mut f, b"hello ").unwrap();
                Write::write_all(&mut f, &[0x41u8; 700]).unwrap();
                Write::flush(&mut f).unwrap();
                let pos = Seek::seek(&mut f, SeekFrom::Current(-703)).unwrap();
                let mut buf = [0u8; 8];
                let k = Read::read(&mut f, &mut buf).unwrap();
                let end = Seek::seek(&mut f, SeekFrom::End(0)).unwrap();
                let neg = Seek::seek(&mut f, SeekFrom::Current(-10_000)).map_err(|e| kind_letter(e.kind()));
                let mut all = Vec::new();
                Seek::seek(&mut f, SeekFrom::Start(0)).unwrap();
                Read::read_to_end(&mut f, &mut all).unwrap();
                format!("{} {} {} {} {} {:?} {}", n, pos, k, hex(&buf[..k]), end, neg.err(), all.len())
            }),
        );
        // ---- labels and ids
        for label in [None, Some(*b"MY LABEL   "), Some(*b"L\xE9VEL 1    ")] {
            let tag = label.map_or("none".to_string(), |l| hex(&l));
            p(
                out,
                &format!("api.labels {} {}", bits, tag),
                catch(|| {
                    let fs: FileSystem<Storage> = FileSystem::new(volume(bits, label), FsOptions::new()).unwrap();
                    #[cfg(feature = "alloc")]
                    let (a, b) = (
                        hex(fs.volume_label().as_bytes()),
                        fs.read_volume_label_from_root_dir().unwrap().map_or("none".to_string(), |s| hex(s.as_bytes())),
                    );
                    #[cfg(not(feature = "alloc"))]
                    let (a, b) = ("-".to_string(), "-".to_string());
                    let ft = match fs.fat_type() {
                        FatType::Fat12 => 12,
                        FatType::Fat16 => 16,
                        FatType::Fat32 => 32,
                    };
                    format!("{} {} {} {} {}", a, b, fs.volume_id(), ft, fs.cluster_size())
                }),
            );
        }
        // ---- OEM code page converters
        p(
            out,
            &format!("api.oem {}", bits),
            catch(|| {
                let img = volume(bits, None);
                {
                    // plant an entry in the root through the library, then patch OEM bytes into its short name:
                    // "CAF\x82.T\x99T" (the long-name slot in front no longer matches its checksum: short-only now)
                    let fs: FileSystem<Storage> = FileSystem::new(img.rewind(), FsOptions::new()).unwrap();
                    drop(fs.root_dir().create_file("CAFX.TXT").unwrap());
                    fs.unmount().unwrap();
                }
                {
                    let mut c = img.0.borrow_mut();
                    let v = c.get_mut();
                    let at = v.windows(11).position(|w| w == b"CAFX    TXT").expect("planted entry");
                    v[at + 3] = 0x82;
                    v[at + 9] = 0x99;
                }
                let lossy = {
                    let fs: FileSystem<Storage> = FileSystem::new(img.rewind(), FsOptions::new()).unwrap();
                    let n = names(&fs.root_dir());
                    n
                };
                let custom = {
                    let fs = FileSystem::new(img.rewind(), FsOptions::new().oem_cp_converter(Custom)).unwrap();
                    let n = names(&fs.root_dir());
                    // lookups go through `decode` as well
                    let found = fs.root_dir().open_file("caf\u{482}.t\u{499}t").is_ok() as u8;
                    format!("{} {}", n, found)
                };
                let l = LossyOemCpConverter::new();
                format!(
                    "{} {} {:?} {:?} {}",
                    lossy,
                    custom,
                    l.encode('a'),
                    l.encode('\u{e9}'),
                    l.decode(0x99) as u32
                )
                .replace("Some(", "some:")
                .replace(')', "")
                .replace("None", "none")
            }),
        );
        // ---- DirIter is Clone
        p(
            out,
            &format!("api.diriter_clone {}", bits),
            catch(|| {
                let fs: FileSystem<Storage> = FileSystem::new(volume(bits, None), FsOptions::new()).unwrap();
                let root = fs.root_dir();
                for n in ["one.txt", "two with a long name.txt", "THREE"] {
                    root.create_file(n).unwrap();
                }
                let mut it = root.iter();
                let first = it.next().unwrap().unwrap();
                let rest_clone: Vec<String> = it.clone().map(|e| hex(e.unwrap().short_file_name_as_bytes())).collect();
                let rest: Vec<String> = it.map(|e| hex(e.unwrap().short_file_name_as_bytes())).collect();
                format!(
                    "{} {} {}",
                    hex(first.short_file_name_as_bytes()),
                    rest.join(","),
                    (rest == rest_clone) as u8
                )
            }),
        );
    }
    p(
        out,
        "api.null_time",
        catch(|| {
            let t = NullTimeProvider::new();
            let d = t.get_current_date();
            let dt = t.get_current_date_time();
            format!(
                "{}-{}-{} {}-{}-{} {}:{}:{}.{}",
                d.year, d.month, d.day, dt.date.year, dt.date.month, dt.date.day, dt.time.hour, dt.time.min, dt.time.sec, dt.time.millis
            )
        }),
    );
    p(
        out,
        "api.glue",
        catch(|| {
            let w: StdIoWrapper<Cursor<Vec<u8>>> = Cursor::new(vec![1u8, 2, 3]).into();
            let inner = w.into_inner();
            let a: fatfs::SeekFrom = std::io::SeekFrom::Start(7).into();
            let b: fatfs::SeekFrom = std::io::SeekFrom::End(-3).into();
            let c: fatfs::SeekFrom = std::io::SeekFrom::Current(5).into();
            let back: std::io::SeekFrom = fatfs::SeekFrom::End(-9).into();
            format!("{} {:?} {:?} {:?} {:?}", hex(inner.get_ref()), a, b, c, back)
        }),
    );
    // ---- documented panics
    let cases: Vec<(&str, Box<dyn Fn()>)> = vec![
        ("bps_513", Box::new(|| drop(FormatVolumeOptions::new().bytes_per_sector(513)))),
        ("bps_256", Box::new(|| drop(FormatVolumeOptions::new().bytes_per_sector(256)))),
        ("bps_4096", Box::new(|| drop(FormatVolumeOptions::new().bytes_per_sector(4096)))),
        ("bpc_256", Box::new(|| drop(FormatVolumeOptions::new().bytes_per_cluster(256)))),
        ("bpc_768", Box::new(|| drop(FormatVolumeOptions::new().bytes_per_cluster(768)))),
        ("bpc_512", Box::new(|| drop(FormatVolumeOptions::new().bytes_per_cluster(512)))),
        ("fats_0", Box::new(|| drop(FormatVolumeOptions::new().fats(0)))),
        ("fats_3", Box::new(|| drop(FormatVolumeOptions::new().fats(3)))),
        ("fats_2", Box::new(|| drop(FormatVolumeOptions::new().fats(2)))),
        ("date_1979", Box::new(|| drop(Date::new(1979, 12, 31)))),
        ("date_2108", Box::new(|| drop(Date::new(2108, 1, 1)))),
        ("date_month_0", Box::new(|| drop(Date::new(2000, 0, 1)))),
        ("date_month_13", Box::new(|| drop(Date::new(2000, 13, 1)))),
        ("date_day_0", Box::new(|| drop(Date::new(2000, 1, 0)))),
        ("date_day_32", Box::new(|| drop(Date::new(2000, 1, 32)))),
        ("date_ok", Box::new(|| drop(DateTime::new(Date::new(2107, 12, 31), Time::new(23, 59, 59, 999))))),
        ("time_hour_24", Box::new(|| drop(Time::new(24, 0, 0, 0)))),
        ("time_min_60", Box::new(|| drop(Time::new(0, 60, 0, 0)))),
        ("time_sec_60", Box::new(|| drop(Time::new(0, 0, 60, 0)))),
        ("time_ms_1000", Box::new(|| drop(Time::new(0, 0, 0, 1000)))),
        (
            "to_file_on_dir",
            Box::new(|| {
                let fs: FileSystem<Storage> = FileSystem::new(volume(12, None), FsOptions::new()).unwrap();
                fs.root_dir().create_dir("d").unwrap();
                let e = fs.root_dir().iter().next().unwrap().unwrap();
                drop(e.to_file());
            }),
        ),
        (
            "to_dir_on_file",
            Box::new(|| {
                let fs: FileSystem<Storage> = FileSystem::new(volume(12, None), FsOptions::new()).unwrap();
                fs.root_dir().create_file("f").unwrap();
                let e = fs.root_dir().iter().next().unwrap().unwrap();
                drop(e.to_dir());
            }),
        ),
        (
            "to_dir_on_dir",
            Box::new(|| {
                let fs: FileSystem<Storage> = FileSystem::new(volume(12, None), FsOptions::new()).unwrap();
                fs.root_dir().create_dir("d").unwrap();
                let e = fs.root_dir().iter().next().unwrap().unwrap();
                assert!(e.is_dir() && !e.is_file());
                drop(e.to_dir());
            }),
        ),
    ];
    for (name, f) in &cases {
        p(out, &format!("api.panics {}", name), catch(|| f()).map(|()| "ok".to_string()));
    }
    // ---- FAT32 table entries 0x0FFFFFF0.. (only a table of the maximal size has them)
    p(
        out,
        "api.fat32_tail",
        catch(|| {
            use fatfs::verif::verif_table as vt;
            let mut dev = Dev::new(0x4000_0000);
            let bytes_per_fat: u64 = 0x4000_0000; // 0x10000000 entries
            vt::format::<Dev, DevError>(&mut dev, 32, 0xF8, bytes_per_fat, 0x0FFF_FFF4).unwrap();
            let get = |dev: &mut Dev, c: u32| match vt::get::<Dev, DevError>(dev, 32, c) {
                Ok((k, n)) => format!("{}:{}", k, n),
                Err(_) => "err".to_string(),
            };
            let mut v = Vec::new();
            for c in [0u32, 1, 2, 0x0FFF_FFF5, 0x0FFF_FFF6, 0x0FFF_FFF7, 0x0FFF_FFF8, 0x0FFF_FFFF] {
                v.push(get(&mut dev, c));
            }
            // raw zero in a special entry is reported as bad, not free
            dev.with(|d| d.poke(0x0FFF_FFF9u64 * 4, &[0, 0, 0, 0]));
            v.push(get(&mut dev, 0x0FFF_FFF9));
            // an ordinary value in the bad-cluster entry is hidden
            dev.with(|d| d.poke(0x0FFF_FFF7u64 * 4, &[5, 0, 0, 0]));
            v.push(get(&mut dev, 0x0FFF_FFF7));
            // the same for the other wording of the warning: zero in the bad-cluster entry, a value in an end-of-chain one
            dev.with(|d| d.poke(0x0FFF_FFF7u64 * 4, &[0, 0, 0, 0]));
            v.push(get(&mut dev, 0x0FFF_FFF7));
            dev.with(|d| d.poke(0x0FFF_FFF9u64 * 4, &[9, 0, 0, 0]));
            v.push(get(&mut dev, 0x0FFF_FFF9));
            // freeing a special entry is refused loudly
            let mut d2 = dev.clone();
            let freed = catch(move || vt::set::<Dev, DevError>(&mut d2, 32, 0x0FFF_FFF8, 0, 0).is_ok());
            v.push(format!("{:?}", freed).replace("Some(", "").replace(')', "").replace("None", "PANIC"));
            let mut d3 = dev.clone();
            let freed7 = catch(move || vt::set::<Dev, DevError>(&mut d3, 32, 0x0FFF_FFF7, 0, 0).is_ok());
            v.push(format!("{:?}", freed7).replace("Some(", "").replace(')', "").replace("None", "PANIC"));
            v.join(",")
        }),
    );
}

fn names<IO: fatfs::ReadWriteSeek, TP: TimeProvider, OCC: OemCpConverter>(d: &fatfs::Dir<IO, TP, OCC>) -> String {
    let mut v = Vec::new();
    for e in d.iter() {
        let e = e.unwrap();
        #[cfg(feature = "alloc")]
        v.push(format!("{}/{}", hex(e.file_name().as_bytes()), hex(e.short_file_name().as_bytes())));
        #[cfg(not(feature = "alloc"))]
        v.push(hex(e.short_file_name_as_bytes()));
    }
    v.join(",")
}
