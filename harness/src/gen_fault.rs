//! Scenario `fault` (property C09): exhaustive single-fault enumeration.
//!
//! For each FAT width a set of base histories (set-up prefix + target operations) is run once fault-free on a
//! private session to learn the number of device calls of every operation. Then for every target operation i and
//! every call index k in 1..=calls_i one history is emitted:
//!
//! ```text
//! H fault-<seed>-<bits>b<nn>-<i>-<k> fault seed=<seed>
//! dev … / cfg … budget=200000
//! O 1 … O i-1 …          the operations before the target, fault-free
//! fault k
//! O i …                  the target operation; the history ends here (the executor leaks the session)
//! E
//! ```
//!
//! `<bits>` = 12|16|32, `<nn>` = number of the base (see `BASES`), `<i>` = seq of the faulted operation.
//! Quick tier: k is subsampled (stride per width, long operations thinned out); thorough: every k, except that
//! operations with more than 20 000 calls are thinned out as well (first 200, last 50, every ⌈calls/300⌉-th).
use super::*;
use crate::clock::ClockMode;
use crate::script::Whence;

pub const BUDGET: u64 = 200_000;

pub const BASES: [&str; 13] = [
    "format",        // 0: format itself
    "create-root",   // 1: create a file in the root, write a little, dropf with pending size
    "create-sub",    // 2: create a file / a directory in a sub-directory
    "create-grow",   // 3: create in a directory that must grow by a cluster
    "write3",        // 4: write across >= 3 clusters, flush, dropf
    "overwrite",     // 5: overwrite in place, seek across clusters, read, readall
    "truncate",      // 6: truncate in the middle and to 0
    "remove",        // 7: remove a multi-cluster file, remove an empty directory, list
    "rename",        // 8: rename within a directory, across directories, through a second handle
    "fsinfo",        // 9: stats (count unknown), status, list, label_root, extents
    "open-depth2",   // 10: open_file / open_dir by a path of depth 2, read, list
    "mount-unmount", // 11: mount, work, unmount (FAT32: dirty fs-info), mount, dropfs
    "create-dir",    // 12: create_dir in the root and nested, unmount
];

struct Base {
    vol: VolCfg,
    cfg: Cfg,
    ops: Vec<Op>,
    calls: Vec<u64>,
    /// kind of every device call of every operation
    kinds: Vec<Vec<u8>>,
    /// index (into ops) of the first target operation
    first_target: usize,
}

struct B {
    cx: Ctx,
    calls: Vec<u64>,
    kinds: Vec<Vec<u8>>,
    first_target: Option<usize>,
}

impl B {
    fn step(&mut self, op: Op) -> Out {
        let r = self.cx.step(op);
        let c = self.cx.s.last_cnt;
        self.calls.push(c.reads + c.writes + c.seeks + c.flushes);
        self.kinds.push(self.cx.s.dev.with(|d| d.kinds.clone()));
        r
    }
    fn targets(&mut self) {
        if self.first_target.is_none() {
            self.first_target = Some(self.calls.len());
        }
    }
    fn mkfile(&mut self, path: &str, len: usize, rng: &mut SplitMix64) {
        let f = self.cx.new_f();
        if self.step(Op::CreateFile { d: 0, path: path.as_bytes().to_vec(), new: f }).is_ok() {
            if len > 0 {
                let data = content(rng, len);
                self.step(Op::WriteAll { f, data });
            }
            self.step(Op::DropF(f));
        }
    }
    fn mkdir(&mut self, path: &str) {
        let d = self.cx.new_d();
        if self.step(Op::CreateDir { d: 0, path: path.as_bytes().to_vec(), new: d }).is_ok() {
            self.step(Op::DropD(d));
        }
    }
}

fn build(nn: usize, vol: &VolCfg, rng: &mut SplitMix64) -> Base {
    let mut cfg = Cfg::new(true, false, ClockMode::Const);
    cfg.budget = BUDGET;
    let cx = Ctx::new("base".to_string(), "fault", 0, vol.clone(), cfg.clone());
    let mut b = B {
        cx,
        calls: Vec::new(),
        kinds: Vec::new(),
        first_target: None,
    };
    let cs = vol.cs as usize;
    let p = |s: &str| s.as_bytes().to_vec();
    if nn == 0 {
        b.targets();
    }
    let fmt = b.cx.vol.fmt.clone();
    b.step(Op::Format(fmt));
    if nn == 11 {
        b.targets();
    }
    b.step(Op::Mount);
    match nn {
        0 => {}
        1 => {
            b.mkfile("EXIST.TXT", 5, rng);
            b.targets();
            let f = b.cx.new_f();
            b.step(Op::CreateFile { d: 0, path: p("new file.txt"), new: f });
            b.step(Op::WriteAll { f, data: content(rng, 10) });
            b.step(Op::DropF(f));
            let f = b.cx.new_f();
            b.step(Op::CreateFile { d: 0, path: p("EXIST.TXT"), new: f });
            b.step(Op::DropF(f));
        }
        2 => {
            b.mkdir("sub");
            b.targets();
            let f = b.cx.new_f();
            b.step(Op::CreateFile { d: 0, path: p("sub/long file name.txt"), new: f });
            b.step(Op::DropF(f));
            let d = b.cx.new_d();
            b.step(Op::CreateDir { d: 0, path: p("sub/inner"), new: d });
            b.step(Op::DropD(d));
        }
        3 => {
            b.mkdir("grow");
            // a cluster holds cs/32 slots; `.` and `..` take two, every file below takes two
            let slots = cs / 32;
            let mut used = 2;
            let mut i = 0;
            while used + 2 <= slots && i < 200 {
                b.mkfile(&format!("grow/file{:03}", i), 0, rng);
                used += 2;
                i += 1;
            }
            b.targets();
            let f = b.cx.new_f();
            b.step(Op::CreateFile { d: 0, path: p("grow/one more long name.txt"), new: f });
            b.step(Op::DropF(f));
        }
        4 => {
            let f = b.cx.new_f();
            b.step(Op::CreateFile { d: 0, path: p("big.bin"), new: f });
            b.targets();
            b.step(Op::WriteAll { f, data: content(rng, 3 * cs + 100) });
            b.step(Op::Flush(f));
            b.step(Op::Write { f, data: content(rng, 7) });
            b.step(Op::DropF(f));
        }
        5 => {
            let f = b.cx.new_f();
            b.step(Op::CreateFile { d: 0, path: p("big.bin"), new: f });
            b.step(Op::WriteAll { f, data: content(rng, 3 * cs + 100) });
            b.step(Op::Flush(f));
            b.targets();
            b.step(Op::Seek { f, whence: Whence::Start, n: cs as i64 - 10 });
            b.step(Op::WriteAll { f, data: content(rng, 20) });
            b.step(Op::Seek { f, whence: Whence::Start, n: 0 });
            b.step(Op::Seek { f, whence: Whence::Start, n: 2 * cs as i64 + 5 });
            b.step(Op::Read { f, n: 100 });
            b.step(Op::Seek { f, whence: Whence::End, n: -(cs as i64) - 1 });
            b.step(Op::ReadX { f, n: cs as u64 });
            b.step(Op::Seek { f, whence: Whence::Start, n: 1 });
            b.step(Op::ReadAll(f));
            b.step(Op::Flush(f));
            b.step(Op::DropF(f));
        }
        6 => {
            let f = b.cx.new_f();
            b.step(Op::CreateFile { d: 0, path: p("big.bin"), new: f });
            b.step(Op::WriteAll { f, data: content(rng, 3 * cs + 100) });
            b.step(Op::Flush(f));
            b.targets();
            b.step(Op::Seek { f, whence: Whence::Start, n: cs as i64 + 7 });
            b.step(Op::Truncate(f));
            b.step(Op::Flush(f));
            b.step(Op::Seek { f, whence: Whence::Start, n: 0 });
            b.step(Op::Truncate(f));
            b.step(Op::DropF(f));
        }
        7 => {
            b.mkfile("big file with long name.bin", 3 * cs + 100, rng);
            b.mkdir("emptyd");
            b.mkdir("full");
            b.mkfile("full/x", 1, rng);
            b.targets();
            b.step(Op::Remove { d: 0, path: p("big file with long name.bin") });
            b.step(Op::Remove { d: 0, path: p("emptyd") });
            b.step(Op::Remove { d: 0, path: p("full") });
            b.step(Op::Remove { d: 0, path: p("full/x") });
            b.step(Op::List(0));
        }
        8 => {
            b.mkdir("a");
            b.mkdir("b");
            b.mkfile("a/x.txt", cs + 5, rng);
            b.targets();
            b.step(Op::Rename { d: 0, src: p("a/x.txt"), d2: 0, dst: p("a/y renamed.txt") });
            b.step(Op::Rename { d: 0, src: p("a/y renamed.txt"), d2: 0, dst: p("b/z.txt") });
            let d = b.cx.new_d();
            b.step(Op::OpenDir { d: 0, path: p("b"), new: d });
            b.step(Op::Rename { d, src: p("z.txt"), d2: 0, dst: p("back.txt") });
            b.step(Op::Rename { d: 0, src: p("a"), d2: d, dst: p("a moved") });
            b.step(Op::DropD(d));
        }
        9 => {
            b.mkfile("one.txt", cs + 1, rng);
            b.mkfile("second file.txt", 10, rng);
            b.mkdir("d");
            // remount so that the free count is unknown again on FAT12/16
            b.step(Op::Unmount);
            b.step(Op::Mount);
            b.targets();
            b.step(Op::Stats);
            b.step(Op::Stats);
            b.step(Op::Status);
            b.step(Op::List(0));
            b.step(Op::LabelRoot);
            let f = b.cx.new_f();
            b.step(Op::OpenFile { d: 0, path: p("one.txt"), new: f });
            b.step(Op::Extents(f));
            b.step(Op::DropF(f));
        }
        10 => {
            b.mkdir("a");
            b.mkdir("a/b");
            b.mkfile("a/b/f.txt", 2 * cs + 3, rng);
            b.targets();
            let f = b.cx.new_f();
            b.step(Op::OpenFile { d: 0, path: p("a/b/f.txt"), new: f });
            b.step(Op::Read { f, n: 10 });
            b.step(Op::DropF(f));
            let d = b.cx.new_d();
            b.step(Op::OpenDir { d: 0, path: p("a/b"), new: d });
            b.step(Op::List(d));
            b.step(Op::DropD(d));
        }
        11 => {
            let f = b.cx.new_f();
            b.step(Op::CreateFile { d: 0, path: p("f.txt"), new: f });
            b.step(Op::WriteAll { f, data: content(rng, cs + 1) });
            b.step(Op::DropF(f));
            b.step(Op::Unmount);
            b.step(Op::Mount);
            // the second session changes the volume too, so that dropping the file system has something to write
            // (status byte, FAT32 FS-info): a fault there is swallowed by the destructor
            let f = b.cx.new_f();
            b.step(Op::CreateFile { d: 0, path: p("g.txt"), new: f });
            b.step(Op::WriteAll { f, data: content(rng, 2 * cs + 1) });
            b.step(Op::DropF(f));
            b.step(Op::DropFs);
        }
        _ => {
            b.targets();
            let d = b.cx.new_d();
            b.step(Op::CreateDir { d: 0, path: p("newdir"), new: d });
            let d2 = b.cx.new_d();
            b.step(Op::CreateDir { d, path: p("sub dir with long name"), new: d2 });
            b.step(Op::DropD(d2));
            b.step(Op::DropD(d));
            b.step(Op::Unmount);
        }
    }
    b.targets();
    let ops: Vec<Op> = b
        .cx
        .h
        .items
        .iter()
        .filter_map(|(_, it)| match it {
            crate::script::Item::Op { op, .. } => Some(op.clone()),
            _ => None,
        })
        .collect();
    b.cx.s.leak_all();
    Base {
        vol: vol.clone(),
        cfg,
        first_target: b.first_target.unwrap_or(ops.len()),
        calls: b.calls,
        kinds: b.kinds,
        ops,
    }
}

/// The fault positions to enumerate for an operation with `calls` device calls.
/// `positions`, plus EVERY call that is a write or a flush (only reads and seeks are thinned out).
pub fn positions_kinds(kinds: &[u8], stride: u64, long: u64) -> Vec<u64> {
    let mut ks = positions(kinds.len() as u64, stride, long);
    for (i, k) in kinds.iter().enumerate() {
        if (*k == b'w' || *k == b'f') && !ks.contains(&(i as u64 + 1)) {
            ks.push(i as u64 + 1);
        }
    }
    ks.sort_unstable();
    ks
}

pub fn positions(calls: u64, stride: u64, long: u64) -> Vec<u64> {
    if calls <= long {
        return (1..=calls).filter(|k| (k - 1) % stride == 0 || *k == calls).collect();
    }
    // long operation: beginning, end, and a thin sample of the middle
    let step = ((calls + 299) / 300).max(stride);
    (1..=calls)
        .filter(|k| (*k <= 200 && (k - 1) % stride == 0) || *k + 50 > calls || k % step == 0)
        .collect()
}

fn emit_base(seed: u64, bits: u8, nn: usize, base: &Base, stride: u64, long: u64, sink: &mut Sink) -> u64 {
    let mut n = 0;
    for i in base.first_target..base.ops.len() {
        debug_assert_eq!(base.calls[i] as usize, base.kinds[i].len());
        for k in positions_kinds(&base.kinds[i], stride, long) {
            let id = format!("fault-{}-{}b{:02}-{}-{}", seed, bits, nn, i + 1, k);
            let mut h = History::new(id, "fault", seed, base.vol.dev_size, base.cfg.clone());
            for op in &base.ops[..i] {
                h.op(op.clone());
            }
            h.fault(k);
            h.op(base.ops[i].clone());
            sink.emit(h);
            n += 1;
        }
    }
    n
}

pub fn volumes(cat: &Catalogue) -> [VolCfg; 3] {
    // tiny FAT12: 512-byte clusters, 16-entry root, one FAT copy (cheap format), 64 clusters
    let v12 = cat
        .tiny
        .iter()
        .filter(|c| c.bps == 512 && c.cs == 512 && c.root_entries == 16 && c.clusters >= 40)
        .min_by_key(|c| (c.fmt.fats, c.fmt.label.is_some(), c.fmt.total.is_some()))
        .unwrap_or(&cat.tiny[0])
        .clone();
    let v16 = cat
        .fat16
        .iter()
        .filter(|c| c.bps == 512 && c.cs == 512 && c.fmt.fats == 2)
        .min_by_key(|c| (c.root_entries, c.clusters))
        .unwrap_or(&cat.fat16[0])
        .clone();
    let v32 = cat
        .fat32
        .iter()
        .filter(|c| c.bps == 512 && c.cs == 512 && c.fmt.fats == 2)
        .next()
        .unwrap_or(&cat.fat32[0])
        .clone();
    [v12, v16, v32]
}

pub fn run(tier: Tier, seed: u64, rng: &mut SplitMix64, _n_override: Option<u64>, sink: &mut Sink) {
    let cat = Catalogue::build();
    let vols = volumes(&cat);
    let mut total = [0u64; 3];
    for (w, vol) in vols.iter().enumerate() {
        // quick: every k on FAT12, every 2nd on FAT16, every 3rd on FAT32 and only some of its bases
        let (stride, long) = match (tier, vol.bits) {
            (Tier::Thorough, _) => (1, 20_000),
            (Tier::Quick, 12) => (1, 700),
            (Tier::Quick, 16) => (2, 400),
            (Tier::Quick, _) => (3, 300),
        };
        for nn in 0..BASES.len() {
            if tier == Tier::Quick && vol.bits == 32 && !matches!(nn, 1 | 3 | 4 | 6 | 8 | 11) {
                continue;
            }
            if tier == Tier::Quick && vol.bits == 16 && matches!(nn, 0 | 10) {
                continue;
            }
            let mut r = rng.fork();
            let base = build(nn, vol, &mut r);
            total[w] += emit_base(seed, vol.bits, nn, &base, stride, long, sink);
        }
    }
    eprintln!(
        "# fault schedules: fat12={} fat16={} fat32={} total={}",
        total[0],
        total[1],
        total[2],
        total.iter().sum::<u64>()
    );
}
