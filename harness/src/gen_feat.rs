//! Scenario `feat` (property C19): namespace + file I/O mixes whose SCRIPT does not depend on the executing build.
//!
//! The script is generated OFFLINE from a private model of which names exist (default-build semantics: long names
//! compare equal when their full Unicode upper-casings are equal); the real library is never consulted for a
//! decision (only for the catalogue of valid format options, which does not depend on build features). Every handle
//! is introduced, used and dropped in one uninterrupted run of operations, so a build in which the introducing call
//! fails just answers `bad-script` for the rest of the run and never leaks a handle. The `cfg` line always says
//! `alloc=1 unicode=1` (the executor replaces both by the features of its own build).
//!
//! 70 % of the histories use ASCII names only (lengths 1…255), 30 % add names that differ only by non-ASCII case.
use super::*;
use crate::clock::ClockMode;
use crate::script::Whence;
use std::collections::BTreeMap;

#[derive(Clone, Debug)]
struct Ent {
    path: String,
    is_dir: bool,
    size: u64,
}

struct Feat {
    h: History,
    /// key = upper-cased path
    model: BTreeMap<String, Ent>,
    names: Vec<String>,
    next_d: u32,
    next_f: u32,
    cs: u64,
}

fn key(path: &str) -> String {
    path.chars().flat_map(char::to_uppercase).collect()
}

fn valid_name(n: &str) -> bool {
    if n.is_empty() || n.len() > 255 {
        return false;
    }
    n.chars().all(|c| {
        matches!(c, 'a'..='z' | 'A'..='Z' | '0'..='9' | '\u{80}'..='\u{FFFF}'
            | '$' | '%' | '\'' | '-' | '_' | '@' | '~' | '`' | '!' | '(' | ')' | '{' | '}' | '.' | ' ' | '+' | ','
            | ';' | '=' | '[' | ']' | '^' | '#' | '&')
    })
}

/// An ASCII name of exactly `len` characters; `style` picks the shape.
fn ascii_name(len: usize, idx: usize, style: u64) -> String {
    let letters = b"abcdefghijklmnopqrstuvwxyz";
    let mut s = String::new();
    let tag = format!("{}", idx);
    let ext = match style % 4 {
        0 => ".txt",
        1 => ".B",
        2 => "",
        _ => ".data",
    };
    let body = len.saturating_sub(ext.len());
    for i in 0..body {
        if i < tag.len() {
            s.push(tag.as_bytes()[i] as char);
        } else {
            let c = letters[(i + idx) % 26] as char;
            s.push(match style % 3 {
                0 => c,
                1 => c.to_ascii_uppercase(),
                _ => {
                    if i % 5 == 4 && i + 1 < body {
                        ' '
                    } else if i % 2 == 0 {
                        c.to_ascii_uppercase()
                    } else {
                        c
                    }
                }
            });
        }
    }
    if s.is_empty() {
        // names shorter than the extension
        return "qwxyz"[..len.min(5)].to_string();
    }
    s.push_str(ext);
    s.truncate(len);
    if s.ends_with(' ') || s.ends_with('.') {
        s.pop();
        s.push('_');
    }
    s
}

const LENGTHS: [usize; 18] = [1, 2, 3, 5, 8, 11, 12, 13, 14, 25, 26, 27, 39, 40, 64, 128, 254, 255];
const UNI_PAIRS: [(&str, &str); 7] = [
    ("\u{dc}n\u{ef}.txt", "\u{dc}N\u{cf}.TXT"),
    ("\u{df}", "SS"),
    ("stra\u{df}e.txt", "STRASSE.TXT"),
    ("a\u{1c6}", "A\u{1c5}"),
    ("\u{1c6}x.bin", "\u{1c4}X.BIN"),
    ("\u{3c3}\u{3b1}\u{3c2}.txt", "\u{3a3}\u{391}\u{3a3}.TXT"),
    ("\u{3bf}\u{3b4}\u{3cc}\u{3c2}", "\u{39f}\u{394}\u{38c}\u{3a3}"),
];

fn name_pool(rng: &mut SplitMix64, unicode: bool) -> Vec<String> {
    let mut v: Vec<String> = Vec::new();
    let n = rng.range(8, 14) as usize;
    let mut idx = 0;
    while v.len() < n {
        idx += 1;
        let len = if rng.chance(1, 3) { rng.range(1, 255) as usize } else { *rng.pick(&LENGTHS) };
        let nm = ascii_name(len, idx, rng.below(12));
        if !v.contains(&nm) {
            v.push(nm.clone());
            // sometimes add a case variant that collides
            if rng.chance(1, 4) && nm.len() > 1 {
                let var = if rng.chance(1, 2) { nm.to_ascii_uppercase() } else { nm.to_ascii_lowercase() };
                if !v.contains(&var) {
                    v.push(var);
                }
            }
        }
    }
    if unicode {
        for _ in 0..rng.range(1, 3) {
            let (a, b) = *rng.pick(&UNI_PAIRS);
            for s in [a, b] {
                if !v.contains(&s.to_string()) {
                    v.push(s.to_string());
                }
            }
        }
        // a long non-ASCII name: 255 units
        if rng.chance(1, 3) {
            let mut s: String = "\u{e9}".repeat(251);
            s.push_str(".txt");
            v.push(s.clone());
            v.push(s.to_uppercase());
        }
    }
    if rng.chance(1, 3) {
        v.push(rng.pick(&["a:b", "x*y", "q?", ""]).to_string());
    }
    if rng.chance(2, 5) {
        // names ending in dots / spaces (kept verbatim by every build), sometimes next to their trimmed twin
        let t = *rng.pick(&TRAILING);
        v.push(t.to_string());
        if rng.chance(1, 2) {
            v.push(t.trim_end_matches(['.', ' ']).to_string());
        }
    }
    if rng.chance(1, 4) {
        v.push("y".repeat(256));
    }
    v
}

impl Feat {
    fn new_f(&mut self) -> u32 {
        self.next_f += 1;
        self.next_f
    }
    fn new_d(&mut self) -> u32 {
        self.next_d += 1;
        self.next_d
    }
    fn dirs(&self) -> Vec<String> {
        let mut v = vec![String::new()];
        v.extend(self.model.values().filter(|e| e.is_dir).map(|e| e.path.clone()));
        v
    }
    fn files(&self) -> Vec<Ent> {
        self.model.values().filter(|e| !e.is_dir).cloned().collect()
    }
    fn join(dir: &str, name: &str) -> String {
        if dir.is_empty() {
            name.to_string()
        } else {
            format!("{}/{}", dir, name)
        }
    }
    fn parent(path: &str) -> &str {
        path.rfind('/').map_or("", |i| &path[..i])
    }
    fn leaf(path: &str) -> &str {
        path.rfind('/').map_or(path, |i| &path[i + 1..])
    }
    fn has_kids(&self, path: &str) -> bool {
        let pre = format!("{}/", key(path));
        self.model.keys().any(|k| k.starts_with(&pre))
    }
    fn dir_exists(&self, path: &str) -> bool {
        path.is_empty() || self.model.get(&key(path)).map_or(false, |e| e.is_dir)
    }

    /// A path for an operation: an existing object (in some spelling), or parent + name from the pool.
    fn some_path(&self, rng: &mut SplitMix64, existing: bool) -> String {
        let all: Vec<&Ent> = self.model.values().collect();
        if existing && !all.is_empty() {
            let e = rng.pick(&all);
            return match rng.below(6) {
                0 => e.path.to_uppercase(),
                1 => e.path.to_lowercase(),
                2 => e.path.to_ascii_uppercase(),
                _ => e.path.clone(),
            };
        }
        let dirs: Vec<String> = self.dirs().into_iter().filter(|d| d.matches('/').count() < 1).collect();
        let d = rng.pick(&dirs).clone();
        let nm: &String = rng.pick(&self.names[..]);
        Self::join(&d, nm)
    }

    fn op_create_file(&mut self, rng: &mut SplitMix64) {
        let ex = rng.chance(1, 6);
        let path = self.some_path(rng, ex);
        let f = self.new_f();
        self.h.op(Op::CreateFile { d: 0, path: path.clone().into_bytes(), new: f });
        let k = key(&path);
        let ok = valid_name(Self::leaf(&path)) && self.dir_exists(Self::parent(&path));
        let exists = self.model.get(&k).cloned();
        let mut size = exists.as_ref().map_or(0, |e| e.size);
        let expect_handle = ok && !exists.as_ref().map_or(false, |e| e.is_dir);
        // (when the model expects the call to fail only the drop follows: it answers bad-script)
        if expect_handle && rng.chance(3, 4) {
            let len = match rng.below(6) {
                0 => 0,
                1 => self.cs as usize + 1,
                2 => 2 * self.cs as usize,
                _ => rng.range(1, 50) as usize,
            };
            if rng.chance(1, 3) {
                self.h.op(Op::Seek { f, whence: Whence::End, n: 0 });
                self.h.op(Op::WriteAll { f, data: content(rng, len) });
                size += len as u64;
            } else {
                self.h.op(Op::WriteAll { f, data: content(rng, len) });
                size = size.max(len as u64);
            }
        }
        self.h.op(Op::DropF(f));
        if ok {
            match exists {
                Some(e) if e.is_dir => {}
                Some(mut e) => {
                    e.size = size;
                    self.model.insert(k, e);
                }
                None => {
                    self.model.insert(k, Ent { path, is_dir: false, size });
                }
            }
        }
    }

    fn op_create_dir(&mut self, rng: &mut SplitMix64) {
        let ex = rng.chance(1, 8);
        let path = self.some_path(rng, ex);
        let d = self.new_d();
        self.h.op(Op::CreateDir { d: 0, path: path.clone().into_bytes(), new: d });
        let k0 = key(&path);
        let expect_handle = valid_name(Self::leaf(&path))
            && self.dir_exists(Self::parent(&path))
            && self.model.get(&k0).map_or(true, |e| e.is_dir);
        if expect_handle && rng.chance(1, 3) {
            self.h.op(Op::List(d));
        }
        self.h.op(Op::DropD(d));
        let k = key(&path);
        if valid_name(Self::leaf(&path)) && self.dir_exists(Self::parent(&path)) && !self.model.contains_key(&k) {
            self.model.insert(k, Ent { path, is_dir: true, size: 0 });
        }
    }

    fn op_open_file(&mut self, rng: &mut SplitMix64) {
        let ex = rng.chance(4, 5);
        let path = self.some_path(rng, ex);
        let f = self.new_f();
        self.h.op(Op::OpenFile { d: 0, path: path.clone().into_bytes(), new: f });
        let size = self.model.get(&key(&path)).map_or(0, |e| e.size);
        let cs = self.cs;
        let mut new_size = size;
        let expect_handle = self.model.get(&key(&path)).map_or(false, |e| !e.is_dir);
        let rounds = if expect_handle { rng.range(1, 5) } else { 0 };
        for _ in 0..rounds {
            match rng.below(8) {
                0 => {
                    let n = *rng.pick(&[0, 1, cs - 1, cs, cs + 1, size]);
                    self.h.op(Op::Seek { f, whence: Whence::Start, n: n as i64 });
                }
                1 => {
                    self.h.op(Op::Seek { f, whence: Whence::End, n: -(rng.below(size + 1) as i64) });
                }
                2 | 3 => {
                    self.h.op(Op::Read { f, n: rng.range(0, 2 * cs.min(2048)) });
                }
                4 => {
                    self.h.op(Op::Seek { f, whence: Whence::Start, n: 0 });
                    self.h.op(Op::ReadAll(f));
                }
                5 | 6 => {
                    let len = rng.range(1, cs.min(2048) + 2) as usize;
                    self.h.op(Op::Seek { f, whence: Whence::End, n: 0 });
                    self.h.op(Op::WriteAll { f, data: content(rng, len) });
                    new_size += len as u64;
                }
                _ => {
                    let at = rng.below(new_size + 1);
                    self.h.op(Op::Seek { f, whence: Whence::Start, n: at as i64 });
                    self.h.op(Op::Truncate(f));
                    new_size = at;
                }
            }
        }
        if expect_handle && rng.chance(1, 3) {
            self.h.op(Op::Extents(f));
        }
        self.h.op(Op::DropF(f));
        if let Some(e) = self.model.get_mut(&key(&path)) {
            if !e.is_dir {
                e.size = new_size;
            }
        }
    }

    fn op_open_dir(&mut self, rng: &mut SplitMix64) {
        let ds = self.dirs();
        let path = if rng.chance(4, 5) && ds.len() > 1 {
            let p = rng.pick(&ds[1..]).clone();
            match rng.below(4) {
                0 => p.to_uppercase(),
                1 => p.to_lowercase(),
                _ => p,
            }
        } else {
            self.some_path(rng, false)
        };
        let d = self.new_d();
        self.h.op(Op::OpenDir { d: 0, path: path.clone().into_bytes(), new: d });
        let expect_handle = !path.is_empty() && self.dir_exists(&path);
        if expect_handle {
            self.h.op(Op::List(d));
        }
        if expect_handle && rng.chance(1, 2) && path.matches('/').count() < 1 {
            // create through the sub-directory handle
            let name = rng.pick(&self.names).clone();
            let f = self.new_f();
            self.h.op(Op::CreateFile { d, path: name.clone().into_bytes(), new: f });
            let data = content(rng, 9);
            self.h.op(Op::WriteAll { f, data });
            self.h.op(Op::DropF(f));
            let full = Self::join(&path, &name);
            let k = key(&full);
            if self.dir_exists(&path) && !path.is_empty() && valid_name(&name) && !self.model.contains_key(&k) {
                // record it under the spelling of the directory as created
                let dir_path = self.model.get(&key(&path)).map_or(path.clone(), |e| e.path.clone());
                self.model.insert(k, Ent { path: Self::join(&dir_path, &name), is_dir: false, size: 9 });
            }
        }
        self.h.op(Op::DropD(d));
    }

    fn op_remove(&mut self, rng: &mut SplitMix64) {
        let ex = rng.chance(3, 4);
        let path = self.some_path(rng, ex);
        self.h.op(Op::Remove { d: 0, path: path.clone().into_bytes() });
        let k = key(&path);
        if let Some(e) = self.model.get(&k) {
            if !e.is_dir || !self.has_kids(&path) {
                self.model.remove(&k);
            }
        }
    }

    fn op_rename(&mut self, rng: &mut SplitMix64) {
        let ex = rng.chance(4, 5);
        let src = self.some_path(rng, ex);
        let ex = rng.chance(1, 6);
        let dst = self.some_path(rng, ex);
        self.h.op(Op::Rename { d: 0, src: src.clone().into_bytes(), d2: 0, dst: dst.clone().into_bytes() });
        let (ks, kd) = (key(&src), key(&dst));
        let Some(e) = self.model.get(&ks).cloned() else { return };
        if !valid_name(Self::leaf(&dst)) || !self.dir_exists(Self::parent(&dst)) || self.model.contains_key(&kd) {
            return;
        }
        // a directory moved beneath itself: keep the model out of it (defect F3) by not modelling the move
        if e.is_dir && (kd.starts_with(&format!("{}/", ks))) {
            let pre = format!("{}/", ks);
            self.model.retain(|k, _| k != &ks && !k.starts_with(&pre));
            return;
        }
        let pre = format!("{}/", ks);
        let moved: Vec<(String, Ent)> = self
            .model
            .iter()
            .filter(|(k, _)| k.starts_with(&pre))
            .map(|(k, v)| (k.clone(), v.clone()))
            .collect();
        self.model.remove(&ks);
        let new_dir_path = {
            let pk = key(Self::parent(&dst));
            let pp = self.model.get(&pk).map_or(Self::parent(&dst).to_string(), |p| p.path.clone());
            Self::join(&pp, Self::leaf(&dst))
        };
        self.model.insert(kd.clone(), Ent { path: new_dir_path.clone(), ..e.clone() });
        for (k, v) in moved {
            self.model.remove(&k);
            let rest_k = &k[pre.len()..];
            // (the tail of the stored path has as many characters as its key only for ASCII; recompute by components)
            let tail_comps = rest_k.matches('/').count() + 1;
            let comps: Vec<&str> = v.path.split('/').collect();
            let tail = comps[comps.len() - tail_comps..].join("/");
            self.model.insert(
                format!("{}/{}", kd, rest_k),
                Ent {
                    path: format!("{}/{}", new_dir_path, tail),
                    ..v
                },
            );
        }
    }

    fn closing(&mut self) {
        self.h.op(Op::List(0));
        for p in self.dirs().into_iter().skip(1) {
            let d = self.new_d();
            self.h.op(Op::OpenDir { d: 0, path: p.into_bytes(), new: d });
            self.h.op(Op::List(d));
            self.h.op(Op::DropD(d));
        }
        for e in self.files() {
            let f = self.new_f();
            self.h.op(Op::OpenFile { d: 0, path: e.path.into_bytes(), new: f });
            self.h.op(Op::ReadAll(f));
            self.h.op(Op::DropF(f));
        }
        self.h.op(Op::Stats);
        self.h.op(Op::Unmount);
    }
}

fn one(id: String, seed: u64, cat: &Catalogue, rng: &mut SplitMix64, sink: &mut Sink) {
    // volumes with room: no tiny ones, no 16-entry roots (running out of space is not the subject here)
    let vol = loop {
        let v = cat.pick_small_cluster(rng, 4096);
        if v.class != VolClass::Tiny && (v.bits == 32 || v.root_entries >= 112) {
            break v;
        }
    };
    let mut cfg = Cfg::new(true, false, ClockMode::Const);
    cfg.alloc = true;
    cfg.unicode = true;
    let unicode = rng.chance(3, 10);
    let mut g = Feat {
        h: History::new(id, "feat", seed, vol.dev_size, cfg),
        model: BTreeMap::new(),
        names: name_pool(rng, unicode),
        next_d: 0,
        next_f: 0,
        cs: vol.cs as u64,
    };
    g.h.op(Op::Format(vol.fmt.clone()));
    g.h.op(Op::Mount);
    let n = rng.range(8, 45);
    for _ in 0..n {
        match rng.below(100) {
            0..=27 => g.op_create_file(rng),
            28..=41 => g.op_create_dir(rng),
            42..=56 => g.op_open_file(rng),
            57..=66 => g.op_open_dir(rng),
            67..=78 => g.op_remove(rng),
            79..=93 => g.op_rename(rng),
            _ => {
                g.h.op(Op::List(0));
            }
        }
    }
    g.closing();
    sink.emit(g.h);
}

/// The whole printable ASCII table as sibling names: one file per character that is valid in a long name and is not an
/// upper-case letter (`n<c>m`, content = the character), in one directory. Two ASCII names that differ in one
/// non-letter character are different names in EVERY build; a build whose case folding identifies two of them (e.g.
/// folds `{` onto `[`) opens the existing file instead of creating the second one, and the listing and the contents
/// differ from the other builds. Then every name is opened again and read, and the bit-5 partners that are NOT
/// letters are looked up under the partner's spelling with the letters' case flipped.
fn ascii_table(id: String, seed: u64, cat: &Catalogue, rng: &mut SplitMix64, sink: &mut Sink) {
    let vol = loop {
        let v = cat.pick_small_cluster(rng, 4096);
        if v.class != VolClass::Tiny && (v.bits == 32 || v.root_entries >= 112) {
            break v;
        }
    };
    let mut cfg = Cfg::new(true, false, ClockMode::Const);
    cfg.alloc = true;
    cfg.unicode = true;
    let mut h = History::new(id, "feat", seed, vol.dev_size, cfg);
    h.op(Op::Format(vol.fmt.clone()));
    h.op(Op::Mount);
    h.op(Op::CreateDir { d: 0, path: b"t".to_vec(), new: 1 });
    h.op(Op::DropD(1));
    let chars: Vec<char> = (0x20u8..0x7F)
        .map(|b| b as char)
        .filter(|c| !c.is_ascii_uppercase() && valid_name(&format!("n{}m", c)))
        .collect();
    let mut f = 0u32;
    for c in &chars {
        f += 1;
        h.op(Op::CreateFile { d: 0, path: format!("t/n{}m", c).into_bytes(), new: f });
        h.op(Op::WriteAll { f, data: vec![*c as u8] });
        h.op(Op::DropF(f));
    }
    h.op(Op::OpenDir { d: 0, path: b"t".to_vec(), new: 2 });
    h.op(Op::List(2));
    h.op(Op::DropD(2));
    for c in &chars {
        f += 1;
        // the same name with the letters' case flipped: must be the same file in every build
        h.op(Op::OpenFile { d: 0, path: format!("T/N{}M", c.to_ascii_uppercase()).into_bytes(), new: f });
        h.op(Op::ReadAll(f));
        h.op(Op::DropF(f));
    }
    h.op(Op::Stats);
    h.op(Op::Unmount);
    sink.emit(h);
}

pub fn run(tier: Tier, seed: u64, rng: &mut SplitMix64, n_override: Option<u64>, sink: &mut Sink) {
    let cat = Catalogue::build();
    let n = tier_count(tier, n_override, 300, 6000);
    {
        let mut r = rng.fork();
        ascii_table(hist_id("feat", seed, 0), seed, &cat, &mut r, sink);
    }
    for i in 1..=n {
        let mut r = rng.fork();
        one(hist_id("feat", seed, i), seed, &cat, &mut r, sink);
    }
}
