//! Deterministic clocks of the history protocol (`cfg clock=const|tick`).
//!
//! State: one natural number `ms` = milliseconds since 2020-02-02 00:00:00.000, shared by all clones of the handle.
//! Initial value `START_MS = 45_296_780` (= 12:34:56.780).
//!
//! * `const`: every call of `get_current_date_time` / `get_current_date` returns `decode(START_MS)`; no state change.
//! * `tick`:  the executor sets `ms := ms + 2010` at the START of every API operation of the history (every `O` line
//!   except `raw`, `root` and `crashprobe`); within one operation every call of `get_current_date_time` /
//!   `get_current_date` returns `decode(ms)` and changes nothing. So the time is a function of the position of the
//!   operation in the history and not of how often the library consults the provider while serving it. The counter
//!   lives as long as the history (it is not reset by unmount/mount; a new history starts at `START_MS` again).
//!
//! `decode(ms)` (fictitious calendar in which every month has 28 days, so that every value is a valid DOS date):
//!
//! ```text
//! rem   = ms % 86_400_000            D = 1 + ms / 86_400_000      -- zero-based day count since 2020-02-01
//! hour  = rem / 3_600_000            day   = D % 28 + 1
//! min   = rem / 60_000 % 60          M     = 1 + D / 28            -- zero-based month count since 2020-01
//! sec   = rem / 1000 % 60            month = M % 12 + 1
//! milli = rem % 1000                 year  = min(2107, 2020 + M / 12)
//! ```
//!
//! So decode(START_MS) = 2020-02-02 12:34:56.780; day 28 is followed by day 1 of the next month.
use std::cell::Cell;
use std::rc::Rc;

use fatfs::{Date, DateTime, Time, TimeProvider};

pub const START_MS: u64 = ((12 * 60 + 34) * 60 + 56) * 1000 + 780;
pub const STEP_MS: u64 = 2010;

#[derive(Clone, Copy, Debug, PartialEq, Eq)]
pub enum ClockMode {
    Const,
    Tick,
}

#[derive(Clone, Debug)]
pub struct Clock {
    mode: ClockMode,
    ms: Rc<Cell<u64>>,
}

pub fn decode(ms: u64) -> (u16, u16, u16, u16, u16, u16, u16) {
    let rem = ms % 86_400_000;
    let d = 1 + ms / 86_400_000;
    let day = d % 28 + 1;
    let m = 1 + d / 28;
    let month = m % 12 + 1;
    let year = (2020 + m / 12).min(2107);
    (
        year as u16,
        month as u16,
        day as u16,
        (rem / 3_600_000) as u16,
        (rem / 60_000 % 60) as u16,
        (rem / 1000 % 60) as u16,
        (rem % 1000) as u16,
    )
}

impl Clock {
    pub fn new(mode: ClockMode) -> Clock {
        Clock {
            mode,
            ms: Rc::new(Cell::new(START_MS)),
        }
    }

    /// Called by the executor at the start of every API operation of the history.
    pub fn advance(&self) {
        if self.mode == ClockMode::Tick {
            self.ms.set(self.ms.get() + STEP_MS);
        }
    }

    fn next(&self) -> DateTime {
        let ms = self.ms.get();
        let (y, mo, d, h, mi, s, milli) = decode(ms);
        DateTime::new(Date::new(y, mo, d), Time::new(h, mi, s, milli))
    }
}

impl TimeProvider for Clock {
    fn get_current_date(&self) -> Date {
        self.next().date
    }
    fn get_current_date_time(&self) -> DateTime {
        self.next()
    }
}
