//! Simulated block device of the history protocol (see /verif/ARCH.md, "History protocol").
//!
//! `Dev` is a cloneable handle onto one shared `DevInner`. Semantics (mirrored by the model's `Dev`):
//!
//! * fixed capacity `size` bytes, sparse 4 KiB pages, unwritten bytes read as 0;
//! * `read(buf)` / `write(buf)` transfer `n = min(buf.len(), size - pos)` bytes (`0` when `pos >= size`), advance
//!   `pos` by `n` and return `Ok(n)`;
//! * `seek(Start n)` always succeeds (any `n`, also beyond `size`), `seek(End d)` targets `size + d`,
//!   `seek(Current d)` targets `pos + d`; a negative target is the error `DevError { k: K_NEG_SEEK }` (pos unchanged);
//!   an overflowing target (> u64::MAX) is the same error;
//! * `flush` succeeds;
//! * every call of read/write/seek/flush increments `calls` (1-based index of the call within the current operation)
//!   and its kind counter — also when the call then fails;
//! * one-shot fault: when `fail_at == Some(k)` and the call index equals `k`, the call fails with `DevError { k }`,
//!   transfers nothing, does not move `pos`; the fault is recorded in `fired` and disarmed;
//! * successful writes with `n > 0` are logged as `(offset, bytes actually written)`, successful flushes as marks;
//!   a write that transfers 0 bytes is NOT logged;
//! * call budget: the first call whose index exceeds `budget` panics with payload `HangMarker` (after setting
//!   `tripped`); from then on every call returns `DevError { k: K_TRIPPED }` without panicking, counting or logging
//!   (the library's destructors run during unwinding and a second panic would abort the process);
//! * `shortio = Some(n)` (cfg token `shortio=<n>`): read and write additionally stop at the next multiple of n of the
//!   absolute device offset (legal short transfers; the model has no such device: such histories carry `nomodel=1`);
//! * `readonly` (used by the crash probe): `write` fails with `DevError { k: K_READONLY }`.
use std::cell::RefCell;
use std::collections::HashMap;
use std::rc::Rc;

use fatfs::{IoBase, IoError, Read, Seek, SeekFrom, Write};

pub const PAGE: usize = 4096;
pub const K_EOF: u64 = u64::MAX - 1;
pub const K_WRITE_ZERO: u64 = u64::MAX - 2;
pub const K_NEG_SEEK: u64 = u64::MAX - 3;
pub const K_TRIPPED: u64 = u64::MAX - 4;
pub const K_READONLY: u64 = u64::MAX - 5;
pub const DEFAULT_BUDGET: u64 = 2_000_000;

/// Error type of the device. `k` is the index of the failed call for injected faults, or one of the `K_*` constants.
#[derive(Debug, Clone, Copy, PartialEq, Eq)]
pub struct DevError {
    pub k: u64,
}

impl IoError for DevError {
    fn is_interrupted(&self) -> bool {
        false
    }
    fn new_unexpected_eof_error() -> Self {
        DevError { k: K_EOF }
    }
    fn new_write_zero_error() -> Self {
        DevError { k: K_WRITE_ZERO }
    }
}

/// Panic payload of a tripped call budget.
pub struct HangMarker;

#[derive(Clone, Debug, PartialEq, Eq)]
pub enum LogItem {
    Write(u64, Vec<u8>),
    Flush,
}

#[derive(Clone, Copy, Debug, Default, PartialEq, Eq)]
pub struct Counters {
    pub calls: u64,
    pub reads: u64,
    pub writes: u64,
    pub seeks: u64,
    pub flushes: u64,
    pub calls_in_drop: u64,
}

#[derive(Clone, Copy, Debug, PartialEq, Eq)]
pub struct Fired {
    pub k: u64,
    pub kind: char,
    pub in_drop: bool,
}

pub struct DevInner {
    pub size: u64,
    pages: HashMap<u64, Box<[u8; PAGE]>>,
    pub pos: u64,
    pub cnt: Counters,
    pub log: Vec<LogItem>,
    /// (call index, offset, length) of every logged write of the current / last operation (kept until the next
    /// `begin_op`; generator support)
    pub wcalls: Vec<(u64, u64, usize)>,
    /// kind (b'r', b'w', b's', b'f') of every call of the current / last operation, index = call number − 1
    /// (generator support, kept until the next `begin_op`)
    pub kinds: Vec<u8>,
    pub fail_at: Option<u64>,
    pub fired: Option<Fired>,
    pub budget: u64,
    pub tripped: bool,
    pub readonly: bool,
    /// legal short transfers: a read / write ends at the next multiple of this (absolute device offset)
    pub shortio: Option<u64>,
}

impl DevInner {
    fn new(size: u64) -> Self {
        DevInner {
            size,
            pages: HashMap::new(),
            pos: 0,
            cnt: Counters::default(),
            log: Vec::new(),
            wcalls: Vec::new(),
            kinds: Vec::new(),
            fail_at: None,
            fired: None,
            budget: DEFAULT_BUDGET,
            tripped: false,
            readonly: false,
            shortio: None,
        }
    }

    /// Bytes a transfer starting at `pos` may carry before it hits the next `shortio` boundary.
    fn short_room(&self) -> u64 {
        match self.shortio {
            Some(n) => n - self.pos % n,
            None => u64::MAX,
        }
    }

    /// Copy bytes out of the image (no counting). Caller guarantees `off + buf.len() <= size`.
    pub fn peek(&self, mut off: u64, buf: &mut [u8]) {
        let mut done = 0usize;
        while done < buf.len() {
            let page = off / PAGE as u64;
            let in_page = (off % PAGE as u64) as usize;
            let n = (PAGE - in_page).min(buf.len() - done);
            match self.pages.get(&page) {
                Some(p) => buf[done..done + n].copy_from_slice(&p[in_page..in_page + n]),
                None => buf[done..done + n].fill(0),
            }
            done += n;
            off += n as u64;
        }
    }

    /// Copy bytes into the image (no counting, no logging); bytes beyond `size` are dropped.
    pub fn poke(&mut self, mut off: u64, data: &[u8]) {
        let avail = self.size.saturating_sub(off);
        let len = (data.len() as u64).min(avail) as usize;
        let mut done = 0usize;
        while done < len {
            let page = off / PAGE as u64;
            let in_page = (off % PAGE as u64) as usize;
            let n = (PAGE - in_page).min(len - done);
            let chunk = &data[done..done + n];
            if let Some(p) = self.pages.get_mut(&page) {
                p[in_page..in_page + n].copy_from_slice(chunk);
            } else if chunk.iter().any(|b| *b != 0) {
                let mut p = Box::new([0u8; PAGE]);
                p[in_page..in_page + n].copy_from_slice(chunk);
                self.pages.insert(page, p);
            }
            done += n;
            off += n as u64;
        }
    }

    /// Common prologue of a device call. `Ok(())` = go on; `Err(Some(e))` = the call fails with `e`; `Err(None)` = budget tripped.
    fn enter(&mut self, kind: char) -> Result<(), Option<DevError>> {
        if self.tripped {
            return Err(Some(DevError { k: K_TRIPPED }));
        }
        let in_drop = fatfs::verif::drop_depth() > 0;
        self.cnt.calls += 1;
        self.kinds.push(kind as u8);
        match kind {
            'r' => self.cnt.reads += 1,
            'w' => self.cnt.writes += 1,
            's' => self.cnt.seeks += 1,
            _ => self.cnt.flushes += 1,
        }
        if in_drop {
            self.cnt.calls_in_drop += 1;
        }
        if self.cnt.calls > self.budget {
            self.tripped = true;
            return Err(None); // turned into a HangMarker panic by the caller
        }
        if self.fail_at == Some(self.cnt.calls) {
            let k = self.cnt.calls;
            self.fail_at = None;
            self.fired = Some(Fired { k, kind, in_drop });
            return Err(Some(DevError { k }));
        }
        Ok(())
    }
}

#[derive(Clone)]
pub struct Dev {
    inner: Rc<RefCell<DevInner>>,
}

impl Dev {
    pub fn new(size: u64) -> Dev {
        Dev {
            inner: Rc::new(RefCell::new(DevInner::new(size))),
        }
    }

    pub fn with<T>(&self, f: impl FnOnce(&mut DevInner) -> T) -> T {
        f(&mut self.inner.borrow_mut())
    }

    /// Reset the per-operation counters, the log and the fault record; arm `fault` if given.
    pub fn begin_op(&self, fault: Option<u64>) {
        self.with(|d| {
            d.cnt = Counters::default();
            d.log.clear();
            d.wcalls.clear();
            d.kinds.clear();
            d.fired = None;
            d.fail_at = fault;
        });
    }

    /// End of an operation: disarm the fault, take counters, log and fault record.
    pub fn end_op(&self) -> (Counters, Vec<LogItem>, Option<Fired>) {
        self.with(|d| {
            d.fail_at = None;
            (d.cnt, std::mem::take(&mut d.log), d.fired.take())
        })
    }

    pub fn set_pos_uncounted(&self, pos: u64) {
        self.with(|d| d.pos = pos);
    }

    pub fn size(&self) -> u64 {
        self.with(|d| d.size)
    }

    /// Run the prologue; panics with `HangMarker` (borrow released first) when the budget trips.
    fn enter(&self, kind: char) -> Result<(), DevError> {
        let r = self.inner.borrow_mut().enter(kind);
        match r {
            Ok(()) => Ok(()),
            Err(Some(e)) => Err(e),
            Err(None) => std::panic::panic_any(HangMarker),
        }
    }
}

impl IoBase for Dev {
    type Error = DevError;
}

impl Read for Dev {
    fn read(&mut self, buf: &mut [u8]) -> Result<usize, DevError> {
        self.enter('r')?;
        let mut d = self.inner.borrow_mut();
        let avail = d.size.saturating_sub(d.pos).min(d.short_room());
        let n = (buf.len() as u64).min(avail) as usize;
        let pos = d.pos;
        d.peek(pos, &mut buf[..n]);
        d.pos += n as u64;
        Ok(n)
    }
}

impl Write for Dev {
    fn write(&mut self, buf: &[u8]) -> Result<usize, DevError> {
        self.enter('w')?;
        let mut d = self.inner.borrow_mut();
        if d.readonly {
            return Err(DevError { k: K_READONLY });
        }
        let avail = d.size.saturating_sub(d.pos).min(d.short_room());
        let n = (buf.len() as u64).min(avail) as usize;
        if n > 0 {
            let pos = d.pos;
            d.poke(pos, &buf[..n]);
            d.log.push(LogItem::Write(pos, buf[..n].to_vec()));
            let call = d.cnt.calls;
            d.wcalls.push((call, pos, n));
            d.pos += n as u64;
        }
        Ok(n)
    }

    fn flush(&mut self) -> Result<(), DevError> {
        self.enter('f')?;
        let mut d = self.inner.borrow_mut();
        d.log.push(LogItem::Flush);
        Ok(())
    }
}

impl Seek for Dev {
    fn seek(&mut self, pos: SeekFrom) -> Result<u64, DevError> {
        self.enter('s')?;
        let mut d = self.inner.borrow_mut();
        let target: Option<u64> = match pos {
            SeekFrom::Start(n) => Some(n),
            SeekFrom::End(x) => add_signed(d.size, x),
            SeekFrom::Current(x) => add_signed(d.pos, x),
        };
        match target {
            Some(t) => {
                d.pos = t;
                Ok(t)
            }
            None => Err(DevError { k: K_NEG_SEEK }),
        }
    }
}

fn add_signed(base: u64, d: i64) -> Option<u64> {
    if d >= 0 {
        base.checked_add(d as u64)
    } else {
        base.checked_sub(d.unsigned_abs())
    }
}
