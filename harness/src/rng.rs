//! The one PRNG of the harness: SplitMix64. Every random choice derives from one state.
#[derive(Clone, Debug)]
pub struct SplitMix64 {
    state: u64,
}

impl SplitMix64 {
    pub fn new(seed: u64) -> Self {
        Self { state: seed }
    }
    pub fn next_u64(&mut self) -> u64 {
        self.state = self.state.wrapping_add(0x9E37_79B9_7F4A_7C15);
        let mut z = self.state;
        z = (z ^ (z >> 30)).wrapping_mul(0xBF58_476D_1CE4_E5B9);
        z = (z ^ (z >> 27)).wrapping_mul(0x94D0_49BB_1331_11EB);
        z ^ (z >> 31)
    }
    pub fn next_u32(&mut self) -> u32 {
        (self.next_u64() >> 32) as u32
    }
    /// uniform in [0, n) (n > 0)
    pub fn below(&mut self, n: u64) -> u64 {
        self.next_u64() % n
    }
    /// uniform in [lo, hi] inclusive
    pub fn range(&mut self, lo: u64, hi: u64) -> u64 {
        lo + self.below(hi - lo + 1)
    }
    pub fn chance(&mut self, num: u64, den: u64) -> bool {
        self.below(den) < num
    }
    pub fn pick<'a, T>(&mut self, xs: &'a [T]) -> &'a T {
        &xs[self.below(xs.len() as u64) as usize]
    }
    /// derive an independent stream
    pub fn fork(&mut self) -> SplitMix64 {
        SplitMix64::new(self.next_u64())
    }
}
