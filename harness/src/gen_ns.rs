//! Scenario `ns`: namespace histories (create/open/list/remove/rename over a colliding alphabet of names).
use super::*;
use crate::clock::ClockMode;

#[derive(Clone, Copy, PartialEq, Eq)]
pub enum Want {
    File,
    Dir,
    Any,
}

/// Random namespace operations over a context; reused by the `dirty` and `flush` scenarios.
pub struct NsGen {
    pub cx: Ctx,
    pub names: Vec<String>,
    pub max_live: usize,
}

impl NsGen {
    pub fn pick_dir_handle(&self, rng: &mut SplitMix64) -> (u32, Key) {
        let v: Vec<(&u32, &Key)> = self.cx.dirs.iter().collect();
        let (d, k) = v[rng.below(v.len() as u64) as usize];
        (*d, k.clone())
    }

    fn name_variant(rng: &mut SplitMix64, n: &TreeNode) -> String {
        match rng.below(10) {
            0 => recase(rng, &n.long),
            1 => String::from_utf8_lossy(&n.short).to_string(),
            _ => n.long.clone(),
        }
    }

    /// Walk 0..=max_depth existing sub-directories down from `base`; returns (path prefix, key reached).
    pub fn prefix(&self, rng: &mut SplitMix64, base: &Key, max_extra: usize) -> (String, Key) {
        let mut key = base.clone();
        let mut parts: Vec<String> = Vec::new();
        let steps = rng.below(max_extra as u64 + 1) as usize;
        for _ in 0..steps {
            if key.len() >= 3 {
                break;
            }
            let Some(n) = self.cx.node(&key) else { break };
            let subs: Vec<&TreeNode> = n.kids.iter().filter(|k| k.is_dir).collect();
            if subs.is_empty() {
                break;
            }
            let k = subs[rng.below(subs.len() as u64) as usize];
            if rng.chance(1, 25) && !key.is_empty() {
                // detour through the dot entries
                parts.push(".".to_string());
            }
            parts.push(Self::name_variant(rng, k));
            key.push(k.short.clone());
            if rng.chance(1, 30) {
                parts.push("..".to_string());
                key.pop();
            }
        }
        (parts.join("/"), key)
    }

    fn join(prefix: &str, name: &str) -> String {
        if prefix.is_empty() {
            name.to_string()
        } else {
            format!("{}/{}", prefix, name)
        }
    }

    fn existing_in(&self, rng: &mut SplitMix64, dir: &Key, want: Want) -> Option<String> {
        let n = self.cx.node(dir)?;
        let c: Vec<&TreeNode> = n
            .kids
            .iter()
            .filter(|k| match want {
                Want::File => !k.is_dir,
                Want::Dir => k.is_dir,
                Want::Any => true,
            })
            .collect();
        if c.is_empty() {
            return None;
        }
        let i = rng.below(c.len() as u64) as usize;
        Some(Self::name_variant(rng, c[i]))
    }

    pub fn alpha(&self, rng: &mut SplitMix64) -> String {
        rng.pick(&self.names).clone()
    }

    /// Decorate a path now and then (leading/trailing/double slashes are accepted by `split_path`).
    fn decorate(rng: &mut SplitMix64, p: String) -> String {
        if p.is_empty() {
            return p;
        }
        match rng.below(40) {
            0 => format!("/{}", p),
            1 => format!("{}/", p),
            2 => p.replacen('/', "//", 1),
            _ => p,
        }
    }

    pub fn op_create(&mut self, rng: &mut SplitMix64, dir: bool) -> bool {
        if self.cx.n_live() >= self.max_live {
            return false;
        }
        let (d, base) = self.pick_dir_handle(rng);
        let room = 3usize.saturating_sub(base.len());
        let (pre, at) = self.prefix(rng, &base, room.min(2));
        if dir && at.len() >= 3 {
            return false;
        }
        let name = if rng.chance(1, 8) {
            self.existing_in(rng, &at, Want::Any).unwrap_or_else(|| self.alpha(rng))
        } else {
            self.alpha(rng)
        };
        let path = Self::decorate(rng, Self::join(&pre, &name));
        if let Resolved::Found { key, .. } = self.cx.resolve(&base, &path) {
            if self.cx.is_live(&key) {
                return false;
            }
        }
        if dir {
            let nd = self.cx.new_d();
            let r = self.cx.step(Op::CreateDir { d, path: path.clone().into_bytes(), new: nd });
            self.cx.resync();
            if r.is_ok() {
                match self.cx.resolve(&base, &path) {
                    Resolved::Found { key, is_dir: true } if !self.cx.is_live(&key) && rng.chance(1, 2) => {
                        self.cx.dirs.insert(nd, key);
                    }
                    _ => {
                        self.cx.step(Op::DropD(nd));
                    }
                }
            }
        } else {
            let nf = self.cx.new_f();
            let r = self.cx.step(Op::CreateFile { d, path: path.clone().into_bytes(), new: nf });
            self.cx.resync();
            if r.is_ok() {
                let tracked = match self.cx.resolve(&base, &path) {
                    Resolved::Found { key, is_dir: false } if !self.cx.is_live(&key) => Some(key),
                    _ => None,
                };
                if rng.chance(7, 10) {
                    let len = match rng.below(6) {
                        0 => 0,
                        1 => self.cx.vol.cs.min(2048) as usize + 1,
                        _ => rng.range(1, 40) as usize,
                    };
                    let data = content(rng, len);
                    if rng.chance(1, 4) {
                        self.cx.step(Op::Seek { f: nf, whence: crate::script::Whence::End, n: 0 });
                    }
                    self.cx.step(Op::WriteAll { f: nf, data });
                }
                match tracked {
                    Some(key) if rng.chance(1, 4) => {
                        self.cx.files.insert(nf, key);
                    }
                    _ => {
                        self.cx.step(Op::DropF(nf));
                        self.cx.resync();
                    }
                }
            }
        }
        true
    }

    pub fn op_open(&mut self, rng: &mut SplitMix64, dir: bool) -> bool {
        if self.cx.n_live() >= self.max_live {
            return false;
        }
        let (d, base) = self.pick_busy_dir_handle(rng);
        let (pre, at) = self.prefix(rng, &base, 3);
        let r = rng.below(100);
        let name = if r < 65 {
            self.existing_in(rng, &at, if dir { Want::Dir } else { Want::File })
        } else if r < 80 {
            self.existing_in(rng, &at, if dir { Want::File } else { Want::Dir })
        } else if r < 85 {
            Some(rng.pick(&PANICKY).to_string())
        } else {
            None
        };
        let name = name.unwrap_or_else(|| self.alpha(rng));
        let path = Self::decorate(rng, Self::join(&pre, &name));
        if let Resolved::Found { key, .. } = self.cx.resolve(&base, &path) {
            if self.cx.is_live(&key) {
                return false;
            }
        }
        if dir {
            let nd = self.cx.new_d();
            if self.cx.step(Op::OpenDir { d, path: path.clone().into_bytes(), new: nd }).is_ok() {
                match self.cx.resolve(&base, &path) {
                    Resolved::Found { key, is_dir: true } if !self.cx.is_live(&key) && !key.is_empty() => {
                        self.cx.dirs.insert(nd, key);
                    }
                    _ => {
                        self.cx.step(Op::DropD(nd));
                    }
                }
            }
        } else {
            let nf = self.cx.new_f();
            if self.cx.step(Op::OpenFile { d, path: path.clone().into_bytes(), new: nf }).is_ok() {
                match self.cx.resolve(&base, &path) {
                    Resolved::Found { key, is_dir: false } if !self.cx.is_live(&key) => {
                        self.cx.files.insert(nf, key);
                    }
                    _ => {
                        self.cx.step(Op::DropF(nf));
                    }
                }
            }
        }
        true
    }

    /// A source path for remove / rename: an existing object nobody holds, or some name of the alphabet.
    fn victim(&self, rng: &mut SplitMix64, base: &Key, pct_existing: u64) -> Option<String> {
        let (mut pre, mut at) = self.prefix(rng, base, 3);
        let want_existing = rng.chance(pct_existing, 100);
        if want_existing {
            // look for a directory that has something in it
            for _ in 0..4 {
                if self.cx.node(&at).map_or(false, |n| !n.kids.is_empty()) {
                    break;
                }
                let (p, a) = self.prefix(rng, base, 3);
                pre = p;
                at = a;
            }
        }
        let name = if want_existing {
            self.existing_in(rng, &at, Want::Any).unwrap_or_else(|| self.alpha(rng))
        } else if rng.chance(1, 10) {
            rng.pick(&PANICKY).to_string()
        } else {
            self.alpha(rng)
        };
        let path = Self::decorate(rng, Self::join(&pre, &name));
        let last = last_component(&path);
        if last == "." || last == ".." {
            return None;
        }
        match self.cx.resolve(base, &path) {
            Resolved::Found { key, .. } if self.cx.live_beneath(&key) => None,
            _ => Some(path),
        }
    }

    /// A directory handle, preferring one whose directory is not empty.
    fn pick_busy_dir_handle(&self, rng: &mut SplitMix64) -> (u32, Key) {
        let mut r = self.pick_dir_handle(rng);
        for _ in 0..3 {
            if self.cx.node(&r.1).map_or(false, |n| !n.kids.is_empty()) {
                break;
            }
            r = self.pick_dir_handle(rng);
        }
        r
    }

    pub fn op_remove(&mut self, rng: &mut SplitMix64) -> bool {
        let (d, base) = self.pick_busy_dir_handle(rng);
        let Some(path) = self.victim(rng, &base, 72) else { return false };
        self.cx.step(Op::Remove { d, path: path.into_bytes() });
        self.cx.resync();
        true
    }

    pub fn op_rename(&mut self, rng: &mut SplitMix64) -> bool {
        let (d, base) = self.pick_busy_dir_handle(rng);
        let Some(src) = self.victim(rng, &base, 88) else { return false };
        let (d2, base2) = if rng.chance(1, 2) { (d, base.clone()) } else { self.pick_dir_handle(rng) };
        let (pre, at) = self.prefix(rng, &base2, 2);
        let name = match rng.below(20) {
            0..=2 => self.existing_in(rng, &at, Want::Any).unwrap_or_else(|| self.alpha(rng)),
            3 => rng.pick(&INVALID).to_string(),
            _ => self.alpha(rng),
        };
        let mut dst = Self::decorate(rng, Self::join(&pre, &name));
        let keep_name = d2 != d && rng.chance(1, 3) || rng.chance(1, 12);
        if keep_name {
            // a pure move: the entry keeps its name (its alias must be made unique in the destination)
            let leaf = last_component(&src).to_string();
            if !leaf.is_empty() && leaf != "." && leaf != ".." {
                dst = Self::join(&pre, &leaf);
            }
        } else if rng.chance(3, 5) {
            // prefer a destination that is free
            for _ in 0..3 {
                if !matches!(self.cx.resolve(&base2, &dst), Resolved::Found { .. }) {
                    break;
                }
                dst = Self::join(&pre, &self.alpha(rng));
            }
        }
        let last = last_component(&dst);
        if last == "." || last == ".." {
            return false;
        }
        // moving a directory into itself loses the subtree (known defect F3): keep it rare
        if let Resolved::Found { key: sk, is_dir: true } = self.cx.resolve(&base, &src) {
            if at.len() >= sk.len() && at[..sk.len()] == sk[..] && !rng.chance(1, 10) {
                return false;
            }
            // depth limit for moved directories
            if at.len() >= 3 {
                return false;
            }
        }
        self.cx.step(Op::Rename {
            d,
            src: src.into_bytes(),
            d2,
            dst: dst.into_bytes(),
        });
        self.cx.resync();
        true
    }

    pub fn op_list(&mut self, rng: &mut SplitMix64) -> bool {
        let (d, _) = self.pick_dir_handle(rng);
        self.cx.step(Op::List(d));
        true
    }

    pub fn op_file_io(&mut self, rng: &mut SplitMix64) -> bool {
        let fs: Vec<u32> = self.cx.files.keys().copied().collect();
        if fs.is_empty() {
            return false;
        }
        let f = *rng.pick(&fs);
        if rng.chance(1, 2) {
            let len = rng.range(1, 60) as usize;
            let data = content(rng, len);
            if rng.chance(1, 2) {
                self.cx.step(Op::Seek { f, whence: crate::script::Whence::End, n: 0 });
            }
            self.cx.step(Op::WriteAll { f, data });
        } else {
            self.cx.step(Op::Seek { f, whence: crate::script::Whence::Start, n: 0 });
            self.cx.step(Op::ReadAll(f));
        }
        true
    }

    pub fn op_drop(&mut self, rng: &mut SplitMix64) -> bool {
        let fs: Vec<u32> = self.cx.files.keys().copied().collect();
        let ds: Vec<u32> = self.cx.dirs.keys().copied().filter(|d| *d != 0).collect();
        if fs.is_empty() && ds.is_empty() {
            return false;
        }
        let k = rng.below((fs.len() + ds.len()) as u64) as usize;
        if k < fs.len() {
            self.cx.step(Op::DropF(fs[k]));
            self.cx.files.remove(&fs[k]);
            self.cx.resync();
        } else {
            let d = ds[k - fs.len()];
            self.cx.step(Op::DropD(d));
            self.cx.dirs.remove(&d);
        }
        true
    }

    /// One random namespace operation (possibly with its follow-ups). Returns false if nothing was emitted.
    pub fn random_op(&mut self, rng: &mut SplitMix64) -> bool {
        if self.cx.dead || !self.cx.mounted {
            return false;
        }
        for _ in 0..8 {
            // while the volume is nearly empty most lookups would just say NotFound: populate first
            let sparse = self.cx.all_files().len() + self.cx.all_dirs().len() < 4;
            if sparse && rng.chance(2, 3) {
                let dir = rng.chance(2, 5);
                if self.op_create(rng, dir) {
                    return true;
                }
                continue;
            }
            let done = match rng.below(100) {
                0..=19 => self.op_create(rng, false),
                20..=31 => self.op_create(rng, true),
                32..=40 => self.op_open(rng, false),
                41..=48 => self.op_open(rng, true),
                49..=56 => self.op_list(rng),
                57..=69 => self.op_remove(rng),
                70..=84 => self.op_rename(rng),
                85..=91 => self.op_file_io(rng),
                _ => self.op_drop(rng),
            };
            if done {
                return true;
            }
        }
        false
    }
}

fn random_history(id: String, seed: u64, cat: &Catalogue, rng: &mut SplitMix64, sink: &mut Sink) {
    let vol = cat.pick(rng);
    let mut cfg = Cfg::new(!rng.chance(1, 10), rng.chance(1, 10), ClockMode::Const);
    cfg.optorder = optorder_of(&id);
    let cx = Ctx::new(id, "ns", seed, vol, cfg);
    let mut g = NsGen {
        cx,
        names: alphabet(rng),
        max_live: 4,
    };
    if rng.chance(1, 3) {
        g.cx.junk_before_format();
    }
    g.cx.format();
    g.cx.mount();
    let target = rng.range(5, 60) as usize;
    let mut guard = 0;
    while g.cx.h.n_ops() < target + 2 && !g.cx.dead && guard < 200 {
        guard += 1;
        g.random_op(rng);
    }
    g.cx.closing_lists();
    if !g.cx.dead {
        match rng.below(25) {
            0 | 1 => {
                // edge names (these used to panic: defect F5); a regression ends the history dead, after its listings
                let name = rng.pick(&PANICKY).to_string();
                match rng.below(3) {
                    0 => {
                        let f = g.cx.new_f();
                        if g.cx.step(Op::CreateFile { d: 0, path: name.into_bytes(), new: f }).is_ok() {
                            g.cx.step(Op::DropF(f));
                        }
                    }
                    1 => {
                        let d = g.cx.new_d();
                        if g.cx.step(Op::CreateDir { d: 0, path: name.into_bytes(), new: d }).is_ok() {
                            g.cx.step(Op::DropD(d));
                        }
                    }
                    _ => {
                        let src = g.cx.all_files().first().map(|x| x.1.clone()).unwrap_or("nothing".to_string());
                        g.cx.step(Op::Rename { d: 0, src: src.into_bytes(), d2: 0, dst: name.into_bytes() });
                    }
                }
                if !g.cx.dead {
                    g.cx.step(Op::List(0));
                    g.cx.step(Op::Unmount);
                }
            }
            2 | 3 => {
                g.cx.step(Op::DropFs);
            }
            _ => {
                g.cx.step(Op::Unmount);
            }
        }
    }
    g.cx.finish(sink);
}

/// Operations of the exhaustive enumeration (thorough tier); every resulting handle is dropped at once.
#[derive(Clone)]
enum XOp {
    CreateFile(&'static str),
    CreateDir(&'static str),
    Remove(&'static str),
    OpenFile(&'static str),
    Rename(&'static str, &'static str),
}

fn xops() -> Vec<XOp> {
    use XOp::*;
    vec![
        CreateFile("Foo.txt"),
        CreateFile("FOO.TXT"),
        CreateFile("longfilename1.txt"),
        CreateFile("DIR1/Foo.txt"),
        CreateDir("DIR1"),
        CreateDir("Foo.txt"),
        CreateDir("longfilename2.txt"),
        Remove("Foo.txt"),
        Remove("DIR1"),
        Remove("longfilename1.txt"),
        Remove("DIR1/Foo.txt"),
        OpenFile("FOO.TXT"),
        OpenFile("longfilename2.txt"),
        OpenFile("DIR1/Foo.txt"),
        Rename("Foo.txt", "FOO.TXT"),
        Rename("Foo.txt", "longfilename1.txt"),
        Rename("longfilename1.txt", "longfilename2.txt"),
        Rename("DIR1", "Foo.txt"),
        Rename("Foo.txt", "DIR1/Foo.txt"),
        Rename("DIR1/Foo.txt", "a:b"),
    ]
}

fn exhaustive_history(id: String, seed: u64, vol: &VolCfg, seq: &[XOp], sink: &mut Sink) {
    let mut cx = Ctx::new(id, "ns", seed, vol.clone(), Cfg::default_build());
    cx.format();
    cx.mount();
    for x in seq {
        match x {
            XOp::CreateFile(p) => {
                let f = cx.new_f();
                if cx.step(Op::CreateFile { d: 0, path: p.as_bytes().to_vec(), new: f }).is_ok() {
                    cx.step(Op::DropF(f));
                }
            }
            XOp::CreateDir(p) => {
                let d = cx.new_d();
                if cx.step(Op::CreateDir { d: 0, path: p.as_bytes().to_vec(), new: d }).is_ok() {
                    cx.step(Op::DropD(d));
                }
            }
            XOp::OpenFile(p) => {
                let f = cx.new_f();
                if cx.step(Op::OpenFile { d: 0, path: p.as_bytes().to_vec(), new: f }).is_ok() {
                    cx.step(Op::DropF(f));
                }
            }
            XOp::Remove(p) => {
                cx.step(Op::Remove { d: 0, path: p.as_bytes().to_vec() });
            }
            XOp::Rename(a, b) => {
                cx.step(Op::Rename { d: 0, src: a.as_bytes().to_vec(), d2: 0, dst: b.as_bytes().to_vec() });
            }
        }
    }
    cx.resync();
    cx.closing_lists();
    cx.step(Op::Unmount);
    cx.finish(sink);
}

/// Short dedicated histories around the edge names that used to make the library panic (defect F5, fixed).
fn panic_history(id: String, seed: u64, cat: &Catalogue, rng: &mut SplitMix64, sink: &mut Sink) {
    let vol = rng.pick(&cat.tiny).clone();
    let mut cx = Ctx::new(id, "ns", seed, vol, Cfg::default_build());
    cx.format();
    cx.mount();
    let f = cx.new_f();
    if cx.step(Op::CreateFile { d: 0, path: b"keep.txt".to_vec(), new: f }).is_ok() {
        cx.step(Op::WriteAll { f, data: b"kept".to_vec() });
        cx.step(Op::DropF(f));
    }
    let d = cx.new_d();
    if cx.step(Op::CreateDir { d: 0, path: b"sub".to_vec(), new: d }).is_ok() {
        cx.step(Op::DropD(d));
    }
    cx.step(Op::List(0));
    let name = rng.pick(&PANICKY).to_string();
    let path = match rng.below(4) {
        0 => name.clone(),
        1 => format!("sub/{}", name),
        2 => "/".to_string(),
        _ => format!("sub//{}", name),
    };
    // (a path like "sub//" names the existing directory: then the call succeeds and the handle is dropped again)
    match rng.below(4) {
        0 => {
            let f = cx.new_f();
            if cx.step(Op::CreateFile { d: 0, path: path.into_bytes(), new: f }).is_ok() {
                cx.step(Op::DropF(f));
            }
        }
        1 => {
            let d = cx.new_d();
            if cx.step(Op::CreateDir { d: 0, path: path.into_bytes(), new: d }).is_ok() {
                cx.step(Op::DropD(d));
            }
        }
        2 => {
            cx.step(Op::Rename { d: 0, src: b"keep.txt".to_vec(), d2: 0, dst: path.into_bytes() });
        }
        _ => {
            // lookups with these names do not panic
            let f = cx.new_f();
            if cx.step(Op::OpenFile { d: 0, path: name.clone().into_bytes(), new: f }).is_ok() {
                cx.step(Op::DropF(f));
            }
            cx.step(Op::Remove { d: 0, path: name.into_bytes() });
            let f = cx.new_f();
            if cx.step(Op::CreateFile { d: 0, path: path.into_bytes(), new: f }).is_ok() {
                cx.step(Op::DropF(f));
            }
        }
    }
    cx.resync();
    if !cx.dead {
        cx.closing_lists();
        cx.step(Op::Unmount);
    }
    cx.finish(sink);
}

pub fn run(tier: Tier, seed: u64, rng: &mut SplitMix64, n_override: Option<u64>, sink: &mut Sink) {
    let cat = Catalogue::build();
    let n = tier_count(tier, n_override, 260, 5200);
    let mut id = 0u64;
    for _ in 0..n {
        id += 1;
        let mut r = rng.fork();
        random_history(hist_id("ns", seed, id), seed, &cat, &mut r, sink);
    }
    for _ in 0..(n / 20).max(4) {
        id += 1;
        let mut r = rng.fork();
        panic_history(hist_id("ns", seed, id), seed, &cat, &mut r, sink);
    }
    if tier == Tier::Thorough && n_override.is_none() {
        let ops = xops();
        // all sequences of length 3 on one tiny FAT12 volume (their prefixes cover lengths 1 and 2) …
        let v0 = cat.tiny.iter().find(|c| c.bps == 512 && c.cs == 512 && c.clusters >= 40).unwrap_or(&cat.tiny[0]);
        for a in &ops {
            for b in &ops {
                for c in &ops {
                    id += 1;
                    exhaustive_history(hist_id("ns", seed, id), seed, v0, &[a.clone(), b.clone(), c.clone()], sink);
                }
            }
        }
        // … and all sequences of length 2 on a FAT16 volume with a 16-entry root and on a FAT32 volume
        let v1 = cat.fat16.iter().find(|c| c.root_entries == 16).unwrap_or(&cat.fat16[0]);
        let v2 = &cat.fat32[0];
        for v in [v1, v2] {
            for a in &ops {
                for b in &ops {
                    id += 1;
                    exhaustive_history(hist_id("ns", seed, id), seed, v, &[a.clone(), b.clone()], sink);
                }
            }
        }
    }
}
