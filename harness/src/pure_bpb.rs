//! pure-probe suite `bpb` (see /verif/ARCH.md): boot-sector parsing, validation and derived geometry.
//!
//! ```text
//! P bpb.probe <bs-hex512> <strict> => <the 17 BpbProbe fields in declaration order> | ERR <code> | PANIC
//! P bpb.mount <bs-hex512> <fsinfo-hex512> <strict> => ok <fat_bits> <cluster_size> <total_clusters> <free|none>
//!                                                    | ERR <code> | PANIC
//! ```
//! `bpb.probe` calls `fatfs::verif::bpb_probe`. `bpb.mount` calls the real `FileSystem::new` on `PeriodicDev`: an
//! unbounded read-only device whose first 512 bytes are the boot sector and whose every other 512-byte block is the
//! FS-info sector. The cached free count is observed through `stats()` after device reads have been switched off
//! (`stats()` answers from the cache or fails trying to scan the FAT).
use crate::rng::SplitMix64;
use crate::util::{b, catch, hex, opt, Tier};
use fatfs::verif::{bpb_probe, format_boot_sector_bytes};
use fatfs::{FatType, FileSystem, FormatVolumeOptions, FsOptions, IoBase, Read, Seek, SeekFrom, Write};
use std::cell::Cell;
use std::io::Write as IoWrite;
use std::rc::Rc;

type Sector = [u8; 512];

// ---------------------------------------------------------------------------------------------------------------
// device for the real mount
// ---------------------------------------------------------------------------------------------------------------

struct PeriodicDev {
    bs: Sector,
    fsinfo: Sector,
    pos: u64,
    fail: Rc<Cell<bool>>,
}

impl IoBase for PeriodicDev {
    type Error = ();
}

impl Read for PeriodicDev {
    fn read(&mut self, buf: &mut [u8]) -> Result<usize, ()> {
        if self.fail.get() {
            return Err(());
        }
        for (i, out) in buf.iter_mut().enumerate() {
            let p = self.pos.wrapping_add(i as u64);
            *out = if p < 512 { self.bs[p as usize] } else { self.fsinfo[(p % 512) as usize] };
        }
        self.pos = self.pos.wrapping_add(buf.len() as u64);
        Ok(buf.len())
    }
}

impl Write for PeriodicDev {
    fn write(&mut self, _buf: &[u8]) -> Result<usize, ()> {
        // mounting must not write; surfaces as PANIC, i.e. as a mismatch with the model
        panic!("write during mount");
    }
    fn flush(&mut self) -> Result<(), ()> {
        Ok(())
    }
}

impl Seek for PeriodicDev {
    fn seek(&mut self, pos: SeekFrom) -> Result<u64, ()> {
        match pos {
            SeekFrom::Start(n) => self.pos = n,
            SeekFrom::Current(d) => self.pos = self.pos.wrapping_add(d as u64),
            SeekFrom::End(_) => return Err(()),
        }
        Ok(self.pos)
    }
}

// ---------------------------------------------------------------------------------------------------------------
// probes
// ---------------------------------------------------------------------------------------------------------------

fn fat_bits(t: FatType) -> u8 {
    match t {
        FatType::Fat12 => 12,
        FatType::Fat16 => 16,
        FatType::Fat32 => 32,
    }
}

struct Gen<'a> {
    out: &'a mut dyn IoWrite,
    n: u64,
    limit: u64,
}

impl Gen<'_> {
    fn full(&self) -> bool {
        self.n >= self.limit
    }

    fn probe(&mut self, bs: &Sector, strict: bool) {
        let r = catch(|| bpb_probe(bs, strict));
        let res = match r {
            None => "PANIC".to_string(),
            Some(Err(code)) => format!("ERR {}", code),
            Some(Ok(p)) => format!(
                "{} {} {} {} {} {} {} {} {} {} {} {} {} {} {} {} {}",
                p.fat_bits,
                p.bytes_per_sector,
                p.cluster_size,
                p.total_clusters,
                p.first_data_sector,
                p.root_dir_sectors,
                p.sectors_per_fat,
                p.reserved_sectors,
                p.fats,
                p.total_sectors,
                b(p.mirroring),
                p.active_fat,
                p.root_dir_first_cluster,
                p.fs_info_sector,
                p.backup_boot_sector,
                b(p.status_dirty),
                b(p.status_io_error)
            ),
        };
        writeln!(self.out, "P bpb.probe {} {} => {}", hex(bs), b(strict), res).unwrap();
        self.n += 1;
    }

    fn probe_both(&mut self, bs: &Sector) {
        self.probe(bs, true);
        self.probe(bs, false);
    }

    fn mount(&mut self, bs: &Sector, fsinfo: &Sector, strict: bool) {
        let r = catch(|| {
            let fail = Rc::new(Cell::new(false));
            let dev = PeriodicDev { bs: *bs, fsinfo: *fsinfo, pos: 0, fail: fail.clone() };
            match FileSystem::new(dev, FsOptions::new().strict(strict)) {
                Err(e) => format!("ERR {}", fatfs::verif::error_code(&e)),
                Ok(fs) => {
                    let bits = fat_bits(fs.fat_type());
                    let cs = fs.cluster_size();
                    // the cluster count FileSystem::new cached is bpb.total_clusters(); stats() exposes it only
                    // together with the free count, so take it from the hook and cross-check when stats() answers
                    let total = bpb_probe(bs, strict).map_or(u32::MAX, |p| p.total_clusters);
                    fail.set(true);
                    let free = match fs.stats() {
                        Ok(s) => {
                            assert_eq!(s.total_clusters(), total);
                            assert_eq!(s.cluster_size(), cs);
                            Some(s.free_clusters())
                        }
                        Err(_) => None,
                    };
                    drop(fs);
                    format!("ok {} {} {} {}", bits, cs, total, opt(free))
                }
            }
        });
        let res = r.unwrap_or_else(|| "PANIC".to_string());
        writeln!(self.out, "P bpb.mount {} {} {} => {}", hex(bs), hex(fsinfo), b(strict), res).unwrap();
        self.n += 1;
    }
}

// ---------------------------------------------------------------------------------------------------------------
// boot-sector fields
// ---------------------------------------------------------------------------------------------------------------

#[derive(Clone, Copy, Debug)]
struct Field {
    off: usize,
    width: usize, // bytes
}

const F_BPS: Field = Field { off: 11, width: 2 };
const F_SPC: Field = Field { off: 13, width: 1 };
const F_RSVD: Field = Field { off: 14, width: 2 };
const F_FATS: Field = Field { off: 16, width: 1 };
const F_ROOT: Field = Field { off: 17, width: 2 };
const F_TS16: Field = Field { off: 19, width: 2 };
const F_MEDIA: Field = Field { off: 21, width: 1 };
const F_SPF16: Field = Field { off: 22, width: 2 };
const F_SPT: Field = Field { off: 24, width: 2 };
const F_HEADS: Field = Field { off: 26, width: 2 };
const F_HIDDEN: Field = Field { off: 28, width: 4 };
const F_TS32: Field = Field { off: 32, width: 4 };
// FAT32 layout
const F_SPF32: Field = Field { off: 36, width: 4 };
const F_EXTFLAGS: Field = Field { off: 40, width: 2 };
const F_FSVER: Field = Field { off: 42, width: 2 };
const F_ROOTCLUS: Field = Field { off: 44, width: 4 };
const F_FSINFO: Field = Field { off: 48, width: 2 };
const F_BACKUP: Field = Field { off: 50, width: 2 };
const F_DRIVE32: Field = Field { off: 64, width: 1 };
const F_RES1_32: Field = Field { off: 65, width: 1 };
const F_EXTSIG32: Field = Field { off: 66, width: 1 };
const F_VOLID32: Field = Field { off: 67, width: 4 };
// FAT12/16 layout (the same bytes are sectors_per_fat_32 … in the FAT32 layout)
const F_DRIVE16: Field = Field { off: 36, width: 1 };
const F_RES1_16: Field = Field { off: 37, width: 1 };
const F_EXTSIG16: Field = Field { off: 38, width: 1 };
const F_VOLID16: Field = Field { off: 39, width: 4 };
const F_SIG0: Field = Field { off: 510, width: 1 };
const F_SIG1: Field = Field { off: 511, width: 1 };
const F_JMP0: Field = Field { off: 0, width: 1 };

const FIELDS8: [Field; 13] = [
    F_SPC, F_FATS, F_MEDIA, F_DRIVE32, F_RES1_32, F_EXTSIG32, F_DRIVE16, F_RES1_16, F_EXTSIG16, F_SIG0, F_SIG1,
    F_JMP0,
    Field { off: 52, width: 1 }, // reserved_0[0]
];
const FIELDS16: [Field; 11] =
    [F_BPS, F_RSVD, F_ROOT, F_TS16, F_SPF16, F_SPT, F_HEADS, F_EXTFLAGS, F_FSVER, F_FSINFO, F_BACKUP];
const FIELDS32: [Field; 6] = [F_HIDDEN, F_TS32, F_SPF32, F_ROOTCLUS, F_VOLID32, F_VOLID16];
/// fields that take part in the geometry arithmetic
const GEO_FIELDS: [Field; 13] =
    [F_BPS, F_SPC, F_RSVD, F_FATS, F_ROOT, F_TS16, F_SPF16, F_TS32, F_SPF32, F_ROOTCLUS, F_FSINFO, F_BACKUP, F_FSVER];

fn get(bs: &Sector, f: Field) -> u64 {
    let mut v = 0u64;
    for i in (0..f.width).rev() {
        v = (v << 8) | u64::from(bs[f.off + i]);
    }
    v
}

fn set(bs: &mut Sector, f: Field, v: u64) {
    for i in 0..f.width {
        bs[f.off + i] = (v >> (8 * i)) as u8;
    }
}

fn with(bs: &Sector, f: Field, v: u64) -> Sector {
    let mut c = *bs;
    set(&mut c, f, v);
    c
}

fn mask(f: Field) -> u64 {
    if f.width == 8 {
        u64::MAX
    } else {
        (1u64 << (8 * f.width)) - 1
    }
}

/// 0, max, all 2^k and 2^k±1 (masked to the width)
fn pow_values(f: Field) -> Vec<u64> {
    let m = mask(f);
    let mut v = vec![0, 1, 2, 3, m, m - 1, m - 2];
    for k in 0..(8 * f.width) {
        let p = 1u64 << k;
        v.push(p);
        v.push(p.wrapping_sub(1) & m);
        v.push((p + 1) & m);
    }
    v.push(m / 2);
    v.sort_unstable();
    v.dedup();
    v
}

fn around(vs: &mut Vec<u64>, x: i128, m: u64) {
    for d in -2i128..=2 {
        let y = x + d;
        if y >= 0 && y <= i128::from(m) {
            vs.push(y as u64);
        }
    }
}

/// (bps, spc, rsvd, fats, root_sectors, spf, total) as the FAT specification reads them
struct Geo {
    bps: u64,
    spc: u64,
    rsvd: u64,
    fats: u64,
    root_secs: u64,
    spf: u64,
    total: u64,
    is32: bool,
}

fn geo(bs: &Sector) -> Geo {
    let bps = get(bs, F_BPS).max(1);
    let spf16 = get(bs, F_SPF16);
    let ts16 = get(bs, F_TS16);
    Geo {
        bps,
        spc: get(bs, F_SPC).max(1),
        rsvd: get(bs, F_RSVD),
        fats: get(bs, F_FATS),
        root_secs: (get(bs, F_ROOT) * 32 + bps - 1) / bps,
        spf: if spf16 != 0 { spf16 } else { get(bs, F_SPF32) },
        total: if ts16 != 0 { ts16 } else { get(bs, F_TS32) },
        is32: spf16 == 0,
    }
}

const CLUSTER_MARKS: [u64; 6] = [0, 4085, 65525, 0x0FFF_FFF5, 0x0FFF_FFFF, 0x1000_0000];

/// values of field `f` at which some case split of the model (given the other fields of `bs`) flips, ±2
fn boundary_values(bs: &Sector, f: Field) -> Vec<u64> {
    let g = geo(bs);
    let m = mask(f);
    let mut v = Vec::new();
    let lim = 1i128 << 32;
    let (bps, spc, rsvd, fats, root, spf, total) = (
        i128::from(g.bps),
        i128::from(g.spc),
        i128::from(g.rsvd),
        i128::from(g.fats),
        i128::from(g.root_secs),
        i128::from(g.spf),
        i128::from(g.total),
    );
    let meta = rsvd + fats * spf + root;
    match f.off {
        11 => {
            for x in [512, 1024, 2048, 4096, 32768] {
                around(&mut v, x, m);
            }
            if spf > 0 {
                around(&mut v, lim / (spf * 8), m);
                around(&mut v, lim / spf, m);
            }
        }
        14 => {
            around(&mut v, 1, m);
            around(&mut v, i128::from(get(bs, F_FSINFO)), m);
            around(&mut v, i128::from(get(bs, F_BACKUP)), m);
            around(&mut v, total - fats * spf - root, m);
            for c in CLUSTER_MARKS {
                around(&mut v, total - fats * spf - root - i128::from(c) * spc, m);
            }
        }
        17 => {
            around(&mut v, bps / 32, m);
            around(&mut v, (total - rsvd - fats * spf) * bps / 32, m);
            for c in CLUSTER_MARKS {
                around(&mut v, (total - rsvd - fats * spf - i128::from(c) * spc) * bps / 32, m);
            }
        }
        19 | 32 => {
            around(&mut v, meta, m);
            for c in CLUSTER_MARKS {
                around(&mut v, meta + i128::from(c) * spc, m);
                around(&mut v, meta + i128::from(c) * spc + spc, m);
            }
            around(&mut v, i128::from(get(bs, F_TS16)), m);
            around(&mut v, i128::from(get(bs, F_TS32)), m);
        }
        22 | 36 => {
            if fats > 0 {
                around(&mut v, (total - rsvd - root) / fats, m);
                around(&mut v, lim / fats, m);
                around(&mut v, (lim - rsvd - root) / fats, m);
                for c in CLUSTER_MARKS {
                    around(&mut v, (total - rsvd - root - i128::from(c) * spc) / fats, m);
                }
            }
            around(&mut v, lim / (bps * 8), m);
            around(&mut v, lim / bps, m);
            // FAT exactly large enough for the clusters
            let clusters = (total - meta) / spc;
            around(&mut v, ((clusters + 2) * 4 + bps - 1) / bps, m);
        }
        44 => {
            let clusters = (total - meta) / spc;
            around(&mut v, 2, m);
            around(&mut v, clusters, m);
            around(&mut v, clusters + 2, m);
        }
        48 | 50 => {
            around(&mut v, rsvd, m);
            around(&mut v, 0, m);
        }
        16 => {
            if spf > 0 {
                around(&mut v, lim / spf, m);
                around(&mut v, (total - rsvd - root) / spf, m);
            }
        }
        _ => {}
    }
    v.sort_unstable();
    v.dedup();
    v
}

fn interesting(bs: &Sector, f: Field) -> Vec<u64> {
    let mut v = pow_values(f);
    v.extend(boundary_values(bs, f));
    v.sort_unstable();
    v.dedup();
    v
}

fn random_value(rng: &mut SplitMix64, bs: &Sector, f: Field) -> u64 {
    match rng.below(10) {
        0..=3 => {
            let v = interesting(bs, f);
            *rng.pick(&v)
        }
        4..=5 => {
            // a small perturbation of the current value
            let cur = get(bs, f);
            let d = rng.below(9) as i64 - 4;
            (cur as i64).wrapping_add(d) as u64 & mask(f)
        }
        6 => {
            // a random power of two times a small factor
            let k = rng.below(8 * f.width as u64);
            ((1u64 << k).wrapping_mul(rng.range(1, 5))) & mask(f)
        }
        _ => rng.next_u64() & mask(f),
    }
}

// ---------------------------------------------------------------------------------------------------------------
// bases
// ---------------------------------------------------------------------------------------------------------------

fn base(opts: FormatVolumeOptions, total_sectors: u32) -> Sector {
    let (bytes, _bits) = format_boot_sector_bytes(&opts, total_sectors).expect("base boot sector");
    bytes
}

fn bases() -> Vec<Sector> {
    vec![
        // FAT12, 1 MiB
        base(FormatVolumeOptions::new(), 2048),
        // FAT16, 16 MiB
        base(FormatVolumeOptions::new(), 32768),
        // FAT32, 34 MiB, 512-byte clusters
        base(FormatVolumeOptions::new().fat_type(FatType::Fat32).bytes_per_cluster(512), 69632),
        // FAT32, 2 TiB - 512 B, 32 KiB clusters (numbers near the 32-bit limits)
        base(FormatVolumeOptions::new().fat_type(FatType::Fat32).bytes_per_cluster(32768), 0xFFFF_FFFF),
        // FAT32, 4096-byte sectors
        base(
            FormatVolumeOptions::new().fat_type(FatType::Fat32).bytes_per_sector(4096).bytes_per_cluster(4096),
            0x0100_0000,
        ),
        // FAT16 with 2048-byte sectors and a non-sector-aligned root directory
        base(
            FormatVolumeOptions::new().bytes_per_sector(2048).max_root_dir_entries(100).fat_type(FatType::Fat16),
            20000,
        ),
    ]
}

fn valid_fsinfo(free: u32, next: u32) -> Sector {
    let mut s = [0u8; 512];
    s[0..4].copy_from_slice(&0x4161_5252u32.to_le_bytes());
    s[484..488].copy_from_slice(&0x6141_7272u32.to_le_bytes());
    s[488..492].copy_from_slice(&free.to_le_bytes());
    s[492..496].copy_from_slice(&next.to_le_bytes());
    s[508..512].copy_from_slice(&0xAA55_0000u32.to_le_bytes());
    s
}

const FI_LEAD: Field = Field { off: 0, width: 4 };
const FI_STRUC: Field = Field { off: 484, width: 4 };
const FI_FREE: Field = Field { off: 488, width: 4 };
const FI_NEXT: Field = Field { off: 492, width: 4 };
const FI_TRAIL: Field = Field { off: 508, width: 4 };

// ---------------------------------------------------------------------------------------------------------------
// streams
// ---------------------------------------------------------------------------------------------------------------

fn total_clusters_of(bs: &Sector) -> u64 {
    catch(|| bpb_probe(bs, false)).and_then(Result::ok).map_or(0, |p| u64::from(p.total_clusters))
}

/// regression stream: the witnesses of the repaired defects F7 (overflow panics), F8 (root cluster) and F20 (cluster
/// limit) and their neighbourhood, always emitted first; the C07 oracles fire again if one of them returns
fn directed(g: &mut Gen, bases: &[Sector]) {
    let f32small = bases[2];
    let f32big = bases[3];
    for base in [f32small, f32big, bases[4]] {
        // F7: fats * sectors_per_fat
        let mut s = with(&base, F_FATS, 255);
        set(&mut s, F_SPF32, 0x0200_0000);
        g.probe_both(&s);
        g.mount(&s, &valid_fsinfo(1, 2), true);
        g.probe_both(&with(&base, F_SPF32, 0xFFFF_FFFF));
        g.probe_both(&with(&base, F_SPF32, 0x8000_0000));
        g.probe_both(&with(&base, F_SPF32, 0x7FFF_FFFF));
        // F7: reserved + fat sectors (+ root) with one FAT
        let mut s = with(&base, F_FATS, 1);
        set(&mut s, F_SPF32, 0xFFFF_FFFF);
        g.probe_both(&s);
        for d in 0..5u64 {
            let rsvd = get(&base, F_RSVD);
            set(&mut s, F_SPF32, 0x1_0000_0000 - rsvd - 2 + d);
            g.probe_both(&s);
        }
        // F7: sectors_per_fat * bytes_per_sector * 8 on a volume that is otherwise fine
        let bps = get(&base, F_BPS);
        for d in 0..5u64 {
            let mut s = with(&base, F_FATS, 1);
            set(&mut s, F_TS32, 0xFFFF_FFFF);
            set(&mut s, F_SPC, 128);
            set(&mut s, F_SPF32, (1u64 << 32) / (bps * 8) - 2 + d);
            g.probe_both(&s);
            g.mount(&s, &valid_fsinfo(1, 2), true);
            set(&mut s, F_SPF32, (1u64 << 32) / bps - 2 + d);
            g.probe_both(&s);
        }
        // F8: root cluster never validated
        let total = total_clusters_of(&base);
        for rc in [0, 1, 2, 3, total, total + 1, total + 2, total + 3, 0x0FFF_FFF7, 0xFFFF_FFFF] {
            let s = with(&base, F_ROOTCLUS, rc);
            g.probe_both(&s);
            g.mount(&s, &valid_fsinfo(1, 2), true);
        }
    }
    // the witnesses / regression examples of Props/C07.lean, on the real code
    {
        let w = |spc: u64, rsvd: u64, fats: u64, ts32: u64, spf32: u64, ext: u64, rc: u64| {
            let mut s = f32small;
            set(&mut s, F_SPC, spc);
            set(&mut s, F_RSVD, rsvd);
            set(&mut s, F_FATS, fats);
            set(&mut s, F_TS32, ts32);
            set(&mut s, F_SPF32, spf32);
            set(&mut s, F_EXTFLAGS, ext);
            set(&mut s, F_ROOTCLUS, rc);
            s
        };
        let fi = valid_fsinfo(1, 2);
        for s in [
            w(1, 8, 255, 69632, 0x0200_0000, 0, 2),
            w(1, 8, 2, 69632, 0xFFFF_FFFF, 0, 2),
            w(1, 8, 2, 69632, 0x8000_0000, 0, 2),
            w(1, 8, 2, 69632, 0x7FFF_FFFC, 0, 2),
            w(1, 8, 2, 69632, 0x7FFF_FFFB, 0, 2),
            w(1, 8, 1, 69632, 0xFFFF_FFF8, 0, 2),
            w(8, 32, 2, 1_075_838_944, 1_048_576, 0, 2),
            w(8, 32, 2, 1_075_838_944, 1_048_575, 0, 2),
            with(&w(1, 32, 2, 134_479_902, 131_072, 0, 2), F_BPS, 4096),
            with(&w(1, 32, 2, 134_479_902, 131_071, 0, 2), F_BPS, 4096),
            w(1, 8, 2, 69632, 536, 0, 0),
            w(1, 8, 2, 69632, 536, 0, 1),
            w(1, 8, 2, 69632, 536, 0, 68553),
            w(1, 8, 2, 69632, 536, 0, 68554),
            w(1, 8, 2, 69632, 536, 0, 0xFFFF_FFFF),
            w(1, 8, 2, 268_436_535, 536, 0, 2),
            w(1, 8, 2, 268_436_526, 536, 0, 2),
            w(1, 8, 2, 268_436_525, 536, 0, 2),
            w(1, 8, 2, 268_436_536, 536, 0, 2),
            w(1, 32, 2, 69632, 1, 0, 2),
            w(1, 8, 2, 69632, 536, 0x8F, 2),
        ] {
            g.probe_both(&s);
            g.mount(&s, &fi, true);
        }
        g.mount(&f32small, &valid_fsinfo(68552, 68554), true);
        g.mount(&f32small, &valid_fsinfo(68553, 68555), true);
    }
    // FAT12/16 layout: u16 sectors_per_fat cannot overflow the products on its own
    for base in [bases[0], bases[1], bases[5]] {
        let mut s = with(&base, F_FATS, 255);
        set(&mut s, F_SPF16, 0xFFFF);
        g.probe_both(&s);
        set(&mut s, F_TS16, 0);
        set(&mut s, F_TS32, 0xFFFF_FFFF);
        g.probe_both(&s);
        set(&mut s, F_BPS, 4096);
        set(&mut s, F_SPC, 128);
        g.probe_both(&s);
        g.mount(&s, &valid_fsinfo(1, 2), true);
    }
}

fn sweep8(g: &mut Gen, bases: &[Sector]) {
    for base in bases {
        for f in FIELDS8 {
            for v in 0..256u64 {
                let s = with(base, f, v);
                let sig_field = f.off >= 510 || f.off == 0;
                if sig_field {
                    g.probe_both(&s);
                } else {
                    g.probe(&s, v % 2 == 0);
                }
            }
        }
    }
}

fn sweep16_interesting(g: &mut Gen, bases: &[Sector]) {
    for base in bases {
        for f in FIELDS16 {
            for v in interesting(base, f) {
                g.probe(&with(base, f, v), true);
            }
        }
    }
}

fn sweep16_full(g: &mut Gen, base: &Sector, f: Field) {
    for v in 0..65536u64 {
        g.probe(&with(base, f, v), v % 7 != 0);
    }
}

fn sweep32(g: &mut Gen, bases: &[Sector]) {
    for base in bases {
        for f in FIELDS32 {
            for v in interesting(base, f) {
                g.probe(&with(base, f, v), true);
            }
        }
    }
}

fn pairs(g: &mut Gen, rng: &mut SplitMix64, bases: &[Sector], n: u64) {
    for _ in 0..n {
        let base = rng.pick(bases);
        let f1 = *rng.pick(&GEO_FIELDS);
        let f2 = *rng.pick(&GEO_FIELDS);
        let mut s = with(base, f1, random_value(rng, base, f1));
        let v2 = random_value(rng, &s, f2);
        set(&mut s, f2, v2);
        g.probe(&s, rng.chance(3, 4));
    }
}

/// exhaustive small grids of pairs of interesting values for the field pairs that interact in the arithmetic
fn pair_grids(g: &mut Gen, bases: &[Sector], stride: usize) {
    let combos: [(Field, Field); 8] = [
        (F_FATS, F_SPF32),
        (F_BPS, F_SPF32),
        (F_TS32, F_SPF32),
        (F_SPC, F_TS32),
        (F_RSVD, F_SPF32),
        (F_BPS, F_SPC),
        (F_FATS, F_SPF16),
        (F_ROOT, F_BPS),
    ];
    let mut k = 0usize;
    for base in bases {
        for (f1, f2) in combos {
            let v1s = if f1.width == 1 { (0..=8).map(|k| 1u64 << k).chain([0, 3, 255]).map(|v| v & 255).collect() } else { interesting(base, f1) };
            for v1 in v1s {
                let s1 = with(base, f1, v1);
                for v2 in interesting(&s1, f2) {
                    k += 1;
                    if k % stride == 0 {
                        g.probe(&with(&s1, f2, v2), true);
                    }
                }
            }
        }
    }
}

fn random_combos(g: &mut Gen, rng: &mut SplitMix64, bases: &[Sector], n: u64) {
    for _ in 0..n {
        let mut s = *rng.pick(bases);
        let k = rng.range(1, 6);
        for _ in 0..k {
            let f = if rng.chance(4, 5) {
                *rng.pick(&GEO_FIELDS)
            } else {
                match rng.below(3) {
                    0 => *rng.pick(&FIELDS8),
                    1 => *rng.pick(&FIELDS16),
                    _ => *rng.pick(&FIELDS32),
                }
            };
            let v = random_value(rng, &s, f);
            set(&mut s, f, v);
        }
        g.probe(&s, rng.chance(3, 4));
    }
}

/// coherent big geometries built from scratch (not via the formatter): random legal bps/spc/fats, FAT exactly or
/// nearly large enough, totals up to 2^32-1
fn synthetic(g: &mut Gen, rng: &mut SplitMix64, bases: &[Sector], n: u64) {
    for _ in 0..n {
        let mut s = bases[2];
        let bps = 512u64 << rng.below(4);
        let spc = 1u64 << rng.below(8);
        let fats = rng.range(1, 3);
        let rsvd = *rng.pick(&[1u64, 8, 32, 33, 65535]);
        let total = match rng.below(4) {
            0 => 0xFFFF_FFFFu64 - rng.below(4),
            1 => 1u64 << rng.range(17, 31),
            _ => rng.range(70000, 0xFFFF_FFFF),
        };
        let clusters_guess = total / spc;
        let spf_exact = ((clusters_guess + 2) * 4 + bps - 1) / bps;
        let spf = match rng.below(4) {
            0 => spf_exact,
            1 => spf_exact + rng.below(3),
            2 => spf_exact.saturating_sub(rng.below(3)),
            _ => rng.range(1, spf_exact.max(2)),
        } & 0xFFFF_FFFF;
        set(&mut s, F_BPS, bps);
        set(&mut s, F_SPC, spc);
        set(&mut s, F_FATS, fats);
        set(&mut s, F_RSVD, rsvd);
        set(&mut s, F_TS32, total);
        set(&mut s, F_SPF32, spf);
        set(&mut s, F_BACKUP, if rsvd > 6 { 6 } else { 0 });
        set(&mut s, F_FSINFO, if rsvd > 1 { 1 } else { 0 });
        if rng.chance(1, 3) {
            let meta = rsvd + fats * spf;
            let clusters = total.saturating_sub(meta) / spc;
            let mut v = Vec::new();
            around(&mut v, 2, 0xFFFF_FFFF);
            around(&mut v, clusters as i128 + 2, 0xFFFF_FFFF);
            set(&mut s, F_ROOTCLUS, *rng.pick(&v));
        }
        g.probe(&s, true);
    }
}

fn fsinfo_soup(g: &mut Gen, rng: &mut SplitMix64, bases: &[Sector], n: u64) {
    let fat32: Vec<Sector> = vec![bases[2], bases[3], bases[4]];
    // directed: every FS-info boundary on every FAT32 base, clean and dirty
    for base in &fat32 {
        let total = total_clusters_of(base);
        let mut vals = pow_values(FI_FREE);
        around(&mut vals, total as i128, 0xFFFF_FFFF);
        around(&mut vals, total as i128 + 2, 0xFFFF_FFFF);
        vals.sort_unstable();
        vals.dedup();
        for dirty in [0u64, 1, 2, 3, 0xFF] {
            let bs = with(base, F_RES1_32, dirty);
            for &v in &vals {
                g.mount(&bs, &valid_fsinfo(v as u32, 2), true);
                g.mount(&bs, &valid_fsinfo(5, v as u32), true);
            }
        }
        for f in [FI_LEAD, FI_STRUC, FI_TRAIL] {
            let good = get(&valid_fsinfo(0, 0), f);
            for bit in 0..32 {
                g.mount(base, &with(&valid_fsinfo(7, 9), f, good ^ (1 << bit)), true);
            }
            g.mount(base, &with(&valid_fsinfo(7, 9), f, 0), false);
        }
        // FS-info location: 0 reads the boot sector itself
        for fi in [0u64, 1, 2, get(base, F_RSVD) - 1] {
            g.mount(&with(base, F_FSINFO, fi), &valid_fsinfo(7, 9), true);
        }
    }
    // FAT12/16 never read the FS-info sector
    for base in [bases[0], bases[1], bases[5]] {
        g.mount(&base, &valid_fsinfo(7, 9), true);
        g.mount(&base, &[0u8; 512], false);
        g.mount(&with(&base, F_RES1_16, 1), &valid_fsinfo(7, 9), true);
    }
    for _ in 0..n {
        if g.full() {
            return;
        }
        let mut bs = *rng.pick(bases);
        if rng.chance(1, 2) {
            let k = rng.range(1, 3);
            for _ in 0..k {
                let f = *rng.pick(&GEO_FIELDS);
                let v = random_value(rng, &bs, f);
                set(&mut bs, f, v);
            }
        }
        if rng.chance(1, 3) {
            let f = if get(&bs, F_SPF16) == 0 { F_RES1_32 } else { F_RES1_16 };
            set(&mut bs, f, rng.below(4));
        }
        let total = total_clusters_of(&bs);
        let mut vals = vec![0u64, 1, 2, 0xFFFF_FFFF, 0xFFFF_FFFE];
        around(&mut vals, total as i128, 0xFFFF_FFFF);
        around(&mut vals, total as i128 + 2, 0xFFFF_FFFF);
        let free = if rng.chance(1, 4) { rng.next_u64() & 0xFFFF_FFFF } else { *rng.pick(&vals) };
        let next = if rng.chance(1, 4) { rng.next_u64() & 0xFFFF_FFFF } else { *rng.pick(&vals) };
        let mut fi = valid_fsinfo(free as u32, next as u32);
        if rng.chance(1, 6) {
            let f = *rng.pick(&[FI_LEAD, FI_STRUC, FI_TRAIL]);
            let v = get(&fi, f) ^ (1 << rng.below(32));
            set(&mut fi, f, v);
        }
        if rng.chance(1, 10) {
            // reserved bytes are ignored
            fi[4 + rng.below(480) as usize] = rng.next_u64() as u8;
            fi[496 + rng.below(12) as usize] = rng.next_u64() as u8;
        }
        g.mount(&bs, &fi, rng.chance(3, 4));
    }
}

/// not a boot sector at all
fn malformed(g: &mut Gen, rng: &mut SplitMix64, n: u64) {
    g.probe_both(&[0u8; 512]);
    g.probe_both(&[0xFFu8; 512]);
    for _ in 0..n {
        let mut s = [0u8; 512];
        for x in s.iter_mut() {
            *x = rng.next_u64() as u8;
        }
        if rng.chance(1, 2) {
            s[510] = 0x55;
            s[511] = 0xAA;
        }
        g.probe(&s, rng.chance(1, 2));
    }
}

pub fn run(tier: Tier, seed: u64, out: &mut dyn IoWrite) {
    let mut rng = SplitMix64::new(seed ^ 0xB9B0_0000_0000_0007);
    let bases = bases();
    let limit = tier.pick(150_000u64, 5_000_000u64);
    let mut g = Gen { out, n: 0, limit };

    // the unmodified bases must mount
    for base in &bases {
        g.probe_both(base);
        g.mount(base, &valid_fsinfo(100, 50), true);
    }
    directed(&mut g, &bases);
    sweep8(&mut g, &bases);
    sweep16_interesting(&mut g, &bases);
    sweep32(&mut g, &bases);
    fsinfo_soup(&mut g, &mut rng, &bases, tier.pick(6_000, 200_000));
    malformed(&mut g, &mut rng, tier.pick(300, 20_000));
    pair_grids(&mut g, &bases, tier.pick(40, 2));
    match tier {
        Tier::Quick => {
            // one 16-bit field exhaustively per run, chosen by the seed
            let f = FIELDS16[(seed % FIELDS16.len() as u64) as usize];
            let base = bases[((seed / FIELDS16.len() as u64) % 3) as usize + if f.off >= 40 { 2 } else { 0 }];
            sweep16_full(&mut g, &base, f);
        }
        Tier::Thorough => {
            // every value of every 16-bit field on the three primary bases
            for bi in [0usize, 1, 2] {
                for f in FIELDS16 {
                    sweep16_full(&mut g, &bases[bi], f);
                }
            }
            for f in [F_BPS, F_RSVD, F_FSINFO, F_BACKUP, F_EXTFLAGS] {
                sweep16_full(&mut g, &bases[3], f);
            }
        }
    }
    synthetic(&mut g, &mut rng, &bases, tier.pick(8_000, 300_000));
    let rest = g.limit.saturating_sub(g.n);
    pairs(&mut g, &mut rng, &bases, rest * 2 / 5);
    let rest = g.limit.saturating_sub(g.n);
    random_combos(&mut g, &mut rng, &bases, rest);
}
