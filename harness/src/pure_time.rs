//! pure-probe suite `time`: DOS date/time packing (`time.rs`) and the 32-byte directory-entry codec (`dir_entry.rs`).
//!
//! Line formats (mirrored in /verif/lean/FatVerif/Model/TimeDriver.lean):
//!
//! ```text
//! P time.date_encode y m d        => raw | PANIC
//! P time.date_decode raw          => y m d
//! P time.time_encode h mi s ms    => raw hi | PANIC
//! P time.time_decode raw hi       => h mi s ms
//! P time.date_rt y m d            => y' m' d' | PANIC        decode(encode(..))
//! P time.time_rt h mi s ms        => h' mi' s' ms' | PANIC   decode(encode(..))            (creation stamp)
//! P time.mtime_rt h mi s ms       => h' mi' s' ms' | PANIC   decode(encode(..).0, 0)       (modification stamp)
//! P dirent.slot <hex> <alloc>     => F end del reser name attrs isdir isvol size fc16 fc32 c*7 a*3 m*7 short lower
//!                                  | L end del reser order checksum units | ERR code
//! P dirent.set_times <hex> <c|none> <a|none> <m|none> => <hex32> | none | PANIC      (c, m = y,mo,d,h,mi,s,ms  a = y,mo,d)
//! P dirent.short_eq <hex11> <name utf8 hex> => 0|1           (names restricted to ASCII + U+FFFD)
//! ```
use crate::rng::SplitMix64;
use crate::util::{b, catch, hex, hex_str, hex_units, opt, Tier};
use fatfs::verif::{date_decode, date_encode, time_decode, time_encode};
use fatfs::verif_dirent::{set_times_probe, short_name_eq, slot_probe, SlotInfo};
use std::io::Write;

const ALLOC: bool = cfg!(feature = "alloc");

type DT = (u16, u16, u16, u16, u16, u16, u16);
type D3 = (u16, u16, u16);

// ---------------------------------------------------------------------------------------------------------------
// time.rs probes

fn p_date_encode(out: &mut dyn Write, y: u16, m: u16, d: u16) {
    match catch(|| date_encode(y, m, d)) {
        Some(raw) => writeln!(out, "P time.date_encode {y} {m} {d} => {raw}").unwrap(),
        None => writeln!(out, "P time.date_encode {y} {m} {d} => PANIC").unwrap(),
    }
}

fn p_date_rt(out: &mut dyn Write, y: u16, m: u16, d: u16) {
    match catch(|| date_decode(date_encode(y, m, d))) {
        Some((y2, m2, d2)) => writeln!(out, "P time.date_rt {y} {m} {d} => {y2} {m2} {d2}").unwrap(),
        None => writeln!(out, "P time.date_rt {y} {m} {d} => PANIC").unwrap(),
    }
}

fn p_date_decode(out: &mut dyn Write, raw: u16) {
    match catch(|| date_decode(raw)) {
        Some((y, m, d)) => writeln!(out, "P time.date_decode {raw} => {y} {m} {d}").unwrap(),
        None => writeln!(out, "P time.date_decode {raw} => PANIC").unwrap(),
    }
}

fn p_time_encode(out: &mut dyn Write, h: u16, mi: u16, s: u16, ms: u16) {
    match catch(|| time_encode(h, mi, s, ms)) {
        Some((raw, hi)) => writeln!(out, "P time.time_encode {h} {mi} {s} {ms} => {raw} {hi}").unwrap(),
        None => writeln!(out, "P time.time_encode {h} {mi} {s} {ms} => PANIC").unwrap(),
    }
}

fn p_time_rt(out: &mut dyn Write, h: u16, mi: u16, s: u16, ms: u16) {
    let r = catch(|| {
        let (raw, hi) = time_encode(h, mi, s, ms);
        time_decode(raw, hi)
    });
    match r {
        Some((a, b2, c, d)) => writeln!(out, "P time.time_rt {h} {mi} {s} {ms} => {a} {b2} {c} {d}").unwrap(),
        None => writeln!(out, "P time.time_rt {h} {mi} {s} {ms} => PANIC").unwrap(),
    }
}

/// what `set_modified` + `modified()` do: the hi-res byte is dropped, decoding uses 0
fn p_mtime_rt(out: &mut dyn Write, h: u16, mi: u16, s: u16, ms: u16) {
    let r = catch(|| {
        let (raw, _hi) = time_encode(h, mi, s, ms);
        time_decode(raw, 0)
    });
    match r {
        Some((a, b2, c, d)) => writeln!(out, "P time.mtime_rt {h} {mi} {s} {ms} => {a} {b2} {c} {d}").unwrap(),
        None => writeln!(out, "P time.mtime_rt {h} {mi} {s} {ms} => PANIC").unwrap(),
    }
}

fn p_time_decode(out: &mut dyn Write, raw: u16, hi: u8) {
    match catch(|| time_decode(raw, hi)) {
        Some((h, mi, s, ms)) => writeln!(out, "P time.time_decode {raw} {hi} => {h} {mi} {s} {ms}").unwrap(),
        None => writeln!(out, "P time.time_decode {raw} {hi} => PANIC").unwrap(),
    }
}

fn time_all3(out: &mut dyn Write, h: u16, mi: u16, s: u16, ms: u16) {
    p_time_encode(out, h, mi, s, ms);
    p_time_rt(out, h, mi, s, ms);
    p_mtime_rt(out, h, mi, s, ms);
}

const BAD_YEARS: [u16; 10] = [0, 1, 1978, 1979, 2108, 2109, 2110, 4027, 32768, 65535];
const BAD_MONTHS: [u16; 8] = [0, 13, 14, 15, 16, 17, 256, 65535];
const BAD_DAYS: [u16; 7] = [0, 32, 33, 34, 63, 64, 65535];
const EDGE_YEARS: [u16; 8] = [1980, 1981, 1982, 2043, 2044, 2105, 2106, 2107];
const EDGE_MONTHS: [u16; 6] = [1, 2, 3, 10, 11, 12];
const EDGE_DAYS: [u16; 8] = [1, 2, 3, 15, 16, 29, 30, 31];

fn gen_dates(out: &mut dyn Write) {
    // the complete valid domain: 128 * 12 * 31 = 47 616 dates, each through encode and encode∘decode
    for y in 1980..=2107_u16 {
        for m in 1..=12_u16 {
            for d in 1..=31_u16 {
                p_date_encode(out, y, m, d);
                p_date_rt(out, y, m, d);
            }
        }
    }
    // out-of-range boundaries (must PANIC): one bad coordinate against edge values of the other two, then pairs
    let mut years: Vec<u16> = EDGE_YEARS.to_vec();
    years.extend_from_slice(&BAD_YEARS);
    let mut months: Vec<u16> = EDGE_MONTHS.to_vec();
    months.extend_from_slice(&BAD_MONTHS);
    let mut days: Vec<u16> = EDGE_DAYS.to_vec();
    days.extend_from_slice(&BAD_DAYS);
    for &y in &years {
        for &m in &months {
            for &d in &days {
                let valid = (1980..=2107).contains(&y) && (1..=12).contains(&m) && (1..=31).contains(&d);
                if !valid {
                    p_date_encode(out, y, m, d);
                    p_date_rt(out, y, m, d);
                }
            }
        }
    }
    // every raw u16 through decode
    for raw in 0..=u16::MAX {
        p_date_decode(out, raw);
    }
}

const EDGE_HOURS: [u16; 9] = [0, 1, 2, 11, 12, 13, 21, 22, 23];
const EDGE_MINS: [u16; 9] = [0, 1, 2, 30, 31, 32, 57, 58, 59];
const EDGE_MS: [u16; 19] = [0, 1, 5, 9, 10, 11, 19, 20, 99, 100, 101, 499, 500, 501, 989, 990, 991, 998, 999];
const BAD_HOURS: [u16; 7] = [24, 25, 26, 31, 32, 256, 65535];
const BAD_MINS: [u16; 7] = [60, 61, 62, 63, 64, 256, 65535];
const BAD_SECS: [u16; 8] = [60, 61, 62, 63, 64, 65, 256, 65535];
const BAD_MS: [u16; 8] = [1000, 1001, 1002, 1023, 1024, 2560, 32768, 65535];

fn gen_times(tier: Tier, rng: &mut SplitMix64, out: &mut dyn Write) {
    // boundary-directed grid: edge hours × edge minutes × every second × edge millis (9*9*60*19 = 92 340 points)
    for &h in &EDGE_HOURS {
        for &mi in &EDGE_MINS {
            for s in 0..60_u16 {
                for &ms in &EDGE_MS {
                    time_all3(out, h, mi, s, ms);
                }
            }
        }
    }
    // every (h, mi) pair at a few seconds, every (mi, s) pair at a few hours
    for h in 0..24_u16 {
        for mi in 0..60_u16 {
            for &s in &[0_u16, 1, 58, 59] {
                time_all3(out, h, mi, s, *rng.pick(&EDGE_MS));
            }
        }
    }
    // uniform samples of the valid domain
    for _ in 0..tier.pick(40_000, 400_000) {
        let (h, mi, s, ms) = (rng.below(24) as u16, rng.below(60) as u16, rng.below(60) as u16, rng.below(1000) as u16);
        time_all3(out, h, mi, s, ms);
    }
    // out-of-range: one bad coordinate (all values), then bad pairs
    let good = |rng: &mut SplitMix64| {
        (*rng.pick(&EDGE_HOURS), *rng.pick(&EDGE_MINS), rng.below(60) as u16, *rng.pick(&EDGE_MS))
    };
    for rep in 0..8 {
        let _ = rep;
        for &x in &BAD_HOURS {
            let (_, mi, s, ms) = good(rng);
            time_all3(out, x, mi, s, ms);
        }
        for &x in &BAD_MINS {
            let (h, _, s, ms) = good(rng);
            time_all3(out, h, x, s, ms);
        }
        for &x in &BAD_SECS {
            let (h, mi, _, ms) = good(rng);
            time_all3(out, h, mi, x, ms);
        }
        for &x in &BAD_MS {
            let (h, mi, s, _) = good(rng);
            time_all3(out, h, mi, s, x);
        }
        for &x in &BAD_HOURS {
            for &y in &BAD_MS {
                let (_, mi, s, _) = good(rng);
                time_all3(out, x, mi, s, y);
            }
        }
        for &x in &BAD_MINS {
            for &y in &BAD_SECS {
                let (h, _, _, ms) = good(rng);
                time_all3(out, h, x, y, ms);
            }
        }
    }
    // decode: every raw u16 with the hi-res bytes on both sides of the /100 and %100 splits
    for raw in 0..=u16::MAX {
        for &hi in &[0_u8, 99, 100, 199, 200, 255] {
            p_time_decode(out, raw, hi);
        }
    }
    // decode: every hi-res byte against edge raws
    for hi in 0..=u8::MAX {
        for &raw in &[0_u16, 1, 30, 31, 32, 0x07FF, 0x0800, 0xBF7D, 0xFFFF] {
            p_time_decode(out, raw, hi);
        }
    }
    if tier == Tier::Thorough {
        // the complete creation-stamp domain at 10 ms steps: 24*60*60*100 = 8 640 000 round trips
        for h in 0..24_u16 {
            for mi in 0..60_u16 {
                for s in 0..60_u16 {
                    for cs in 0..100_u16 {
                        p_time_rt(out, h, mi, s, cs * 10);
                    }
                    // the modification stamp and the packing itself at every second; a millisecond off the 10 ms grid
                    p_mtime_rt(out, h, mi, s, 0);
                    p_time_encode(out, h, mi, s, (rng.below(100) * 10) as u16);
                    let ms = (rng.below(100) * 10 + rng.range(1, 9)) as u16;
                    p_time_rt(out, h, mi, s, ms);
                }
            }
        }
    }
}

// ---------------------------------------------------------------------------------------------------------------
// dir_entry.rs probes

fn dt_tokens(v: DT) -> String {
    format!("{} {} {} {} {} {} {}", v.0, v.1, v.2, v.3, v.4, v.5, v.6)
}

fn slot_line(info: &SlotInfo) -> String {
    if info.is_lfn {
        format!(
            "L {} {} {} {} {} {}",
            b(info.is_end),
            b(info.is_deleted),
            hex(&info.reserialized),
            info.order,
            info.checksum,
            hex_units(&info.units)
        )
    } else {
        format!(
            "F {} {} {} {} {} {} {} {} {} {} {} {} {} {} {} {} {}",
            b(info.is_end),
            b(info.is_deleted),
            hex(&info.reserialized),
            hex(&info.name),
            info.attrs,
            b(info.is_dir),
            b(info.is_volume),
            opt(info.size_opt),
            opt(info.first_cluster_16),
            opt(info.first_cluster_32),
            dt_tokens(info.created),
            info.accessed.0,
            info.accessed.1,
            info.accessed.2,
            dt_tokens(info.modified),
            hex(&info.short_display),
            if ALLOC { hex(&info.lower_display) } else { "-".into() }
        )
    }
}

fn p_slot(out: &mut dyn Write, bytes: &[u8]) {
    let res = match catch(|| slot_probe(bytes)) {
        Some(Ok(info)) => slot_line(&info),
        Some(Err(code)) => format!("ERR {code}"),
        None => "PANIC".into(),
    };
    writeln!(out, "P dirent.slot {} {} => {}", hex(bytes), b(ALLOC), res).unwrap();
}

fn dt_arg(v: Option<DT>) -> String {
    match v {
        Some(v) => format!("{},{},{},{},{},{},{}", v.0, v.1, v.2, v.3, v.4, v.5, v.6),
        None => "none".into(),
    }
}

fn d_arg(v: Option<D3>) -> String {
    match v {
        Some(v) => format!("{},{},{}", v.0, v.1, v.2),
        None => "none".into(),
    }
}

fn p_set_times(out: &mut dyn Write, bytes: &[u8], c: Option<DT>, a: Option<D3>, m: Option<DT>) {
    let res = match catch(|| set_times_probe(bytes, c, a, m)) {
        Some(Some(v)) => hex(&v),
        Some(None) => "none".into(),
        None => "PANIC".into(),
    };
    writeln!(out, "P dirent.set_times {} {} {} {} => {}", hex(bytes), dt_arg(c), d_arg(a), dt_arg(m), res).unwrap();
}

fn p_short_eq(out: &mut dyn Write, raw: &[u8; 11], name: &str) {
    let res = match catch(|| short_name_eq(raw, name)) {
        Some(v) => b(v).to_string(),
        None => "PANIC".into(),
    };
    writeln!(out, "P dirent.short_eq {} {} => {}", hex(raw), hex_str(name), res).unwrap();
}

const SFN_CHARS: &[u8] = b"ABCDEFGHIJKLMNOPQRSTUVWXYZ0123456789!#$%&'()-@^_`{}~";

/// raw 11-byte short name: mostly valid padded names, sometimes odd bytes
fn gen_raw_name(rng: &mut SplitMix64) -> [u8; 11] {
    let mut n = [b' '; 11];
    let base_len = match rng.below(8) {
        0 => 0,
        1 => 8,
        _ => rng.range(1, 8),
    } as usize;
    let ext_len = match rng.below(4) {
        0 => 0,
        1 => 3,
        _ => rng.range(0, 3),
    } as usize;
    for x in n.iter_mut().take(base_len) {
        *x = *rng.pick(SFN_CHARS);
    }
    for x in n.iter_mut().skip(8).take(ext_len) {
        *x = *rng.pick(SFN_CHARS);
    }
    // spice: embedded / leading spaces, lower case, OEM bytes, the special first bytes
    match rng.below(16) {
        0 => n[rng.below(11) as usize] = b' ',
        1 => n[rng.below(11) as usize] = rng.range(b'a' as u64, b'z' as u64) as u8,
        2 => n[rng.below(11) as usize] = rng.range(0x80, 0xFF) as u8,
        3 => n[0] = 0x05,
        4 => n[0] = 0xE5,
        5 => n[0] = 0x00,
        6 => n[rng.below(11) as usize] = 0x05,
        7 => n[rng.below(11) as usize] = rng.below(256) as u8,
        8 => n[8 + rng.below(3) as usize] = *rng.pick(SFN_CHARS),
        _ => {}
    }
    n
}

fn gen_raw_date(rng: &mut SplitMix64) -> u16 {
    match rng.below(8) {
        0 => 0,
        1 => 0xFFFF,
        2 => rng.below(65536) as u16,
        _ => (((rng.below(128)) << 9) | (rng.range(1, 12) << 5) | rng.range(1, 31)) as u16,
    }
}

fn gen_raw_time(rng: &mut SplitMix64) -> u16 {
    match rng.below(8) {
        0 => 0,
        1 => 0xFFFF,
        2 => rng.below(65536) as u16,
        _ => ((rng.below(24) << 11) | (rng.below(60) << 5) | rng.below(30)) as u16,
    }
}

fn gen_file_slot(rng: &mut SplitMix64) -> [u8; 32] {
    let mut s = [0_u8; 32];
    s[..11].copy_from_slice(&gen_raw_name(rng));
    s[11] = match rng.below(12) {
        0 => 0x00,
        1 => 0x10,
        2 => 0x20,
        3 => 0x08,
        4 => 0x01 | 0x20,
        5 => 0x02 | 0x04 | 0x20,
        6 => 0x10 | 0x02,
        7 => 0x28,
        8 => 0x20 | 0x40,
        9 => 0x10 | 0x80,
        10 => (rng.below(64) as u8) & !0x08, // never all four LFN bits
        _ => 0x20,
    };
    s[12] = match rng.below(8) {
        0 => 0x08,
        1 => 0x10,
        2 => 0x18,
        3 => rng.below(256) as u8,
        _ => 0,
    };
    s[13] = match rng.below(4) {
        0 => rng.below(256) as u8,
        _ => rng.below(200) as u8,
    };
    s[14..16].copy_from_slice(&gen_raw_time(rng).to_le_bytes());
    s[16..18].copy_from_slice(&gen_raw_date(rng).to_le_bytes());
    s[18..20].copy_from_slice(&gen_raw_date(rng).to_le_bytes());
    let cluster: u32 = match rng.below(8) {
        0 => 0,
        1 => 2,
        2 => rng.below(0x1_0000) as u32,
        3 => 0x0001_0000,
        4 => 0x0FFF_FFF7,
        5 => (rng.below(0x1_0000) as u32) << 16, // low word zero, high word set: FAT16 view is None
        6 => rng.next_u32(),
        _ => rng.range(2, 70_000) as u32,
    };
    s[20..22].copy_from_slice(&((cluster >> 16) as u16).to_le_bytes());
    s[22..24].copy_from_slice(&gen_raw_time(rng).to_le_bytes());
    s[24..26].copy_from_slice(&gen_raw_date(rng).to_le_bytes());
    s[26..28].copy_from_slice(&((cluster & 0xFFFF) as u16).to_le_bytes());
    let size: u32 = match rng.below(6) {
        0 => 0,
        1 => 1,
        2 => u32::MAX,
        3 => rng.next_u32(),
        _ => rng.below(1 << 20) as u32,
    };
    s[28..32].copy_from_slice(&size.to_le_bytes());
    s
}

fn gen_lfn_slot(rng: &mut SplitMix64) -> [u8; 32] {
    let mut s = [0_u8; 32];
    s[0] = match rng.below(10) {
        0 => 0xE5,
        1 => 0x00,
        2 => rng.below(256) as u8,
        3 | 4 | 5 => 0x40 | rng.range(1, 20) as u8,
        _ => rng.range(1, 20) as u8,
    };
    // 13 units: text, then optionally 0x0000 terminator and 0xFFFF padding
    let text_len = rng.range(0, 13) as usize;
    let mut units = [0xFFFF_u16; 13];
    for (i, u) in units.iter_mut().enumerate() {
        if i < text_len {
            *u = match rng.below(6) {
                0 => rng.below(65536) as u16,
                1 => rng.range(0x80, 0x24F) as u16,
                _ => rng.range(0x20, 0x7E) as u16,
            };
        } else if i == text_len {
            *u = 0;
        }
    }
    let offs = [1, 3, 5, 7, 9, 14, 16, 18, 20, 22, 24, 28, 30];
    for (u, &o) in units.iter().zip(offs.iter()) {
        s[o..o + 2].copy_from_slice(&u.to_le_bytes());
    }
    s[11] = match rng.below(8) {
        0 => 0x0F | 0x10,
        1 => 0x0F | 0x20,
        2 => 0x0F | 0x40,
        3 => 0x0F | 0xC0,
        4 => 0x3F,
        5 => 0xFF,
        _ => 0x0F,
    };
    s[12] = if rng.chance(1, 8) { rng.below(256) as u8 } else { 0 };
    s[13] = rng.below(256) as u8;
    let res: u16 = if rng.chance(1, 8) { rng.below(65536) as u16 } else { 0 };
    s[26..28].copy_from_slice(&res.to_le_bytes());
    s
}

fn gen_soup(rng: &mut SplitMix64) -> [u8; 32] {
    let mut s = [0_u8; 32];
    for chunk in s.chunks_mut(8) {
        chunk.copy_from_slice(&rng.next_u64().to_le_bytes());
    }
    s
}

fn gen_slots(tier: Tier, rng: &mut SplitMix64, out: &mut dyn Write) {
    // structured short entries and long-name slots
    for _ in 0..tier.pick(20_000, 300_000) {
        p_slot(out, &gen_file_slot(rng));
    }
    for _ in 0..tier.pick(10_000, 150_000) {
        p_slot(out, &gen_lfn_slot(rng));
    }
    // every value of every byte of fixed base slots (file, directory with case flags, long-name, all-zero)
    let mut base_file = [0_u8; 32];
    base_file.copy_from_slice(&[
        b'R', b'E', b'A', b'D', b'M', b'E', b' ', b' ', b'T', b'X', b'T', 0x20, 0x18, 0x7B, 0xB7, 0x64, 0x42, 0x50, 0x42,
        0x50, 0x01, 0x00, 0x5C, 0x64, 0x42, 0x50, 0x34, 0x12, 0x78, 0x56, 0x34, 0x12,
    ]);
    let mut base_dir = base_file;
    base_dir[11] = 0x10;
    base_dir[0] = 0x05;
    let base_lfn = {
        let mut r = SplitMix64::new(0xFA7);
        let mut s = gen_lfn_slot(&mut r);
        s[0] = 0x42;
        s[11] = 0x0F;
        s
    };
    for base in [base_file, base_dir, base_lfn, [0_u8; 32]] {
        for i in 0..32 {
            for v in 0..=255_u8 {
                let mut s = base;
                s[i] = v;
                p_slot(out, &s);
            }
        }
    }
    // every attribute byte against every first byte class
    for attrs in 0..=255_u8 {
        for &first in &[0x00_u8, 0x05, 0x20, 0x41, 0xE5] {
            let mut s = base_file;
            s[11] = attrs;
            s[0] = first;
            p_slot(out, &s);
        }
    }
    // random soup (the malformed stream)
    for _ in 0..tier.pick(20_000, 500_000) {
        p_slot(out, &gen_soup(rng));
    }
    // truncated slots: EOF inside the name is an "end" entry, EOF later is an error; over-long input is cut at 32
    for len in 0..=40_usize {
        for k in 0..6 {
            let mut v: Vec<u8> = match k % 3 {
                0 => gen_file_slot(rng).to_vec(),
                1 => gen_lfn_slot(rng).to_vec(),
                _ => gen_soup(rng).to_vec(),
            };
            v.extend_from_slice(&gen_soup(rng)[..8]);
            v.truncate(len);
            p_slot(out, &v);
        }
    }
}

fn gen_dt(rng: &mut SplitMix64) -> DT {
    let valid = !rng.chance(1, 12);
    let mut y = match rng.below(3) {
        0 => *rng.pick(&EDGE_YEARS),
        _ => rng.range(1980, 2107) as u16,
    };
    let mut mo = match rng.below(3) {
        0 => *rng.pick(&EDGE_MONTHS),
        _ => rng.range(1, 12) as u16,
    };
    let mut d = match rng.below(3) {
        0 => *rng.pick(&EDGE_DAYS),
        _ => rng.range(1, 31) as u16,
    };
    let mut h = match rng.below(3) {
        0 => *rng.pick(&EDGE_HOURS),
        _ => rng.below(24) as u16,
    };
    let mut mi = match rng.below(3) {
        0 => *rng.pick(&EDGE_MINS),
        _ => rng.below(60) as u16,
    };
    let mut s = match rng.below(4) {
        0 => *rng.pick(&[0_u16, 1, 2, 57, 58, 59]),
        _ => rng.below(60) as u16,
    };
    let mut ms = match rng.below(3) {
        0 => *rng.pick(&EDGE_MS),
        _ => rng.below(1000) as u16,
    };
    if !valid {
        match rng.below(7) {
            0 => y = *rng.pick(&BAD_YEARS),
            1 => mo = *rng.pick(&BAD_MONTHS),
            2 => d = *rng.pick(&BAD_DAYS),
            3 => h = *rng.pick(&BAD_HOURS),
            4 => mi = *rng.pick(&BAD_MINS),
            5 => s = *rng.pick(&BAD_SECS),
            _ => ms = *rng.pick(&BAD_MS),
        }
    }
    (y, mo, d, h, mi, s, ms)
}

fn gen_set_times(tier: Tier, rng: &mut SplitMix64, out: &mut dyn Write) {
    for i in 0..tier.pick(30_000, 400_000) {
        let slot: Vec<u8> = match rng.below(16) {
            0 => gen_lfn_slot(rng).to_vec(),
            1 | 2 => gen_soup(rng).to_vec(),
            3 => {
                // truncated input: < 11 bytes behaves as the all-zero entry, 11..31 is an error
                let mut v = gen_file_slot(rng).to_vec();
                v.truncate(rng.below(32) as usize);
                v
            }
            _ => gen_file_slot(rng).to_vec(),
        };
        // all 8 presence combinations in turn
        let c = if i & 1 != 0 { Some(gen_dt(rng)) } else { None };
        let a = if i & 2 != 0 {
            let v = gen_dt(rng);
            Some((v.0, v.1, v.2))
        } else {
            None
        };
        let m = if i & 4 != 0 { Some(gen_dt(rng)) } else { None };
        p_set_times(out, &slot, c, a, m);
    }
}

fn lossy_display(raw: &[u8; 11]) -> String {
    // independent rendering of base[.ext] used only to derive candidate names (the expected answer comes from the model)
    let base_end = raw[..8].iter().rposition(|&c| c != b' ').map_or(0, |p| p + 1);
    let ext_end = raw[8..].iter().rposition(|&c| c != b' ').map_or(0, |p| p + 1);
    let mut v: Vec<u8> = raw[..base_end].to_vec();
    if ext_end > 0 {
        v.push(b'.');
        v.extend_from_slice(&raw[8..8 + ext_end]);
    }
    if v.first() == Some(&0x05) {
        v[0] = 0xE5;
    }
    v.iter().map(|&c| if c < 0x80 { c as char } else { '\u{FFFD}' }).collect()
}

fn gen_short_eq(tier: Tier, rng: &mut SplitMix64, out: &mut dyn Write) {
    for _ in 0..tier.pick(20_000, 200_000) {
        let raw = gen_raw_name(rng);
        let disp = lossy_display(&raw);
        let mut chars: Vec<char> = disp.chars().collect();
        match rng.below(10) {
            0 | 1 => {}
            2 | 3 => {
                // flip the case of some letters: still equal
                for c in chars.iter_mut() {
                    if rng.chance(1, 2) {
                        *c = if c.is_ascii_uppercase() { c.to_ascii_lowercase() } else { c.to_ascii_uppercase() };
                    }
                }
            }
            4 => {
                for c in chars.iter_mut() {
                    *c = c.to_ascii_lowercase();
                }
            }
            5 => {
                if !chars.is_empty() {
                    let i = rng.below(chars.len() as u64) as usize;
                    chars[i] = *rng.pick(SFN_CHARS) as char;
                }
            }
            6 => {
                if !chars.is_empty() {
                    chars.remove(rng.below(chars.len() as u64) as usize);
                }
            }
            7 => chars.insert(rng.below(chars.len() as u64 + 1) as usize, *rng.pick(b" .aZ~\x7f") as char),
            8 => {
                // the un-trimmed / raw spelling
                chars = raw.iter().map(|&c| if c < 0x80 { c as char } else { '\u{FFFD}' }).collect();
            }
            _ => {
                if !chars.is_empty() {
                    let i = rng.below(chars.len() as u64) as usize;
                    chars[i] = *rng.pick(&['\u{FFFD}', '\u{5}', ' ', '.', '\u{0}']);
                }
            }
        }
        let name: String = chars.into_iter().collect();
        p_short_eq(out, &raw, &name);
    }
}

pub fn run(tier: Tier, seed: u64, out: &mut dyn Write) {
    let mut rng = SplitMix64::new(seed);
    let mut r_time = rng.fork();
    let mut r_slot = rng.fork();
    let mut r_set = rng.fork();
    let mut r_eq = rng.fork();
    gen_dates(out);
    gen_times(tier, &mut r_time, out);
    gen_slots(tier, &mut r_slot, out);
    gen_set_times(tier, &mut r_set, out);
    gen_short_eq(tier, &mut r_eq, out);
}
