//! Scenario `file`: file I/O histories at API level (1–3 files interleaved, boundary offsets and lengths).
use super::*;
use crate::clock::ClockMode;
use crate::script::Whence;

/// What the generator believes about one open file (learnt from the results of its private session).
#[derive(Clone, Debug)]
pub struct FState {
    pub f: u32,
    pub path: String,
    pub size: u64,
    pub pos: u64,
}

pub struct FileGen {
    pub cx: Ctx,
    pub files: Vec<FState>,
    /// upper bound for the size a file may grow to
    pub max_size: u64,
    /// grow the files quickly (to run a tiny volume out of space)
    pub greedy: bool,
}

impl FileGen {
    /// A boundary-biased number: offsets / lengths from {0,1,k·cs−1,k·cs,k·cs+1,size−1,size,size+1,random}.
    pub fn boundary(&self, rng: &mut SplitMix64, size: u64, cap: u64) -> u64 {
        let cs = self.cx.vol.cs as u64;
        let kmax = (cap / cs).max(1);
        let k = rng.range(1, kmax.min(4));
        let v = match rng.below(11) {
            0 => 0,
            1 => 1,
            2 => k * cs - 1,
            3 => k * cs,
            4 => k * cs + 1,
            5 => size.saturating_sub(1),
            6 => size,
            7 => size + 1,
            8 => rng.below(cs.min(cap) + 1),
            9 => rng.below(size + 2),
            _ => rng.below(cap + 1),
        };
        v.min(cap)
    }

    fn resync_pos(&mut self, i: usize) {
        let f = self.files[i].f;
        if let Out::Ok(v) = self.cx.step(Op::Seek { f, whence: Whence::Cur, n: 0 }) {
            if let Ok(p) = v.parse::<u64>() {
                self.files[i].pos = p;
                if p > self.files[i].size {
                    self.files[i].size = p;
                }
            }
        }
    }

    pub fn op_seek(&mut self, rng: &mut SplitMix64, i: usize) {
        let st = self.files[i].clone();
        let target = self.boundary(rng, st.size, self.max_size + self.cx.vol.cs as u64) as i64;
        let (whence, n) = match rng.below(10) {
            0..=3 => (Whence::Start, target),
            4..=6 => (Whence::Cur, target - st.pos as i64),
            7..=8 => (Whence::End, target - st.size as i64),
            _ => {
                // negative / far beyond
                match rng.below(4) {
                    0 => (Whence::Cur, -(st.pos as i64) - 1),
                    1 => (Whence::End, -(st.size as i64) - 1),
                    2 => (Whence::Start, u32::MAX as i64 + rng.below(3) as i64 - 1),
                    _ => (Whence::Cur, i64::MAX - rng.below(2) as i64),
                }
            }
        };
        if let Out::Ok(v) = self.cx.step(Op::Seek { f: st.f, whence, n }) {
            if let Ok(p) = v.parse::<u64>() {
                self.files[i].pos = p;
            }
        }
    }

    pub fn op_write(&mut self, rng: &mut SplitMix64, i: usize) {
        let st = self.files[i].clone();
        let room = self.max_size.saturating_sub(st.pos);
        let cap = room.min(3 * self.cx.vol.cs as u64 + 1).min(96 * 1024);
        let mut len = self.boundary(rng, st.size.saturating_sub(st.pos), cap) as usize;
        if len == 0 && cap > 0 && rng.chance(4, 5) {
            // zero-length writes are legal but teach little: keep them rare
            len = rng.range(1, cap.min(self.cx.vol.cs as u64 + 1)) as usize;
        }
        let data = content(rng, len);
        if rng.chance(1, 2) {
            match self.cx.step(Op::Write { f: st.f, data }) {
                Out::Ok(v) => {
                    let n: u64 = v.parse().unwrap_or(0);
                    self.files[i].pos += n;
                    self.files[i].size = self.files[i].size.max(self.files[i].pos);
                }
                Out::Err(_) => self.resync_pos(i),
                Out::Dead => {}
            }
        } else {
            match self.cx.step(Op::WriteAll { f: st.f, data }) {
                Out::Ok(_) => {
                    self.files[i].pos += len as u64;
                    self.files[i].size = self.files[i].size.max(self.files[i].pos);
                }
                Out::Err(_) => self.resync_pos(i),
                Out::Dead => {}
            }
        }
    }

    pub fn op_read(&mut self, rng: &mut SplitMix64, i: usize) {
        let st = self.files[i].clone();
        let left = st.size.saturating_sub(st.pos);
        let n = self.boundary(rng, left, (left + self.cx.vol.cs as u64 + 2).min(96 * 1024));
        let r = match rng.below(10) {
            0..=5 => self.cx.step(Op::Read { f: st.f, n }),
            6..=8 => self.cx.step(Op::ReadX { f: st.f, n }),
            _ => self.cx.step(Op::ReadAll(st.f)),
        };
        match r {
            Out::Ok(v) => {
                let got = if v == "-" || v.is_empty() { 0 } else { v.len() as u64 / 2 };
                self.files[i].pos += got;
            }
            Out::Err(_) => self.resync_pos(i),
            Out::Dead => {}
        }
    }

    pub fn op_truncate(&mut self, i: usize) {
        let f = self.files[i].f;
        if self.cx.step(Op::Truncate(f)).is_ok() {
            self.files[i].size = self.files[i].pos;
        }
    }

    pub fn op_reopen(&mut self, i: usize) {
        let st = self.files[i].clone();
        self.cx.step(Op::DropF(st.f));
        self.cx.files.remove(&st.f);
        let nf = self.cx.new_f();
        if self.cx.step(Op::OpenFile { d: 0, path: st.path.clone().into_bytes(), new: nf }).is_ok() {
            self.files[i].f = nf;
            self.files[i].pos = 0;
            self.cx.files.insert(nf, Vec::new());
        } else {
            self.files.remove(i);
        }
    }

    pub fn random_op(&mut self, rng: &mut SplitMix64) -> bool {
        if self.cx.dead || !self.cx.mounted || self.files.is_empty() {
            return false;
        }
        let i = rng.below(self.files.len() as u64) as usize;
        let f = self.files[i].f;
        if self.greedy && rng.chance(1, 2) {
            let len = (3 * self.cx.vol.cs as usize + 1).min(4000);
            let data = content(rng, len);
            self.cx.step(Op::Seek { f, whence: Whence::End, n: 0 });
            if self.cx.step(Op::WriteAll { f, data }).is_ok() {
                self.files[i].size += len as u64;
                self.files[i].pos = self.files[i].size;
            } else {
                self.resync_pos(i);
            }
            return true;
        }
        if rng.chance(1, 12) {
            // write, truncate exactly at the (new) end, then make it durable and look: flush or drop + reopen
            if rng.chance(1, 2) {
                self.cx.step(Op::Seek { f, whence: Whence::End, n: 0 });
                self.files[i].pos = self.files[i].size;
            }
            self.op_write(rng, i);
            if rng.chance(1, 3) {
                self.cx.step(Op::Seek { f, whence: Whence::End, n: 0 });
                self.files[i].pos = self.files[i].size;
            }
            self.op_truncate(i);
            if rng.chance(1, 2) {
                self.cx.step(Op::Flush(f));
            } else {
                self.op_reopen(i);
            }
            if i < self.files.len() {
                let f = self.files[i].f;
                self.cx.step(Op::Seek { f, whence: Whence::Start, n: 0 });
                self.cx.step(Op::ReadAll(f));
                self.files[i].pos = self.files[i].size;
            }
            return true;
        }
        match rng.below(100) {
            0..=24 => self.op_seek(rng, i),
            25..=54 => self.op_write(rng, i),
            55..=74 => self.op_read(rng, i),
            75..=81 => self.op_truncate(i),
            82..=87 => {
                self.cx.step(Op::Flush(f));
            }
            88..=92 => self.op_reopen(i),
            93..=95 => {
                self.cx.step(Op::Extents(f));
            }
            96..=97 => {
                self.cx.step(Op::Stats);
            }
            _ => {
                // seek + truncate at a boundary
                self.op_seek(rng, i);
                self.op_truncate(i);
            }
        }
        true
    }

    /// Open (create) `n` files; some live in a sub-directory, some get long names.
    pub fn open_files(&mut self, rng: &mut SplitMix64, n: usize) {
        let mut have_dir = false;
        for k in 0..n {
            let name = match rng.below(4) {
                0 => format!("F{}.BIN", k),
                1 => format!("data file number {}.bin", k),
                2 => format!("f{}", k),
                _ => format!("Mixed{}.Case", k),
            };
            let path = if rng.chance(1, 3) {
                if !have_dir {
                    let d = self.cx.new_d();
                    if self.cx.step(Op::CreateDir { d: 0, path: b"sub".to_vec(), new: d }).is_ok() {
                        self.cx.step(Op::DropD(d));
                        have_dir = true;
                    }
                }
                if have_dir {
                    format!("sub/{}", name)
                } else {
                    name
                }
            } else {
                name
            };
            let f = self.cx.new_f();
            if self.cx.step(Op::CreateFile { d: 0, path: path.clone().into_bytes(), new: f }).is_ok() {
                self.cx.files.insert(f, Vec::new());
                self.files.push(FState { f, path, size: 0, pos: 0 });
                if rng.chance(4, 5) {
                    // start from some content
                    let i = self.files.len() - 1;
                    self.op_write(rng, i);
                }
            }
        }
    }

    /// Final observation of every file: whole content, extents; then drop.
    pub fn finish_files(&mut self) {
        let fs: Vec<FState> = self.files.drain(..).collect();
        for st in fs {
            self.cx.step(Op::Seek { f: st.f, whence: Whence::Start, n: 0 });
            self.cx.step(Op::ReadAll(st.f));
            self.cx.step(Op::Extents(st.f));
            self.cx.step(Op::DropF(st.f));
            self.cx.files.remove(&st.f);
        }
    }
}

pub fn pick_file_vol(cat: &Catalogue, rng: &mut SplitMix64) -> VolCfg {
    if rng.chance(9, 10) {
        cat.pick_small_cluster(rng, 4096)
    } else {
        cat.pick(rng)
    }
}

fn random_history(id: String, seed: u64, cat: &Catalogue, rng: &mut SplitMix64, sink: &mut Sink) {
    let vol = pick_file_vol(cat, rng);
    let cfg = Cfg::new(true, rng.chance(1, 5), ClockMode::Const);
    let cs = vol.cs as u64;
    let mut max_size = if cs > 4096 { cs + 1 } else { (cs * rng.range(2, 6)).min(24 * 1024) + 1 };
    let mut greedy = false;
    if vol.class == VolClass::Tiny && cs <= 1024 && rng.chance(1, 4) {
        // let the files outgrow the volume
        max_size = (vol.clusters as u64 * cs).min(40 * 1024);
        greedy = true;
    }
    let cx = Ctx::new(id, "file", seed, vol, cfg);
    let mut g = FileGen {
        cx,
        files: Vec::new(),
        max_size,
        greedy,
    };
    g.cx.format();
    g.cx.mount();
    let nfiles = rng.range(1, 3) as usize;
    g.open_files(rng, nfiles);
    let target = rng.range(8, 70) as usize;
    let mut guard = 0;
    while g.cx.h.n_ops() < target && !g.cx.dead && guard < 300 {
        guard += 1;
        if !g.random_op(rng) {
            break;
        }
    }
    g.finish_files();
    g.cx.closing_lists();
    if !g.cx.dead {
        g.cx.step(if rng.chance(1, 8) { Op::DropFs } else { Op::Unmount });
    }
    g.cx.finish(sink);
}

pub fn run(tier: Tier, seed: u64, rng: &mut SplitMix64, n_override: Option<u64>, sink: &mut Sink) {
    let cat = Catalogue::build();
    let n = tier_count(tier, n_override, 260, 5200);
    for i in 1..=n {
        let mut r = rng.fork();
        random_history(hist_id("file", seed, i), seed, &cat, &mut r, sink);
    }
}
