//! Scenario `space`: fill-to-full / delete-all cycles on tiny volumes, `stats` after every operation.
use super::*;
use crate::clock::ClockMode;
use crate::script::Whence;

struct SpaceGen {
    cx: Ctx,
    serial: u32,
}

impl SpaceGen {
    /// step + stats
    fn st(&mut self, op: Op) -> Out {
        let r = self.cx.step(op);
        if !self.cx.dead && self.cx.mounted {
            self.cx.step(Op::Stats);
        }
        r
    }

    fn fresh_name(&mut self, rng: &mut SplitMix64, long: bool) -> String {
        self.serial += 1;
        if long {
            match rng.below(3) {
                0 => format!("a rather long file name number {:04}.data", self.serial),
                1 => {
                    let mut s = format!("{:04}", self.serial);
                    s.push_str(&"n".repeat(if self.serial % 4 == 0 { 240 } else { 60 }));
                    s.push_str(".lng");
                    s
                }
                _ => format!("abcdefghijklmnopqrstu{:04}.txt", self.serial),
            }
        } else {
            format!("F{:04}.DAT", self.serial)
        }
    }

    /// One big file written cluster-wise until the volume is full.
    fn fill_one_big(&mut self, rng: &mut SplitMix64, dir: &str) {
        let long = rng.chance(1, 3);
        let name = self.fresh_name(rng, long);
        let path = join(dir, &name);
        let f = self.cx.new_f();
        if !self.st(Op::CreateFile { d: 0, path: path.into_bytes(), new: f }).is_ok() {
            return;
        }
        let cs = self.cx.vol.cs as usize;
        let chunk_cap = 8 * 1024;
        let mut guard = 0;
        loop {
            guard += 1;
            let len = match rng.below(4) {
                0 => cs.min(chunk_cap),
                1 => (cs + 1).min(chunk_cap),
                2 => (2 * cs).min(chunk_cap),
                _ => rng.range(1, cs.min(chunk_cap) as u64) as usize,
            };
            let data = content(rng, len);
            let r = if rng.chance(1, 3) {
                self.st(Op::Write { f, data })
            } else {
                self.st(Op::WriteAll { f, data })
            };
            if !r.is_ok() || guard > 400 {
                break;
            }
        }
        if rng.chance(1, 2) && !self.cx.dead {
            // give some of it back: truncate somewhere inside
            let back = rng.range(1, 3 * cs as u64) as i64;
            self.st(Op::Seek { f, whence: Whence::End, n: -back });
            self.st(Op::Truncate(f));
            if rng.chance(1, 2) {
                let data = content(rng, cs.min(chunk_cap));
                self.st(Op::WriteAll { f, data });
            }
        }
        self.st(Op::DropF(f));
    }

    /// Many small files until the directory or the volume is full.
    fn fill_many(&mut self, rng: &mut SplitMix64, dir: &str, long: bool) {
        let cs = self.cx.vol.cs as usize;
        for _ in 0..200 {
            if self.cx.dead {
                return;
            }
            let name = self.fresh_name(rng, long);
            let f = self.cx.new_f();
            let r = self.st(Op::CreateFile { d: 0, path: join(dir, &name).into_bytes(), new: f });
            if !r.is_ok() {
                break;
            }
            let len = match rng.below(4) {
                0 => 0,
                1 => 1,
                2 => cs.min(8192),
                _ => rng.range(1, cs.min(8192) as u64 + 1) as usize,
            };
            let mut full = false;
            if len > 0 {
                let data = content(rng, len);
                full = !self.st(Op::WriteAll { f, data }).is_ok();
            }
            self.st(Op::DropF(f));
            if full && rng.chance(2, 3) {
                break;
            }
        }
    }

    /// A directory whose last cluster is exactly full, a full volume, then a rename INTO that directory (it would have
    /// to grow by a cluster that does not exist); afterwards one cluster is given back and the rename is tried again.
    fn fill_then_rename(&mut self, rng: &mut SplitMix64) {
        let cs = self.cx.vol.cs as usize;
        self.serial += 1;
        let grow = format!("grow{}", self.serial);
        let src = format!("src{}", self.serial);
        for dname in [&grow, &src] {
            let d = self.cx.new_d();
            if !self.st(Op::CreateDir { d: 0, path: dname.clone().into_bytes(), new: d }).is_ok() {
                return;
            }
            self.st(Op::DropD(d));
        }
        // every entry below takes two slots (one long-name slot + the short one); `.` and `..` take two
        let slots = cs / 32;
        let mut used = 2;
        let mut i = 0;
        while used + 2 <= slots {
            let f = self.cx.new_f();
            let p = format!("{}/e{:03}", grow, i);
            if !self.st(Op::CreateFile { d: 0, path: p.into_bytes(), new: f }).is_ok() {
                return;
            }
            self.st(Op::DropF(f));
            used += 2;
            i += 1;
        }
        let mover = format!("{}/mover with a long name.txt", src);
        let f = self.cx.new_f();
        if !self.st(Op::CreateFile { d: 0, path: mover.clone().into_bytes(), new: f }).is_ok() {
            return;
        }
        self.st(Op::WriteAll { f, data: content(rng, 10) });
        self.st(Op::DropF(f));
        // fill the volume completely
        let filler = format!("{}/filler.bin", src);
        let f = self.cx.new_f();
        if !self.st(Op::CreateFile { d: 0, path: filler.clone().into_bytes(), new: f }).is_ok() {
            return;
        }
        for _ in 0..400 {
            let data = content(rng, cs.min(8192));
            if !self.st(Op::WriteAll { f, data }).is_ok() {
                break;
            }
        }
        self.st(Op::DropF(f));
        let dst = format!("{}/moved here with long name.txt", grow);
        let list_both = |g: &mut SpaceGen| {
            for p in [&src, &grow] {
                let d = g.cx.new_d();
                if g.cx.step(Op::OpenDir { d: 0, path: p.clone().into_bytes(), new: d }).is_ok() {
                    g.cx.step(Op::List(d));
                    g.cx.step(Op::DropD(d));
                }
            }
        };
        self.st(Op::Rename { d: 0, src: mover.clone().into_bytes(), d2: 0, dst: dst.clone().into_bytes() });
        list_both(self);
        // same within the full directory: a longer name needs more slots than the old one frees
        self.st(Op::Rename {
            d: 0,
            src: format!("{}/e000", grow).into_bytes(),
            d2: 0,
            dst: format!("{}/e000 renamed to something much longer.dat", grow).into_bytes(),
        });
        list_both(self);
        // give one cluster back and try again
        let f = self.cx.new_f();
        if self.st(Op::OpenFile { d: 0, path: filler.into_bytes(), new: f }).is_ok() {
            self.st(Op::Seek { f, whence: Whence::End, n: -1 });
            self.st(Op::Truncate(f));
            self.st(Op::DropF(f));
        }
        self.st(Op::Rename { d: 0, src: mover.into_bytes(), d2: 0, dst: dst.into_bytes() });
        list_both(self);
    }

    /// Sub-directories until nothing is left.
    fn fill_dirs(&mut self, rng: &mut SplitMix64, dir: &str) {
        for _ in 0..80 {
            if self.cx.dead {
                return;
            }
            let long = rng.chance(1, 4);
            let name = self.fresh_name(rng, long);
            let d = self.cx.new_d();
            let r = self.st(Op::CreateDir { d: 0, path: join(dir, &name).into_bytes(), new: d });
            if !r.is_ok() {
                break;
            }
            self.st(Op::DropD(d));
        }
    }

    /// Remove everything (children first); optionally truncate files before removing them.
    fn delete_all(&mut self, rng: &mut SplitMix64, keep_some: bool) {
        self.cx.resync();
        let files = self.cx.all_files();
        for (_, path, size) in files {
            if self.cx.dead {
                return;
            }
            if keep_some && rng.chance(1, 4) {
                continue;
            }
            if size > 0 && rng.chance(1, 4) {
                let f = self.cx.new_f();
                if self.st(Op::OpenFile { d: 0, path: path.clone().into_bytes(), new: f }).is_ok() {
                    let at = rng.below(size + 1);
                    self.st(Op::Seek { f, whence: Whence::Start, n: at as i64 });
                    self.st(Op::Truncate(f));
                    self.st(Op::DropF(f));
                }
            }
            self.st(Op::Remove { d: 0, path: path.into_bytes() });
        }
        self.cx.resync();
        let mut dirs = self.cx.all_dirs();
        dirs.reverse(); // children before parents
        for (key, path) in dirs {
            if key.is_empty() || self.cx.dead {
                continue;
            }
            self.st(Op::Remove { d: 0, path: path.into_bytes() });
        }
        self.cx.resync();
    }
}

fn join(dir: &str, name: &str) -> String {
    if dir.is_empty() {
        name.to_string()
    } else {
        format!("{}/{}", dir, name)
    }
}

fn random_history(id: String, seed: u64, cat: &Catalogue, rng: &mut SplitMix64, sink: &mut Sink) {
    // tiny volumes; prefer small clusters so that filling stays cheap
    let mut vol = rng.pick(&cat.tiny).clone();
    // mostly clusters of at most 1 KiB, sometimes up to 4 KiB, rarely 16 KiB (filling means writing every byte)
    let limit = match rng.below(20) {
        0 => 16384,
        1..=5 => 4096,
        _ => 1024,
    };
    let max_clusters = match rng.below(20) {
        0..=10 => 24,
        11..=17 => 40,
        _ => 64,
    };
    for _ in 0..64 {
        if vol.cs <= limit && vol.clusters <= max_clusters {
            break;
        }
        vol = rng.pick(&cat.tiny).clone();
    }
    let cfg = Cfg::new(true, false, ClockMode::Const);
    let cx = Ctx::new(id, "space", seed, vol, cfg);
    let mut g = SpaceGen { cx, serial: 0 };
    g.cx.format();
    g.cx.mount();
    g.cx.step(Op::Stats);
    let cycles = rng.range(2, 4);
    let mut sub = String::new();
    for c in 0..cycles {
        if g.cx.dead {
            break;
        }
        // where to fill: the fixed root, or a sub-directory (which itself grows by clusters)
        let dir = if rng.chance(1, 2) {
            if sub.is_empty() || g.cx.resolve(&Vec::new(), &sub) == (Resolved::Missing { parent: Vec::new() }) {
                sub = format!("dir{}", c);
                let d = g.cx.new_d();
                if g.st(Op::CreateDir { d: 0, path: sub.clone().into_bytes(), new: d }).is_ok() {
                    g.st(Op::DropD(d));
                } else {
                    sub.clear();
                }
            }
            sub.clone()
        } else {
            String::new()
        };
        let pick = if g.cx.vol.cs <= 1024 { rng.below(7) } else { rng.below(5) };
        match pick {
            5 | 6 => g.fill_then_rename(rng),
            0 => g.fill_one_big(rng, &dir),
            1 => g.fill_many(rng, &dir, false),
            2 => g.fill_many(rng, &dir, true),
            3 => g.fill_dirs(rng, &dir),
            _ => {
                let long = rng.chance(1, 2);
                g.fill_many(rng, &dir, long);
                g.fill_one_big(rng, &dir);
            }
        }
        if !g.cx.dead {
            g.cx.step(Op::List(0));
        }
        let last = c + 1 == cycles;
        let keep = !last && rng.chance(1, 3);
        g.delete_all(rng, keep);
    }
    g.cx.closing_lists();
    if !g.cx.dead {
        g.cx.step(Op::Unmount);
    }
    g.cx.finish(sink);
}

pub fn run(tier: Tier, seed: u64, rng: &mut SplitMix64, n_override: Option<u64>, sink: &mut Sink) {
    let cat = Catalogue::build();
    let n = tier_count(tier, n_override, 160, 3200);
    for i in 1..=n {
        let mut r = rng.fork();
        random_history(hist_id("space", seed, i), seed, &cat, &mut r, sink);
    }
}
