//! fatverif-harness: runs the real fatfs (built from /repo's working tree with --cfg fatfs_verif) and prints
//! probe lines / operation histories for the Lean driver. See /verif/ARCH.md.
mod rng;
mod util;
mod pure_time;
mod pure_names;
mod pure_lfn;
mod pure_bpb;
mod pure_format;
mod pure_fat;
mod pure_cursor;

use std::io::Write;
use util::Tier;

fn usage() -> ! {
    eprintln!("usage: harness pure <suite> <quick|thorough> <seed> | harness hist <scenario> <quick|thorough> <seed> [args]");
    std::process::exit(2)
}

fn main() {
    // panics of the library are caught and reported as data; keep stderr quiet
    std::panic::set_hook(Box::new(|_| {}));
    let args: Vec<String> = std::env::args().collect();
    if args.len() < 5 {
        usage();
    }
    let tier = Tier::parse(&args[3]);
    let seed: u64 = args[4].parse().unwrap_or(0);
    let stdout = std::io::stdout();
    let mut out = std::io::BufWriter::with_capacity(1 << 20, stdout.lock());
    match (args[1].as_str(), args[2].as_str()) {
        ("pure", "time") => pure_time::run(tier, seed, &mut out),
        ("pure", "names") => pure_names::run(tier, seed, &mut out),
        ("pure", "lfn") => pure_lfn::run(tier, seed, &mut out),
        ("pure", "bpb") => pure_bpb::run(tier, seed, &mut out),
        ("pure", "format") => pure_format::run(tier, seed, &mut out),
        ("pure", "fat") => pure_fat::run(tier, seed, &mut out),
        ("pure", "cursor") => pure_cursor::run(tier, seed, &mut out),
        _ => usage(),
    }
    out.flush().unwrap();
}
