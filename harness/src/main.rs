//! fatverif-harness: runs the real fatfs (built from /repo's working tree with --cfg fatfs_verif) and prints
//! probe lines / operation histories for the Lean driver. See /verif/ARCH.md.
mod rng;
mod util;

use std::io::Write;
use util::Tier;

fn usage() -> ! {
    eprintln!("usage: harness pure <suite> <quick|thorough> <seed> | harness hist <scenario> <quick|thorough> <seed> [args]");
    std::process::exit(2)
}

fn main() {
    // panics of the library are caught and reported as data; keep stderr quiet
    std::panic::set_hook(Box::new(|_| {}));
    let args: Vec<String> = std::env::args().collect();
    if args.len() < 5 {
        usage();
    }
    let tier = Tier::parse(&args[3]);
    let seed: u64 = args[4].parse().unwrap_or(0);
    let stdout = std::io::stdout();
    let mut out = std::io::BufWriter::with_capacity(1 << 20, stdout.lock());
    match (args[1].as_str(), args[2].as_str()) {
        _ => {
            let _ = (tier, seed);
            usage()
        }
    }
    #[allow(unreachable_code)]
    out.flush().unwrap();
}
