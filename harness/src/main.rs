//! fatverif-harness: runs the real fatfs (built from /repo's working tree with --cfg fatfs_verif) and prints
//! probe lines / operation histories for the Lean driver. See /verif/ARCH.md.
mod rng;
mod util;
mod pure_time;
mod pure_names;
mod pure_lfn;
mod pure_bpb;
mod pure_format;
mod pure_fat;
mod pure_cursor;
mod pure_io;
mod pure_api;
mod dev;
mod clock;
mod script;
mod exec;
mod gen;
mod imgbuild;
mod tools;

use std::io::Write;
use util::Tier;

fn usage() -> ! {
    eprintln!("usage: harness pure <suite> <quick|thorough> <seed> | harness gen|hist <scenario> <quick|thorough> <seed> [args] | harness exec < script | harness tracehash < trace | harness uppertable");
    std::process::exit(2)
}

fn main() {
    // panics of the library are caught and reported as data; keep stderr quiet
    std::panic::set_hook(Box::new(|_| {}));
    let args: Vec<String> = std::env::args().collect();
    // history protocol: `harness exec` (script on stdin), `harness gen|hist <scenario> <tier> <seed>`
    if args.len() >= 2 && args[1] == "exec" {
        let stdin = std::io::stdin();
        let stdout = std::io::stdout();
        let mut out = std::io::BufWriter::with_capacity(1 << 20, stdout.lock());
        exec::exec_script(&mut stdin.lock(), &mut out);
        out.flush().unwrap();
        return;
    }
    if args.len() >= 2 && (args[1] == "uppertable" || args[1] == "tracehash") {
        let stdin = std::io::stdin();
        let stdout = std::io::stdout();
        let mut out = std::io::BufWriter::with_capacity(1 << 20, stdout.lock());
        if args[1] == "uppertable" {
            tools::uppertable(&mut out);
        } else {
            tools::tracehash(&mut stdin.lock(), &mut out);
        }
        out.flush().unwrap();
        return;
    }
    if args.len() >= 5 && (args[1] == "gen" || args[1] == "hist") {
        let tier = Tier::parse(&args[3]);
        let seed: u64 = args[4].parse().unwrap_or(0);
        let stdout = std::io::stdout();
        let mut out = std::io::BufWriter::with_capacity(1 << 20, stdout.lock());
        if !gen::run(&args[2], tier, seed, args[1] == "hist", &args[5..], &mut out) {
            usage();
        }
        out.flush().unwrap();
        return;
    }
    if args.len() < 5 {
        usage();
    }
    let tier = Tier::parse(&args[3]);
    let seed: u64 = args[4].parse().unwrap_or(0);
    let stdout = std::io::stdout();
    let mut out = std::io::BufWriter::with_capacity(1 << 20, stdout.lock());
    match (args[1].as_str(), args[2].as_str()) {
        ("pure", "time") => pure_time::run(tier, seed, &mut out),
        ("pure", "names") => pure_names::run(tier, seed, &mut out),
        ("pure", "lfn") => pure_lfn::run(tier, seed, &mut out),
        ("pure", "bpb") => pure_bpb::run(tier, seed, &mut out),
        ("pure", "format") => pure_format::run(tier, seed, &mut out),
        ("pure", "fat") => pure_fat::run(tier, seed, &mut out),
        ("pure", "cursor") => pure_cursor::run(tier, seed, &mut out),
        ("pure", "io") => pure_io::run(tier, seed, &mut out),
        ("pure", "api") => pure_api::run(tier, seed, &mut out),
        _ => usage(),
    }
    out.flush().unwrap();
}
