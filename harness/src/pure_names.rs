//! pure-probe suite `names` (see /verif/ARCH.md): name validation, 8.3 alias generator, LFN checksum,
//! path splitting, case-insensitive short-name comparison.
//!
//! ```text
//! P names.validate <namehex>                              => 0|10|11
//! P names.checksum <hex11>                                => n
//! P names.split    <pathhex>                              => <hex> <hex|none>
//! P names.gen_new  <namehex>                              => chksum fits lossy baselen <hex11> | PANIC
//! P names.generate <namehex> <hex11,hex11,…|-> <maxiter>  => <hex11> <iters> | none | PANIC
//! P names.short_eq <hex11> <namehex>                      => 0|1     (names: ASCII and U+FFFD only)
//! ```
use crate::rng::SplitMix64;
use crate::util::{b, catch, hex, hex_list, hex_str, Tier};
use fatfs::verif_dir::{lfn_checksum_of, short_name_gen_new, short_name_generate, split_path_probe, validate_long_name_code};
use fatfs::verif_dirent::short_name_eq;
use std::io::Write;

type Sfn = [u8; 11];

// ---------------------------------------------------------------- emitters

fn emit_validate(out: &mut dyn Write, name: &str) {
    match catch(|| validate_long_name_code(name)) {
        Some(c) => writeln!(out, "P names.validate {} => {}", hex_str(name), c).unwrap(),
        None => writeln!(out, "P names.validate {} => PANIC", hex_str(name)).unwrap(),
    }
}

fn emit_checksum(out: &mut dyn Write, raw: &Sfn) {
    match catch(|| lfn_checksum_of(raw)) {
        Some(c) => writeln!(out, "P names.checksum {} => {}", hex(raw), c).unwrap(),
        None => writeln!(out, "P names.checksum {} => PANIC", hex(raw)).unwrap(),
    }
}

fn emit_split(out: &mut dyn Write, path: &str) {
    match catch(|| split_path_probe(path)) {
        Some((a, rest)) => writeln!(
            out,
            "P names.split {} => {} {}",
            hex_str(path),
            hex_str(&a),
            rest.map_or("none".to_string(), |r| hex_str(&r))
        )
        .unwrap(),
        None => writeln!(out, "P names.split {} => PANIC", hex_str(path)).unwrap(),
    }
}

fn emit_gen_new(out: &mut dyn Write, name: &str) {
    match catch(|| short_name_gen_new(name)) {
        Some((chk, fits, lossy, blen, sn)) => writeln!(
            out,
            "P names.gen_new {} => {} {} {} {} {}",
            hex_str(name),
            chk,
            b(fits),
            b(lossy),
            blen,
            hex(&sn)
        )
        .unwrap(),
        None => writeln!(out, "P names.gen_new {} => PANIC", hex_str(name)).unwrap(),
    }
}

/// runs the real retry loop; returns the alias if one was produced
fn emit_generate(out: &mut dyn Write, name: &str, existing: &[Sfn], max_iter: u32) -> Option<Sfn> {
    let items: Vec<Vec<u8>> = existing.iter().map(|e| e.to_vec()).collect();
    let head = format!("P names.generate {} {} {}", hex_str(name), hex_list(&items), max_iter);
    match catch(|| short_name_generate(name, existing, max_iter)) {
        Some(Some((sn, iters))) => {
            writeln!(out, "{} => {} {}", head, hex(&sn), iters).unwrap();
            Some(sn)
        }
        Some(None) => {
            writeln!(out, "{} => none", head).unwrap();
            None
        }
        None => {
            writeln!(out, "{} => PANIC", head).unwrap();
            None
        }
    }
}

fn emit_short_eq(out: &mut dyn Write, raw: &Sfn, name: &str) {
    debug_assert!(name.chars().all(|c| (c as u32) < 128 || c == '\u{FFFD}'));
    match catch(|| short_name_eq(raw, name)) {
        Some(r) => writeln!(out, "P names.short_eq {} {} => {}", hex(raw), hex_str(name), b(r)).unwrap(),
        None => writeln!(out, "P names.short_eq {} {} => PANIC", hex(raw), hex_str(name)).unwrap(),
    }
}

fn default_max_iter(existing: usize) -> u32 {
    (existing / 9 + 3) as u32
}

// ---------------------------------------------------------------- name classes

const SFN_OK: &[u8] = b"ABCDEFGHIJKLMNOPQRSTUVWXYZ0123456789!#$%&'()-@^_`{}~";
const LONG_ONLY: &[u8] = b"+,;=[]";
const LOWER: &[u8] = b"abcdefghijklmnopqrstuvwxyz";
const FORBIDDEN: &[u8] = b"\"*/:<>?\\|\x7f\x00\x01\x1f";

fn rand_from(rng: &mut SplitMix64, set: &[u8], n: usize) -> String {
    (0..n).map(|_| *rng.pick(set) as char).collect()
}

fn rand_bmp(rng: &mut SplitMix64) -> char {
    loop {
        let v = rng.range(0x80, 0xFFFF) as u32;
        if let Some(c) = char::from_u32(v) {
            return c;
        }
    }
}

fn rand_astral(rng: &mut SplitMix64) -> char {
    char::from_u32(rng.range(0x1_0000, 0x10_FFFF) as u32).unwrap()
}

/// a character drawn from a mixture of all classes the model distinguishes
fn rand_mixed_char(rng: &mut SplitMix64) -> char {
    match rng.below(20) {
        0..=5 => *rng.pick(LOWER) as char,
        6..=9 => *rng.pick(SFN_OK) as char,
        10 => *rng.pick(LONG_ONLY) as char,
        11 | 12 => '.',
        13 | 14 => ' ',
        15 => *rng.pick(FORBIDDEN) as char,
        16 | 17 => rand_bmp(rng),
        18 => rand_astral(rng),
        _ => rng.range(0, 127) as u8 as char,
    }
}

fn clean_83(rng: &mut SplitMix64) -> String {
    let base_len = rng.range(1, 8) as usize;
    let base = rand_from(rng, SFN_OK, base_len);
    let ext_len = rng.range(0, 3) as usize;
    if ext_len == 0 && rng.chance(1, 2) {
        base
    } else {
        let ext = rand_from(rng, SFN_OK, ext_len);
        format!("{}.{}", base, ext)
    }
}

fn long_name(rng: &mut SplitMix64) -> String {
    let mut set = Vec::new();
    set.extend_from_slice(SFN_OK);
    set.extend_from_slice(LOWER);
    set.extend_from_slice(LOWER);
    set.extend_from_slice(LONG_ONLY);
    let base_len = rng.range(1, 40) as usize;
    let base = rand_from(rng, &set, base_len);
    let ext_len = rng.range(0, 6) as usize;
    let ext = rand_from(rng, &set, ext_len);
    match rng.below(4) {
        0 => base,
        1 => format!("{}.{}.{}", base, rand_from(rng, &set, 2), ext),
        _ => format!("{}.{}", base, ext),
    }
}

fn dots_spaces(rng: &mut SplitMix64) -> String {
    let n = rng.range(1, 14) as usize;
    (0..n)
        .map(|_| match rng.below(6) {
            0 | 1 => '.',
            2 | 3 => ' ',
            4 => *rng.pick(LOWER) as char,
            _ => *rng.pick(SFN_OK) as char,
        })
        .collect()
}

fn mixed_name(rng: &mut SplitMix64) -> String {
    let n = rng.range(0, 16) as usize;
    (0..n).map(|_| rand_mixed_char(rng)).collect()
}

fn fixed_names() -> Vec<String> {
    let mut v: Vec<String> = [
        "", ".", "..", "...", "....", " ", "  ", ". .", " .", ". ", "a", "a.", ".a", "a.b", "a..b", "a.b.c", "a.b.", "a. ",
        " a", "a ", "a .b", "a. b", "Foo", "Foo.b", "Foo.baR", "Foo+1.baR", "ver +1.2.text", ".bashrc.swp", ".foo",
        "TextFile.Mine.txt", "x.txt", "X", "x", "xy", "xy.z", "\u{e9}", "\u{e9}a", "a\u{e9}", "a.\u{e9}", "\u{e9}.a",
        "\u{65e5}\u{672c}\u{8a9e}.txt", "a\u{65e5}\u{672c}\u{8a9e}.txt", "a\u{ffff}", "\u{ffff}", "\u{10000}", "a\u{10000}",
        "a.\u{1f600}", "\u{1f600}", "a\u{7fcf}", "a\u{7fce}", "a\u{7fcd}", "12345678.123", "123456789.123", "12345678.1234",
        "1234567.12", "abcdefgh", "abcdefghi", "ABCDEFGH.TXT", "ABCDEFGH", "a b.c d", "abc...", "abcdefgh.", "abcdefgh .",
        "12345678 ", "12345678.", "12345678..", "12345678.123 ", "12345678.123.", "1234567 8", "+", "a+", ",;=[]", "[a]",
        "a~1", "A~1", "ABCDEF~1", "ABCDEF~1.TXT", "AB12CD~1", "~", "~1", "~1.~1", "_", "__", "a_b", "a*b", "a/b", "a\\b",
        "a:b", "a?b", "a<b", "a>b", "a|b", "\u{e9}.txt", "\u{e9}.", "\u{e9}..", ".\u{e9}", "\u{65e5}.\u{672c}.\u{8a9e}",
        "\u{1f600}.a", "\u{1f600}.", ".\u{1f600}", "\u{e9}\u{e9}\u{e9}\u{e9}\u{e9}\u{e9}\u{e9}\u{e9}\u{e9}.\u{e9}\u{e9}\u{e9}\u{e9}", "\u{7ff}.\u{800}", "a\"b", "a\u{7f}b", "a\u{0}b", "a\tb", "a\u{80}", "a\u{7f}", "con", "NUL.txt",
        "A.B.C.D.E.F", ".a.b", "..a", "a..", " . a", "\u{5}abc", "\u{e5}abc", "a\u{e5}", "a\u{5}", "Ab", "aB.Cd",
    ]
    .iter()
    .map(|s| s.to_string())
    .collect();
    // byte-length boundaries of `validate_long_name`
    for n in [1usize, 2, 254, 255, 256, 257, 300] {
        v.push("a".repeat(n));
        v.push(format!("{}.txt", "b".repeat(n.saturating_sub(4))));
    }
    v.push("\u{e9}".repeat(127)); // 254 bytes
    v.push(format!("{}a", "\u{e9}".repeat(127))); // 255 bytes
    v.push("\u{e9}".repeat(128)); // 256 bytes, 128 chars
    v.push(format!("a{}", "\u{e9}".repeat(127))); // 255 bytes
    v.push(format!("a{}", "\u{e9}".repeat(128))); // 257 bytes
    v.push("\u{65e5}".repeat(85)); // 255 bytes
    v.push(format!("a{}", "\u{65e5}".repeat(85))); // 256 bytes, 86 chars
    v.push(format!("{}\u{e9}", "a".repeat(254))); // 256 bytes, 255 chars
    v.push(format!("{}\u{e9}", "a".repeat(253))); // 255 bytes
    v.push(format!("{}\u{1f600}", "a".repeat(251))); // 255 bytes, astral
    v.push(format!("{}*", "a".repeat(255))); // too long AND bad char: length wins
    v.push(format!("{}*", "a".repeat(254))); // 255 bytes, bad char
    v
}

/// `c` as first / middle / last character of an otherwise plain name
fn positions(c: char) -> [String; 3] {
    [format!("{}bc", c), format!("a{}c", c), format!("ab{}", c)]
}

// ---------------------------------------------------------------- populations

fn sfn(s: &[u8]) -> Sfn {
    let mut r = [b' '; 11];
    r[..s.len().min(11)].copy_from_slice(&s[..s.len().min(11)]);
    r
}

fn hex4(x: u16, style: u64) -> [u8; 4] {
    let s = match style {
        0 => format!("{:04X}", x),
        1 => format!("{:04x}", x),
        2 => {
            // mixed case
            let u = format!("{:04X}", x);
            u.chars().enumerate().map(|(i, c)| if i % 2 == 0 { c.to_ascii_lowercase() } else { c }).collect()
        }
        _ => {
            // "+ABC" is accepted by from_str_radix when the value fits three digits
            if x < 0x1000 {
                format!("+{:03X}", x)
            } else {
                format!("{:04X}", x)
            }
        }
    };
    let mut r = [0u8; 4];
    r.copy_from_slice(s.as_bytes());
    r
}

/// state of the real generator for `name`, or None if it panics
fn gen_state(name: &str) -> Option<(u16, bool, bool, usize, Sfn)> {
    catch(|| short_name_gen_new(name))
}

/// the `~d` long-prefix form for the generator state of `name`
fn long_form(st: &(u16, bool, bool, usize, Sfn), d: u8) -> Sfn {
    let mut r = [b' '; 11];
    let p = st.3.min(6);
    r[..p].copy_from_slice(&st.4[..p]);
    r[p] = b'~';
    r[p + 1] = d;
    r[8..].copy_from_slice(&st.4[8..]);
    r
}

/// the prefix+checksum form for checksum `chk`
fn hash_form(st: &(u16, bool, bool, usize, Sfn), chk: u16, d: u8, style: u64) -> Sfn {
    let mut r = [b' '; 11];
    let p = st.3.min(2);
    r[..p].copy_from_slice(&st.4[..p]);
    r[p..p + 4].copy_from_slice(&hex4(chk, style));
    r[p + 4] = b'~';
    r[p + 5] = d;
    r[8..].copy_from_slice(&st.4[8..]);
    r
}

/// a population that blocks the exact form, the four `~N` forms and the nine hash forms of the first
/// `rounds` checksums (minus `holes` randomly removed entries), plus `noise` near misses
fn synth_population(rng: &mut SplitMix64, name: &str, rounds: u32, holes: usize, noise: usize) -> Vec<Sfn> {
    let st = match gen_state(name) {
        Some(s) => s,
        None => return Vec::new(),
    };
    let mut v: Vec<Sfn> = Vec::new();
    v.push(st.4);
    for d in b'1'..=b'4' {
        v.push(long_form(&st, d));
    }
    let style_mode = rng.below(5);
    for k in 0..rounds {
        let chk = st.0.wrapping_add(k as u16);
        for d in b'1'..=b'9' {
            let style = if style_mode == 4 { rng.below(4) } else { style_mode };
            v.push(hash_form(&st, chk, d, style));
        }
    }
    // decoy populations: the same shapes with a different extension / first byte block nothing
    match rng.below(8) {
        0 => {
            for e in v.iter_mut() {
                e[10] = if e[10] == b'Q' { b'R' } else { b'Q' };
            }
        }
        1 if st.3 > 0 => {
            for e in v.iter_mut() {
                e[0] = if e[0] == b'Q' { b'R' } else { b'Q' };
            }
        }
        _ => {}
    }
    for _ in 0..holes {
        if v.is_empty() {
            break;
        }
        let i = rng.below(v.len() as u64) as usize;
        v.remove(i);
    }
    for _ in 0..noise {
        let mut e = match rng.below(6) {
            0 => long_form(&st, rng.range(b'0' as u64 - 1, b'9' as u64 + 1) as u8),
            1 => hash_form(&st, st.0.wrapping_add(rng.below(rounds as u64 + 2) as u16), rng.range(b'0' as u64 - 1, b'9' as u64 + 1) as u8, rng.below(4)),
            2 => hash_form(&st, rng.next_u32() as u16, rng.range(b'1' as u64, b'9' as u64) as u8, rng.below(4)),
            3 => sfn(clean_83(rng).replace('.', "").as_bytes()),
            4 => {
                let mut r = [0u8; 11];
                for x in r.iter_mut() {
                    *x = rng.below(256) as u8;
                }
                r
            }
            _ => long_form(&st, rng.range(b'5' as u64, b'9' as u64) as u8),
        };
        // perturb one byte now and then: wrong ext, wrong prefix, tilde moved, non-hex / high byte in the hash
        if rng.chance(1, 2) {
            let i = rng.below(11) as usize;
            e[i] = match rng.below(5) {
                0 => b'~',
                1 => rng.range(0x80, 0xFF) as u8,
                2 => b' ',
                3 => b'+',
                _ => *rng.pick(SFN_OK),
            };
        }
        v.push(e);
    }
    // shuffle
    for i in (1..v.len()).rev() {
        let j = rng.below(i as u64 + 1) as usize;
        v.swap(i, j);
    }
    v
}

/// grow a population by calling the real generator again and again for names drawn from `names`
/// (all sharing the 6- and 2-character prefixes); emits a `names.generate` line for the steps selected by `emit`
fn grow_population(
    out: &mut dyn Write,
    rng: &mut SplitMix64,
    names: &[String],
    steps: usize,
    emit: &dyn Fn(usize) -> bool,
) -> Vec<Sfn> {
    let mut pop: Vec<Sfn> = Vec::new();
    for step in 0..steps {
        let name = rng.pick(names).clone();
        let max_iter = default_max_iter(pop.len());
        let alias = if emit(step) {
            emit_generate(out, &name, &pop, max_iter)
        } else {
            catch(|| short_name_generate(&name, &pop, max_iter)).flatten().map(|r| r.0)
        };
        match alias {
            Some(a) => pop.push(a),
            None => break,
        }
    }
    pop
}

// ---------------------------------------------------------------- display helper for short_eq

fn display_of(raw: &Sfn) -> Vec<u8> {
    let nl = raw[..8].iter().rposition(|x| *x != b' ').map_or(0, |p| p + 1);
    let el = raw[8..].iter().rposition(|x| *x != b' ').map_or(0, |p| p + 1);
    let mut v = raw[..nl].to_vec();
    if el > 0 {
        v.push(b'.');
        v.extend_from_slice(&raw[8..8 + el]);
    }
    if !v.is_empty() && v[0] == 5 {
        v[0] = 0xE5;
    }
    v
}

fn lossy_string(bytes: &[u8]) -> String {
    bytes.iter().map(|&x| if x <= 0x7F { x as char } else { '\u{FFFD}' }).collect()
}

fn random_case(rng: &mut SplitMix64, s: &str) -> String {
    s.chars()
        .map(|c| match rng.below(3) {
            0 => c.to_ascii_lowercase(),
            1 => c.to_ascii_uppercase(),
            _ => c,
        })
        .collect()
}

fn rand_raw(rng: &mut SplitMix64) -> Sfn {
    match rng.below(6) {
        0 => {
            let mut r = [0u8; 11];
            for x in r.iter_mut() {
                *x = rng.below(256) as u8;
            }
            r
        }
        1 => {
            // legal alias shape
            let mut r = [b' '; 11];
            let n = rng.range(0, 8) as usize;
            for x in r[..n].iter_mut() {
                *x = *rng.pick(SFN_OK);
            }
            let e = rng.range(0, 3) as usize;
            for x in r[8..8 + e].iter_mut() {
                *x = *rng.pick(SFN_OK);
            }
            r
        }
        2 => {
            // embedded / leading spaces, lower case
            let mut r = [b' '; 11];
            for x in r.iter_mut() {
                *x = match rng.below(4) {
                    0 => b' ',
                    1 => *rng.pick(LOWER),
                    _ => *rng.pick(SFN_OK),
                };
            }
            r
        }
        3 => {
            let mut r = sfn(b"ABC");
            r[0] = *rng.pick(&[0x05u8, 0xE5, 0x00, 0x20, 0x2E, 0x7F, 0x80, 0xFF]);
            r[8] = *rng.pick(&[b' ', b'X', 0x05, 0x99]);
            r
        }
        4 => {
            let mut r = [b' '; 11];
            let i = rng.below(11) as usize;
            r[i] = rng.below(256) as u8;
            r
        }
        _ => {
            let mut r = [0u8; 11];
            for x in r.iter_mut() {
                *x = rng.range(0x20, 0x7F) as u8;
            }
            r
        }
    }
}

// ---------------------------------------------------------------- the suite

pub fn run(tier: Tier, seed: u64, out: &mut dyn Write) {
    let mut rng = SplitMix64::new(seed ^ 0x6e61_6d65_73); // "names"
    let quick = tier == Tier::Quick;

    // ---- 1. fixed corpus through every name probe
    let fixed = fixed_names();
    for n in &fixed {
        emit_validate(out, n);
        emit_gen_new(out, n);
        emit_generate(out, n, &[], 3);
        emit_split(out, n);
    }

    // ---- 2. every byte length 0..=300 (ASCII, 2-byte and 3-byte fillers)
    for len in 0..=300usize {
        emit_validate(out, &"a".repeat(len));
        emit_validate(out, &format!("{}{}", "\u{e9}".repeat(len / 2), "a".repeat(len % 2)));
        emit_validate(out, &format!("{}{}", "\u{65e5}".repeat(len / 3), "a".repeat(len % 3)));
        if len % 4 == 0 || (250..=260).contains(&len) {
            emit_gen_new(out, &"a".repeat(len));
        }
    }

    // ---- 3. every ASCII byte at first / middle / last position
    for v in 0..128u32 {
        let c = char::from_u32(v).unwrap();
        for n in positions(c).iter() {
            emit_validate(out, n);
            emit_gen_new(out, n);
            emit_generate(out, n, &[], 3);
        }
        let single = c.to_string();
        emit_validate(out, &single);
        emit_gen_new(out, &single);
        // as the only character of the extension / of the base
        emit_gen_new(out, &format!("ab.{}", c));
        emit_gen_new(out, &format!("{}.x", c));
    }

    // ---- 4. every BMP scalar (and a sample of astral ones) at first / middle / last position
    let gen_stride = tier.pick(16u32, 1u32);
    let gen_phase = (rng.below(gen_stride as u64)) as u32;
    for v in 0x80..=0xFFFFu32 {
        if let Some(c) = char::from_u32(v) {
            let boundary = matches!(v, 0x80..=0x82 | 0x7FE..=0x801 | 0xD7FE..=0xD7FF | 0xE000..=0xE001 | 0xFFFC..=0xFFFF);
            let sel = boundary || v % gen_stride == gen_phase;
            for n in positions(c).iter() {
                emit_validate(out, n);
                if sel {
                    emit_gen_new(out, n);
                }
            }
            if sel {
                // multi-byte first character followed by the extension dot (byte-index arithmetic of `new`)
                emit_gen_new(out, &format!("{}.x", c));
                emit_gen_new(out, &format!("{}{}.{}", c, c, c));
                emit_generate(out, &format!("{}.x{}", c, c), &[], 3);
            }
        }
    }
    let astral_n = tier.pick(2000, 20000);
    for i in 0..astral_n {
        let c = match i {
            0 => '\u{10000}',
            1 => '\u{10001}',
            2 => '\u{10FFFF}',
            3 => '\u{10FFFE}',
            4 => '\u{1FFFF}',
            5 => '\u{20000}',
            _ => rand_astral(&mut rng),
        };
        for n in positions(c).iter() {
            emit_validate(out, n);
            if i < 200 {
                emit_gen_new(out, n);
            }
        }
        if i < 200 {
            emit_gen_new(out, &format!("{}.x", c));
            emit_gen_new(out, &format!("{}.{}.{}", c, c, c));
            emit_generate(out, &format!("{}", c), &[], 3);
        }
    }

    // ---- 5. random structured names through validate / gen_new / generate(empty population)
    let n_rand = tier.pick(6000, 60000);
    let mut pool: Vec<String> = Vec::new();
    for i in 0..n_rand {
        let name = match i % 6 {
            0 => clean_83(&mut rng),
            1 | 2 => long_name(&mut rng),
            3 => dots_spaces(&mut rng),
            _ => mixed_name(&mut rng),
        };
        emit_validate(out, &name);
        emit_gen_new(out, &name);
        emit_generate(out, &name, &[], 3);
        if pool.len() < 400 && gen_state(&name).is_some() {
            pool.push(name);
        }
    }

    // ---- 6. synthesised colliding populations
    let special: Vec<String> = [
        "TextFile.Mine.txt", "x.txt", "Foo", "Foo+1.baR", ".foo", ".", "..", "...", " ", "a", "ab", "abc", "a.b", "ABCDEF",
        "ABCDEFG", "ABCDEFGH", "ABCDEFGHI", "abcdefghi.jklm", "a\u{7fcf}", "a\u{7fce}", "a\u{7fcd}", "a\u{7fc0}", "a b",
        "a\u{e9}.\u{e9}", "12345678.123", "~1", "A~1", "AB0000~1", "x.y.z", "", "\u{e9}", "\u{e9}.txt",
        "\u{65e5}\u{672c}\u{8a9e}.txt", "\u{1f600}\u{1f600}.\u{1f600}", ".a", "\u{e9}a",
    ]
    .iter()
    .map(|s| s.to_string())
    .collect();
    let n_synth = tier.pick(700, 6000);
    for i in 0..n_synth {
        let name = if i < 4 * special.len() { special[i % special.len()].clone() } else { rng.pick(&pool).clone() };
        let rounds = match rng.below(10) {
            0 => 0,
            1..=5 => rng.range(1, 3) as u32,
            6..=8 => rng.range(4, 12) as u32,
            _ => rng.range(13, tier.pick(40, 66)) as u32,
        };
        let holes = match rng.below(4) {
            0 => 0,
            1 => 1,
            2 => rng.range(2, 5) as usize,
            _ => rng.range(0, 14) as usize,
        };
        let noise = rng.range(0, 12) as usize;
        let pop = synth_population(&mut rng, &name, rounds, holes, noise);
        let mi = match rng.below(8) {
            0 => rng.range(0, 2) as u32,
            1 => rounds,
            2 => rounds + 1,
            _ => default_max_iter(pop.len()),
        };
        emit_generate(out, &name, &pop, mi);
    }
    // checksum wrap-around 0xFFFF -> 0x0000 across rounds
    for name in ["a\u{7fcf}", "a\u{7fce}", "a\u{7fcd}"] {
        for rounds in 0..5u32 {
            let pop = synth_population(&mut rng, name, rounds, 0, 0);
            emit_generate(out, name, &pop, default_max_iter(pop.len()));
        }
    }

    // ---- 6b. names that carry their own hash: characters 3..6 of the 8.3 base spell the name's 16-bit hash, so an
    //          existing alias `AB12CD~n` matches BOTH candidate forms of the generator (6-character prefix + `~n`, and
    //          2 characters + hash + `~n`) - the boundary between the two collision bitmaps of `add_existing`
    let n_tails = tier.pick(8usize, 24usize);
    let mut self_hash = 0usize;
    for t in 0..n_tails {
        let p0 = (b'A' + rng.below(26) as u8) as char;
        let p1 = (b'A' + rng.below(26) as u8) as char;
        let tail = rand_from(&mut rng, LOWER, 1 + t % 5);
        for h in 0..=0xFFFFu32 {
            let name = format!("{}{}{:04X}{}.txt", p0, p1, h, tail);
            let hit = match catch(|| short_name_gen_new(&name)) {
                Some((chk, _, _, blen, sn)) => u32::from(chk) == h && blen >= 6 && sn[2..6] == *format!("{:04X}", h).as_bytes(),
                None => false,
            };
            if !hit {
                continue;
            }
            self_hash += 1;
            emit_gen_new(out, &name);
            let sn = short_name_gen_new(&name).4;
            for k in [0usize, 1, 3, 4, 5, 8, 9] {
                let mut pop: Vec<Sfn> = Vec::new();
                for n in 1..=k {
                    let mut e = [b' '; 11];
                    e[..6].copy_from_slice(&sn[..6]);
                    e[6] = b'~';
                    e[7] = b'0' + n as u8;
                    e[8..].copy_from_slice(&sn[8..]);
                    pop.push(e);
                }
                emit_generate(out, &name, &pop, default_max_iter(pop.len()));
                // the same with unrelated entries in between
                let noisy = synth_population(&mut rng, "x.txt", 1, 0, 3);
                let mut pop2 = noisy.clone();
                pop2.extend_from_slice(&pop);
                emit_generate(out, &name, &pop2, default_max_iter(pop2.len()));
            }
        }
    }
    eprintln!("names: {} self-hash names", self_hash);

    // ---- 7. populations grown by the real generator
    // (a) one name created over and over: 5..600 entries
    let big = tier.pick(330usize, 600usize);
    let grow_names: Vec<Vec<String>> = vec![
        vec!["TextFile.Mine.txt".to_string()],
        vec!["x.txt".to_string()],
        vec!["TextFile.Mine.txt".to_string(), "TextFile.Yours.txt".to_string(), "TextFiles.txt".to_string(), "TeXtFi".to_string() + " le.txt"],
        vec![".".to_string()],
        vec!["a b".to_string(), "a  b".to_string(), "a.b c".to_string()],
        vec!["\u{e9}.txt".to_string(), "\u{e8}.txt".to_string(), "\u{65e5}.txt".to_string()],
        vec!["".to_string()],
    ];
    for (k, names) in grow_names.iter().enumerate() {
        let steps = if k == 0 { big + 5 } else { tier.pick(60, 200) };
        let dense = tier.pick(30usize, 80usize);
        grow_population(out, &mut rng, names, steps, &move |s| {
            s < dense || s % 13 <= 1 || s % 13 == 12 || (quick && s >= big) || (!quick && s % 5 == 0)
        });
    }
    // (b) random names from the pool against a shared, growing directory
    let mut dir: Vec<Sfn> = Vec::new();
    let shared = tier.pick(250, 900);
    for _ in 0..shared {
        let name = rng.pick(&pool).clone();
        let mi = default_max_iter(dir.len());
        if let Some(a) = emit_generate(out, &name, &dir, mi) {
            dir.push(a);
        }
    }

    // ---- 8. checksum
    emit_checksum(out, &[0u8; 11]);
    emit_checksum(out, &[0xFFu8; 11]);
    emit_checksum(out, &sfn(b"FOO     BAR"));
    for i in 0..11 {
        for v in [1u8, 0x80, 0xFF] {
            let mut r = [0u8; 11];
            r[i] = v;
            emit_checksum(out, &r);
        }
    }
    for _ in 0..tier.pick(3000, 30000) {
        let r = rand_raw(&mut rng);
        emit_checksum(out, &r);
    }

    // ---- 9. split_path
    let comps = ["a", "bb", "ccc", "", "", ".", "..", "a b", "\u{e9}", "\u{65e5}\u{672c}", "x.txt", "\u{1f600}", "\\"];
    for p in ["", "/", "//", "///", "a", "/a", "a/", "/a/", "//a//", "a/b", "a//b", "/a/b/", "a/b/c", "aaa/bbb/ccc", "a/ /b", "\u{e9}/\u{e9}"] {
        emit_split(out, p);
    }
    for _ in 0..tier.pick(3000, 30000) {
        let n = rng.range(0, 6);
        let mut p = String::new();
        for _ in 0..rng.below(3) {
            p.push('/');
        }
        for i in 0..n {
            if i > 0 {
                for _ in 0..rng.range(1, 2) {
                    p.push('/');
                }
            }
            p.push_str(*rng.pick(&comps[..]));
        }
        for _ in 0..rng.below(3) {
            p.push('/');
        }
        emit_split(out, &p);
    }

    // ---- 10. short-name comparison (ASCII / U+FFFD names)
    for _ in 0..tier.pick(6000, 60000) {
        let raw = if rng.chance(1, 4) && !dir.is_empty() { *rng.pick(&dir) } else { rand_raw(&mut rng) };
        let disp = lossy_string(&display_of(&raw));
        let name = match rng.below(10) {
            0 => disp.clone(),
            1..=4 => random_case(&mut rng, &disp),
            5 => format!("{} ", random_case(&mut rng, &disp)),
            6 => random_case(&mut rng, &disp).replace('.', ""),
            7 => {
                let mut cs: Vec<char> = random_case(&mut rng, &disp).chars().collect();
                if !cs.is_empty() {
                    let i = rng.below(cs.len() as u64) as usize;
                    match rng.below(3) {
                        0 => {
                            cs.remove(i);
                        }
                        1 => cs[i] = rng.range(0x20, 0x7E) as u8 as char,
                        _ => cs.insert(i, *rng.pick(&['.', ' ', 'a', '\u{FFFD}'])),
                    }
                }
                cs.into_iter().collect()
            }
            8 => lossy_string(&raw[..8]).trim_end().to_string(),
            _ => {
                let n = rng.range(0, 12) as usize;
                (0..n).map(|_| if rng.chance(1, 10) { '\u{FFFD}' } else { rng.range(0, 127) as u8 as char }).collect()
            }
        };
        emit_short_eq(out, &raw, &name);
    }
}
