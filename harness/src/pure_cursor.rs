//! pure-probe suite `cursor` (property C02, see /verif/ARCH.md and lean/FatVerif/Model/CursorDriver.lean).
//!
//! One line per HISTORY on one file (`cursor.hist`) or on 2–3 interleaved files of one volume (`cursor.multi`):
//!
//! ```text
//! P cursor.hist  cs=<n> fat=<bits> free=<n> <op;op;…>               => <res;res;…>
//! P cursor.multi cs=<n> fat=<bits> free=<n> files=<k> <i:op;i:op;…> => <res;res;…>
//! ```
//!
//! Every history runs on a fresh copy of a volume formatted with `fatfs::format_volume` in an in-memory device,
//! mounted with a constant `TimeProvider`; the ops go through the public API of the real `fatfs::File` only.
use crate::rng::SplitMix64;
use crate::util::{catch, hex, Tier};
use fatfs::{
    Date, DateTime, FatType, FileSystem, FormatVolumeOptions, FsOptions, IoBase, LossyOemCpConverter, Read, Seek,
    SeekFrom, Time, TimeProvider, Write,
};
use std::collections::HashMap;
use std::fmt::Write as _;
use std::rc::Rc;

// ---------------------------------------------------------------------------------------------------------------
// in-memory device: fixed capacity, sparse 4 KiB pages, copy-on-write over a shared formatted template
// ---------------------------------------------------------------------------------------------------------------

const PAGE: usize = 4096;
type Page = Box<[u8; PAGE]>;

#[derive(Clone)]
struct MemDev {
    base: Rc<HashMap<u64, Page>>,
    over: HashMap<u64, Page>,
    size: u64,
    pos: u64,
}

impl MemDev {
    fn new(size: u64) -> Self {
        MemDev { base: Rc::new(HashMap::new()), over: HashMap::new(), size, pos: 0 }
    }
    /// freeze the current content as the shared template
    fn freeze(mut self) -> Self {
        let mut all: HashMap<u64, Page> = (*self.base).clone();
        for (k, v) in self.over.drain() {
            all.insert(k, v);
        }
        MemDev { base: Rc::new(all), over: HashMap::new(), size: self.size, pos: 0 }
    }
    fn page(&self, n: u64) -> Option<&Page> {
        self.over.get(&n).or_else(|| self.base.get(&n))
    }
    fn page_mut(&mut self, n: u64) -> &mut Page {
        if !self.over.contains_key(&n) {
            let p: Page = match self.base.get(&n) {
                Some(p) => p.clone(),
                None => Box::new([0u8; PAGE]),
            };
            self.over.insert(n, p);
        }
        self.over.get_mut(&n).unwrap()
    }
}

impl IoBase for MemDev {
    type Error = ();
}

impl Read for MemDev {
    fn read(&mut self, buf: &mut [u8]) -> Result<usize, ()> {
        let avail = self.size.saturating_sub(self.pos);
        let n = (buf.len() as u64).min(avail) as usize;
        let mut done = 0;
        while done < n {
            let p = self.pos + done as u64;
            let off = (p % PAGE as u64) as usize;
            let chunk = (PAGE - off).min(n - done);
            match self.page(p / PAGE as u64) {
                Some(pg) => buf[done..done + chunk].copy_from_slice(&pg[off..off + chunk]),
                None => buf[done..done + chunk].fill(0),
            }
            done += chunk;
        }
        self.pos += n as u64;
        Ok(n)
    }
}

impl Write for MemDev {
    fn write(&mut self, buf: &[u8]) -> Result<usize, ()> {
        let avail = self.size.saturating_sub(self.pos);
        let n = (buf.len() as u64).min(avail) as usize;
        let mut done = 0;
        while done < n {
            let p = self.pos + done as u64;
            let off = (p % PAGE as u64) as usize;
            let chunk = (PAGE - off).min(n - done);
            let pg = self.page_mut(p / PAGE as u64);
            pg[off..off + chunk].copy_from_slice(&buf[done..done + chunk]);
            done += chunk;
        }
        self.pos += n as u64;
        Ok(n)
    }
    fn flush(&mut self) -> Result<(), ()> {
        Ok(())
    }
}

impl Seek for MemDev {
    fn seek(&mut self, pos: SeekFrom) -> Result<u64, ()> {
        let new = match pos {
            SeekFrom::Start(n) => Some(n as i128),
            SeekFrom::Current(d) => Some(self.pos as i128 + d as i128),
            SeekFrom::End(d) => Some(self.size as i128 + d as i128),
        };
        match new {
            Some(n) if n >= 0 && n <= u64::MAX as i128 => {
                self.pos = n as u64;
                Ok(self.pos)
            }
            _ => Err(()),
        }
    }
}

#[derive(Debug, Clone, Copy)]
struct ConstClock;

impl TimeProvider for ConstClock {
    fn get_current_date(&self) -> Date {
        Date::new(2020, 2, 2)
    }
    fn get_current_date_time(&self) -> DateTime {
        DateTime::new(Date::new(2020, 2, 2), Time::new(12, 34, 56, 780))
    }
}

type Fs = FileSystem<MemDev, ConstClock, LossyOemCpConverter>;
type FFile<'a> = fatfs::File<'a, MemDev, ConstClock, LossyOemCpConverter>;

fn mount(dev: MemDev) -> Option<Fs> {
    FileSystem::new(dev, FsOptions::new().time_provider(ConstClock)).ok()
}

// ---------------------------------------------------------------------------------------------------------------
// volumes
// ---------------------------------------------------------------------------------------------------------------

#[derive(Clone)]
struct Volume {
    cs: u32,
    fat: u8,
    template: MemDev,
    weight: u64,
}

fn fat_bits(t: FatType) -> u8 {
    match t {
        FatType::Fat12 => 12,
        FatType::Fat16 => 16,
        FatType::Fat32 => 32,
    }
}

fn make_volume(cs: u32, fat: Option<FatType>, total_sectors: u32, weight: u64) -> Option<Volume> {
    let mut dev = MemDev::new(u64::from(total_sectors) * 512);
    let mut opts = FormatVolumeOptions::new().bytes_per_sector(512).bytes_per_cluster(cs).total_sectors(total_sectors);
    if let Some(ft) = fat {
        opts = opts.fat_type(ft);
    }
    let ok = catch(|| fatfs::format_volume(&mut dev, opts).is_ok()).unwrap_or(false);
    if !ok {
        return None;
    }
    dev.pos = 0;
    let template = dev.freeze();
    let fs = catch(|| mount(template.clone())).flatten()?;
    let bits = fat_bits(fs.fat_type());
    if fs.cluster_size() != cs {
        return None;
    }
    Some(Volume { cs, fat: bits, template, weight })
}

/// a FAT12 volume with about `want` free clusters (the smallest that formats and mounts with at least that many)
fn make_tiny(cs: u32, want: u32, weight: u64) -> Option<Volume> {
    let spc = cs / 512;
    let mut total = 8 + want * spc;
    for _ in 0..400 {
        if let Some(v) = make_volume(cs, Some(FatType::Fat12), total, weight) {
            let free = catch(|| mount(v.template.clone()).and_then(|fs| fs.stats().ok().map(|s| s.free_clusters())))
                .flatten();
            if let Some(f) = free {
                if f >= want {
                    return Some(v);
                }
            }
        }
        total += 1;
    }
    None
}

fn volumes(tier: Tier) -> Vec<Volume> {
    let mut v = Vec::new();
    let big = tier.pick((12u64, 3u64), (8, 1));
    for &(cs, w) in &[(512u32, 40u64), (1024, 25), (4096, big.0), (32768, big.1)] {
        let spc = cs / 512;
        // roomy volumes of each FAT type: allocation never fails
        for &(ft, clusters, wf) in
            &[(FatType::Fat12, 1000u32, 3u64), (FatType::Fat16, 5000, 2), (FatType::Fat32, 66000, 2)]
        {
            let total = clusters * spc + 1200;
            if let Some(vol) = make_volume(cs, Some(ft), total, w * wf) {
                v.push(vol);
            }
        }
    }
    // tiny volumes: allocation fails after a few clusters (NotEnoughSpace = E9)
    for &(cs, want) in &[(512u32, 1u32), (512, 2), (512, 3), (512, 5), (512, 9), (1024, 2), (1024, 4), (4096, 3)] {
        if let Some(vol) = make_tiny(cs, want, 12) {
            v.push(vol);
        }
    }
    v
}

// ---------------------------------------------------------------------------------------------------------------
// ops
// ---------------------------------------------------------------------------------------------------------------

#[derive(Clone, Debug)]
enum Data {
    Hex(Vec<u8>),
    Pat(usize, u32),
}

fn pattern_byte(seed: u32, i: usize) -> u8 {
    ((seed as usize + i + i / 256 * 37 + i / 65536 * 101) % 256) as u8
}

impl Data {
    fn bytes(&self) -> Vec<u8> {
        match self {
            Data::Hex(b) => b.clone(),
            Data::Pat(n, seed) => (0..*n).map(|i| pattern_byte(*seed, i)).collect(),
        }
    }
    fn tok(&self) -> String {
        match self {
            Data::Hex(b) => hex(b),
            Data::Pat(n, seed) => format!("*{}*{}", n, seed),
        }
    }
}

#[derive(Clone, Debug)]
enum Op {
    Read(usize),
    ReadExact(usize),
    Write(Data),
    WriteAll(Data),
    SeekStart(u64),
    SeekCur(i64),
    SeekEnd(i64),
    Truncate,
    Flush,
    Reopen,
}

impl Op {
    fn tok(&self) -> String {
        match self {
            Op::Read(n) => format!("r{}", n),
            Op::ReadExact(n) => format!("R{}", n),
            Op::Write(d) => format!("w{}", d.tok()),
            Op::WriteAll(d) => format!("W{}", d.tok()),
            Op::SeekStart(n) => format!("ss{}", n),
            Op::SeekCur(n) => format!("sc{}", n),
            Op::SeekEnd(n) => format!("se{}", n),
            Op::Truncate => "t".into(),
            Op::Flush => "f".into(),
            Op::Reopen => "x".into(),
        }
    }
}

fn fnv1a(bytes: &[u8]) -> u64 {
    let mut h: u64 = 0xcbf2_9ce4_8422_2325;
    for b in bytes {
        h ^= u64::from(*b);
        h = h.wrapping_mul(0x0000_0100_0000_01b3);
    }
    h
}

fn bytes_tok(b: &[u8]) -> String {
    if b.len() <= 32 {
        hex(b)
    } else {
        format!("#{}.{:016x}", b.len(), fnv1a(b))
    }
}

type FErr = fatfs::Error<()>;

fn err_tok(e: &FErr) -> String {
    format!("E{}", fatfs::verif::error_code(e))
}

/// position of the handle through the public API (`seek(Current(0))` takes the same-offset shortcut)
fn err_at(e: &FErr, f: &mut FFile) -> String {
    match f.seek(SeekFrom::Current(0)) {
        Ok(p) => format!("E{}@{}", fatfs::verif::error_code(e), p),
        Err(_) => format!("E{}@?", fatfs::verif::error_code(e)),
    }
}

/// what the generator knows about a file (from the implementation's own answers)
#[derive(Clone, Copy, Default)]
struct Shadow {
    pos: u64,
    size: u64,
}

/// run one op on the real file; `None` = panic
fn exec<'a>(
    op: &Op,
    slot: &mut Option<FFile<'a>>,
    root: &fatfs::Dir<'a, MemDev, ConstClock, LossyOemCpConverter>,
    name: &str,
    sh: &mut Shadow,
) -> Option<String> {
    catch(|| {
        if let Op::Reopen = op {
            // drop the handle (flushes the entry), read everything back through a temporary handle, open again
            drop(slot.take());
            let content: Result<Vec<u8>, FErr> = (|| {
                let mut t = root.open_file(name)?;
                let size = t.seek(SeekFrom::End(0))?;
                t.seek(SeekFrom::Start(0))?;
                let mut buf = vec![0u8; size as usize];
                match t.read_exact(&mut buf) {
                    Ok(()) => Ok(buf),
                    Err(e) => Err(e),
                }
            })();
            return match root.open_file(name) {
                Ok(f) => {
                    *slot = Some(f);
                    sh.pos = 0;
                    match content {
                        Ok(c) => {
                            sh.size = c.len() as u64;
                            format!("={}", bytes_tok(&c))
                        }
                        Err(e) => format!("{}@0", err_tok(&e)),
                    }
                }
                Err(e) => err_tok(&e),
            };
        }
        let f = slot.as_mut().expect("live handle");
        match op {
            Op::Read(n) => {
                let mut buf = vec![0xEEu8; *n];
                match f.read(&mut buf) {
                    Ok(k) => {
                        sh.pos += k as u64;
                        if k > *n {
                            format!("#{}.toolong", k)
                        } else {
                            bytes_tok(&buf[..k])
                        }
                    }
                    Err(e) => err_tok(&e),
                }
            }
            Op::ReadExact(n) => {
                let mut buf = vec![0xEEu8; *n];
                match f.read_exact(&mut buf) {
                    Ok(()) => {
                        sh.pos += *n as u64;
                        bytes_tok(&buf)
                    }
                    Err(e) => {
                        let t = err_at(&e, f);
                        sh.pos = sh.size;
                        t
                    }
                }
            }
            Op::Write(d) => {
                let b = d.bytes();
                match f.write(&b) {
                    Ok(k) => {
                        sh.pos += k as u64;
                        sh.size = sh.size.max(sh.pos);
                        format!("{}", k)
                    }
                    Err(e) => err_tok(&e),
                }
            }
            Op::WriteAll(d) => {
                let b = d.bytes();
                match f.write_all(&b) {
                    Ok(()) => {
                        sh.pos += b.len() as u64;
                        sh.size = sh.size.max(sh.pos);
                        "ok".into()
                    }
                    Err(e) => {
                        let t = err_at(&e, f);
                        if let Ok(p) = f.seek(SeekFrom::Current(0)) {
                            sh.pos = p;
                            sh.size = sh.size.max(p);
                        }
                        t
                    }
                }
            }
            Op::SeekStart(_) | Op::SeekCur(_) | Op::SeekEnd(_) => {
                let w = match op {
                    Op::SeekStart(n) => SeekFrom::Start(*n),
                    Op::SeekCur(n) => SeekFrom::Current(*n),
                    Op::SeekEnd(n) => SeekFrom::End(*n),
                    _ => unreachable!(),
                };
                match f.seek(w) {
                    Ok(p) => {
                        sh.pos = p;
                        format!("{}", p)
                    }
                    Err(e) => err_tok(&e),
                }
            }
            Op::Truncate => match f.truncate() {
                Ok(()) => {
                    sh.size = sh.pos;
                    "ok".into()
                }
                Err(e) => err_tok(&e),
            },
            Op::Flush => match f.flush() {
                Ok(()) => "ok".into(),
                Err(e) => err_tok(&e),
            },
            Op::Reopen => unreachable!(),
        }
    })
}

// ---------------------------------------------------------------------------------------------------------------
// generator
// ---------------------------------------------------------------------------------------------------------------

struct Gen {
    /// the previous op was a seek to an interesting offset and this one shall truncate there
    pending_truncate: bool,
    rng: SplitMix64,
    cs: u64,
    /// bytes this history may still move (keeps lines of big-cluster volumes cheap for the Lean side)
    budget: i64,
    seed_ctr: u32,
}

impl Gen {
    fn small(&mut self) -> u64 {
        *self.rng.pick(&[0u64, 1, 1, 2, 3, 5, 8, 13, 31, 32, 33, 64])
    }

    /// an interesting absolute offset
    fn offset(&mut self, sh: &Shadow) -> u64 {
        let cs = self.cs;
        let k = self.rng.range(1, 4);
        let d = self.rng.below(5); // 0..=4  →  −2..=+2
        let c = match self.rng.below(12) {
            0 => self.rng.below(3),
            1 | 2 | 3 => (k * cs + d).saturating_sub(2),
            4 | 5 => (sh.size + d).saturating_sub(2),
            6 => (sh.pos + d).saturating_sub(2),
            7 => (sh.size / cs) * cs,
            8 => ((sh.size + cs - 1) / cs) * cs,
            9 => (((sh.size + cs - 1) / cs) * cs + d).saturating_sub(2),
            10 => self.rng.below(sh.size + 2),
            _ => self.rng.below(sh.size + cs + 2),
        };
        c
    }

    /// an interesting transfer length at the current position
    fn length(&mut self, sh: &Shadow) -> usize {
        let cs = self.cs;
        let to_boundary = cs - sh.pos % cs;
        let to_end = sh.size.saturating_sub(sh.pos);
        let d = self.rng.below(5); // 0..=4  →  −2..=+2
        let c = match self.rng.below(16) {
            0 => 0,
            1 => 1,
            2 | 3 | 4 => (to_boundary + d).saturating_sub(2),
            5 | 6 | 7 => (to_end + d).saturating_sub(2),
            8 | 9 => (cs + d).saturating_sub(2),
            10 => (2 * cs + d).saturating_sub(2),
            11 => self.rng.below(to_end + 1),
            12 => self.rng.below(3 * cs + 2),
            _ => self.small(),
        };
        let c = if (c as i64) > self.budget { self.small() } else { c };
        self.budget -= c as i64;
        c as usize
    }

    fn data(&mut self, n: usize) -> Data {
        if n <= 16 && self.rng.chance(3, 4) {
            Data::Hex((0..n).map(|_| self.rng.below(256) as u8).collect())
        } else {
            self.seed_ctr = self.seed_ctr.wrapping_add(1 + self.rng.below(200) as u32);
            Data::Pat(n, self.seed_ctr % 100_000)
        }
    }

    fn seek(&mut self, sh: &Shadow) -> Op {
        if self.rng.chance(1, 7) {
            // out-of-range and extreme targets
            return match self.rng.below(14) {
                0 => Op::SeekStart(u64::from(u32::MAX)),
                1 => Op::SeekStart(u64::from(u32::MAX) + 1),
                2 => Op::SeekStart(u64::from(u32::MAX) + 2),
                3 => Op::SeekStart(u64::MAX),
                4 => Op::SeekCur(i64::MIN),
                5 => Op::SeekCur(i64::MAX),
                6 => Op::SeekEnd(i64::MIN),
                7 => Op::SeekEnd(i64::MAX),
                8 => Op::SeekCur(-(sh.pos as i64) - 1),
                9 => Op::SeekEnd(-(sh.size as i64) - 1),
                10 => Op::SeekCur((1i64 << 32) - sh.pos as i64),
                11 => Op::SeekCur((1i64 << 32) - 1 - sh.pos as i64),
                12 => Op::SeekEnd((1i64 << 32) - sh.size as i64),
                _ => Op::SeekEnd((1i64 << 32) - 1 - sh.size as i64),
            };
        }
        let target = self.offset(sh) as i64;
        match self.rng.below(3) {
            0 => Op::SeekStart(target as u64),
            1 => Op::SeekCur(target - sh.pos as i64),
            _ => Op::SeekEnd(target - sh.size as i64),
        }
    }

    fn op(&mut self, sh: &Shadow, first: bool) -> Op {
        if self.pending_truncate {
            self.pending_truncate = false;
            return Op::Truncate;
        }
        if first && self.rng.chance(2, 3) {
            // start with a file of an interesting size
            let k = self.rng.below(4);
            let n = match self.rng.below(5) {
                0 => k * self.cs,
                1 => k * self.cs + 1,
                2 => (k * self.cs + self.cs).saturating_sub(1),
                3 => self.rng.below(3 * self.cs + 2),
                _ => self.rng.below(self.cs + 2),
            };
            let n = if (n as i64) > self.budget { self.small() } else { n };
            self.budget -= n as i64;
            let d = self.data(n as usize);
            return Op::WriteAll(d);
        }
        match self.rng.below(100) {
            0..=21 => Op::Read(self.length(sh)),
            22..=31 => {
                let n = self.length(sh);
                let to_end = sh.size.saturating_sub(sh.pos) as usize;
                // mostly satisfiable requests; the EOF error path keeps a third of the cases
                if n > to_end && self.rng.chance(2, 3) {
                    Op::ReadExact(self.rng.below(to_end as u64 + 1) as usize)
                } else {
                    Op::ReadExact(n)
                }
            }
            32..=49 => {
                let n = self.length(sh);
                Op::Write(self.data(n))
            }
            50..=61 => {
                let n = self.length(sh);
                Op::WriteAll(self.data(n))
            }
            62..=84 => {
                // truncation at each interesting offset: a seek followed by a truncate
                self.pending_truncate = self.rng.chance(1, 6);
                self.seek(sh)
            }
            85..=91 => Op::Truncate,
            92..=94 => Op::Flush,
            _ => Op::Reopen,
        }
    }
}

fn pick_volume<'v>(rng: &mut SplitMix64, vols: &'v [Volume]) -> &'v Volume {
    let total: u64 = vols.iter().map(|v| v.weight).sum();
    let mut x = rng.below(total);
    for v in vols {
        if x < v.weight {
            return v;
        }
        x -= v.weight;
    }
    &vols[0]
}

fn run_history(rng: &mut SplitMix64, vol: &Volume, nfiles: usize, out: &mut dyn Write2) {
    let fs = match catch(|| mount(vol.template.clone())).flatten() {
        Some(fs) => fs,
        None => return,
    };
    let root = fs.root_dir();
    let names: Vec<String> = (0..nfiles).map(|i| format!("f{}.bin", i)).collect();
    let mut slots: Vec<Option<FFile>> = Vec::new();
    for n in &names {
        match catch(|| root.create_file(n).ok()).flatten() {
            Some(f) => slots.push(Some(f)),
            None => return,
        }
    }
    let free = match catch(|| fs.stats().ok().map(|s| s.free_clusters())).flatten() {
        Some(f) => f,
        None => return,
    };
    let cs = u64::from(vol.cs);
    let budget = if cs <= 4096 { 40 * 1024 } else { 6 * 32768 + 4096 };
    let mut g = Gen { pending_truncate: false, rng: rng.fork(), cs, budget, seed_ctr: rng.below(1000) as u32 };
    let nops = g.rng.range(5, 40) as usize;
    let mut shadows = vec![Shadow::default(); nfiles];
    let mut ops_s = String::new();
    let mut res_s = String::new();
    for i in 0..nops {
        let fi = if nfiles == 1 { 0 } else { g.rng.below(nfiles as u64) as usize };
        let first = shadows[fi].size == 0 && shadows[fi].pos == 0 && i < 2 * nfiles;
        let op = if i + 1 == nops { Op::Reopen } else { g.op(&shadows[fi], first) };
        if i > 0 {
            ops_s.push(';');
            res_s.push(';');
        }
        if nfiles > 1 {
            write!(ops_s, "{}:", fi).unwrap();
        }
        ops_s.push_str(&op.tok());
        let mut sh = shadows[fi];
        let r = exec(&op, &mut slots[fi], &root, &names[fi], &mut sh);
        shadows[fi] = sh;
        match r {
            Some(t) => res_s.push_str(&t),
            None => {
                res_s.push_str("E100");
                break;
            }
        }
    }
    // dropping the handles flushes them; a panic there must not take the harness down
    let _ = catch(move || drop(slots));
    if nfiles == 1 {
        out.line(&format!("P cursor.hist cs={} fat={} free={} {} => {}", vol.cs, vol.fat, free, ops_s, res_s));
    } else {
        out.line(&format!(
            "P cursor.multi cs={} fat={} free={} files={} {} => {}",
            vol.cs, vol.fat, free, nfiles, ops_s, res_s
        ));
    }
}

/// tiny indirection so that `run_history` does not need a generic writer
trait Write2 {
    fn line(&mut self, s: &str);
}

struct Out<'a>(&'a mut dyn std::io::Write);

impl Write2 for Out<'_> {
    fn line(&mut self, s: &str) {
        writeln!(self.0, "{}", s).unwrap();
    }
}

pub fn run(tier: Tier, seed: u64, out: &mut dyn std::io::Write) {
    let mut rng = SplitMix64::new(seed ^ 0xC02C_02C0_2C02_C02C);
    let vols = volumes(tier);
    let mut o = Out(out);
    let n_hist = tier.pick(3000, 200_000);
    let n_multi = tier.pick(600, 40_000);
    for _ in 0..n_hist {
        let v = pick_volume(&mut rng, &vols);
        run_history(&mut rng, v, 1, &mut o);
    }
    for _ in 0..n_multi {
        let v = pick_volume(&mut rng, &vols);
        let k = rng.range(2, 3) as usize;
        run_history(&mut rng, v, k, &mut o);
    }
}
