//! pure-probe suite `io` (properties C09, C14; model: lean/FatVerif/Model/IoWrap.lean).
//!
//! The history device of the harness implements the crate's own I/O traits, so `fatfs::StdIoWrapper` — the glue every
//! `std::io` storage goes through — and the `IoError` conversions for `std::io::Error` are exercised here instead,
//! against a scripted `std::io` mock.
//!
//! ```text
//! P io.run mode=<std|own> <script> <ops> => <res;res;…> <call;call;…>
//! P io.conv <kind>                      => <is_interrupted 0|1>
//! P io.new <eof|wz>                     => <kind>
//! ```
//!
//! * `mode=std`: the mock wrapped in `StdIoWrapper` (its `read_exact` / `write_all` are `std`'s, over the mock's
//!   `read` / `write`); `mode=own`: a wrapper that implements the crate's `Read`/`Write`/`Seek` by delegating only
//!   `read`/`write`/`flush`/`seek`, so that the crate's provided `read_exact` / `write_all` loops run with
//!   `IoError for std::io::Error`. Both must behave the same.
//! * `<script>`: `;`-separated answers of the mock, consumed one per mock call of whatever kind (`-` = empty):
//!   `n<k>` = success with count k (read: `min(k, buffer length)` bytes are delivered; write: `min(k, length)` bytes are
//!   accepted; seek: the new position is k; flush: plain success), `e<kind>` = that error. When the script is used up:
//!   read delivers 0 bytes, write accepts everything, flush succeeds, seek returns position 0.
//!   Delivered bytes are `1 + (i mod 251)` for the i-th byte delivered so far (i from 0).
//! * `<kind>`: `i` Interrupted, `b` WouldBlock, `u` UnexpectedEof, `z` WriteZero, `o` Other, `t` TimedOut,
//!   `p` PermissionDenied (`?` anything else).
//! * `<ops>`: `;`-separated calls through the crate's traits: `r<n>` one `read` with an n-byte buffer, `R<n>`
//!   `read_exact`, `w<hex>` one `write`, `W<hex>` `write_all`, `f` `flush`, `ss<n>` / `sc<i>` / `se<i>` `seek` from
//!   start / current / end.
//! * results: `ok:<hex|->` (r, R), `ok:<n>` (w, seek), `ok` (W, f), `E<kind>`.
//! * calls the mock saw: `r<buffer length>`, `w<hex of the buffer offered>`, `f`, `ss<n>` / `sc<i>` / `se<i>`; `-` if none.
use crate::rng::SplitMix64;
use crate::util::{hex, unhex, Tier};
use fatfs::{IoBase, IoError, Read, Seek, SeekFrom, StdIoWrapper, Write};
use std::cell::RefCell;
use std::io::ErrorKind;
use std::rc::Rc;

#[derive(Clone, Copy, Debug, PartialEq)]
enum Ans {
    N(u64),
    E(char),
}

fn kind_of(c: char) -> ErrorKind {
    match c {
        'i' => ErrorKind::Interrupted,
        'b' => ErrorKind::WouldBlock,
        'u' => ErrorKind::UnexpectedEof,
        'z' => ErrorKind::WriteZero,
        't' => ErrorKind::TimedOut,
        'p' => ErrorKind::PermissionDenied,
        _ => ErrorKind::Other,
    }
}

fn letter_of(k: ErrorKind) -> char {
    match k {
        ErrorKind::Interrupted => 'i',
        ErrorKind::WouldBlock => 'b',
        ErrorKind::UnexpectedEof => 'u',
        ErrorKind::WriteZero => 'z',
        ErrorKind::Other => 'o',
        ErrorKind::TimedOut => 't',
        ErrorKind::PermissionDenied => 'p',
        _ => '?',
    }
}

#[derive(Default)]
struct MockState {
    script: Vec<Ans>,
    next: usize,
    delivered: u64,
    calls: Vec<String>,
}

impl MockState {
    fn answer(&mut self) -> Option<Ans> {
        let a = self.script.get(self.next).copied();
        if a.is_some() {
            self.next += 1;
        }
        a
    }
}

#[derive(Clone)]
struct Mock(Rc<RefCell<MockState>>);

fn err(c: char) -> std::io::Error {
    std::io::Error::new(kind_of(c), "scripted")
}

impl std::io::Read for Mock {
    fn read(&mut self, buf: &mut [u8]) -> std::io::Result<usize> {
        let mut m = self.0.borrow_mut();
        m.calls.push(format!("r{}", buf.len()));
        match m.answer() {
            Some(Ans::E(c)) => Err(err(c)),
            Some(Ans::N(k)) => {
                let n = (k as usize).min(buf.len());
                for b in buf[..n].iter_mut() {
                    *b = 1 + (m.delivered % 251) as u8;
                    m.delivered += 1;
                }
                Ok(n)
            }
            None => Ok(0),
        }
    }
}

impl std::io::Write for Mock {
    fn write(&mut self, buf: &[u8]) -> std::io::Result<usize> {
        let mut m = self.0.borrow_mut();
        m.calls.push(format!("w{}", hex(buf)));
        match m.answer() {
            Some(Ans::E(c)) => Err(err(c)),
            Some(Ans::N(k)) => Ok((k as usize).min(buf.len())),
            None => Ok(buf.len()),
        }
    }
    fn flush(&mut self) -> std::io::Result<()> {
        let mut m = self.0.borrow_mut();
        m.calls.push("f".to_string());
        match m.answer() {
            Some(Ans::E(c)) => Err(err(c)),
            _ => Ok(()),
        }
    }
}

impl std::io::Seek for Mock {
    fn seek(&mut self, pos: std::io::SeekFrom) -> std::io::Result<u64> {
        let mut m = self.0.borrow_mut();
        m.calls.push(match pos {
            std::io::SeekFrom::Start(n) => format!("ss{}", n),
            std::io::SeekFrom::Current(n) => format!("sc{}", n),
            std::io::SeekFrom::End(n) => format!("se{}", n),
        });
        match m.answer() {
            Some(Ans::E(c)) => Err(err(c)),
            Some(Ans::N(k)) => Ok(k),
            None => Ok(0),
        }
    }
}

/// The crate's traits over a `std::io` object WITHOUT overriding the provided methods.
struct Own(Mock);

impl IoBase for Own {
    type Error = std::io::Error;
}
impl Read for Own {
    fn read(&mut self, buf: &mut [u8]) -> Result<usize, std::io::Error> {
        std::io::Read::read(&mut self.0, buf)
    }
}
impl Write for Own {
    fn write(&mut self, buf: &[u8]) -> Result<usize, std::io::Error> {
        std::io::Write::write(&mut self.0, buf)
    }
    fn flush(&mut self) -> Result<(), std::io::Error> {
        std::io::Write::flush(&mut self.0)
    }
}
impl Seek for Own {
    fn seek(&mut self, pos: SeekFrom) -> Result<u64, std::io::Error> {
        std::io::Seek::seek(&mut self.0, pos.into())
    }
}

#[derive(Clone, Debug)]
enum IoOp {
    R(usize),
    Rx(usize),
    W(Vec<u8>),
    Wa(Vec<u8>),
    F,
    S(char, i64),
}

fn op_str(o: &IoOp) -> String {
    match o {
        IoOp::R(n) => format!("r{}", n),
        IoOp::Rx(n) => format!("R{}", n),
        IoOp::W(d) => format!("w{}", hex(d)),
        IoOp::Wa(d) => format!("W{}", hex(d)),
        IoOp::F => "f".to_string(),
        IoOp::S(c, n) => format!("s{}{}", c, n),
    }
}

fn ans_str(a: &Ans) -> String {
    match a {
        Ans::N(k) => format!("n{}", k),
        Ans::E(c) => format!("e{}", c),
    }
}

fn run_ops<T>(t: &mut T, ops: &[IoOp]) -> Vec<String>
where
    T: Read + Write + Seek + IoBase<Error = std::io::Error>,
{
    let e = |x: std::io::Error| format!("E{}", letter_of(x.kind()));
    ops.iter()
        .map(|o| match o {
            IoOp::R(n) => {
                let mut b = vec![0u8; *n];
                match t.read(&mut b) {
                    Ok(k) => format!("ok:{}", hex(&b[..k.min(*n)])),
                    Err(x) => e(x),
                }
            }
            IoOp::Rx(n) => {
                let mut b = vec![0u8; *n];
                match t.read_exact(&mut b) {
                    Ok(()) => format!("ok:{}", hex(&b)),
                    Err(x) => e(x),
                }
            }
            IoOp::W(d) => match t.write(d) {
                Ok(k) => format!("ok:{}", k),
                Err(x) => e(x),
            },
            IoOp::Wa(d) => match t.write_all(d) {
                Ok(()) => "ok".to_string(),
                Err(x) => e(x),
            },
            IoOp::F => match t.flush() {
                Ok(()) => "ok".to_string(),
                Err(x) => e(x),
            },
            IoOp::S(c, n) => {
                let p = match c {
                    's' => SeekFrom::Start(*n as u64),
                    'c' => SeekFrom::Current(*n),
                    _ => SeekFrom::End(*n),
                };
                match t.seek(p) {
                    Ok(k) => format!("ok:{}", k),
                    Err(x) => e(x),
                }
            }
        })
        .collect()
}

fn emit(out: &mut dyn std::io::Write, own: bool, script: &[Ans], ops: &[IoOp]) {
    let st = Rc::new(RefCell::new(MockState {
        script: script.to_vec(),
        ..MockState::default()
    }));
    let mock = Mock(st.clone());
    let res = crate::util::catch(|| {
        if own {
            run_ops(&mut Own(mock), ops)
        } else {
            run_ops(&mut StdIoWrapper::new(mock), ops)
        }
    });
    let join = |v: &[String]| if v.is_empty() { "-".to_string() } else { v.join(";") };
    let script_s: Vec<String> = script.iter().map(ans_str).collect();
    let ops_s: Vec<String> = ops.iter().map(op_str).collect();
    let calls = st.borrow().calls.clone();
    let res_s = match res {
        Some(r) => join(&r),
        None => "PANIC".to_string(),
    };
    writeln!(
        out,
        "P io.run mode={} {} {} => {} {}",
        if own { "own" } else { "std" },
        join(&script_s),
        join(&ops_s),
        res_s,
        join(&calls)
    )
    .unwrap();
}

pub fn run(tier: Tier, seed: u64, out: &mut dyn std::io::Write) {
    let _ = unhex;
    let mut rng = SplitMix64::new(seed ^ 0x10_10_10);
    // conversions
    for c in ['i', 'b', 'u', 'z', 'o', 't', 'p'] {
        let e = err(c);
        writeln!(out, "P io.conv {} => {}", c, IoError::is_interrupted(&e) as u8).unwrap();
    }
    let e: std::io::Error = IoError::new_unexpected_eof_error();
    writeln!(out, "P io.new eof => {}", letter_of(e.kind())).unwrap();
    let e: std::io::Error = IoError::new_write_zero_error();
    writeln!(out, "P io.new wz => {}", letter_of(e.kind())).unwrap();

    let answers = [
        Ans::N(0),
        Ans::N(1),
        Ans::N(2),
        Ans::N(5),
        Ans::N(100),
        Ans::E('i'),
        Ans::E('b'),
        Ans::E('u'),
        Ans::E('z'),
        Ans::E('o'),
    ];
    let single_ops = [
        IoOp::R(0),
        IoOp::R(3),
        IoOp::Rx(0),
        IoOp::Rx(1),
        IoOp::Rx(4),
        IoOp::W(vec![]),
        IoOp::W(vec![9, 8, 7]),
        IoOp::Wa(vec![]),
        IoOp::Wa(vec![1, 2, 3, 4]),
        IoOp::F,
        IoOp::S('s', 7),
        IoOp::S('c', -2),
        IoOp::S('e', 0),
    ];
    // exhaustive: every single operation against every script of length <= 3 (quick) / <= 4 (thorough)
    let max_len = tier.pick(3, 4);
    for own in [false, true] {
        for op in &single_ops {
            let mut scripts: Vec<Vec<Ans>> = vec![vec![]];
            let mut frontier: Vec<Vec<Ans>> = vec![vec![]];
            for _ in 0..max_len {
                let mut next = Vec::new();
                for s in &frontier {
                    for a in &answers {
                        let mut t = s.clone();
                        t.push(*a);
                        next.push(t);
                    }
                }
                scripts.extend(next.iter().cloned());
                frontier = next;
            }
            for s in &scripts {
                emit(out, own, s, std::slice::from_ref(op));
            }
        }
    }
    // random: sequences of operations against longer scripts
    let n = tier.pick(4000, 80_000);
    for i in 0..n {
        let own = i % 2 == 1;
        let script: Vec<Ans> = (0..rng.range(0, 12))
            .map(|_| match rng.below(10) {
                0..=4 => Ans::N(*rng.pick(&[0u64, 1, 2, 3, 5, 8, 100, 1 << 40])),
                5..=6 => Ans::E('i'),
                _ => Ans::E(*rng.pick(&['b', 'u', 'z', 'o', 't', 'p'])),
            })
            .collect();
        let ops: Vec<IoOp> = (0..rng.range(1, 6))
            .map(|_| match rng.below(9) {
                0 => IoOp::R(rng.range(0, 9) as usize),
                1 | 2 => IoOp::Rx(rng.range(0, 9) as usize),
                3 => IoOp::W((0..rng.range(0, 6)).map(|_| rng.below(256) as u8).collect()),
                4 | 5 => IoOp::Wa((0..rng.range(0, 8)).map(|_| rng.below(256) as u8).collect()),
                6 | 7 => IoOp::F,
                _ => IoOp::S(
                    *rng.pick(&['s', 'c', 'e']),
                    *rng.pick(&[0i64, 1, 512, -1, -512, i64::MAX, 1 << 40]),
                ),
            })
            .map(|o| match o {
                // `Start` takes an unsigned offset
                IoOp::S('s', n) if n < 0 => IoOp::S('s', -n),
                o => o,
            })
            .collect();
        emit(out, own, &script, &ops);
    }
}
