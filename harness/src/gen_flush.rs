//! Scenario `flush` (property C14): files are written and flushed / dropped, then unrelated activity follows;
//! `crashprobe <path>` right after each flush / dropf of a file and again later, as long as the file was not
//! modified again and neither it nor an ancestor directory was renamed or removed.
use super::*;
use crate::clock::ClockMode;
use crate::script::Whence;

struct Stable {
    path: String,
    /// seq of the flush / dropf that made the current content durable
    since: u64,
}

struct FlushGen {
    cx: Ctx,
    /// files whose flushed content must survive any later crash
    stable: Vec<Stable>,
    /// other objects the unrelated activity may play with: (path, is_dir)
    others: Vec<(String, bool)>,
    dirs: Vec<String>,
    serial: u32,
}

impl FlushGen {
    /// cuts back to the last device flush only
    fn probe(&mut self, path: &str) {
        self.cx.step(Op::CrashProbe(path.as_bytes().to_vec(), None));
    }

    /// every cut since the operation that made the file durable
    fn probe_since(&mut self, path: &str, since: u64) {
        self.cx.step(Op::CrashProbe(path.as_bytes().to_vec(), Some(since)));
    }

    fn probe_some(&mut self, rng: &mut SplitMix64) {
        if self.stable.is_empty() {
            return;
        }
        if rng.chance(1, 3) {
            let ps: Vec<(String, u64)> = self.stable.iter().map(|s| (s.path.clone(), s.since)).collect();
            for (p, q) in ps {
                self.probe_since(&p, q);
            }
        } else {
            let i = rng.below(self.stable.len() as u64) as usize;
            let (p, q) = (self.stable[i].path.clone(), self.stable[i].since);
            if rng.chance(1, 4) {
                self.probe(&p);
            } else {
                self.probe_since(&p, q);
            }
        }
    }

    fn fresh(&mut self, rng: &mut SplitMix64, what: &str) -> String {
        self.serial += 1;
        let name = match rng.below(3) {
            0 => format!("{}{}.DAT", what.to_uppercase(), self.serial),
            1 => format!("{} with a long name {}.data", what, self.serial),
            _ => format!("{}{}", what, self.serial),
        };
        if !self.dirs.is_empty() && rng.chance(1, 2) {
            format!("{}/{}", rng.pick(&self.dirs), name)
        } else {
            name
        }
    }

    /// Create (or reopen) a file, write, flush → probe, maybe more, drop → probe.
    fn durable_file(&mut self, rng: &mut SplitMix64) {
        let reopen = !self.stable.is_empty() && rng.chance(1, 4);
        let (path, f) = if reopen {
            let i = rng.below(self.stable.len() as u64) as usize;
            let path = self.stable.remove(i).path; // about to be modified: not stable until flushed again
            let f = self.cx.new_f();
            if !self.cx.step(Op::OpenFile { d: 0, path: path.clone().into_bytes(), new: f }).is_ok() {
                return;
            }
            match rng.below(3) {
                0 => {
                    self.cx.step(Op::Seek { f, whence: Whence::End, n: 0 });
                }
                1 => {
                    self.cx.step(Op::Truncate(f));
                }
                _ => {}
            }
            (path, f)
        } else {
            let path = self.fresh(rng, "keep");
            let f = self.cx.new_f();
            if !self.cx.step(Op::CreateFile { d: 0, path: path.clone().into_bytes(), new: f }).is_ok() {
                return;
            }
            (path, f)
        };
        let cs = self.cx.vol.cs as usize;
        let rounds = rng.range(1, 3);
        let mut ok = true;
        for r in 0..rounds {
            for _ in 0..rng.range(1, 3) {
                let len = match rng.below(8) {
                    0 => 1,
                    1 => cs.min(1024),
                    2 => (cs + 1).min(1025),
                    3 => (2 * cs + 3).min(1500),
                    _ => rng.range(1, 100) as usize,
                };
                let data = content(rng, len);
                ok &= self.cx.step(Op::WriteAll { f, data }).is_ok();
            }
            // "write the new content, then cut the old tail": a truncate right after the write, with the position at
            // the end of the file (size unchanged) or in front of an older, longer tail
            match rng.below(5) {
                0 | 1 => {
                    ok &= self.cx.step(Op::Truncate(f)).is_ok();
                }
                2 => {
                    self.cx.step(Op::Seek { f, whence: Whence::End, n: 0 });
                    ok &= self.cx.step(Op::Truncate(f)).is_ok();
                }
                _ => {}
            }
            if r + 1 < rounds || rng.chance(1, 2) {
                let flushed = self.cx.step(Op::Flush(f)).is_ok() && ok;
                let since = self.cx.last_seq;
                if flushed {
                    self.probe(&path);
                }
                if rng.chance(1, 3) {
                    // the handle stays open and unchanged while other things happen
                    self.unrelated(rng);
                    if flushed {
                        self.probe_since(&path, since);
                    }
                }
            }
        }
        self.cx.step(Op::DropF(f));
        let since = self.cx.last_seq;
        if ok && !self.cx.dead {
            self.probe(&path);
            self.stable.push(Stable { path, since });
        }
    }

    /// Activity that touches neither a stable file nor one of its ancestors.
    fn unrelated(&mut self, rng: &mut SplitMix64) {
        match rng.below(10) {
            0..=3 => {
                let path = self.fresh(rng, "tmp");
                let f = self.cx.new_f();
                if self.cx.step(Op::CreateFile { d: 0, path: path.clone().into_bytes(), new: f }).is_ok() {
                    let len = rng.range(0, 2 * self.cx.vol.cs.min(2048) as u64) as usize;
                    if len > 0 {
                        let data = content(rng, len);
                        self.cx.step(Op::WriteAll { f, data });
                    }
                    self.cx.step(Op::DropF(f));
                    self.others.push((path, false));
                }
            }
            4..=5 => {
                // a new directory (never renamed or removed once something stable may live in it)
                self.serial += 1;
                let name = format!("dir{}", self.serial);
                let path = if !self.dirs.is_empty() && rng.chance(1, 3) && self.dirs[0].matches('/').count() < 1 {
                    format!("{}/{}", self.dirs[0], name)
                } else {
                    name
                };
                let d = self.cx.new_d();
                if self.cx.step(Op::CreateDir { d: 0, path: path.clone().into_bytes(), new: d }).is_ok() {
                    self.cx.step(Op::DropD(d));
                    self.dirs.push(path);
                }
            }
            6..=7 => {
                if !self.others.is_empty() {
                    let i = rng.below(self.others.len() as u64) as usize;
                    let (path, _) = self.others.remove(i);
                    self.cx.step(Op::Remove { d: 0, path: path.into_bytes() });
                }
            }
            8 => {
                if !self.others.is_empty() {
                    let i = rng.below(self.others.len() as u64) as usize;
                    let old = self.others[i].0.clone();
                    let new = self.fresh(rng, "moved");
                    if self
                        .cx
                        .step(Op::Rename { d: 0, src: old.into_bytes(), d2: 0, dst: new.clone().into_bytes() })
                        .is_ok()
                    {
                        self.others[i].0 = new;
                    }
                }
            }
            _ => {
                if !self.others.is_empty() {
                    let path = rng.pick(&self.others).0.clone();
                    let f = self.cx.new_f();
                    if self.cx.step(Op::OpenFile { d: 0, path: path.into_bytes(), new: f }).is_ok() {
                        let data = content(rng, 33);
                        self.cx.step(Op::Seek { f, whence: Whence::End, n: 0 });
                        self.cx.step(Op::WriteAll { f, data });
                        self.cx.step(Op::DropF(f));
                    }
                }
            }
        }
    }
}

fn random_history(id: String, seed: u64, cat: &Catalogue, rng: &mut SplitMix64, sink: &mut Sink) {
    // crash probing replays the write log: keep FAT32 (large format log) rare
    let vol = loop {
        let v = cat.pick_small_cluster(rng, 4096);
        if v.class != VolClass::Fat32 || rng.chance(1, 3) {
            break v;
        }
    };
    let cfg = Cfg::new(true, false, ClockMode::Const);
    let cx = Ctx::new(id, "flush", seed, vol, cfg);
    let mut g = FlushGen {
        cx,
        stable: Vec::new(),
        others: Vec::new(),
        dirs: Vec::new(),
        serial: 0,
    };
    g.cx.format();
    g.cx.mount();
    let rounds = rng.range(3, 9);
    for _ in 0..rounds {
        if g.cx.dead {
            break;
        }
        match rng.below(10) {
            0..=4 => g.durable_file(rng),
            _ => {
                for _ in 0..rng.range(1, 3) {
                    g.unrelated(rng);
                }
                g.probe_some(rng);
            }
        }
    }
    let ps: Vec<(String, u64)> = g.stable.iter().map(|s| (s.path.clone(), s.since)).collect();
    for (p, q) in &ps {
        g.probe_since(p, *q);
    }
    g.cx.resync();
    g.cx.closing_lists();
    if !g.cx.dead {
        g.cx.step(Op::Unmount);
        for (p, _) in &ps {
            g.probe(p);
        }
    }
    g.cx.finish(sink);
}

pub fn run(tier: Tier, seed: u64, rng: &mut SplitMix64, n_override: Option<u64>, sink: &mut Sink) {
    let cat = Catalogue::build();
    let n = tier_count(tier, n_override, 160, 3200);
    for i in 1..=n {
        let mut r = rng.fork();
        random_history(hist_id("flush", seed, i), seed, &cat, &mut r, sink);
    }
}
