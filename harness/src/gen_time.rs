//! Scenario `time`: ticking clock; creation / write / read (access dates on and off) / explicit timestamps at the
//! boundaries of the DOS formats / flush / reopen / list; renames within and across directories followed by lists.
use super::*;
use crate::clock::ClockMode;
use crate::script::{Stamp, Whence};

fn stamp(rng: &mut SplitMix64) -> Stamp {
    let fixed: [(u16, u16, u16, u16, u16, u16, u16); 12] = [
        (1980, 1, 1, 0, 0, 0, 0),
        (2107, 12, 31, 23, 59, 59, 990),
        (2107, 12, 31, 23, 59, 59, 999),
        (1980, 1, 1, 0, 0, 0, 9),
        (2000, 2, 29, 12, 0, 1, 5),
        (1999, 12, 31, 23, 59, 58, 0),
        (2038, 1, 19, 3, 14, 7, 995),
        (2020, 2, 2, 12, 34, 57, 10),
        (1980, 1, 1, 0, 0, 1, 0),
        (2107, 1, 31, 0, 59, 0, 500),
        (2021, 6, 15, 1, 1, 1, 7),
        (2099, 11, 30, 22, 58, 59, 999),
    ];
    if rng.chance(3, 4) {
        let t = *rng.pick(&fixed);
        Stamp { y: t.0, m: t.1, d: t.2, h: t.3, mi: t.4, s: t.5, ms: t.6 }
    } else {
        Stamp {
            y: rng.range(1980, 2107) as u16,
            m: rng.range(1, 12) as u16,
            d: rng.range(1, 31) as u16,
            h: rng.range(0, 23) as u16,
            mi: rng.range(0, 59) as u16,
            s: rng.range(0, 59) as u16,
            ms: rng.range(0, 999) as u16,
        }
    }
}

struct TFile {
    path: String,
    f: Option<u32>,
}

struct TimeGen {
    cx: Ctx,
    files: Vec<TFile>,
    dirs: Vec<String>,
    serial: u32,
}

impl TimeGen {
    fn list_all(&mut self) {
        self.cx.step(Op::List(0));
        for p in self.dirs.clone() {
            let d = self.cx.new_d();
            if self.cx.step(Op::OpenDir { d: 0, path: p.into_bytes(), new: d }).is_ok() {
                self.cx.step(Op::List(d));
                self.cx.step(Op::DropD(d));
            }
        }
    }

    fn ensure_open(&mut self, i: usize) -> Option<u32> {
        if let Some(f) = self.files[i].f {
            return Some(f);
        }
        let f = self.cx.new_f();
        let path = self.files[i].path.clone();
        if self.cx.step(Op::OpenFile { d: 0, path: path.into_bytes(), new: f }).is_ok() {
            self.files[i].f = Some(f);
            Some(f)
        } else {
            None
        }
    }

    fn close(&mut self, i: usize) {
        if let Some(f) = self.files[i].f.take() {
            self.cx.step(Op::DropF(f));
        }
    }

    fn new_file(&mut self, rng: &mut SplitMix64) {
        self.serial += 1;
        let name = match rng.below(3) {
            0 => format!("T{}.TXT", self.serial),
            1 => format!("time stamp file {}.txt", self.serial),
            _ => format!("t{}", self.serial),
        };
        let path = if !self.dirs.is_empty() && rng.chance(1, 2) {
            format!("{}/{}", rng.pick(&self.dirs), name)
        } else {
            name
        };
        let f = self.cx.new_f();
        if self.cx.step(Op::CreateFile { d: 0, path: path.clone().into_bytes(), new: f }).is_ok() {
            self.files.push(TFile { path, f: Some(f) });
        }
    }

    fn rename(&mut self, rng: &mut SplitMix64, i: usize) {
        self.close(i);
        self.serial += 1;
        let old = self.files[i].path.clone();
        let name = format!("renamed {}.txt", self.serial);
        let across = !self.dirs.is_empty() && rng.chance(1, 2);
        let new_path = if across {
            let parent = old.rfind('/').map(|k| old[..k].to_string());
            // another directory than the current one (the root counts as one)
            let mut cands: Vec<Option<String>> = vec![None];
            cands.extend(self.dirs.iter().cloned().map(Some));
            cands.retain(|c| *c != parent);
            match rng.pick(&cands) {
                Some(d) => format!("{}/{}", d, name),
                None => name,
            }
        } else {
            match old.rfind('/') {
                Some(k) => format!("{}/{}", &old[..k], name),
                None => name,
            }
        };
        let r = self.cx.step(Op::Rename {
            d: 0,
            src: old.into_bytes(),
            d2: 0,
            dst: new_path.clone().into_bytes(),
        });
        if r.is_ok() {
            self.files[i].path = new_path;
        }
        self.list_all();
    }
}

fn random_history(id: String, seed: u64, cat: &Catalogue, rng: &mut SplitMix64, sink: &mut Sink) {
    let vol = cat.pick_small_cluster(rng, 4096);
    let mut cfg = Cfg::new(true, rng.chance(1, 2), ClockMode::Tick);
    cfg.optorder = optorder_of(&id);
    let cx = Ctx::new(id, "time", seed, vol, cfg);
    let mut g = TimeGen {
        cx,
        files: Vec::new(),
        dirs: Vec::new(),
        serial: 0,
    };
    g.cx.format();
    g.cx.mount();
    for name in ["d1", "second dir"].iter().take(rng.range(0, 2) as usize) {
        let d = g.cx.new_d();
        if g.cx.step(Op::CreateDir { d: 0, path: name.as_bytes().to_vec(), new: d }).is_ok() {
            g.cx.step(Op::DropD(d));
            g.dirs.push(name.to_string());
        }
    }
    g.new_file(rng);
    let target = rng.range(10, 60) as usize;
    let mut guard = 0;
    while g.cx.h.n_ops() < target && !g.cx.dead && guard < 200 {
        guard += 1;
        if g.files.is_empty() {
            g.new_file(rng);
            continue;
        }
        let i = rng.below(g.files.len() as u64) as usize;
        match rng.below(100) {
            0..=7 => {
                if g.files.len() < 3 {
                    g.new_file(rng);
                }
            }
            8..=22 => {
                if let Some(f) = g.ensure_open(i) {
                    let len = rng.range(1, 40) as usize;
                    let data = content(rng, len);
                    g.cx.step(Op::WriteAll { f, data });
                }
            }
            23..=34 => {
                if let Some(f) = g.ensure_open(i) {
                    g.cx.step(Op::Seek { f, whence: Whence::Start, n: 0 });
                    if rng.chance(1, 2) {
                        g.cx.step(Op::Read { f, n: rng.range(0, 20) });
                    } else {
                        g.cx.step(Op::ReadAll(f));
                    }
                }
            }
            35..=44 => {
                if let Some(f) = g.ensure_open(i) {
                    g.cx.step(Op::SetCreated { f, t: stamp(rng) });
                }
            }
            45..=54 => {
                if let Some(f) = g.ensure_open(i) {
                    g.cx.step(Op::SetModified { f, t: stamp(rng) });
                }
            }
            55..=62 => {
                if let Some(f) = g.ensure_open(i) {
                    let t = stamp(rng);
                    g.cx.step(Op::SetAccessed { f, y: t.y, m: t.m, d: t.d });
                }
            }
            63..=70 => {
                if let Some(f) = g.files[i].f {
                    g.cx.step(Op::Flush(f));
                    g.list_all();
                }
            }
            71..=80 => {
                // reopen
                g.close(i);
                g.ensure_open(i);
            }
            81..=88 => g.list_all(),
            89..=96 => g.rename(rng, i),
            _ => {
                if let Some(f) = g.ensure_open(i) {
                    g.cx.step(Op::Truncate(f));
                }
            }
        }
    }
    for i in 0..g.files.len() {
        g.close(i);
    }
    g.cx.resync();
    g.cx.closing_lists();
    if !g.cx.dead {
        g.cx.step(Op::Unmount);
    }
    g.cx.finish(sink);
}

pub fn run(tier: Tier, seed: u64, rng: &mut SplitMix64, n_override: Option<u64>, sink: &mut Sink) {
    let cat = Catalogue::build();
    let n = tier_count(tier, n_override, 260, 5200);
    for i in 1..=n {
        let mut r = rng.fork();
        random_history(hist_id("time", seed, i), seed, &cat, &mut r, sink);
    }
}
