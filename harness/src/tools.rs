//! Small stand-alone subcommands: `harness uppertable`, `harness tracehash`.
use std::io::{BufRead, Write};

pub const FNV_OFFSET: u64 = 0xcbf2_9ce4_8422_2325;
pub const FNV_PRIME: u64 = 0x0000_0100_0000_01b3;

pub fn fnv1a(mut h: u64, bytes: &[u8]) -> u64 {
    for b in bytes {
        h ^= *b as u64;
        h = h.wrapping_mul(FNV_PRIME);
    }
    h
}

pub fn fnv64(bytes: &[u8]) -> u64 {
    fnv1a(FNV_OFFSET, bytes)
}

/// One line per scalar value c in 0x80..=0xFFFF (surrogates skipped) whose `char::to_uppercase()` is not `[c]`:
/// `<c> <u1> [<u2> [<u3>]]`, all decimal. (ASCII is not listed: it is a..z → A..Z in every build.)
pub fn uppertable(out: &mut dyn Write) {
    for c in 0x80u32..=0xFFFF {
        let Some(ch) = char::from_u32(c) else { continue };
        let up: Vec<u32> = ch.to_uppercase().map(|u| u as u32).collect();
        if up.len() == 1 && up[0] == c {
            continue;
        }
        let toks: Vec<String> = up.iter().map(|u| u.to_string()).collect();
        writeln!(out, "{} {}", c, toks.join(" ")).unwrap();
    }
}

/// Reads a trace; per history prints `T <id> <h1> <h2>` (16 lower-case hex digits each):
/// h1 = FNV-1a-64 over every line that starts with `w ` or equals `f` (in order, each followed by `\n`; the `w`
///      lines of `raw` operations included);
/// h2 = FNV-1a-64 over every line that starts with `R ` or `L ` (each followed by `\n`), where in `L` lines the
///      second token (the file_name column) is replaced by `-`.
pub fn tracehash(input: &mut dyn BufRead, out: &mut dyn Write) {
    let mut id: Option<String> = None;
    let (mut h1, mut h2) = (FNV_OFFSET, FNV_OFFSET);
    let mut line = String::new();
    loop {
        line.clear();
        let n = input.read_line(&mut line).unwrap_or(0);
        if n == 0 {
            break;
        }
        let l = line.trim_end_matches(['\n', '\r']);
        if let Some(rest) = l.strip_prefix("H ") {
            if let Some(i) = id.take() {
                writeln!(out, "T {} {:016x} {:016x}", i, h1, h2).unwrap();
            }
            id = Some(rest.split(' ').next().unwrap_or("?").to_string());
            h1 = FNV_OFFSET;
            h2 = FNV_OFFSET;
        } else if l == "E" {
            if let Some(i) = id.take() {
                writeln!(out, "T {} {:016x} {:016x}", i, h1, h2).unwrap();
            }
        } else if l.starts_with("w ") || l == "f" {
            h1 = fnv1a(h1, l.as_bytes());
            h1 = fnv1a(h1, b"\n");
        } else if l.starts_with("R ") {
            h2 = fnv1a(h2, l.as_bytes());
            h2 = fnv1a(h2, b"\n");
        } else if let Some(rest) = l.strip_prefix("L ") {
            let tail = rest.split_once(' ').map_or("", |x| x.1);
            h2 = fnv1a(h2, b"L - ");
            h2 = fnv1a(h2, tail.as_bytes());
            h2 = fnv1a(h2, b"\n");
        }
    }
    if let Some(i) = id.take() {
        writeln!(out, "T {} {:016x} {:016x}", i, h1, h2).unwrap();
    }
}
