//! Scenario `edge`: short histories aimed at corners the random generators do not reach.
//!
//! Templates (the number is part of nothing; ids are `edge-<seed>-<n>`):
//!  1 dots      `.`/`..` as the FINAL component of create_file/create_dir/open_dir/open_file/remove/rename (src and dst)
//!  2 rootfull  rename whose destination is a full (or nearly full) 16-entry fixed root
//!  3 volfull   rename into a directory whose last cluster is full while the volume has 0 (or exactly 1) free cluster
//!  4 subtree   directory renamed into its own subtree (depth 1–3, via `..`, via a handle), directories moved between
//!              parents followed by path walks through `..`
//!  5 slots     create/remove cycles that reuse a deleted slot run of exactly n, n−1, n+1 slots
//!  6 trailing  names with trailing dots/spaces, names made of dots/spaces only
//!  7 long255   255-unit names in a nearly full fixed root
//!  8 twohandle two handles on different files of one directory, modified and dropped in interleaved order
//!  9 rewrite   truncate to 0, then rewrite without reopening
//! 10 hugeseek  seeks to offsets around u32::MAX / i64 limits, then write / read
//! 11 stamps    set_* then (flush|drop) then rename then list
//! 13 aliasmove cross-directory renames that KEEP the name while the destination already holds another long name with
//!              the same 8.3 alias (STEM~1 in both directories; also ≥ 5 collisions = hash form), with a create+remove
//!              in the destination in between; then list, open by alias and by long name
//! 14 maxfat12  a FAT12 volume with the maximal 4084 clusters, filled through the library (all-zero data, `z<n>`
//!              payloads) up to cluster 0xFEF; then a file, a directory and appends whose chains link INTO the clusters
//!              0xFF0..0xFF5 (ordinary cluster numbers on such a volume); read back, truncate, remove
//!              (one history in 364 - one per quick run: it is about 20 000 trace lines long)
//!
//! Coverage-driven extras (appended after the numbered templates, ids continue; see /verif/COVERAGE.md):
//!  x0 shortdev     the volume is larger than its device: data writes and directory-cluster zeroing beyond the end of
//!                  the device transfer 0 bytes (File::write gives 0, write_all / create_dir give WriteZero)
//!  x1 formaterr    format_volume refusals: a device of 2^32 sectors with total=none, sector sizes the boot sector
//!                  validation rejects, cluster smaller than the sector, fat= forced against the cluster count, …
//!  x2 aliasexhaust all thirteen alias candidates of a name taken (NAME~1..~4 and the nine hash candidates), so that
//!                  the generator has to move on to the next hash value
//!  x4 sizechain    (opt-in) a size field patched (raw) to promise more than the chain holds / a size without a cluster
//!  x3 dotdotloop   a `..` entry patched (raw) to point at its own directory: the ancestor walk of rename must end
//!                  with CorruptedFileSystem, not loop
//!
//! Every history ends with: drop handles, list everything (bounded walk), stats, unmount, mount, list everything, unmount.
use super::*;
use crate::clock::ClockMode;
use crate::script::{Stamp, Whence};

struct E {
    cx: Ctx,
}

fn b(s: &str) -> Vec<u8> {
    s.as_bytes().to_vec()
}

impl E {
    fn mkdir(&mut self, path: &str) -> bool {
        let d = self.cx.new_d();
        if self.cx.step(Op::CreateDir { d: 0, path: b(path), new: d }).is_ok() {
            self.cx.step(Op::DropD(d));
            true
        } else {
            false
        }
    }
    fn mkfile(&mut self, path: &str, data: Vec<u8>) -> bool {
        let f = self.cx.new_f();
        if self.cx.step(Op::CreateFile { d: 0, path: b(path), new: f }).is_ok() {
            if !data.is_empty() {
                self.cx.step(Op::WriteAll { f, data });
            }
            self.cx.step(Op::DropF(f));
            true
        } else {
            false
        }
    }
    /// create_file through handle `d`; the handle is dropped at once when the call succeeds
    fn try_create_file(&mut self, d: u32, path: &str) {
        let f = self.cx.new_f();
        if self.cx.step(Op::CreateFile { d, path: b(path), new: f }).is_ok() {
            self.cx.step(Op::DropF(f));
        }
    }
    fn try_create_dir(&mut self, d: u32, path: &str) {
        let n = self.cx.new_d();
        if self.cx.step(Op::CreateDir { d, path: b(path), new: n }).is_ok() {
            self.cx.step(Op::List(n));
            self.cx.step(Op::DropD(n));
        }
    }
    fn try_open_dir(&mut self, d: u32, path: &str) {
        let n = self.cx.new_d();
        if self.cx.step(Op::OpenDir { d, path: b(path), new: n }).is_ok() {
            self.cx.step(Op::List(n));
            self.cx.step(Op::DropD(n));
        }
    }
    fn try_open_file(&mut self, d: u32, path: &str) {
        let f = self.cx.new_f();
        if self.cx.step(Op::OpenFile { d, path: b(path), new: f }).is_ok() {
            self.cx.step(Op::ReadAll(f));
            self.cx.step(Op::DropF(f));
        }
    }
    fn remove(&mut self, d: u32, path: &str) -> Out {
        self.cx.step(Op::Remove { d, path: b(path) })
    }
    fn rename(&mut self, d: u32, src: &str, d2: u32, dst: &str) -> Out {
        self.cx.step(Op::Rename { d, src: b(src), d2, dst: b(dst) })
    }
    fn open_handle(&mut self, path: &str) -> Option<u32> {
        let n = self.cx.new_d();
        if self.cx.step(Op::OpenDir { d: 0, path: b(path), new: n }).is_ok() {
            self.cx.dirs.insert(n, vec![b(path)]);
            Some(n)
        } else {
            None
        }
    }
    fn close_handle(&mut self, d: u32) {
        self.cx.step(Op::DropD(d));
        self.cx.dirs.remove(&d);
    }
    fn look(&mut self, paths: &[&str]) {
        self.cx.step(Op::List(0));
        for p in paths {
            self.try_open_dir(0, p);
        }
    }

    fn finish(mut self, sink: &mut Sink) {
        self.cx.resync();
        self.cx.closing_lists();
        if !self.cx.dead && self.cx.mounted {
            self.cx.step(Op::Unmount);
            if !self.cx.dead && self.cx.mount().is_ok() {
                self.cx.closing_lists();
                if !self.cx.dead {
                    self.cx.step(Op::Unmount);
                }
            }
        }
        self.cx.finish(sink);
    }
}

fn start(id: String, seed: u64, vol: VolCfg, clock: ClockMode) -> E {
    let mut cx = Ctx::new(id, "edge", seed, vol, Cfg::new(true, false, clock));
    cx.format();
    cx.mount();
    E { cx }
}

fn any_small(cat: &Catalogue, rng: &mut SplitMix64) -> VolCfg {
    cat.pick_small_cluster(rng, 2048)
}

fn tiny_root16(cat: &Catalogue, rng: &mut SplitMix64, max_cs: u32) -> VolCfg {
    let v: Vec<&VolCfg> = cat.tiny.iter().filter(|c| c.root_entries == 16 && c.cs <= max_cs && c.clusters >= 24).collect();
    (*rng.pick(&v)).clone()
}

fn tiny_any(cat: &Catalogue, rng: &mut SplitMix64, max_cs: u32) -> VolCfg {
    let v: Vec<&VolCfg> = cat.tiny.iter().filter(|c| c.cs <= max_cs && c.clusters >= 24).collect();
    (*rng.pick(&v)).clone()
}

// ---------------------------------------------------------------------------------------------------------------

fn t_dots(e: &mut E, rng: &mut SplitMix64) {
    e.mkdir("sub");
    e.mkdir("sub/q");
    e.mkfile("sub/f.txt", content(rng, 20));
    e.mkfile("sub/q/inner.txt", content(rng, 5));
    e.mkdir("a");
    e.mkdir("a/b");
    e.mkfile("top.txt", content(rng, 3));
    let n = rng.range(3, 7);
    for _ in 0..n {
        if e.cx.dead {
            return;
        }
        // through the root handle, or through a handle on `sub` that lives for this one operation only
        let hs = if rng.chance(1, 3) { e.open_handle("sub") } else { None };
        let (d, pre): (u32, &str) = match hs {
            Some(h) => (h, ""),
            None => (0, "sub/"),
        };
        let dot = if rng.chance(1, 2) { "." } else { ".." };
        let deep = rng.chance(1, 3);
        let target = if deep { format!("{}q/{}", pre, dot) } else { format!("{}{}", pre, dot) };
        match rng.below(16) {
            0 => e.try_create_file(d, &target),
            1 => e.try_create_file(0, dot),
            2 => e.try_create_dir(d, &target),
            3 => e.try_create_dir(0, dot),
            4 => e.try_open_dir(d, &target),
            5 => e.try_open_dir(0, *rng.pick(&[".", "..", "a/./b/../b", "a/b/../../sub/q/..", "sub/q/../../a/.", "./a"])),
            6 => e.try_open_file(d, &target),
            7 => {
                e.remove(d, &target);
            }
            8 => {
                e.remove(0, dot);
            }
            9 => {
                e.rename(d, &target, 0, "z");
            }
            10 => {
                e.rename(0, "a", d, &target);
            }
            11 => {
                e.rename(0, "top.txt", d, &target);
            }
            12 => {
                e.rename(0, "a", 0, *rng.pick(&["a/.", "a/..", "a/b/.", "a/b/..", ".", ".."]));
            }
            13 => {
                e.rename(0, *rng.pick(&["sub/q/..", "sub/q/.", "a/b/..", "a/.", ".", ".."]), 0, "moved");
            }
            14 => {
                e.rename(d, &target, d, &target);
            }
            _ => {
                e.remove(0, *rng.pick(&["a/b/.", "a/b/..", "a/.", "sub/q/..", "sub/q/."]));
            }
        }
        if e.cx.dead {
            return;
        }
        if let Some(h) = hs {
            e.close_handle(h);
        }
        e.look(&["sub", "a", "sub/q", "a/b"]);
    }
}

fn t_rootfull(e: &mut E, rng: &mut SplitMix64) {
    // 16-entry root; `d` holds the sources
    e.mkdir("d"); // 2 slots
    let long_src = rng.chance(1, 2);
    let src = if long_src { "d/source with a long name.txt" } else { "d/SRC.TXT" };
    e.mkfile(src, content(rng, 9));
    e.mkdir("d/subdir to move");
    // fill the root: every 8.3 name takes 2 slots; leave `free` slots
    let free = rng.below(5) as usize; // 0..4
    let mut used = 2;
    let mut i = 0;
    while used + 2 <= 16 - free {
        e.mkfile(&format!("FILL{}.BIN", i), Vec::new());
        used += 2;
        i += 1;
    }
    if used < 16 - free {
        // odd number of slots left to use up: a short name created in the root still takes 2, so use a 3-slot name
        // (only possible when there is room); otherwise leave it
    }
    e.cx.step(Op::List(0));
    // destination needs 2 (short), 3 (14–26 units) or 4 slots
    let dst = *rng.pick(&["D.T", "destination name.txt", "a destination with a name of 40 units.tx"]);
    e.rename(0, src, 0, dst);
    e.look(&["d"]);
    e.rename(0, "d/subdir to move", 0, dst);
    e.look(&["d"]);
    // make room and try again
    e.remove(0, "FILL0.BIN");
    e.rename(0, src, 0, dst);
    e.rename(0, "d/subdir to move", 0, "moved dir");
    e.look(&["d"]);
}

fn t_volfull(e: &mut E, rng: &mut SplitMix64) {
    let cs = e.cx.vol.cs as usize;
    e.mkdir("dst");
    e.mkdir("src");
    let slots = cs / 32;
    let mut used = 2;
    let mut i = 0;
    while used + 2 <= slots {
        e.mkfile(&format!("dst/e{:03}", i), Vec::new());
        used += 2;
        i += 1;
    }
    e.mkfile("src/mover with a long name.txt", content(rng, 10));
    e.mkdir("src/dir mover");
    e.mkfile("src/small.bin", content(rng, 1));
    let f = e.cx.new_f();
    if e.cx.step(Op::CreateFile { d: 0, path: b("src/filler.bin"), new: f }).is_ok() {
        for _ in 0..200 {
            if !e.cx.step(Op::WriteAll { f, data: content(rng, cs.min(4096)) }).is_ok() {
                break;
            }
        }
        e.cx.step(Op::DropF(f));
    }
    e.cx.step(Op::Stats);
    let one_free = rng.chance(1, 3);
    if one_free {
        e.remove(0, "src/small.bin");
        e.cx.step(Op::Stats);
    }
    match rng.below(3) {
        0 => {
            e.rename(0, "src/mover with a long name.txt", 0, "dst/moved here.txt");
        }
        1 => {
            e.rename(0, "src/dir mover", 0, "dst/moved dir");
        }
        _ => {
            e.rename(0, "dst/e000", 0, "dst/e000 with a much longer name than before.dat");
        }
    }
    e.cx.step(Op::Stats);
    e.look(&["src", "dst"]);
    // creating in the full directory must fail the same way and leave nothing behind
    e.try_create_file(0, "dst/created when full.txt");
    e.try_create_dir(0, "dst/dir when full");
    e.cx.step(Op::Stats);
    e.look(&["dst"]);
}

fn t_subtree(e: &mut E, rng: &mut SplitMix64) {
    e.mkdir("a");
    e.mkdir("a/b");
    e.mkdir("a/b/c");
    e.mkfile("a/b/c/leaf.txt", content(rng, 12));
    e.mkfile("a/file in a.txt", content(rng, 4));
    e.mkdir("p1");
    e.mkdir("p2");
    e.mkdir("p1/k");
    e.mkfile("p1/k/inside.txt", content(rng, 7));
    for _ in 0..rng.range(2, 5) {
        if e.cx.dead {
            return;
        }
        match rng.below(12) {
            0 => {
                e.rename(0, "a", 0, "a/x");
            }
            1 => {
                e.rename(0, "a", 0, "a/b/x");
            }
            2 => {
                e.rename(0, "a", 0, "a/b/c/x");
            }
            3 => {
                e.rename(0, "a/b", 0, "a/b/c/../c/x");
            }
            4 => {
                e.rename(0, "a", 0, "a/b/../../a/b/y");
            }
            5 => {
                if let Some(h) = e.open_handle("a/b") {
                    e.rename(0, "a", h, "x");
                    e.rename(h, "..", 0, "z"); // the parent through `..`
                    e.close_handle(h);
                }
            }
            6 => {
                e.rename(0, "a/b", 0, "a/b");
            }
            7 => {
                // legitimate: move up, then walk through `..`
                e.rename(0, "a/b", 0, "top");
                e.try_open_dir(0, "top/..");
                e.try_open_dir(0, "top/c/../..");
                e.try_open_dir(0, "top/c/../../a");
                e.try_open_file(0, "top/c/leaf.txt");
            }
            8 => {
                e.rename(0, "p1/k", 0, "p2/k");
                e.try_open_dir(0, "p2/k/..");
                e.try_open_dir(0, "p2/k/../../p1");
                e.try_open_file(0, "p2/k/../k/inside.txt");
                e.try_open_dir(0, "p1/k");
            }
            9 => {
                // into a sibling, then back out one level higher
                e.rename(0, "p1", 0, "p2/p1 moved");
                e.try_open_dir(0, "p2/p1 moved/k/../..");
                e.rename(0, "p2/p1 moved/k", 0, "k at top");
                e.try_open_dir(0, "k at top/..");
            }
            10 => {
                if let Some(h) = e.open_handle("p2") {
                    e.rename(0, "p1/k", h, "via handle");
                    e.try_open_dir(h, "via handle/..");
                    e.close_handle(h);
                }
            }
            _ => {
                e.rename(0, "a/b/c", 0, "a/c moved up");
                e.try_open_dir(0, "a/c moved up/../b");
                e.rename(0, "a", 0, "a/c moved up/a");
            }
        }
        if e.cx.dead {
            return;
        }
        e.look(&["a", "a/b", "p1", "p2"]);
    }
    e.cx.step(Op::Stats);
}

/// name that takes exactly `slots` directory slots (slots − 1 long-name slots)
fn name_for_slots(slots: usize, tag: &str) -> String {
    let units = (slots - 1) * 13;
    let mut s = format!("{}-", tag);
    let mut i = 0;
    while s.len() < units - 4 {
        s.push((b'a' + (i % 26) as u8) as char);
        i += 1;
    }
    s.push_str(".txt");
    s
}

fn t_slots(e: &mut E, rng: &mut SplitMix64) {
    let dir = if rng.chance(1, 2) {
        e.mkdir("dir");
        "dir/"
    } else {
        ""
    };
    let n = rng.range(2, 5) as usize; // the run that will be freed
    e.mkfile(&format!("{}{}", dir, name_for_slots(3, "first")), content(rng, 3));
    e.mkfile(&format!("{}{}", dir, name_for_slots(n, "victim")), content(rng, 3));
    e.mkfile(&format!("{}{}", dir, name_for_slots(2, "last")), content(rng, 3));
    for round in 0..rng.range(1, 3) {
        let victim = if round == 0 {
            format!("{}{}", dir, name_for_slots(n, "victim"))
        } else {
            format!("{}{}", dir, name_for_slots(n, &format!("again{}", round - 1)))
        };
        e.remove(0, &victim);
        // a newcomer of n−1, n or n+1 slots; then fill up what is left of the hole
        let k = (n as i64 + rng.range(0, 2) as i64 - 1).max(2) as usize;
        e.mkfile(&format!("{}{}", dir, name_for_slots(k, &format!("new{}", round))), content(rng, 2));
        if rng.chance(1, 2) {
            e.mkfile(&format!("{}{}", dir, name_for_slots(2, &format!("gap{}", round))), Vec::new());
        }
        if dir.is_empty() {
            e.cx.step(Op::List(0));
        } else {
            e.try_open_dir(0, "dir");
        }
        // put a run of n back for the next round
        e.remove(0, &format!("{}{}", dir, name_for_slots(k, &format!("new{}", round))));
        e.mkfile(&format!("{}{}", dir, name_for_slots(n, &format!("again{}", round))), Vec::new());
    }
}

fn t_trailing(e: &mut E, rng: &mut SplitMix64) {
    let names = [
        "a.", "a ", "a. .", "a..", ".", "..", "...", " ", "  ", ". .", " a", "a.b.", "x .txt", ".a.", "a", "A.", " .txt",
        "name. ", "....txt",
    ];
    let dir = if rng.chance(1, 3) {
        e.mkdir("t");
        "t/"
    } else {
        ""
    };
    let mut made: Vec<(String, bool)> = Vec::new();
    for _ in 0..rng.range(3, 6) {
        if e.cx.dead {
            return;
        }
        let n = *rng.pick(&names);
        let p = format!("{}{}", dir, n);
        let as_dir = rng.chance(1, 4);
        let ok = if as_dir {
            let d = e.cx.new_d();
            let r = e.cx.step(Op::CreateDir { d: 0, path: b(&p), new: d }).is_ok();
            if r {
                e.cx.step(Op::DropD(d));
            }
            r
        } else {
            e.mkfile(&p, content(rng, 4))
        };
        if dir.is_empty() {
            e.cx.step(Op::List(0));
        } else {
            e.try_open_dir(0, "t");
        }
        // look it up again: by the same spelling, and with trailing dots and spaces removed
        let trimmed = format!("{}{}", dir, n.trim_end_matches(['.', ' ']));
        if as_dir {
            e.try_open_dir(0, &p);
            e.try_open_dir(0, &trimmed);
        } else {
            e.try_open_file(0, &p);
            e.try_open_file(0, &trimmed);
        }
        if ok {
            if rng.chance(1, 4) {
                let m = *rng.pick(&names);
                let q = format!("{}{}", dir, m);
                if e.rename(0, &p, 0, &q).is_ok() {
                    made.push((q, as_dir));
                    continue;
                }
            }
            made.push((p, as_dir));
        }
    }
    // remove what was made, by the names used to make it
    for (p, _) in made {
        if e.cx.dead {
            return;
        }
        if rng.chance(2, 3) {
            e.remove(0, &p);
        }
    }
    if dir.is_empty() {
        e.cx.step(Op::List(0));
    } else {
        e.try_open_dir(0, "t");
    }
}

fn t_long255(e: &mut E, rng: &mut SplitMix64) {
    // fixed root of 16 or 32 entries; a 255-unit name takes 21 slots
    let mk = |c: char, ext: &str| -> String {
        let mut s: String = std::iter::repeat(c).take(255 - ext.len()).collect();
        s.push_str(ext);
        s
    };
    let small = rng.below(5);
    for i in 0..small {
        e.mkfile(&format!("S{}.X", i), Vec::new());
    }
    e.mkfile(&mk('x', ".txt"), content(rng, 5));
    e.cx.step(Op::List(0));
    e.mkfile(&mk('y', ".txt"), content(rng, 5));
    e.try_create_dir(0, &mk('d', ""));
    e.cx.step(Op::List(0));
    e.mkfile("after.txt", content(rng, 2));
    e.rename(0, "after.txt", 0, &mk('r', ".ren"));
    e.rename(0, &mk('x', ".txt"), 0, "short.txt");
    e.cx.step(Op::List(0));
    e.mkfile(&mk('z', ".txt"), content(rng, 5));
    e.try_open_file(0, &mk('Z', ".TXT"));
    // 256 units
    e.try_create_file(0, &mk('w', ".txtx"));
    e.cx.step(Op::List(0));
    e.cx.step(Op::Stats);
}

fn t_twohandle(e: &mut E, rng: &mut SplitMix64) {
    let cs = e.cx.vol.cs as usize;
    let dir = if rng.chance(1, 2) {
        e.mkdir("both");
        "both/"
    } else {
        ""
    };
    let (f1, f2) = (e.cx.new_f(), e.cx.new_f());
    let (p1, p2) = (format!("{}one.txt", dir), format!("{}second file.txt", dir));
    if !e.cx.step(Op::CreateFile { d: 0, path: b(&p1), new: f1 }).is_ok() {
        return;
    }
    if !e.cx.step(Op::CreateFile { d: 0, path: b(&p2), new: f2 }).is_ok() {
        e.cx.step(Op::DropF(f1));
        return;
    }
    for _ in 0..rng.range(3, 8) {
        let f = if rng.chance(1, 2) { f1 } else { f2 };
        match rng.below(8) {
            0..=3 => {
                let len = *rng.pick(&[1, 10, cs - 1, cs, cs + 1, 2 * cs + 3]);
                e.cx.step(Op::WriteAll { f, data: content(rng, len.min(6000)) });
            }
            4 => {
                e.cx.step(Op::Flush(f));
            }
            5 => {
                e.cx.step(Op::Seek { f, whence: Whence::Start, n: rng.below(cs as u64 + 2) as i64 });
            }
            6 => {
                e.cx.step(Op::Truncate(f));
            }
            _ => {
                e.cx.step(Op::Seek { f, whence: Whence::Start, n: 0 });
                e.cx.step(Op::ReadAll(f));
            }
        }
    }
    let (first, second) = if rng.chance(1, 2) { (f1, f2) } else { (f2, f1) };
    e.cx.step(Op::DropF(first));
    if dir.is_empty() {
        e.cx.step(Op::List(0));
    } else {
        e.try_open_dir(0, "both");
    }
    e.cx.step(Op::WriteAll { f: second, data: content(rng, 5) });
    e.cx.step(Op::DropF(second));
    e.try_open_file(0, &p1);
    e.try_open_file(0, &p2);
    e.cx.step(Op::Stats);
}

fn t_rewrite(e: &mut E, rng: &mut SplitMix64) {
    let cs = e.cx.vol.cs as usize;
    let f = e.cx.new_f();
    if !e.cx.step(Op::CreateFile { d: 0, path: b("rewrite me.bin"), new: f }).is_ok() {
        return;
    }
    e.cx.step(Op::WriteAll { f, data: content(rng, (2 * cs + cs / 2).min(9000)) });
    if rng.chance(1, 2) {
        e.cx.step(Op::Flush(f));
    }
    e.cx.step(Op::Stats);
    e.cx.step(Op::Seek { f, whence: Whence::Start, n: 0 });
    e.cx.step(Op::Truncate(f));
    e.cx.step(Op::Stats);
    e.cx.step(Op::Extents(f));
    let len = *rng.pick(&[0, 1, cs, cs + 1, 3 * cs]);
    e.cx.step(Op::WriteAll { f, data: content(rng, len.min(9000)) });
    e.cx.step(Op::Seek { f, whence: Whence::Start, n: 0 });
    e.cx.step(Op::ReadAll(f));
    e.cx.step(Op::Extents(f));
    if rng.chance(1, 2) {
        // once more, this time from the middle down to 0 in two steps
        e.cx.step(Op::Seek { f, whence: Whence::Start, n: (len / 2) as i64 });
        e.cx.step(Op::Truncate(f));
        e.cx.step(Op::Seek { f, whence: Whence::Start, n: 0 });
        e.cx.step(Op::Truncate(f));
        e.cx.step(Op::Write { f, data: content(rng, 7) });
    }
    e.cx.step(Op::DropF(f));
    e.try_open_file(0, "rewrite me.bin");
    e.cx.step(Op::Stats);
}

fn t_hugeseek(e: &mut E, rng: &mut SplitMix64) {
    let f = e.cx.new_f();
    if !e.cx.step(Op::CreateFile { d: 0, path: b("seek.bin"), new: f }).is_ok() {
        return;
    }
    if rng.chance(2, 3) {
        let len = rng.range(1, 3 * e.cx.vol.cs as u64).min(5000) as usize;
        e.cx.step(Op::WriteAll { f, data: content(rng, len) });
    }
    let m = u32::MAX as i64;
    for _ in 0..rng.range(3, 8) {
        let (whence, n) = match rng.below(12) {
            0 => (Whence::Start, m - 1),
            1 => (Whence::Start, m),
            2 => (Whence::Start, m + 1),
            3 => (Whence::Start, (1i64 << 32) + 5),
            4 => (Whence::Start, i64::MAX),
            5 => (Whence::End, 1i64 << 31),
            6 => (Whence::End, m),
            7 => (Whence::End, i64::MIN),
            8 => (Whence::Cur, i64::MAX),
            9 => (Whence::Cur, i64::MIN),
            10 => (Whence::Cur, m),
            _ => (Whence::End, -1),
        };
        e.cx.step(Op::Seek { f, whence, n });
        match rng.below(4) {
            0 => {
                e.cx.step(Op::Write { f, data: content(rng, 3) });
            }
            1 => {
                e.cx.step(Op::Read { f, n: 4 });
            }
            2 => {
                e.cx.step(Op::Seek { f, whence: Whence::Cur, n: 0 });
            }
            _ => {}
        }
    }
    e.cx.step(Op::Seek { f, whence: Whence::Start, n: 0 });
    e.cx.step(Op::ReadAll(f));
    e.cx.step(Op::DropF(f));
}

fn t_stamps(e: &mut E, rng: &mut SplitMix64) {
    e.mkdir("other");
    let f = e.cx.new_f();
    if !e.cx.step(Op::CreateFile { d: 0, path: b("stamped.txt"), new: f }).is_ok() {
        return;
    }
    if rng.chance(1, 2) {
        e.cx.step(Op::WriteAll { f, data: content(rng, 6) });
    }
    let st = |rng: &mut SplitMix64| Stamp {
        y: *rng.pick(&[1980, 1999, 2038, 2107]),
        m: rng.range(1, 12) as u16,
        d: rng.range(1, 28) as u16,
        h: rng.range(0, 23) as u16,
        mi: rng.range(0, 59) as u16,
        s: rng.range(0, 59) as u16,
        ms: *rng.pick(&[0, 5, 10, 990, 999]),
    };
    let t1 = st(rng);
    let t2 = st(rng);
    let t3 = st(rng);
    e.cx.step(Op::SetCreated { f, t: t1 });
    e.cx.step(Op::SetModified { f, t: t2 });
    e.cx.step(Op::SetAccessed { f, y: t3.y, m: t3.m, d: t3.d });
    match rng.below(3) {
        0 => {
            e.cx.step(Op::Flush(f));
            let t4 = st(rng);
            e.cx.step(Op::SetModified { f, t: t4 });
        }
        1 => {
            // a write after set_modified replaces the modification time by the clock
            e.cx.step(Op::WriteAll { f, data: content(rng, 2) });
        }
        _ => {}
    }
    e.cx.step(Op::DropF(f));
    e.cx.step(Op::List(0));
    let dst = if rng.chance(1, 2) { "other/stamped and moved.txt" } else { "stamped renamed.txt" };
    e.rename(0, "stamped.txt", 0, dst);
    e.look(&["other"]);
    // the same for a directory
    e.rename(0, "other", 0, "other renamed");
    e.look(&["other renamed"]);
}

/// Several mount sessions on one volume, each of one kind — only allocating, only releasing (remove / truncate),
/// only reading — with `stats` before every unmount and after every mount: what a session leaves in the FS-information
/// sector is what the next one starts from.
fn t_sessions(e: &mut E, rng: &mut SplitMix64) {
    let cs = e.cx.vol.cs as usize;
    let n = rng.range(3, 6) as usize;
    e.mkdir("keep");
    for i in 0..n {
        let len = cs * (i % 3) + 1 + rng.below(cs as u64) as usize;
        e.mkfile(&format!("keep/file{}.bin", i), content(rng, len));
    }
    e.mkdir("gone");
    e.mkfile("gone/a.bin", content(rng, 2 * cs + 1));
    e.mkfile("gone/b with a long name.bin", content(rng, cs));
    e.cx.step(Op::Stats);
    let mut alive: Vec<usize> = (0..n).collect();
    for round in 0..rng.range(2, 4) {
        // end the session one way or the other, start the next
        if rng.chance(1, 4) {
            e.cx.step(Op::DropFs);
        } else {
            e.cx.step(Op::Unmount);
        }
        if e.cx.dead || !e.cx.mount().is_ok() {
            return;
        }
        e.cx.step(Op::Stats);
        match (round + rng.below(2)) % 3 {
            0 => {
                // releasing only
                if round == 0 {
                    e.remove(0, "gone/a.bin");
                    e.remove(0, "gone/b with a long name.bin");
                    e.remove(0, "gone");
                }
                if alive.len() > 1 {
                    let k = alive.remove(rng.below(alive.len() as u64) as usize);
                    e.remove(0, &format!("keep/file{}.bin", k));
                }
                if let Some(&k) = alive.first() {
                    let f = e.cx.new_f();
                    if e.cx.step(Op::OpenFile { d: 0, path: b(&format!("keep/file{}.bin", k)), new: f }).is_ok() {
                        e.cx.step(Op::Seek { f, whence: Whence::Start, n: rng.below(cs as u64 + 2) as i64 });
                        e.cx.step(Op::Truncate(f));
                        e.cx.step(Op::DropF(f));
                    }
                }
            }
            1 => {
                // reading only
                e.look(&["keep"]);
                if let Some(&k) = alive.last() {
                    e.try_open_file(0, &format!("keep/file{}.bin", k));
                }
            }
            _ => {
                // allocating only
                e.mkfile(&format!("keep/new{}.bin", round), content(rng, cs + 1));
            }
        }
        e.cx.step(Op::Stats);
    }
}

fn t_aliasmove(e: &mut E, rng: &mut SplitMix64) {
    // long names sharing the alias stem TEXTFI (…~1.TXT, ~2.TXT, …; from the fifth collision on the hash form)
    let family = [
        "TextFile.Mine.txt",
        "TextFile.Other.txt",
        "TextFile.Third.txt",
        "TextFile number four.txt",
        "textfile-5.txt",
        "TextFiles and more.txt",
        "TEXTFILE.SEVEN.TXT",
    ];
    let (a, bdir) = match rng.below(4) {
        0 => ("", "archive"),   // from the root into a directory
        1 => ("inbox", ""),     // from a directory into the root
        _ => ("inbox", "archive"),
    };
    for d in [a, bdir] {
        if !d.is_empty() {
            e.mkdir(d);
        }
    }
    let join = |d: &str, n: &str| if d.is_empty() { n.to_string() } else { format!("{}/{}", d, n) };
    let as_dir = rng.chance(1, 5);
    let make = |e: &mut E, rng: &mut SplitMix64, path: &str| {
        if as_dir {
            e.mkdir(path);
        } else {
            e.mkfile(path, content(rng, 11));
        }
    };
    // source directory: 0–1 other family members first, then the one that moves
    let c_a = rng.below(2) as usize;
    for n in family.iter().skip(1).take(c_a) {
        make(e, rng, &join(a, n));
    }
    let x = family[0];
    make(e, rng, &join(a, x));
    // destination directory: other members of the family (never x itself)
    let c_b = *rng.pick(&[1usize, 1, 2, 2, 4, 5, 6]);
    for n in family.iter().skip(1).take(c_b) {
        e.mkfile(&join(bdir, n), content(rng, 5));
    }
    if rng.chance(1, 2) {
        // a deletion in between shifts the numbering (leaves a hole in ~1…~n)
        let victim = family[1 + rng.below(c_b as u64) as usize];
        e.remove(0, &join(bdir, victim));
        if rng.chance(1, 2) {
            e.mkfile(&join(bdir, "TextFile put back.txt"), content(rng, 3));
        }
    }
    e.look(&[a, bdir].iter().filter(|d| !d.is_empty()).cloned().collect::<Vec<_>>());
    // the move keeps the name (sometimes spelt in another case, sometimes through a handle on the destination)
    let dst_name = match rng.below(4) {
        0 => x.to_uppercase(),
        1 => x.to_lowercase(),
        _ => x.to_string(),
    };
    if !bdir.is_empty() && rng.chance(1, 3) {
        if let Some(h) = e.open_handle(bdir) {
            e.rename(0, &join(a, x), h, &dst_name);
            e.close_handle(h);
        }
    } else {
        e.rename(0, &join(a, x), 0, &join(bdir, &dst_name));
    }
    e.look(&[a, bdir].iter().filter(|d| !d.is_empty()).cloned().collect::<Vec<_>>());
    // by alias and by long name
    for alias in ["TEXTFI~1.TXT", "TEXTFI~2.TXT", "TEXTFI~3.TXT"] {
        if as_dir {
            e.try_open_dir(0, &join(bdir, alias));
        } else {
            e.try_open_file(0, &join(bdir, alias));
        }
    }
    if as_dir {
        e.try_open_dir(0, &join(bdir, x));
    } else {
        e.try_open_file(0, &join(bdir, x));
    }
    // one more newcomer in the destination, then the way back
    e.mkfile(&join(bdir, "TextFile newcomer.txt"), content(rng, 2));
    if rng.chance(1, 2) {
        e.rename(0, &join(bdir, x), 0, &join(a, x));
    }
    e.look(&[a, bdir].iter().filter(|d| !d.is_empty()).cloned().collect::<Vec<_>>());
}

fn t_maxfat12(e: &mut E, rng: &mut SplitMix64) {
    let cs = e.cx.vol.cs as usize; // 512
    let clusters = e.cx.vol.clusters as usize; // 4084: cluster numbers 2..=0xFF5
    e.mkdir("d"); // cluster 2
    // the big file takes the clusters 3..=0xFEF (a few large writes of zeros), leaving 0xFF0..=0xFF5 free
    let big = e.cx.new_f();
    if !e.cx.step(Op::CreateFile { d: 0, path: b("big.bin"), new: big }).is_ok() {
        return;
    }
    let take = clusters - 1 - 6;
    let mut left = take * cs;
    while left > 0 {
        let n = left.min(1000 * cs);
        if !e.cx.step(Op::WriteAll { f: big, data: vec![0u8; n] }).is_ok() {
            break;
        }
        left -= n;
    }
    e.cx.step(Op::Flush(big));
    e.cx.step(Op::Stats);
    // a small file whose second cluster is reached through a link into the top range
    let f = e.cx.new_f();
    if e.cx.step(Op::CreateFile { d: 0, path: b("d/two clusters.bin"), new: f }).is_ok() {
        e.cx.step(Op::WriteAll { f, data: content(rng, cs + 40) });
        e.cx.step(Op::DropF(f));
    }
    // the big file grows by one more cluster: link 0xFEF -> 0xFF2 (or so)
    e.cx.step(Op::WriteAll { f: big, data: content(rng, 300) });
    e.cx.step(Op::Extents(big));
    e.cx.step(Op::DropF(big));
    // the directory grows (its second cluster comes from the top as well)
    for i in 0..8 {
        if !e.mkfile(&format!("d/entry with a long name {}.txt", i), Vec::new()) {
            break;
        }
    }
    e.cx.step(Op::Stats);
    e.look(&["d"]);
    // read back across the links
    e.try_open_file(0, "d/two clusters.bin");
    let f = e.cx.new_f();
    if e.cx.step(Op::OpenFile { d: 0, path: b("big.bin"), new: f }).is_ok() {
        e.cx.step(Op::Seek { f, whence: Whence::End, n: -310 });
        e.cx.step(Op::Read { f, n: 400 });
        e.cx.step(Op::Seek { f, whence: Whence::Start, n: (take * cs) as i64 - 5 });
        e.cx.step(Op::ReadX { f, n: 20 });
        // cut the tail off again, then once more far down
        e.cx.step(Op::Seek { f, whence: Whence::Start, n: (take * cs) as i64 - 1 });
        e.cx.step(Op::Truncate(f));
        e.cx.step(Op::Stats);
        e.cx.step(Op::Seek { f, whence: Whence::Start, n: 3 * cs as i64 });
        e.cx.step(Op::Truncate(f));
        e.cx.step(Op::DropF(f));
    }
    e.cx.step(Op::Stats);
    e.remove(0, "d/two clusters.bin");
    e.cx.step(Op::Stats);
}

fn one(id: String, seed: u64, n: u64, cat: &Catalogue, rng: &mut SplitMix64, sink: &mut Sink) {
    // (the maximal-FAT12 history is long: it takes the place of one alias-move history in four)
    let template = if n % 13 == 12 && (n / 13) % 28 == 0 { 13 } else { n % 13 };
    let clock = if template == 10 && rng.chance(1, 2) { ClockMode::Tick } else { ClockMode::Const };
    let vol = match template {
        13 => candidate(VolClass::Mid, 512, 1, 4084, 1 + (n / 13 / 28 % 2) as u8, 512, 0).expect("maximal FAT12 volume"),
        1 => tiny_root16(cat, rng, 1024),
        2 => tiny_any(cat, rng, 1024),
        6 => {
            // fixed roots of 16 / 32 entries, sometimes a bigger one
            if rng.chance(4, 5) {
                tiny_any(cat, rng, 2048)
            } else {
                rng.pick(&cat.mid).clone()
            }
        }
        11 => {
            // the FS-information sector exists on FAT32 only
            if rng.chance(3, 4) {
                rng.pick(&cat.fat32).clone()
            } else {
                any_small(cat, rng)
            }
        }
        _ => any_small(cat, rng),
    };
    let mut e = start(id, seed, vol, clock);
    if e.cx.mounted {
        match template {
            0 => t_dots(&mut e, rng),
            1 => t_rootfull(&mut e, rng),
            2 => t_volfull(&mut e, rng),
            3 => t_subtree(&mut e, rng),
            4 => t_slots(&mut e, rng),
            5 => t_trailing(&mut e, rng),
            6 => t_long255(&mut e, rng),
            7 => t_twohandle(&mut e, rng),
            8 => t_rewrite(&mut e, rng),
            9 => t_hugeseek(&mut e, rng),
            11 => t_sessions(&mut e, rng),
            12 => t_aliasmove(&mut e, rng),
            13 => t_maxfat12(&mut e, rng),
            _ => t_stamps(&mut e, rng),
        }
    }
    e.finish(sink);
}

fn x_shortdev(id: String, seed: u64, cat: &Catalogue, rng: &mut SplitMix64, sink: &mut Sink) {
    // the volume is described by an explicit sector count; the device ends inside the data area
    let mut vol = tiny_any(cat, rng, 1024);
    let bps = vol.bps as u64;
    let root_secs = (vol.root_entries as u64 * 32 + bps - 1) / bps;
    let data_off = (vol.reserved as u64 + vol.fats as u64 * vol.spf as u64 + root_secs) * bps;
    let total = (data_off / bps + vol.clusters as u64 * (vol.cs as u64 / bps)) as u32;
    vol.fmt.total = Some(total);
    let present = rng.range(3, 9); // clusters that exist on the device
    vol.dev_size = data_off + present * vol.cs as u64 + rng.below(2) * (vol.cs as u64 / 2);
    let cs = vol.cs as usize;
    let (bits, last_cluster) = (vol.bits, vol.clusters + 1);
    let root_off = (vol.reserved as u64 + vol.fats as u64 * vol.spf as u64) * bps;
    let mut e = start(id, seed, vol, ClockMode::Const);
    if e.cx.mounted {
        e.mkfile("Z.BIN", content(rng, 9)); // first root entry: long-name slot, short entry at +32
        let f = e.cx.new_f();
        if e.cx.step(Op::CreateFile { d: 0, path: b("grows off the device.bin"), new: f }).is_ok() {
            for _ in 0..present + 2 {
                let data = content(rng, cs);
                let r = if rng.chance(1, 2) { e.cx.step(Op::Write { f, data }) } else { e.cx.step(Op::WriteAll { f, data }) };
                if !r.is_ok() {
                    break;
                }
            }
            e.cx.step(Op::Write { f, data: content(rng, 5) });
            e.cx.step(Op::Seek { f, whence: Whence::Start, n: 0 });
            e.cx.step(Op::ReadAll(f));
            e.cx.step(Op::Extents(f));
            e.cx.step(Op::DropF(f));
        }
        e.cx.step(Op::Stats);
        // a directory whose first cluster would lie beyond the device
        e.try_create_dir(0, "dir off the device");
        e.mkfile("small.txt", content(rng, 3));
        e.cx.step(Op::Stats);
        if bits != 32 {
            // a file whose (only) cluster lies beyond the end of the device: the device read transfers nothing
            e.cx.step(Op::Unmount);
            e.cx.step(Op::Raw(vec![(root_off + 32 + 26, (last_cluster as u16).to_le_bytes().to_vec())]));
            if e.cx.mount().is_ok() {
                let f = e.cx.new_f();
                if e.cx.step(Op::OpenFile { d: 0, path: b("Z.BIN"), new: f }).is_ok() {
                    e.cx.step(Op::Read { f, n: 5 });
                    e.cx.step(Op::ReadAll(f));
                    e.cx.step(Op::DropF(f));
                }
            }
        }
    }
    e.finish(sink);
}

fn x_formaterr(id: String, seed: u64, k: u64, cat: &Catalogue, rng: &mut SplitMix64, sink: &mut Sink) {
    let base = tiny_any(cat, rng, 1024);
    let mut vol = base.clone();
    match k % 8 {
        0 => {
            // 2^32 sectors of 512 bytes: one too many for the 32-bit sector count
            vol.dev_size = 1u64 << 41;
            vol.fmt = FormatArgs::default();
        }
        1 => {
            // a layout can be found, but the finished boot sector does not pass validation (sector size > 4096)
            vol.dev_size = 1 << 24;
            vol.fmt = FormatArgs { bps: 8192, ..FormatArgs::default() };
        }
        2 => {
            vol.fmt.bps = 4096;
            vol.fmt.bpc = Some(512);
        }
        3 => vol.fmt.fat = Some(32),
        4 => vol.fmt.fat = Some(16),
        5 => {
            // a FAT12/16 volume without root directory entries is refused by the validation as well
            vol.dev_size = 1 << 20;
            vol.fmt = FormatArgs { root: 0, ..FormatArgs::default() };
        }
        6 => {
            // too small for anything
            vol.dev_size = 512 * rng.range(1, 10);
            vol.fmt = FormatArgs::default();
        }
        _ => {
            vol.fmt.total = Some(u32::MAX);
            vol.fmt.bpc = Some(512);
        }
    }
    let mut cx = Ctx::new(id, "edge", seed, vol, Cfg::new(true, false, ClockMode::Const));
    let ok = cx.format().is_ok();
    // whatever format said, a mount attempt follows; after a refusal the old content (nothing) must still be there
    if cx.mount().is_ok() {
        cx.step(Op::Stats);
        cx.step(Op::List(0));
        cx.step(Op::Unmount);
    }
    if !ok {
        // a proper format afterwards works
        cx.vol = base.clone();
        if base.dev_size <= cx.h.dev_size {
            let mut f = base.fmt.clone();
            if f.total.is_none() {
                // the device of this history may be larger than the base volume
                let bps = base.bps as u64;
                f.total = Some((base.dev_size / bps) as u32);
            }
            if cx.step(Op::Format(f)).is_ok() && cx.mount().is_ok() {
                cx.step(Op::Stats);
                cx.step(Op::Unmount);
            }
        }
    }
    cx.finish(sink);
}

fn x_aliasexhaust(id: String, seed: u64, cat: &Catalogue, rng: &mut SplitMix64, sink: &mut Sink) {
    let vol = loop {
        let v = any_small(cat, rng);
        if v.bits == 32 || v.root_entries >= 64 {
            break v;
        }
    };
    let mut e = start(id, seed, vol, ClockMode::Const);
    if e.cx.mounted {
        let dir = if rng.chance(1, 2) {
            e.mkdir("many");
            "many/"
        } else {
            ""
        };
        let name = *rng.pick(&["longfilename of mine.txt", "Another Long Name.dat", "x y z long name"]);
        // (chksum, …, short name) of a fresh generator for this name
        let (chk, _, _, blen, short) = fatfs::verif_dir::short_name_gen_new(name);
        let ext: String = short[8..].iter().map(|c| *c as char).collect::<String>().trim_end().to_string();
        let with_ext = |stem: String| if ext.is_empty() { stem } else { format!("{}.{}", stem, ext) };
        let p6: String = short[..6.min(blen)].iter().map(|c| *c as char).collect();
        let p2: String = short[..2.min(blen)].iter().map(|c| *c as char).collect();
        // the four prefix candidates and the nine hash candidates, created as 8.3 names of their own
        for i in 1..=4 {
            e.mkfile(&format!("{}{}", dir, with_ext(format!("{}~{}", p6, i))), Vec::new());
        }
        let rounds = rng.range(1, 2);
        for r in 0..rounds {
            let h = chk.wrapping_add(r as u16);
            for i in 1..=9 {
                e.mkfile(&format!("{}{}", dir, with_ext(format!("{}{:04X}~{}", p2, h, i))), Vec::new());
            }
        }
        e.mkfile(&format!("{}{}", dir, name), content(rng, 6));
        if dir.is_empty() {
            e.cx.step(Op::List(0));
        } else {
            e.try_open_dir(0, "many");
        }
        e.try_open_file(0, &format!("{}{}", dir, name));
    }
    e.finish(sink);
}

fn x_dotdotloop(id: String, seed: u64, cat: &Catalogue, rng: &mut SplitMix64, sink: &mut Sink) {
    // FAT12/16 volume with 512..1024-byte clusters: the first directory created gets cluster 2
    let vol = loop {
        let v = tiny_any(cat, rng, 1024);
        if v.bits != 32 {
            break v;
        }
    };
    let bps = vol.bps as u64;
    let root_secs = (vol.root_entries as u64 * 32 + bps - 1) / bps;
    let data_off = (vol.reserved as u64 + vol.fats as u64 * vol.spf as u64 + root_secs) * bps;
    let mut e = start(id, seed, vol, ClockMode::Const);
    if e.cx.mounted {
        e.mkdir("a"); // cluster 2: `.` at +0, `..` at +32 (first cluster low word at +26)
        e.mkdir("mover");
        e.mkfile("a/f.txt", content(rng, 4));
        e.cx.step(Op::Unmount);
        e.cx.step(Op::Raw(vec![(data_off + 32 + 26, vec![2, 0])]));
        if e.cx.mount().is_ok() {
            e.try_open_dir(0, "a/..");
            // the ancestor walk from `a` never reaches the root
            e.rename(0, "mover", 0, "a/moved in");
            e.rename(0, "a/f.txt", 0, "f at top.txt"); // files are not walked: fine
            e.look(&["a"]);
            // put it right again
            e.cx.step(Op::Unmount);
            e.cx.step(Op::Raw(vec![(data_off + 32 + 26, vec![0, 0])]));
            if e.cx.mount().is_ok() {
                e.rename(0, "mover", 0, "a/moved in");
            }
        }
    }
    e.finish(sink);
}

/// (opt-in, corrupt volume) a directory entry patched so that the size promises more than the chain holds, or a size
/// without any cluster: seeks beyond the end of the chain stop at the last cluster / at 0.
fn x_sizechain(id: String, seed: u64, cat: &Catalogue, rng: &mut SplitMix64, sink: &mut Sink) {
    let vol = loop {
        let v = tiny_any(cat, rng, 1024);
        if v.bits != 32 {
            break v;
        }
    };
    let bps = vol.bps as u64;
    let cs = vol.cs as u64;
    let root_off = (vol.reserved as u64 + vol.fats as u64 * vol.spf as u64) * bps;
    let mut e = start(id, seed, vol, ClockMode::Const);
    if e.cx.mounted {
        // first entry of the root: one long-name slot, then the short entry at +32 (cluster at +26, size at +28)
        e.mkfile("F.BIN", content(rng, cs as usize + 10)); // two clusters
        e.cx.step(Op::Unmount);
        let no_chain = rng.chance(1, 2);
        let mut ws = vec![(root_off + 32 + 28, (5 * cs as u32).to_le_bytes().to_vec())];
        if no_chain {
            ws.push((root_off + 32 + 26, vec![0, 0]));
        }
        e.cx.step(Op::Raw(ws));
        if e.cx.mount().is_ok() {
            let f = e.cx.new_f();
            if e.cx.step(Op::OpenFile { d: 0, path: b("F.BIN"), new: f }).is_ok() {
                e.cx.step(Op::Seek { f, whence: Whence::Start, n: 4 * cs as i64 + 3 });
                e.cx.step(Op::Read { f, n: 10 });
                e.cx.step(Op::Seek { f, whence: Whence::End, n: 0 });
                e.cx.step(Op::Seek { f, whence: Whence::Start, n: 1 });
                e.cx.step(Op::Read { f, n: 10 });
                e.cx.step(Op::Extents(f));
                e.cx.step(Op::DropF(f));
            }
            e.cx.step(Op::List(0));
        }
    }
    e.finish(sink);
}

pub fn run(tier: Tier, seed: u64, rng: &mut SplitMix64, n_override: Option<u64>, sink: &mut Sink) {
    let cat = Catalogue::build();
    let n = tier_count(tier, n_override, 364, 7280);
    for i in 1..=n {
        let mut r = rng.fork();
        one(hist_id("edge", seed, i), seed, i, &cat, &mut r, sink);
    }
    // coverage-driven extras
    // x0 / x3 leave the ground the specifications stand on (a device shorter than its volume, a corrupt `..` entry):
    // the oracles of C01/C02/C03/C05 report what the library does there, so they run only when asked for with the
    // extra argument `0` (`harness hist edge <tier> <seed> 0` = no numbered histories, all four extras)
    let all = n_override == Some(0);
    let extra = if n_override.is_some() && !all { 0 } else { tier.pick(32, 320) };
    for k in 0..extra {
        let mut r = rng.fork();
        let id = hist_id("edge", seed, n + 1 + k);
        match k % 4 {
            0 if all && k % 8 == 0 => x_shortdev(id, seed, &cat, &mut r, sink),
            0 if all => x_sizechain(id, seed, &cat, &mut r, sink),
            3 if all => x_dotdotloop(id, seed, &cat, &mut r, sink),
            0 | 1 => x_formaterr(id, seed, (k / 4) * 2 + k % 4, &cat, &mut r, sink),
            _ => x_aliasexhaust(id, seed, &cat, &mut r, sink),
        }
    }
}
