//! Scenario `faultgo` (properties C12, C09): a single fault in the FIRST mutating call of a clean session, after
//! which the session carries on.
//!
//! Per FAT width (the volumes of scenario `fault`) and per target T:
//!
//! ```text
//! set-up   format, mount, keep.bin (> 1 cluster), victim.txt, ren.txt, dir/, unmount, mount      (a clean session)
//! pre      what T needs that does not change the volume (open_file, seek)
//! fault k
//! T        write | create_file | create_dir | remove | rename | truncate      — for every k in 1..=calls(T)
//! go on    drop T's handle if there is one; T once more with fresh handles; create more.bin + writeall + flush +
//!          dropf; status; forget; mount; status; list d0                      (the history ends there, mounted)
//! ```
//!
//! Left out by default (the unchanged library already trips the C12 oracle `dirty-bit-not-set` there; the extra
//! argument `1` — `harness gen faultgo <tier> <seed> 1` — enumerates them too):
//!  * create_file / create_dir / remove / rename: the two k that hit the seek / write of the status byte. Directory and
//!    FAT writes go through `FsIoAdapter::write`, which writes first and marks the volume dirty afterwards, so a fault
//!    on the marking leaves one structural write on a volume still marked clean (the call returns the I/O error);
//!  * truncate: every k up to the status-byte write. A truncate that fails early has already changed the size in the
//!    handle's entry; dropping the handle writes that entry although the volume was never marked dirty.
//!
//! History ids `faultgo-<seed>-<bits>t<n>-<k>`, n = index into `TARGETS`. Histories are generated online (the
//! continuation depends on whether T left a handle), `cfg … budget=200000`.
use super::gen_fault::{positions_kinds, volumes, BUDGET};
use super::*;
use crate::clock::ClockMode;
use crate::script::Whence;

pub const TARGETS: [&str; 13] = [
    "write",
    "create_file",
    "create_dir",
    "remove",
    "rename",
    "truncate",
    // fault + RETRY ON THE SAME HANDLE
    "flush",            // 6: flush after a size-changing write; the flush is repeated
    "write-end-ends",   // 7..12: ONE `write` call that ends on / starts on / runs up to a cluster boundary, at the end
    "write-end-starts", //        of the chain (the next cluster has to be allocated) and in the middle of the chain;
    "write-end-cross",  //        the same call is repeated on the same handle
    "write-mid-ends",
    "write-mid-starts",
    "write-mid-cross",
];

fn p(s: &str) -> Vec<u8> {
    s.as_bytes().to_vec()
}

struct Run {
    cx: Ctx,
    /// handle left by the pre-ops / by T
    fh: Option<u32>,
    dh: Option<u32>,
}

fn setup(id: String, seed: u64, vol: &VolCfg, rng: &mut SplitMix64) -> Run {
    let mut cfg = Cfg::new(true, false, ClockMode::Const);
    cfg.budget = BUDGET;
    let mut cx = Ctx::new(id, "faultgo", seed, vol.clone(), cfg);
    let cs = vol.cs as usize;
    cx.format();
    cx.step(Op::Mount);
    for (name, len) in [("keep.bin", cs + 10), ("victim.txt", cs + 3), ("ren.txt", 7)] {
        let f = cx.new_f();
        if cx.step(Op::CreateFile { d: 0, path: p(name), new: f }).is_ok() {
            cx.step(Op::WriteAll { f, data: content(rng, len) });
            cx.step(Op::DropF(f));
        }
    }
    let d = cx.new_d();
    if cx.step(Op::CreateDir { d: 0, path: p("dir"), new: d }).is_ok() {
        cx.step(Op::DropD(d));
    }
    cx.step(Op::Unmount);
    cx.step(Op::Mount);
    Run { cx, fh: None, dh: None }
}

/// The operations before T that do not change the volume.
fn pre(r: &mut Run, t: usize) {
    match t {
        0 | 5 => {
            let f = r.cx.new_f();
            if r.cx.step(Op::OpenFile { d: 0, path: p("keep.bin"), new: f }).is_ok() {
                r.fh = Some(f);
                if t == 5 {
                    r.cx.step(Op::Seek { f, whence: Whence::Start, n: 5 });
                }
            }
        }
        6 => {
            // a write that changes the size: the entry is waiting to be written back
            let f = r.cx.new_f();
            if r.cx.step(Op::OpenFile { d: 0, path: p("keep.bin"), new: f }).is_ok() {
                r.fh = Some(f);
                r.cx.step(Op::Seek { f, whence: Whence::End, n: 0 });
                r.cx.step(Op::Write { f, data: vec![0x51, 0x52, 0x53, 0x54, 0x55] });
            }
        }
        7..=12 => {
            // keep.bin is brought to exactly three clusters (entry flushed), then the position for the one write
            let cs = r.cx.vol.cs as i64;
            let f = r.cx.new_f();
            if r.cx.step(Op::OpenFile { d: 0, path: p("keep.bin"), new: f }).is_ok() {
                r.fh = Some(f);
                r.cx.step(Op::Seek { f, whence: Whence::End, n: 0 });
                let fill: Vec<u8> = (0..(2 * cs - 10) as usize).map(|i| 0x61 + (i % 23) as u8).collect();
                r.cx.step(Op::WriteAll { f, data: fill });
                r.cx.step(Op::Flush(f));
                let pos = match t {
                    7 => 3 * cs - 20,
                    8 => 3 * cs,
                    9 => 3 * cs - 10,
                    10 => cs - 20,
                    11 => cs,
                    _ => cs - 10,
                };
                r.cx.step(Op::Seek { f, whence: Whence::Start, n: pos });
            }
        }
        _ => {}
    }
}

fn target_op(r: &mut Run, t: usize, data: &[u8], again: bool) -> Op {
    match t {
        0 => Op::Write { f: r.fh.unwrap_or(999), data: data.to_vec() },
        1 => {
            let f = r.cx.new_f();
            r.fh = Some(f);
            Op::CreateFile { d: 0, path: p("a new file.txt"), new: f }
        }
        2 => {
            let d = r.cx.new_d();
            r.dh = Some(d);
            Op::CreateDir { d: 0, path: p("dir/new directory"), new: d }
        }
        3 => Op::Remove { d: 0, path: p("victim.txt") },
        4 => Op::Rename { d: 0, src: p("ren.txt"), d2: 0, dst: p(if again { "dir/renamed again.txt" } else { "dir/renamed.txt" }) },
        5 => Op::Truncate(r.fh.unwrap_or(999)),
        6 => Op::Flush(r.fh.unwrap_or(999)),
        _ => {
            let len = if matches!(t, 9 | 12) { 30 } else { 20 };
            Op::Write { f: r.fh.unwrap_or(999), data: data[..len].to_vec() }
        }
    }
}

/// Record the outcome of an operation that may have produced a handle.
fn settle(r: &mut Run, t: usize, out: &Out) {
    if !out.is_ok() {
        match t {
            1 => r.fh = None,
            2 => r.dh = None,
            _ => {}
        }
    }
}

fn drop_handles(r: &mut Run) {
    if let Some(f) = r.fh.take() {
        r.cx.step(Op::DropF(f));
    }
    if let Some(d) = r.dh.take() {
        r.cx.step(Op::DropD(d));
    }
}

fn go_on(r: &mut Run, t: usize, data: &[u8], rng: &mut SplitMix64) {
    if t >= 6 {
        // the SAME call once more on the SAME handle, then make it durable and look at the result with fresh eyes
        if let Some(f) = r.fh {
            let op = target_op(r, t, data, true);
            let out = r.cx.step(op.clone());
            if let (Op::Write { data: d, .. }, Out::Ok(v)) = (&op, &out) {
                // a single call stops at the cluster boundary: the rest goes in a second call
                let n: usize = v.parse().unwrap_or(d.len());
                if n < d.len() {
                    r.cx.step(Op::Write { f, data: d[n..].to_vec() });
                }
            }
            r.cx.step(Op::Flush(f));
            // what the session sees through this handle after the successful flush (the image must say the same)
            r.cx.step(Op::Seek { f, whence: Whence::Start, n: 0 });
            r.cx.step(Op::ReadAll(f));
            r.cx.step(Op::DropF(f));
            r.fh = None;
            let g = r.cx.new_f();
            if r.cx.step(Op::OpenFile { d: 0, path: p("keep.bin"), new: g }).is_ok() {
                r.cx.step(Op::ReadAll(g));
                r.cx.step(Op::Extents(g));
                r.cx.step(Op::DropF(g));
            }
            r.cx.step(Op::List(0));
        }
    } else {
        drop_handles(r);
        if r.cx.dead {
            return;
        }
        // T once more, with fresh handles
        pre(r, t);
        if !(matches!(t, 0 | 5) && r.fh.is_none()) {
            let op = target_op(r, t, data, true);
            let out = r.cx.step(op);
            settle(r, t, &out);
        }
        drop_handles(r);
    }
    if r.cx.dead {
        return;
    }
    // one more mutating call sequence
    let f = r.cx.new_f();
    if r.cx.step(Op::CreateFile { d: 0, path: p("more.bin"), new: f }).is_ok() {
        r.cx.step(Op::WriteAll { f, data: content(rng, 20) });
        r.cx.step(Op::Flush(f));
        r.cx.step(Op::DropF(f));
    }
    r.cx.step(Op::Status);
    r.cx.step(Op::Forget);
    if r.cx.step(Op::Mount).is_ok() {
        r.cx.step(Op::Status);
        r.cx.step(Op::List(0));
    }
}

pub fn run(tier: Tier, seed: u64, rng: &mut SplitMix64, n: Option<u64>, sink: &mut Sink) {
    let full = n == Some(1);
    let cat = Catalogue::build();
    let vols = volumes(&cat);
    let mut total = [0u64; 3];
    for (w, vol) in vols.iter().enumerate() {
        let (stride, long) = match (tier, vol.bits) {
            (Tier::Thorough, _) => (1, 20_000),
            (Tier::Quick, 12) => (7, 300),
            (Tier::Quick, 16) => (13, 300),
            (Tier::Quick, _) => (21, 300),
        };
        for t in 0..TARGETS.len() {
            // every schedule of one (width, target) uses the same data, so that they differ in k only
            let base_rng = rng.fork();
            let data = content(&mut base_rng.clone(), vol.cs as usize / 2 + 3);
            // fault-free run: the number of device calls of T and the call that writes the status byte
            let (calls, status_call, kinds) = {
                let mut r0 = base_rng.clone();
                let mut r = setup("probe".to_string(), seed, vol, &mut r0);
                pre(&mut r, t);
                let op = target_op(&mut r, t, &data, false);
                r.cx.step(op);
                let c = r.cx.s.last_cnt;
                let so = vol.status_off;
                let sc = r.cx.s.dev.with(|d| d.wcalls.iter().find(|w| w.1 == so && w.2 == 1).map(|w| w.0));
                r.cx.s.leak_all();
                let kinds = r.cx.s.dev.with(|d| d.kinds.clone());
                (c.reads + c.writes + c.seeks + c.flushes, sc, kinds)
            };
            // the first calls (where the status byte is written) are never thinned out
            let mut ks = positions_kinds(&kinds, stride, long);
            for k in 1..=calls.min(12) {
                if !ks.contains(&k) {
                    ks.push(k);
                }
            }
            ks.sort_unstable();
            // Schedules on which the UNCHANGED library already writes structure with the dirty bit clear (see the
            // module header) are left out unless the extra argument `1` asks for the full enumeration.
            if !full {
                if let Some(sc) = status_call {
                    match t {
                        0 | 6..=12 => {}
                        5 => ks.retain(|k| *k > sc),
                        _ => ks.retain(|k| *k != sc && *k + 1 != sc),
                    }
                }
            }
            for k in ks {
                let mut r0 = base_rng.clone();
                let id = format!("faultgo-{}-{}t{}-{}", seed, vol.bits, t, k);
                let mut r = setup(id, seed, vol, &mut r0);
                pre(&mut r, t);
                if matches!(t, 0 | 5..=12) && r.fh.is_none() {
                    r.cx.finish(sink);
                    continue;
                }
                let op = target_op(&mut r, t, &data, false);
                let out = r.cx.step_fault(k, op);
                settle(&mut r, t, &out);
                if !r.cx.dead {
                    go_on(&mut r, t, &data, &mut r0);
                }
                r.cx.finish(sink);
                total[w] += 1;
            }
        }
    }
    eprintln!(
        "# faultgo schedules: fat12={} fat16={} fat32={} total={}",
        total[0],
        total[1],
        total[2],
        total.iter().sum::<u64>()
    );
}
