//! Scenario `ro`: populate a volume, end the session (unmount, or `forget` to leave it dirty), mount again and run a
//! read-only session (10–80 operations). Everything after the SECOND `mount` of a history is read-only use.
use super::gen_ns::NsGen;
use super::*;
use crate::clock::ClockMode;
use crate::script::Whence;

const DIR_NAMES: [&str; 5] = ["sub", "Long Directory Name", "D1", "a\u{dc}x", "nested.dir"];
const FILE_NAMES: [&str; 8] = [
    "README.TXT",
    "Foo.txt",
    "longfilename1.txt",
    "longfilename2.txt",
    "my file.txt",
    "x\u{df}.dat",
    "DATA",
    "abcdefghijklmnopqrstuv.txt",
];

/// Create some directories and files with content. Returns a file handle left open (if asked for).
pub fn populate(cx: &mut Ctx, rng: &mut SplitMix64, keep_one_open: bool) -> Option<u32> {
    let mut dirs: Vec<String> = vec![String::new()];
    for i in 0..rng.range(1, 4) {
        let parent = rng.pick(&dirs).clone();
        if parent.matches('/').count() >= 2 {
            continue;
        }
        let name = format!("{}{}", rng.pick(&DIR_NAMES), i);
        let path = if parent.is_empty() { name } else { format!("{}/{}", parent, name) };
        let d = cx.new_d();
        if cx.step(Op::CreateDir { d: 0, path: path.clone().into_bytes(), new: d }).is_ok() {
            cx.step(Op::DropD(d));
            dirs.push(path);
        }
    }
    let cs = cx.vol.cs as u64;
    let mut kept = None;
    let n = rng.range(2, 8);
    for i in 0..n {
        let parent = rng.pick(&dirs).clone();
        let base = rng.pick(&FILE_NAMES).to_string();
        let name = if rng.chance(1, 2) { base } else { format!("{}{}", i, base) };
        let path = if parent.is_empty() { name } else { format!("{}/{}", parent, name) };
        let f = cx.new_f();
        if cx.step(Op::CreateFile { d: 0, path: path.into_bytes(), new: f }).is_ok() {
            let len = match rng.below(7) {
                0 => 0,
                1 => 1,
                2 => cs - 1,
                3 => cs,
                4 => cs + 1,
                5 => 3 * cs + 5,
                _ => rng.range(2, 300),
            }
            .min(20_000) as usize;
            if len > 0 {
                let data = content(rng, len);
                cx.step(Op::WriteAll { f, data });
            }
            if keep_one_open && kept.is_none() && i + 1 == n {
                kept = Some(f);
            } else {
                cx.step(Op::DropF(f));
            }
        }
    }
    kept
}

fn ro_file_op(g: &mut NsGen, rng: &mut SplitMix64) -> bool {
    let fs: Vec<(u32, Key)> = g.cx.files.iter().map(|(a, b)| (*a, b.clone())).collect();
    if fs.is_empty() {
        return false;
    }
    let (f, key) = rng.pick(&fs).clone();
    let size = g.cx.node(&key).map_or(0, |n| n.size);
    let cs = g.cx.vol.cs as u64;
    match rng.below(10) {
        0..=2 => {
            let (whence, n) = match rng.below(6) {
                0 => (Whence::Start, rng.below(size + 2) as i64),
                1 => (Whence::Start, (cs * rng.below(3)) as i64),
                2 => (Whence::End, -(rng.below(size + 1) as i64)),
                3 => (Whence::Cur, rng.below(cs + 2) as i64),
                4 => (Whence::Cur, -(rng.below(cs + 2) as i64)),
                _ => (Whence::End, 1),
            };
            g.cx.step(Op::Seek { f, whence, n });
        }
        3..=5 => {
            let n = *rng.pick(&[0, 1, cs - 1, cs, cs + 1, size, size + 1, 17]);
            g.cx.step(Op::Read { f, n: n.min(40_000) });
        }
        6 => {
            let n = *rng.pick(&[0, 1, cs, size / 2, 5]);
            g.cx.step(Op::ReadX { f, n: n.min(40_000) });
        }
        7..=8 => {
            if rng.chance(1, 2) {
                g.cx.step(Op::Seek { f, whence: Whence::Start, n: 0 });
            }
            g.cx.step(Op::ReadAll(f));
        }
        _ => {
            g.cx.step(Op::Extents(f));
        }
    }
    true
}

fn ro_op(g: &mut NsGen, rng: &mut SplitMix64) -> bool {
    match rng.below(100) {
        0..=14 => g.op_list(rng),
        15..=29 => g.op_open(rng, true),
        30..=47 => g.op_open(rng, false),
        48..=72 => ro_file_op(g, rng),
        73..=80 => g.op_drop(rng),
        81..=84 => g.cx.step(Op::Label).is_ok(),
        85..=88 => g.cx.step(Op::LabelRoot).is_ok(),
        89..=92 => g.cx.step(Op::Status).is_ok(),
        93..=96 => g.cx.step(Op::Stats).is_ok(),
        97 => g.cx.step(Op::VolId).is_ok(),
        98 => g.cx.step(Op::FatType).is_ok(),
        _ => {
            // an extra root handle, kept like any directory handle
            if g.cx.n_live() >= g.max_live {
                return false;
            }
            let d = g.cx.new_d();
            if g.cx.step(Op::Root(d)).is_ok() {
                g.cx.dirs.insert(d, Vec::new());
            }
            true
        }
    }
}

fn random_history(id: String, seed: u64, cat: &Catalogue, rng: &mut SplitMix64, sink: &mut Sink) {
    let vol = if rng.chance(4, 5) { cat.pick_small_cluster(rng, 8192) } else { cat.pick(rng) };
    let mut cfg = Cfg::new(!rng.chance(1, 8), rng.chance(1, 10), ClockMode::Const);
    cfg.optorder = optorder_of(&id);
    let mut cx = Ctx::new(id, "ro", seed, vol, cfg);
    cx.format();
    cx.mount();
    let variant = rng.below(10);
    let kept = populate(&mut cx, rng, variant == 9);
    let _ = kept;
    match variant {
        0..=6 => {
            cx.step(Op::Unmount);
        }
        7..=8 => {
            // all handles are gone, the volume stays marked dirty
            cx.step(Op::Forget);
        }
        _ => {
            // a file handle with an unflushed entry is abandoned as well
            cx.step(Op::Forget);
        }
    }
    if cx.dead {
        cx.finish(sink);
        return;
    }
    // ---- FAT[1] flag variants (FAT16/32): clean-shutdown / hard-error bits cleared in every FAT copy
    let flagged = cx.vol.bits != 12 && rng.chance(11, 20);
    if flagged {
        let variant = rng.range(1, 3); // bit 0: clear "clean shutdown", bit 1: clear "no hard error"
        let (clean_bit, err_bit, ones, width) = if cx.vol.bits == 16 {
            (1u32 << 15, 1u32 << 14, 0xFFFFu32, 2usize)
        } else {
            (1u32 << 27, 1u32 << 26, 0x0FFF_FFFFu32, 4usize)
        };
        let mut v = ones;
        if variant & 1 != 0 {
            v &= !clean_bit;
        }
        if variant & 2 != 0 {
            v &= !err_bit;
        }
        let ws: Vec<(u64, Vec<u8>)> = (0..cx.vol.fats)
            .map(|c| (cx.vol.fat1_off(c), v.to_le_bytes()[..width].to_vec()))
            .collect();
        cx.step(Op::Raw(ws));
    }
    // ---- the read-only session
    cx.mount();
    if flagged {
        cx.step(Op::Status);
    }
    let mut g = NsGen {
        cx,
        names: FILE_NAMES.iter().chain(DIR_NAMES.iter()).map(|s| s.to_string()).collect(),
        max_live: 4,
    };
    let target = g.cx.h.n_ops() + rng.range(10, 80) as usize;
    let mut guard = 0;
    while g.cx.h.n_ops() < target && !g.cx.dead && guard < 400 {
        guard += 1;
        if flagged && rng.chance(1, 8) {
            g.cx.step(Op::Status);
        } else {
            ro_op(&mut g, rng);
        }
    }
    if flagged && !g.cx.dead {
        g.cx.step(Op::Status);
    }
    if rng.chance(3, 4) {
        g.cx.closing_lists();
    } else {
        g.cx.drop_all_handles();
    }
    if !g.cx.dead {
        g.cx.step(if rng.chance(1, 4) { Op::DropFs } else { Op::Unmount });
    }
    g.cx.finish(sink);
}

pub fn run(tier: Tier, seed: u64, rng: &mut SplitMix64, n_override: Option<u64>, sink: &mut Sink) {
    let cat = Catalogue::build();
    let n = tier_count(tier, n_override, 260, 5200);
    for i in 1..=n {
        let mut r = rng.fork();
        random_history(hist_id("ro", seed, i), seed, &cat, &mut r, sink);
    }
}
