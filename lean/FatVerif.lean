-- Root of the FatVerif library: model, specifications, proofs, property theorems.
import FatVerif.Model.PureMain
import FatVerif.Model.HistMain
import FatVerif.Model.Oracles
import FatVerif.Proofs.Prog
import FatVerif.Spec.SpecTest
import FatVerif.Props.SpecSanity
import FatVerif.Props.C15
import FatVerif.Props.C16
import FatVerif.Props.C18
