-- Root of the FatVerif library: model, specifications, proofs, property theorems.
import FatVerif.Model.Util
