-- Root of the FatVerif library: model, specifications, proofs, property theorems.
import FatVerif.Model.PureMain
import FatVerif.Model.HistMain
import FatVerif.Model.Oracles
import FatVerif.Proofs.Prog
import FatVerif.Spec.SpecTest
import FatVerif.Props.SpecSanity
import FatVerif.Props.C15
import FatVerif.Props.C16
import FatVerif.Props.C18
import FatVerif.Props.C17
import FatVerif.Props.C19
import FatVerif.Props.C15lfn
import FatVerif.Props.C07
import FatVerif.Props.C10
import FatVerif.Props.C05
import FatVerif.Props.C03fat
import FatVerif.Props.C06
