import FatVerif.Proofs.SlotTreeImg16
/-!
# Slot trees on a device image, part 17: `rename_internal` of a file inside one directory, with the frame

`rename_file_strong` is agent-effects' `WView.rename_file_sim` (Proofs/DirWriteSim24.lean) with the frame of the two
writes (`write_entry` of the renamed record, `deleteEntry` of the old slots) exported.
-/
namespace FatVerif
namespace SlotTreeImg
open Lfn DirSlots DirAlias SlotTree DirSim FatVerif.FileSim FatVerif.Fat DirEntryData FatVerif.DirSim.WView

theorem rename_file_strong {d : Dev} {st : DirStream} (V : WView d st) (env : Env) (srcName dstName : String)
    (hdots : (srcName = "." || srcName = ".." || dstName = "." || dstName = "..") = false)
    (hval : Names.validateLongName dstName = .ok ()) (ha : d.fs.lfnAlloc = true) (le : LfnEntry)
    (hl : lookupL env.upper srcName.toList none (readDirEntries d.fs.lfnAlloc true (V.slots d.img)) = .ok le)
    (hfile : Lfn.isDir le.sfn = false) (a : List Nat)
    (hchk : DirAlias.checkForExistenceL env.upper (V.slots d.img) dstName none 70000 = .ok (.alias a))
    (hfit : DirSlots.findFree (V.slots d.img) (Lfn.numParts (Names.encodeUtf16 dstName.toList).length + 1) +
      (Lfn.numParts (Names.encodeUtf16 dstName.toList).length + 1) ≤ V.N) :
    ∃ d', run (renameInternal env st srcName st dstName) d = (.ok (), d') ∧
      VolStep d d' ∧ d'.fs.curDirty = true ∧ V.Inv d' ∧
      V.slots d'.img =
        DirSlots.deleteRange
          (DirSlots.writeEntry (V.slots d.img) (Names.encodeUtf16 dstName.toList)
            ((toDirEntryS V.src le).data.renamed a).serialize)
          le.beginIdx le.endIdx ∧
      FrameOutE V.N V.src V.Extra d d' := by
  obtain ⟨hmem, _, _⟩ := lookupL_ok _ _ _ _ _ hl
  have hslotok := srcEntries_slotOK _ _ _ _ _ le hmem
  have hbnd := readLoop_bounds d.fs.lfnAlloc true (V.slots d.img) 0 0 _ (Nat.le_refl _) le hmem
  unfold WView.slots at hbnd
  rw [srcSlots_length, Nat.zero_add] at hbnd
  obtain ⟨k, hk⟩ : ∃ k, le.endIdx = le.beginIdx + k := ⟨le.endIdx - le.beginIdx, by omega⟩
  -- the slot of the old entry was read from the image
  have hsfn : le.sfn.length = 32 ∧ ∀ b ∈ le.sfn, b < 256 := by
    have hm := readLoop_sfn_mem d.fs.lfnAlloc true _ _ _ _ le hmem
    simp only [WView.slots, srcSlots, List.mem_map] at hm
    obtain ⟨j, _, hj⟩ := hm
    rw [← hj]
    exact ⟨Img.read_length _ _ _, Img.read_lt _ _ _⟩
  -- 1. find_entry
  have hfe := V.toDirView.findEntry_sim env srcName none d (SameVol.refl d)
  have hlook : V.toDirView.lookup env srcName none = .ok (toDirEntryS V.src le) := by
    unfold DirView.lookup DirView.lfnEntries
    show (lookupL env.upper srcName.toList none (readDirEntries d.fs.lfnAlloc true (srcSlots d.img V.src V.N))).map _ = _
    have : srcSlots d.img V.src V.N = V.slots d.img := rfl
    rw [this, hl]; rfl
  rw [hlook] at hfe
  obtain ⟨d1, h1, hs1⟩ := hfe
  have hinv1 := V.io.vol d d1 V.here hs1 (run_clock _ _ _ _ h1)
  have hisdir : (toDirEntryS V.src le).isDir = false := by
    rw [toDirEntryS_isDir V.src le hslotok]; exact hfile
  -- 2. check_for_existence
  have hce := (V.ops.dsrc d V.here).checkForExistence_sim (V.ops.fuel d V.here) ha env dstName none d1 hs1
  have hsl0 : srcSlots d.img V.src V.N = V.slots d.img := rfl
  rw [hsl0, hchk] at hce
  obtain ⟨d2, h2, hs2⟩ := hce
  have hinv2 := V.io.vol d1 d2 hinv1 hs2 (run_clock _ _ _ _ h2)
  have hv02 := hs1.trans hs2
  -- 3. write_entry of the renamed record
  obtain ⟨hcan, hl11, _⟩ := C16dir.dir_alias_canon env.upper (V.slots d.img) dstName none 70000 a hchk
  have hdwf : (toDirEntryS V.src le).data.WF := deserializeFile_wf le.sfn hsfn.1 hsfn.2
  have hrawwf : ((toDirEntryS V.src le).data.renamed a).WF := hdwf.renamed a hl11 (canon_lt hcan)
  have hattr : ((toDirEntryS V.src le).data.renamed a).attrs = attrsTruncate (DirEntryData.u8At le.sfn 11) := rfl
  have hlfn : attrsIsLfn ((toDirEntryS V.src le).data.renamed a).attrs = false := by
    rw [hattr, deser_lfn le.sfn hslotok.2]
    exact readLoop_sfn_notLfn d.fs.lfnAlloc true _ _ _ _ le hmem
  have hdotd : (dstName = "." || dstName = "..") = false := by
    simp only [Bool.or_eq_false_iff] at hdots ⊢
    exact ⟨hdots.1.2, hdots.2⟩
  obtain ⟨d3, h3, hs3, hd3, hinv3, hsl3, hfr3, _⟩ := (V.step hinv2).writeEntry_sim dstName _ hval hdotd hrawwf hlfn
    (by show DirSlots.findFree (V.slots d2.img) _ + _ ≤ V.N
        have : V.slots d2.img = V.slots d.img := by unfold WView.slots; rw [hv02.img]
        rw [this]; exact hfit)
  have hsl3' : V.slots d3.img = DirSlots.writeEntry (V.slots d.img) (Names.encodeUtf16 dstName.toList)
      ((toDirEntryS V.src le).data.renamed a).serialize := by
    have e1 : (V.step hinv2).slots d3.img = V.slots d3.img := rfl
    have e2 : (V.step hinv2).slots d2.img = V.slots d.img := by
      show V.slots d2.img = _; unfold WView.slots; rw [hv02.img]
    rw [← e1, hsl3, e2]
  -- 4. deleteEntry of the old entry
  obtain ⟨d4, h4, hs4, hd4, hinv4, hsl4, hfr4, _⟩ := (V.step hinv3).deleteEntry_range (toDirEntryS V.src le) le.beginIdx k
    (by have := hbnd.2.1; omega) rfl (by simp only [toDirEntryS]; rw [hk])
    (by show le.beginIdx + k ≤ V.N; have := hbnd.2.2; omega)
  refine ⟨d4, ?_, ((VolStep.of_sameVol hv02).trans hs3).trans hs4, hd4, hinv4, ?_,
    ((FrameOutG.of_sameVol hv02).toE.trans hfr3).trans hfr4⟩
  · unfold renameInternal
    rw [if_neg (by rw [hdots]; decide)]
    rw [run_bind_ok (run_getFs d), run_bind_ok h1]
    simp only [id, liftE, hval, hisdir, Bool.false_eq_true, if_false]
    rw [run_bind_ok (rfl : run (pure () : Prog Unit) d1 = (.ok (), d1))]
    have h2' : run (checkForExistence env st dstName none) d1 = (.ok (liftEOA V.src (.alias a)), d2) :=
      (congrArg (fun s => run (checkForExistence env s dstName none) d1) V.start).trans h2
    rw [run_bind_ok h2']
    simp only [liftEOA]
    rw [run_bind_ok h3, run_bind_ok h4]
    have hnew : (toDirEntryS (V.step hinv2).src
        ⟨((toDirEntryS V.src le).data.renamed a).serialize, Names.encodeUtf16 dstName.toList,
          DirSlots.findFree ((V.step hinv2).slots d2.img) (Lfn.numParts (Names.encodeUtf16 dstName.toList).length + 1),
          DirSlots.findFree ((V.step hinv2).slots d2.img) (Lfn.numParts (Names.encodeUtf16 dstName.toList).length + 1) +
            (Lfn.numParts (Names.encodeUtf16 dstName.toList).length + 1)⟩).isDir = false := by
      have hd' := writeEntry_result (V.step hinv2).src _ hrawwf hlfn (Names.encodeUtf16 dstName.toList)
        (DirSlots.findFree ((V.step hinv2).slots d2.img) (Lfn.numParts (Names.encodeUtf16 dstName.toList).length + 1))
        (Lfn.numParts (Names.encodeUtf16 dstName.toList).length + 1) (by omega)
      rw [← hd']
      exact hisdir
    rw [hnew]
    rfl
  · have e1 : (V.step hinv3).slots d4.img = V.slots d4.img := rfl
    have e2 : (V.step hinv3).slots d3.img = V.slots d3.img := rfl
    rw [← e1, hsl4, e2, hsl3', hk]


end SlotTreeImg
end FatVerif
