import FatVerif.Model.Io
import FatVerif.Proofs.Prog
/-! Device lemmas for fault-free runs: what `run` does on the primitive device calls, `read_exact`, `readChunks`,
`read_u8/u16/u32_le` over the RAW device (`devStrm`) when no fault is scheduled (`d.failAt = none`).

* `Dev.didRead d m`, `Dev.didSeek d n`: the device after one successful read of `m` bytes / one seek to `n`.
* `SameStore d d'`: image, write log, mounted state, fault schedule, drop depth and clock are the same.
* `run_readExact_ok`: with `pos + n ≤ size`, `read_exact(n)` is ONE device read returning `img.read pos n`.
* `run_readChunks_ok`: the chunked reads of the field-by-field deserialisers return the concatenation.
* `run_readExact_short`: a device that ends before `pos + n` makes `read_exact(n)` fail with `Err.io devEofErr`. -/
namespace FatVerif

/-! ### `run` on `bind`, `pure`, `fail` -/

theorem run_bind_ok {α β} {p : Prog β} {k : β → Prog α} {d d1 : Dev} {b : β} (h : run p d = (.ok b, d1)) :
    run (p >>= k) d = run (k b) d1 := by
  show run (Prog.bind p k) d = _
  simp only [run, h]

theorem run_bind_error {α β} {p : Prog β} {k : β → Prog α} {d d1 : Dev} {e : Err} (h : run p d = (.error e, d1)) :
    run (p >>= k) d = (.error e, d1) := by
  show run (Prog.bind p k) d = _
  simp only [run, h]

@[simp] theorem run_pure {α} (a : α) (d : Dev) : run (pure a : Prog α) d = (.ok a, d) := rfl
@[simp] theorem run_fail {α} (e : Err) (d : Dev) : run (Prog.fail e : Prog α) d = (.error e, d) := rfl

/-! ### the device after fault-free calls -/

/-- image, write log, mounted state, fault schedule, drop depth and clock coincide -/
structure SameStore (d d' : Dev) : Prop where
  img : d'.img = d.img
  log : d'.log = d.log
  fs : d'.fs = d.fs
  failAt : d'.failAt = d.failAt
  fault : d'.fault = d.fault
  dropDepth : d'.dropDepth = d.dropDepth
  clock : d'.clock = d.clock
  tick : d'.tick = d.tick
  writes : d'.writes = d.writes
  flushes : d'.flushes = d.flushes

theorem SameStore.refl (d : Dev) : SameStore d d := ⟨rfl, rfl, rfl, rfl, rfl, rfl, rfl, rfl, rfl, rfl⟩

theorem SameStore.trans {a b c : Dev} (h1 : SameStore a b) (h2 : SameStore b c) : SameStore a c :=
  ⟨h2.img.trans h1.img, h2.log.trans h1.log, h2.fs.trans h1.fs, h2.failAt.trans h1.failAt,
   h2.fault.trans h1.fault, h2.dropDepth.trans h1.dropDepth, h2.clock.trans h1.clock, h2.tick.trans h1.tick,
   h2.writes.trans h1.writes, h2.flushes.trans h1.flushes⟩

/-- the device after one successful `read` that transferred `m` bytes -/
def Dev.didRead (d : Dev) (m : Nat) : Dev := { d.count .r with pos := d.pos + m }

/-- the device after one successful `seek` to `n` -/
def Dev.didSeek (d : Dev) (n : Nat) : Dev := { d.count .s with pos := n }

theorem sameStore_didRead (d : Dev) (m : Nat) : SameStore d (d.didRead m) :=
  ⟨rfl, rfl, rfl, rfl, rfl, rfl, rfl, rfl, rfl, rfl⟩
theorem sameStore_didSeek (d : Dev) (n : Nat) : SameStore d (d.didSeek n) :=
  ⟨rfl, rfl, rfl, rfl, rfl, rfl, rfl, rfl, rfl, rfl⟩

@[simp] theorem didRead_pos (d : Dev) (m : Nat) : (d.didRead m).pos = d.pos + m := rfl
@[simp] theorem didSeek_pos (d : Dev) (n : Nat) : (d.didSeek n).pos = n := rfl
@[simp] theorem didRead_reads (d : Dev) (m : Nat) : (d.didRead m).reads = d.reads + 1 := rfl
@[simp] theorem didSeek_reads (d : Dev) (n : Nat) : (d.didSeek n).reads = d.reads := rfl
@[simp] theorem didRead_seeks (d : Dev) (m : Nat) : (d.didRead m).seeks = d.seeks := rfl
@[simp] theorem didSeek_seeks (d : Dev) (n : Nat) : (d.didSeek n).seeks = d.seeks + 1 := rfl
@[simp] theorem didRead_failAt (d : Dev) (m : Nat) : (d.didRead m).failAt = d.failAt := rfl
@[simp] theorem didSeek_failAt (d : Dev) (n : Nat) : (d.didSeek n).failAt = d.failAt := rfl
@[simp] theorem didRead_img (d : Dev) (m : Nat) : (d.didRead m).img = d.img := rfl
@[simp] theorem didSeek_img (d : Dev) (n : Nat) : (d.didSeek n).img = d.img := rfl

/-! ### primitive device calls without a scheduled fault -/

theorem devCall_nofault {α} (k : CallKind) (d : Dev) (act : Dev → Except Err α × Dev) (h : d.failAt = none) :
    devCall k d act = act (d.count k) := by
  unfold devCall devCallCore
  rw [(count_frame d k).1, h]
  simp

theorem run_read (n : Nat) (d : Dev) (h : d.failAt = none) :
    run (Prog.read n) d =
      (.ok (d.img.read d.pos (min n (d.img.size - d.pos))), d.didRead (min n (d.img.size - d.pos))) := by
  show stepOp (.read n) d = _
  simp only [stepOp]
  rw [devCall_nofault _ _ _ h]
  rfl

theorem run_seekStart (n : Nat) (d : Dev) (h : d.failAt = none) :
    run (Prog.seekStart n) d = (.ok n, d.didSeek n) := by
  show stepOp (.seek (.start n)) d = _
  simp only [stepOp]
  rw [devCall_nofault _ _ _ h]
  rfl

/-- `seek(SeekFrom::Current(0))`: reports the position, which stays -/
theorem run_seekCur0 (d : Dev) (h : d.failAt = none) :
    run (Prog.seek (.cur 0)) d = (.ok d.pos, d.didSeek d.pos) := by
  show stepOp (.seek (.cur 0)) d = _
  simp only [stepOp]
  rw [devCall_nofault _ _ _ h]
  have hp : (d.count .s).pos = d.pos := rfl
  simp only [Int.add_zero, hp]
  rw [if_neg (by omega)]
  simp only [Int.toNat_natCast]
  rfl

/-! ### images -/

@[simp] theorem Img.read_length (i : Img) (off len : Nat) : (i.read off len).length = len := by
  simp [Img.read]

theorem Img.read_getD (i : Img) (off len k : Nat) (h : k < len) : (i.read off len).getD k 0 = i.getByte (off + k) := by
  simp [Img.read, List.getD_eq_getElem?_getD, h]

theorem Img.read_append (i : Img) (off a b : Nat) : i.read off (a + b) = i.read off a ++ i.read (off + a) b := by
  simp only [Img.read, List.range_add, List.map_append, List.map_map]
  congr 1
  apply List.map_congr_left
  intro k _
  simp [Nat.add_assoc]

theorem Img.read_zero (i : Img) (off : Nat) : i.read off 0 = [] := rfl

/-! ### `read_exact` on the raw device -/

/-- the device after `read_exact(n)` that succeeds with ONE read (no read at all for `n = 0`) -/
def Dev.readN (d : Dev) (n : Nat) : Dev := if n = 0 then d else d.didRead n

theorem sameStore_readN (d : Dev) (n : Nat) : SameStore d (d.readN n) := by
  unfold Dev.readN; split
  · exact SameStore.refl d
  · exact sameStore_didRead d n

@[simp] theorem readN_pos (d : Dev) (n : Nat) : (d.readN n).pos = d.pos + n := by
  unfold Dev.readN; split <;> simp_all

theorem readN_reads (d : Dev) (n : Nat) : (d.readN n).reads = d.reads + (if n = 0 then 0 else 1) := by
  unfold Dev.readN; split <;> simp_all

theorem run_devStrm_read (n : Nat) (d : Dev) (h : d.failAt = none) :
    run (devStrm.read () n) d =
      (.ok (d.img.read d.pos (min n (d.img.size - d.pos)), ()), d.didRead (min n (d.img.size - d.pos))) := by
  show run (Prog.read n >>= fun bs => pure (bs, ())) d = _
  rw [run_bind_ok (run_read n d h)]
  rfl

/-- `read_exact(n)` with the `n` bytes available: one device read, the bytes of the image, position advanced -/
theorem run_readExact_ok (d : Dev) (n : Nat) (h : d.failAt = none) (hsz : d.pos + n ≤ d.img.size) :
    run (readExact devStrm () n) d = (.ok (d.img.read d.pos n, ()), d.readN n) := by
  unfold readExact
  cases n with
  | zero => simp [readExactLoop, Dev.readN, Img.read_zero]
  | succ k =>
    have hmin : min (k + 1) (d.img.size - d.pos) = k + 1 := by omega
    unfold readExactLoop
    rw [if_neg (by omega)]
    rw [run_bind_ok (run_devStrm_read (k + 1) d h), hmin]
    simp only [Img.read_length]
    rw [if_neg (by omega)]
    simp only [Nat.sub_self]
    unfold readExactLoop
    simp [Dev.readN]

/-- a device that ends before `pos + n`: `read_exact(n)` fails with the raw device's unexpected-EOF error
    (after one short read and one empty read, or one empty read), leaving image, log and mounted state alone -/
theorem run_readExactLoop_short : ∀ (fuel : Nat) (d : Dev) (n : Nat) (acc : List Nat), d.failAt = none → 0 < n →
    n + 1 ≤ fuel → d.img.size < d.pos + n →
    ∃ d', run (readExactLoop devStrm fuel () n acc) d = (.error (.io devEofErr), d') ∧ SameStore d d' := by
  intro fuel
  induction fuel with
  | zero => intro d n acc _ _ hf _; omega
  | succ fuel ih =>
    intro d n acc h hn hf hsz
    unfold readExactLoop
    rw [if_neg (by omega)]
    rw [run_bind_ok (run_devStrm_read n d h)]
    simp only [Img.read_length]
    by_cases hm : min n (d.img.size - d.pos) = 0
    · rw [if_pos hm]
      exact ⟨_, rfl, sameStore_didRead d _⟩
    · rw [if_neg hm]
      obtain ⟨d', h1, h2⟩ := ih (d.didRead (min n (d.img.size - d.pos))) (n - min n (d.img.size - d.pos))
        (acc ++ d.img.read d.pos (min n (d.img.size - d.pos))) h (by omega) (by omega)
        (by simp only [didRead_pos, didRead_img]; omega)
      exact ⟨d', h1, (sameStore_didRead d _).trans h2⟩

theorem run_readExact_short (d : Dev) (n : Nat) (h : d.failAt = none) (hn : 0 < n)
    (hsz : d.img.size < d.pos + n) :
    ∃ d', run (readExact devStrm () n) d = (.error (.io devEofErr), d') ∧ SameStore d d' :=
  run_readExactLoop_short (n + 1) d n [] h hn (Nat.le_refl _) hsz

/-! ### `readChunks` -/

/-- the device after the chunked `read_exact`s of sizes `ns` -/
def Dev.readChunks (d : Dev) (ns : List Nat) : Dev := ns.foldl Dev.readN d

theorem sameStore_readChunks : ∀ (ns : List Nat) (d : Dev), SameStore d (d.readChunks ns)
  | [], d => SameStore.refl d
  | n :: ns, d => (sameStore_readN d n).trans (sameStore_readChunks ns (d.readN n))

theorem readChunks_pos : ∀ (ns : List Nat) (d : Dev), (d.readChunks ns).pos = d.pos + ns.sum
  | [], d => by simp [Dev.readChunks]
  | n :: ns, d => by
    have := readChunks_pos ns (d.readN n)
    simp only [Dev.readChunks, List.foldl_cons, List.sum_cons] at this ⊢
    rw [this, readN_pos]; omega

theorem readChunks_reads : ∀ (ns : List Nat) (d : Dev),
    (d.readChunks ns).reads = d.reads + (ns.filter (· ≠ 0)).length
  | [], d => by simp [Dev.readChunks]
  | n :: ns, d => by
    have := readChunks_reads ns (d.readN n)
    simp only [Dev.readChunks, List.foldl_cons] at this ⊢
    rw [this, readN_reads]
    by_cases hn : n = 0 <;> simp [hn] <;> omega

theorem readN_seeks (d : Dev) (n : Nat) : (d.readN n).seeks = d.seeks := by
  unfold Dev.readN; split <;> rfl

theorem readChunks_seeks : ∀ (ns : List Nat) (d : Dev), (d.readChunks ns).seeks = d.seeks
  | [], _ => rfl
  | n :: ns, d => by
    have := readChunks_seeks ns (d.readN n)
    simp only [Dev.readChunks, List.foldl_cons] at this ⊢
    rw [this, readN_seeks]

theorem readChunks_append (d : Dev) (a b : List Nat) : d.readChunks (a ++ b) = (d.readChunks a).readChunks b := by
  simp [Dev.readChunks, List.foldl_append]

/-- the field-by-field `read_exact`s of a deserialiser, with all the bytes available: the concatenation is the
    image content, one device read per non-empty chunk -/
theorem run_readChunks_ok : ∀ (ns : List Nat) (d : Dev) (acc : List Nat), d.failAt = none →
    d.pos + ns.sum ≤ d.img.size →
    run (readChunks devStrm () ns acc) d = (.ok (acc ++ d.img.read d.pos ns.sum, ()), d.readChunks ns)
  | [], d, acc, _, _ => by simp [readChunks, Dev.readChunks, Img.read_zero]
  | n :: ns, d, acc, h, hsz => by
    simp only [List.sum_cons] at hsz
    unfold readChunks
    rw [run_bind_ok (run_readExact_ok d n h (by omega))]
    have hf : (d.readN n).failAt = none := by rw [(sameStore_readN d n).failAt, h]
    have := run_readChunks_ok ns (d.readN n) (acc ++ d.img.read d.pos n) hf
      (by rw [readN_pos, (sameStore_readN d n).img]; omega)
    simp only at this ⊢
    rw [this, readN_pos, (sameStore_readN d n).img, List.sum_cons, Img.read_append, List.append_assoc]
    rfl

/-! ### little-endian reads -/

theorem run_readU32 (d : Dev) (h : d.failAt = none) (hsz : d.pos + 4 ≤ d.img.size) :
    run (readU32 devStrm ()) d =
      (.ok (le32 (d.img.getByte d.pos) (d.img.getByte (d.pos + 1)) (d.img.getByte (d.pos + 2))
              (d.img.getByte (d.pos + 3)), ()), d.readN 4) := by
  unfold readU32
  rw [run_bind_ok (run_readExact_ok d 4 h hsz)]
  simp only [run_pure]
  rw [Img.read_getD _ _ _ 0 (by omega), Img.read_getD _ _ _ 1 (by omega), Img.read_getD _ _ _ 2 (by omega),
    Img.read_getD _ _ _ 3 (by omega)]
  rfl

theorem run_readU16 (d : Dev) (h : d.failAt = none) (hsz : d.pos + 2 ≤ d.img.size) :
    run (readU16 devStrm ()) d =
      (.ok (le16 (d.img.getByte d.pos) (d.img.getByte (d.pos + 1)), ()), d.readN 2) := by
  unfold readU16
  rw [run_bind_ok (run_readExact_ok d 2 h hsz)]
  simp only [run_pure]
  rw [Img.read_getD _ _ _ 0 (by omega), Img.read_getD _ _ _ 1 (by omega)]
  rfl

theorem run_readU8 (d : Dev) (h : d.failAt = none) (hsz : d.pos + 1 ≤ d.img.size) :
    run (readU8 devStrm ()) d = (.ok (d.img.getByte d.pos, ()), d.readN 1) := by
  unfold readU8
  rw [run_bind_ok (run_readExact_ok d 1 h hsz)]
  simp only [run_pure]
  rw [Img.read_getD _ _ _ 0 (by omega)]
  rfl

/-! ### bytes of an image are bytes -/

theorem Img.getByte_lt (i : Img) (off : Nat) : i.getByte off < 256 := by
  unfold Img.getByte
  split
  · exact UInt8.toNat_lt _
  · omega

theorem Img.read_lt (i : Img) (off len : Nat) : ∀ x ∈ i.read off len, x < 256 := by
  intro x hx
  simp only [Img.read, List.mem_map] at hx
  obtain ⟨k, _, rfl⟩ := hx
  exact Img.getByte_lt i _

/-! ### a concrete image whose contents the kernel can see

`Img.write` goes through `Std.HashMap` and `ByteArray` loops that do not reduce in the kernel. `Img.ofBytes bytes size`
is a one-page image holding `bytes` at offset 0; its reads are given by lemmas, so that statements about concrete
devices can be discharged (`decide` on the byte LIST). -/

/-- an image of `size` bytes whose first `bytes.length ≤ 4096` bytes are `bytes` (the rest reads as 0) -/
def Img.ofBytes (bytes : List Nat) (size : Nat) : Img :=
  { size := size, pages := (∅ : Std.HashMap Nat ByteArray).insert 0 (ByteArray.mk (bytes.map UInt8.ofNat).toArray) }

theorem Img.ofBytes_getByte (bytes : List Nat) (size k : Nat) (hk : k < 4096) (hb : ∀ x ∈ bytes, x < 256) :
    (Img.ofBytes bytes size).getByte k = bytes.getD k 0 := by
  unfold Img.getByte Img.ofBytes pageSize
  simp only [Nat.div_eq_of_lt hk, Nat.mod_eq_of_lt hk, Std.HashMap.getElem?_insert_self]
  show (ByteArray.get! _ k).toNat = _
  unfold ByteArray.get!
  simp
  cases h : bytes[k]? with
  | none => rfl
  | some x =>
    have hx := hb x (List.mem_of_getElem? h)
    simp only [Option.map_some, Option.getD_some]
    rw [UInt8.toNat_ofNat', Nat.mod_eq_of_lt hx]

theorem Img.ofBytes_read (bytes : List Nat) (size off len : Nat) (hl : off + len ≤ 4096)
    (hb : ∀ x ∈ bytes, x < 256) :
    (Img.ofBytes bytes size).read off len = (List.range len).map fun k => bytes.getD (off + k) 0 := by
  unfold Img.read
  apply List.map_congr_left
  intro k hk
  rw [List.mem_range] at hk
  exact Img.ofBytes_getByte _ _ _ (by omega) hb

/-- the same as a slice of the list (cheap to evaluate) -/
theorem Img.ofBytes_read_slice (bytes : List Nat) (size off len : Nat) (hl : off + len ≤ 4096)
    (hlen : off + len ≤ bytes.length) (hb : ∀ x ∈ bytes, x < 256) :
    (Img.ofBytes bytes size).read off len = (bytes.drop off).take len := by
  rw [Img.ofBytes_read _ _ _ _ hl hb]
  apply List.ext_getElem
  · simp; omega
  · intro i h1 h2
    simp only [List.length_map, List.length_range] at h1
    simp only [List.getElem_map, List.getElem_range, List.getElem_take, List.getElem_drop]
    rw [List.getD_eq_getElem?_getD, List.getElem?_eq_getElem (by omega)]
    rfl

/-! ### `read_exact` on the raw device never panics or hangs (whatever the device, faults included) -/

theorem devStrm_read_nonFatal (n : Nat) : NonFatal (devStrm.read () n) :=
  NonFatal.bind (NonFatal.op (.read n)) (fun _ => NonFatal.pure _)

theorem readExactLoop_dev_nonFatal : ∀ (fuel n : Nat) (acc : List Nat), n + 1 ≤ fuel →
    NonFatal (readExactLoop devStrm fuel () n acc) := by
  intro fuel
  induction fuel with
  | zero => intro n acc h; omega
  | succ fuel ih =>
    intro n acc h
    unfold readExactLoop
    by_cases hn : n = 0
    · rw [if_pos hn]; exact NonFatal.pure _
    · rw [if_neg hn]
      refine NonFatal.bind (devStrm_read_nonFatal n) ?_
      rintro ⟨got, s'⟩
      show NonFatal (if got.length = 0 then _ else _)
      by_cases hg : got.length = 0
      · rw [if_pos hg]; exact NonFatal.fail _ rfl
      · rw [if_neg hg]; exact ih _ _ (by omega)

theorem readExact_dev_nonFatal (n : Nat) : NonFatal (readExact devStrm () n) :=
  readExactLoop_dev_nonFatal (n + 1) n [] (Nat.le_refl _)

theorem readU32_dev_nonFatal : NonFatal (readU32 devStrm ()) :=
  NonFatal.bind (readExact_dev_nonFatal 4) (fun _ => NonFatal.pure _)

theorem readU16_dev_nonFatal : NonFatal (readU16 devStrm ()) :=
  NonFatal.bind (readExact_dev_nonFatal 2) (fun _ => NonFatal.pure _)

theorem readU8_dev_nonFatal : NonFatal (readU8 devStrm ()) :=
  NonFatal.bind (readExact_dev_nonFatal 1) (fun _ => NonFatal.pure _)

theorem readChunks_dev_nonFatal : ∀ (ns : List Nat) (acc : List Nat), NonFatal (readChunks devStrm () ns acc)
  | [], _ => NonFatal.pure _
  | n :: ns, acc => by
    unfold readChunks
    exact NonFatal.bind (readExact_dev_nonFatal n) (fun b => readChunks_dev_nonFatal ns _)

end FatVerif
