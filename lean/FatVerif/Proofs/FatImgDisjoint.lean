import FatVerif.Proofs.FileSimFatFree
import FatVerif.Proofs.FileSimDefs
import FatVerif.Proofs.FsCountOps
/-! FAT-level FRAME facts under `FatWf`, on any decoded view `g` (use with `g := tabView fs img` or
    `g := imgTable fs img`), in two vocabularies: the `Chain g a cs` predicate (Model/FatView) and the list
    `chainFrom g (total + 2) a` (Proofs/FileSimDefs). Bridges: `chainFrom_chain`, `chainFrom_eq`.

    * `free_not_in_any_chain`  — a free cluster lies on no chain but its own singleton;
    * `chains_disjoint`        — two chains neither of whose heads lies on the other share no cluster;
    * `alloc_keeps_other_chains`, `alloc_extends_chain`, `alloc_new_chain` — chains after `allocLinkV g prev c`;
    * `free_keeps_other_chains`, `truncate_keeps_other_chains`, `truncate_cuts_chain` — chains after
      `freedView g cs` / `freedView (updV g cur .eoc) t`;
    * `fatWf_allocLinkV`, `fatWf_freedView`, `fatWf_truncView` — `FatWf` re-established on those views. -/
namespace FatVerif.FatDisjoint
open FatVerif FatVerif.Fat FatVerif.FileSim

variable {g : Nat → FatValue} {total : Nat}

/-! ## chains agree where the views agree -/

theorem chain_agree {g g' : Nat → FatValue} {a : Nat} {cs : List Nat} (h : Chain g a cs)
    (hg : ∀ x ∈ cs, g' x = g x) : Chain g' a cs := by
  induction h with
  | last m hl => exact Chain.last m (by rw [hg m (by simp)]; exact hl)
  | cons m k ms hd _ ih =>
    exact Chain.cons m k ms (by rw [hg m (by simp)]; exact hd) (ih (fun x hx => hg x (List.mem_cons_of_mem _ hx)))

theorem chain_cons_inv {g : Nat → FatValue} {a m x : Nat} {rest : List Nat} (h : Chain g a (m :: x :: rest)) :
    a = m ∧ g m = .data x ∧ Chain g x (x :: rest) := by
  cases h with
  | cons _ k _ hd hc =>
    obtain ⟨t, ht⟩ := chain_head hc
    cases ht
    exact ⟨rfl, hd, hc⟩

/-! ## the two vocabularies -/

/-- every member of a chain but its head is the target of a link, hence a cluster number of the table -/
theorem chain_tail_range (hw : FatWf g total) {a : Nat} {cs : List Nat} (h : Chain g a cs) :
    ∀ x, x ∈ cs → x ≠ a → 2 ≤ x ∧ x < total + 2 := by
  intro x hx hne
  rcases chain_pred h x hx with rfl | ⟨b, _, hb⟩
  · exact absurd rfl hne
  · exact hw.link_range b x hb

/-- a chain of a well-formed table has at most `total + 1` members -/
theorem chain_length_le (hw : FatWf g total) {a : Nat} {cs : List Nat} (h : Chain g a cs) : cs.length ≤ total + 1 := by
  have hnd := chain_nodup hw h
  obtain ⟨t, rfl⟩ := chain_head h
  have hat : a ∉ t := (List.nodup_cons.mp hnd).1
  have hr : ∀ x ∈ t, 2 ≤ x ∧ x < total + 2 := fun x hx =>
    chain_tail_range hw h x (List.mem_cons_of_mem _ hx) (by intro e; subst e; exact hat hx)
  have hnd' : (0 :: 1 :: t).Nodup := by
    refine List.nodup_cons.mpr ⟨?_, List.nodup_cons.mpr ⟨?_, (List.nodup_cons.mp hnd).2⟩⟩
    · intro h0
      rcases List.mem_cons.mp h0 with h0 | h0
      · cases h0
      · have := hr 0 h0; omega
    · intro h1; have := hr 1 h1; omega
  have := nodup_length_le hnd' (n := total + 2) (by
    intro c hc
    rcases List.mem_cons.mp hc with rfl | hc
    · omega
    · rcases List.mem_cons.mp hc with rfl | hc
      · omega
      · exact (hr c hc).2)
  simp only [List.length_cons] at this ⊢
  omega

/-- `chainFrom` with the fuel the library uses IS the chain -/
theorem chainFrom_eq (hw : FatWf g total) {a : Nat} {cs : List Nat} (h : Chain g a cs) :
    chainFrom g (total + 2) a = cs :=
  chainFrom_of_chain h (total + 2) (by have := chain_length_le hw h; omega)

theorem chainFrom_chain (hw : FatWf g total) (a : Nat) : Chain g a (chainFrom g (total + 2) a) := by
  obtain ⟨cs, h, _⟩ := chain_exists hw a
  rw [chainFrom_eq hw h]; exact h

theorem chainFrom_nodup (hw : FatWf g total) (a : Nat) : (chainFrom g (total + 2) a).Nodup :=
  chain_nodup hw (chainFrom_chain hw a)

/-! ## (1) a free cluster is on no chain -/

/-- **free_not_in_any_chain.** A free cluster lies on no chain of another head (its own chain is the singleton). -/
theorem free_not_in_any_chain (hw : FatWf g total) {a x : Nat} {cs : List Nat} (h : Chain g a cs)
    (hf : g x = .free) (hne : x ≠ a) : x ∉ cs := by
  intro hx
  rcases chain_pred h x hx with rfl | ⟨b, _, hb⟩
  · exact hne rfl
  · exact (hw.link_alloc b x hb).1 hf

theorem free_chain_singleton {x : Nat} (hf : g x = .free) : Chain g x [x] :=
  Chain.last x (by intro n h; rw [hf] at h; cases h)

theorem chainFrom_free_not_mem (hw : FatWf g total) {a x : Nat} (hf : g x = .free) (hne : x ≠ a) :
    x ∉ chainFrom g (total + 2) a :=
  free_not_in_any_chain hw (chainFrom_chain hw a) hf hne

/-- a chain whose head is allocated contains no free cluster -/
theorem chain_no_free (hw : FatWf g total) {a : Nat} {cs : List Nat} (h : Chain g a cs) (ha : g a ≠ .free) :
    ∀ x ∈ cs, g x ≠ .free := by
  intro x hx hf
  exact free_not_in_any_chain hw h hf (by intro e; subst e; exact ha hf) hx

/-! ## (2) distinct chains are disjoint -/

/-- two chains that meet: one head lies on the other chain (only `no_cross` is needed) -/
theorem chains_meet (hx : ∀ a b n, g a = .data n → g b = .data n → a = b) {a b : Nat} {ca cb : List Nat}
    (ha : Chain g a ca) (hb : Chain g b cb) : ∀ x, x ∈ ca → x ∈ cb → a ∈ cb ∨ b ∈ ca := by
  induction ha with
  | last m _ => intro x h1 h2; simp at h1; subst h1; exact Or.inl h2
  | cons m k ms hd hc ih =>
    intro x h1 h2
    rcases List.mem_cons.mp h1 with rfl | h1
    · exact Or.inl h2
    · rcases ih x h1 h2 with hk | hbm
      · rcases chain_pred hb k hk with rfl | ⟨q, hq, hgq⟩
        · obtain ⟨t, rfl⟩ := chain_head hc
          exact Or.inr (by simp)
        · have := hx q m k hgq hd
          subst this
          exact Or.inl hq
      · exact Or.inr (List.mem_cons_of_mem _ hbm)

/-- **chains_disjoint.** Two chains neither of whose heads lies on the other share no cluster. -/
theorem chains_disjoint (hw : FatWf g total) {a b : Nat} {ca cb : List Nat} (ha : Chain g a ca) (hb : Chain g b cb)
    (hab : a ∉ cb) (hba : b ∉ ca) : ∀ x, x ∈ ca → x ∉ cb := by
  intro x h1 h2
  rcases chains_meet hw.no_cross ha hb x h1 h2 with h | h
  · exact hab h
  · exact hba h

/-- two distinct HEADS (entries no link points to) have disjoint chains -/
theorem head_chains_disjoint (hw : FatWf g total) {a b : Nat} {ca cb : List Nat} (ha : Chain g a ca) (hb : Chain g b cb)
    (hne : a ≠ b) (hha : ∀ q, g q ≠ .data a) (hhb : ∀ q, g q ≠ .data b) : ∀ x, x ∈ ca → x ∉ cb := by
  apply chains_disjoint hw ha hb
  · intro h
    rcases chain_pred hb a h with rfl | ⟨q, _, hq⟩
    · exact hne rfl
    · exact hha q hq
  · intro h
    rcases chain_pred ha b h with rfl | ⟨q, _, hq⟩
    · exact hne rfl
    · exact hhb q hq

theorem chainFrom_disjoint (hw : FatWf g total) {a b : Nat}
    (hab : a ∉ chainFrom g (total + 2) b) (hba : b ∉ chainFrom g (total + 2) a) :
    ∀ x, x ∈ chainFrom g (total + 2) a → x ∉ chainFrom g (total + 2) b :=
  chains_disjoint hw (chainFrom_chain hw a) (chainFrom_chain hw b) hab hba

/-! ## (3) chains after an allocation -/

/-- **alloc_keeps_other_chains.** After `allocLinkV g prev c` (`c := EOC`, then `prev := Data c`) every chain that
    contains neither `c` nor `prev` is the same list. -/
theorem alloc_keeps_other_chains {prev : Option Nat} {c a : Nat} {cs : List Nat} (h : Chain g a cs)
    (hc : c ∉ cs) (hp : ∀ p, prev = some p → p ∉ cs) : Chain (allocLinkV g prev c) a cs := by
  apply chain_agree h
  intro x hx
  have hxc : x ≠ c := by intro e; subst e; exact hc hx
  cases prev with
  | none => simp only [allocLinkV]; exact updV_ne _ _ _ _ hxc
  | some p =>
    have hxp : x ≠ p := by intro e; subst e; exact hp x rfl hx
    simp only [allocLinkV]
    rw [updV_ne _ _ _ _ hxp, updV_ne _ _ _ _ hxc]

/-- … under `FatWf`, `c` free: it suffices that the head is not `c` -/
theorem alloc_keeps_other_chains' (hw : FatWf g total) {prev : Option Nat} {c a : Nat} {cs : List Nat}
    (h : Chain g a cs) (hf : g c = .free) (hac : a ≠ c) (hp : ∀ p, prev = some p → p ∉ cs) :
    Chain (allocLinkV g prev c) a cs :=
  alloc_keeps_other_chains h (free_not_in_any_chain hw h hf (Ne.symm hac)) hp

/-- **alloc_extends_chain.** … and a chain that ends in `prev` is extended by `c`. -/
theorem alloc_extends_chain (hw : FatWf g total) {p c a : Nat} {cs : List Nat} (h : Chain g a cs)
    (hf : g c = .free) (hac : a ≠ c) (hlast : cs.getLast? = some p) :
    Chain (allocLinkV g (some p) c) a (cs ++ [c]) :=
  chain_alloc_append h c p (chain_nodup hw h) (free_not_in_any_chain hw h hf (Ne.symm hac)) hlast

/-- the new cluster alone (`prev = none`) starts the singleton chain -/
theorem alloc_new_chain {c : Nat} : Chain (allocLinkV g none c) c [c] :=
  Chain.last c (by intro n h; simp only [allocLinkV, updV_same] at h; cases h)

theorem chainFrom_alloc_other (hw : FatWf g total) {prev : Option Nat} {c a : Nat}
    (hf : g c = .free) (hac : a ≠ c) (hp : ∀ p, prev = some p → p ∉ chainFrom g (total + 2) a) :
    chainFrom (allocLinkV g prev c) (total + 2) a = chainFrom g (total + 2) a := by
  have h := chainFrom_chain hw a
  exact chainFrom_of_chain (alloc_keeps_other_chains' hw h hf hac hp) (total + 2)
    (by have := chain_length_le hw h; omega)

theorem chainFrom_alloc_extend (hw : FatWf g total) {p c a : Nat} (hf : g c = .free) (hc1 : 2 ≤ c)
    (hc2 : c < total + 2) (hpe : g p = .eoc) (hac : a ≠ c) (hlast : (chainFrom g (total + 2) a).getLast? = some p) :
    chainFrom (allocLinkV g (some p) c) (total + 2) a = chainFrom g (total + 2) a ++ [c] := by
  have h := chainFrom_chain hw a
  have h' := alloc_extends_chain hw h hf hac hlast
  have hw' : FatWf (allocLinkV g (some p) c) total :=
    fatWf_alloc hw (some p) c hf hc1 hc2 (fun q hq => by cases hq; exact hpe)
  exact chainFrom_eq hw' h'

/-! ## (4) chains after free / truncate -/

/-- **free_keeps_other_chains.** After the clusters `cs` are freed every chain disjoint from `cs` is the same list. -/
theorem free_keeps_other_chains {a : Nat} {ca cs : List Nat} (h : Chain g a ca) (hd : ∀ x ∈ ca, x ∉ cs) :
    Chain (freedView g cs) a ca := by
  apply chain_agree h
  intro x hx
  unfold freedView
  rw [if_neg (hd x hx)]

/-- … under `FatWf`, `cs` the chain of `n`: it suffices that neither head lies on the other chain -/
theorem free_keeps_other_chains' (hw : FatWf g total) {a n : Nat} {ca cs : List Nat} (h : Chain g a ca)
    (hn : Chain g n cs) (han : a ∉ cs) (hna : n ∉ ca) : Chain (freedView g cs) a ca :=
  free_keeps_other_chains h (chains_disjoint hw h hn han hna)

/-- the freed clusters are singletons afterwards -/
theorem free_freed_chain {cs : List Nat} {x : Nat} (hx : x ∈ cs) : Chain (freedView g cs) x [x] :=
  free_chain_singleton (by unfold freedView; rw [if_pos hx])

/-- **truncate_keeps_other_chains.** After `truncate` at `cur` (`cur := EOC`, its tail `t` freed) every chain disjoint
    from `cur :: t` is the same list. -/
theorem truncate_keeps_other_chains {a cur : Nat} {ca t : List Nat} (h : Chain g a ca)
    (hd : ∀ x ∈ ca, x ∉ cur :: t) : Chain (freedView (updV g cur .eoc) t) a ca := by
  apply chain_agree h
  intro x hx
  have := hd x hx
  simp only [List.mem_cons, not_or] at this
  unfold freedView
  rw [if_neg this.2, updV_ne _ _ _ _ this.1]

theorem truncate_keeps_other_chains' (hw : FatWf g total) {a cur : Nat} {ca t : List Nat} (h : Chain g a ca)
    (hn : Chain g cur (cur :: t)) (han : a ∉ cur :: t) (hna : cur ∉ ca) :
    Chain (freedView (updV g cur .eoc) t) a ca :=
  truncate_keeps_other_chains h (chains_disjoint hw h hn han hna)

/-- **truncate_cuts_chain.** … and the chain through `cur` is cut after `cur`. -/
theorem truncate_cuts_chain {cur : Nat} {t : List Nat} : ∀ {pre : List Nat} {a : Nat},
    Chain g a (pre ++ cur :: t) → (pre ++ cur :: t).Nodup → Chain (freedView (updV g cur .eoc) t) a (pre ++ [cur]) := by
  intro pre
  induction pre with
  | nil =>
    intro a h hnd
    obtain ⟨t', ht⟩ := chain_head h
    simp only [List.nil_append, List.cons.injEq] at ht
    obtain ⟨rfl, _⟩ := ht
    have hct : cur ∉ t := (List.nodup_cons.mp hnd).1
    refine Chain.last cur ?_
    intro n hn
    unfold freedView at hn
    rw [if_neg hct, updV_same] at hn
    cases hn
  | cons m ms ih =>
    intro a h hnd
    have hnd' := (List.nodup_cons.mp hnd)
    have hm : m ∉ ms ++ cur :: t := hnd'.1
    have hmc : m ≠ cur := by intro e; subst e; exact hm (by simp)
    have hmt : m ∉ t := by intro e; exact hm (by simp [e])
    obtain ⟨x, rest, hx⟩ : ∃ x rest, ms ++ cur :: t = x :: rest := by
      cases ms with
      | nil => exact ⟨cur, t, rfl⟩
      | cons y ys => exact ⟨y, ys ++ cur :: t, rfl⟩
    have h' : Chain g a (m :: x :: rest) := by rw [← hx]; exact h
    obtain ⟨rfl, hd, hc⟩ := chain_cons_inv h'
    rw [← hx] at hc
    have hxx : ∃ rest', ms ++ [cur] = x :: rest' := by
      cases ms with
      | nil => simp only [List.nil_append, List.cons.injEq] at hx; exact ⟨[], by rw [hx.1]; rfl⟩
      | cons y ys => simp only [List.cons_append, List.cons.injEq] at hx; exact ⟨ys ++ [cur], by rw [hx.1]; rfl⟩
    have ih' := ih hc hnd'.2
    show Chain _ a (a :: (ms ++ [cur]))
    refine Chain.cons a x (ms ++ [cur]) ?_ ih'
    unfold freedView
    rw [if_neg hmt, updV_ne _ _ _ _ hmc]; exact hd

theorem chainFrom_free_other (hw : FatWf g total) {a : Nat} {cs : List Nat}
    (hd : ∀ x ∈ chainFrom g (total + 2) a, x ∉ cs) :
    chainFrom (freedView g cs) (total + 2) a = chainFrom g (total + 2) a := by
  have h := chainFrom_chain hw a
  exact chainFrom_of_chain (free_keeps_other_chains h hd) (total + 2) (by have := chain_length_le hw h; omega)

theorem chainFrom_truncate_other (hw : FatWf g total) {a cur : Nat} {t : List Nat}
    (hd : ∀ x ∈ chainFrom g (total + 2) a, x ∉ cur :: t) :
    chainFrom (freedView (updV g cur .eoc) t) (total + 2) a = chainFrom g (total + 2) a := by
  have h := chainFrom_chain hw a
  exact chainFrom_of_chain (truncate_keeps_other_chains h hd) (total + 2) (by have := chain_length_le hw h; omega)

theorem chainFrom_truncate_cut (hw : FatWf g total) {a cur : Nat} {pre t : List Nat}
    (he : chainFrom g (total + 2) a = pre ++ cur :: t) :
    chainFrom (freedView (updV g cur .eoc) t) (total + 2) a = pre ++ [cur] := by
  have h := chainFrom_chain hw a
  have hnd := chainFrom_nodup hw a
  have hl := chain_length_le hw h
  rw [he] at h hnd hl
  refine chainFrom_of_chain (truncate_cuts_chain h hnd) (total + 2) ?_
  simp only [List.length_append, List.length_cons, List.length_nil] at hl ⊢
  omega

/-! ## (5) `FatWf` re-established -/

theorem fatWf_allocLinkV (hw : FatWf g total) (prev : Option Nat) {c : Nat} (hf : g c = .free) (hc1 : 2 ≤ c)
    (hc2 : c < total + 2) (hp : ∀ p, prev = some p → g p = .eoc) : FatWf (allocLinkV g prev c) total :=
  fatWf_alloc hw prev c hf hc1 hc2 hp

/-- freeing the whole chain of a head -/
theorem fatWf_freedView (hw : FatWf g total) {c : Nat} {cs : List Nat} (hch : Chain g c cs)
    (hhead : ∀ a, g a ≠ .data c) : FatWf (freedView g cs) total :=
  fatWf_free hw hch hhead (fun i hi => by unfold freedView; rw [if_pos hi])
    (fun i hi => by unfold freedView; rw [if_neg hi])

theorem fatWf_truncView (hw : FatWf g total) {c : Nat} {t : List Nat} (hch : Chain g c (c :: t)) :
    FatWf (freedView (updV g c .eoc) t) total := by
  have hct : c ∉ t := (List.nodup_cons.mp (chain_nodup hw hch)).1
  refine fatWf_truncate hw hch ?_ ?_ ?_
  · unfold freedView; rw [if_neg hct, updV_same]
  · intro i hi; unfold freedView; rw [if_pos hi]
  · intro i hic hit; unfold freedView; rw [if_neg hit, updV_ne _ _ _ _ hic]

/-! ## not vacuous: chains 2→3→4 and 5→6, cluster 7 free, `total = 8` -/

namespace Ex
def tbl : Nat → FatValue := fun c =>
  if c = 2 then .data 3 else if c = 3 then .data 4 else if c = 4 then .eoc else if c = 5 then .data 6
  else if c = 6 then .eoc else if c = 7 then .free else .bad

theorem wf : FatWf tbl 8 := by
  have key : ∀ c n, tbl c = .data n → (c = 2 ∧ n = 3) ∨ (c = 3 ∧ n = 4) ∨ (c = 5 ∧ n = 6) := by
    intro c n h
    unfold tbl at h
    repeat' split at h
    all_goals first | (cases h; omega) | cases h
  refine ⟨?_, ?_, ?_, ⟨fun c => 10 - c, ?_⟩⟩
  · intro c n h; rcases key c n h with ⟨_, rfl⟩ | ⟨_, rfl⟩ | ⟨_, rfl⟩ <;> omega
  · intro c n h; rcases key c n h with ⟨_, rfl⟩ | ⟨_, rfl⟩ | ⟨_, rfl⟩ <;> decide
  · intro a b n ha hb
    rcases key a n ha with ⟨rfl, rfl⟩ | ⟨rfl, rfl⟩ | ⟨rfl, rfl⟩ <;>
      rcases key b _ hb with ⟨rfl, h⟩ | ⟨rfl, h⟩ | ⟨rfl, h⟩ <;> first | rfl | omega
  · intro c n h; rcases key c n h with ⟨rfl, rfl⟩ | ⟨rfl, rfl⟩ | ⟨rfl, rfl⟩ <;> (dsimp only; omega)

example : chainFrom tbl 10 2 = [2, 3, 4] ∧ chainFrom tbl 10 5 = [5, 6] := by decide
example : ∀ x, x ∈ chainFrom tbl 10 2 → x ∉ chainFrom tbl 10 5 :=
  chainFrom_disjoint wf (a := 2) (b := 5) (by decide) (by decide)
example : chainFrom (allocLinkV tbl (some 6) 7) 10 2 = [2, 3, 4] :=
  (chainFrom_alloc_other wf (by decide) (by decide) (fun p h => by cases h; decide)).trans (by decide)
example : chainFrom (allocLinkV tbl (some 6) 7) 10 5 = [5, 6, 7] :=
  (chainFrom_alloc_extend wf (by decide) (by decide) (by decide) (by decide) (by decide) (by decide)).trans (by decide)
example : chainFrom (freedView tbl [5, 6]) 10 2 = [2, 3, 4] :=
  (chainFrom_free_other wf (by decide)).trans (by decide)
example : chainFrom (freedView (updV tbl 3 .eoc) [4]) 10 2 = [2, 3] :=
  chainFrom_truncate_cut (pre := [2]) wf (by decide)
end Ex

end FatVerif.FatDisjoint
