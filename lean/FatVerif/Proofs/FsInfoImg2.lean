import FatVerif.Proofs.FsInfoImg1
import FatVerif.Proofs.FormatImage12
import FatVerif.Props.C12
/-! C05 at image level, part 2: what `flush_fs_info` / `unmount` leave in the FS-info sector of the image, read back with
    `FsInfoSector::deserialize`. -/
namespace FatVerif.FsInfoImg
open FatVerif FatVerif.Fat FatVerif.FileSim

/-! ### serialise, then deserialise -/

/-- the sector `FsInfoSector::serialize` writes, read back: the two fields decoded (`0xFFFFFFFF` = unknown, hint 0/1 =
    unknown) -/
theorem fsInfo_deserialize_raw (a n : Nat) (ha : a < 4294967296) (hn : n < 4294967296) :
    FsInfo.deserialize (bytesLe32 0x41615252 ++ List.replicate 480 0 ++ bytesLe32 0x61417272 ++ bytesLe32 a ++
        bytesLe32 n ++ List.replicate 12 0 ++ bytesLe32 0xAA550000) =
      .ok { freeClusterCount := FsInfo.decodeFree a, nextFreeCluster := FsInfo.decodeNext n, dirty := false } := by
  generalize hZ : List.replicate 480 0 = Z
  generalize hY : List.replicate 12 0 = Y
  have lZ : Z.length = 480 := by rw [← hZ, List.length_replicate]
  have lY : Y.length = 12 := by rw [← hY, List.length_replicate]
  have e0 : u32At (bytesLe32 0x41615252 ++ Z ++ bytesLe32 0x61417272 ++ bytesLe32 a ++ bytesLe32 n ++ Y ++
      bytesLe32 0xAA550000) 0 = 0x41615252 := by
    have := u32At_head (Z ++ bytesLe32 0x61417272 ++ bytesLe32 a ++ bytesLe32 n ++ Y ++ bytesLe32 0xAA550000)
      0x41615252
    simp only [List.append_assoc] at this ⊢
    exact this
  have e484 : u32At (bytesLe32 0x41615252 ++ Z ++ bytesLe32 0x61417272 ++ bytesLe32 a ++ bytesLe32 n ++ Y ++
      bytesLe32 0xAA550000) 484 = 0x61417272 := by
    have := u32At_mid (bytesLe32 0x41615252 ++ Z) (bytesLe32 a ++ bytesLe32 n ++ Y ++ bytesLe32 0xAA550000)
      0x61417272 484 (by rw [List.length_append, len_le32, lZ])
    simp only [List.append_assoc] at this ⊢
    exact this
  have e488 : u32At (bytesLe32 0x41615252 ++ Z ++ bytesLe32 0x61417272 ++ bytesLe32 a ++ bytesLe32 n ++ Y ++
      bytesLe32 0xAA550000) 488 = a % 4294967296 := by
    have := u32At_mid (bytesLe32 0x41615252 ++ Z ++ bytesLe32 0x61417272) (bytesLe32 n ++ Y ++ bytesLe32 0xAA550000)
      a 488 (by rw [List.length_append, List.length_append, len_le32, len_le32, lZ])
    simp only [List.append_assoc] at this ⊢
    exact this
  have e492 : u32At (bytesLe32 0x41615252 ++ Z ++ bytesLe32 0x61417272 ++ bytesLe32 a ++ bytesLe32 n ++ Y ++
      bytesLe32 0xAA550000) 492 = n % 4294967296 := by
    have := u32At_mid (bytesLe32 0x41615252 ++ Z ++ bytesLe32 0x61417272 ++ bytesLe32 a) (Y ++ bytesLe32 0xAA550000)
      n 492 (by rw [List.length_append, List.length_append, List.length_append, len_le32, len_le32, len_le32, lZ])
    simp only [List.append_assoc] at this ⊢
    exact this
  have e508 : u32At (bytesLe32 0x41615252 ++ Z ++ bytesLe32 0x61417272 ++ bytesLe32 a ++ bytesLe32 n ++ Y ++
      bytesLe32 0xAA550000) 508 = 0xAA550000 := by
    have := u32At_mid (bytesLe32 0x41615252 ++ Z ++ bytesLe32 0x61417272 ++ bytesLe32 a ++ bytesLe32 n ++ Y) []
      0xAA550000 508 (by
        rw [List.length_append, List.length_append, List.length_append, List.length_append, List.length_append,
          len_le32, len_le32, len_le32, len_le32, lZ, lY])
    simp only [List.append_nil, List.append_assoc] at this ⊢
    exact this
  generalize hX : bytesLe32 0x41615252 ++ Z ++ bytesLe32 0x61417272 ++ bytesLe32 a ++ bytesLe32 n ++ Y ++
      bytesLe32 0xAA550000 = X at e0 e484 e488 e492 e508 ⊢
  rw [Nat.mod_eq_of_lt ha] at e488
  rw [Nat.mod_eq_of_lt hn] at e492
  unfold FsInfo.deserialize
  rw [if_neg (show ¬ (u32At X 0 ≠ FsInfo.LEAD_SIG) by rw [e0]; exact fun h => h rfl),
    if_neg (show ¬ (u32At X 484 ≠ FsInfo.STRUC_SIG) by rw [e484]; exact fun h => h rfl),
    if_neg (show ¬ (u32At X 508 ≠ FsInfo.TRAIL_SIG) by rw [e508]; exact fun h => h rfl), e488, e492]

/-- `deserialize ∘ serialize` on the in-memory FS-info: the cached count and the hint come back, provided they are
    representable (a count `< 0xFFFFFFFF`, a hint in `[2, 0xFFFFFFFF)`) -/
theorem fsInfo_roundtrip (i : FsInfoSt) (hf : ∀ a, i.free = some a → a < 4294967295)
    (hn : ∀ n, i.next = some n → 2 ≤ n ∧ n < 4294967295) :
    FsInfo.deserialize (fsInfoBytes i) = .ok { freeClusterCount := i.free, nextFreeCluster := i.next, dirty := false } := by
  unfold fsInfoBytes
  rw [fsInfo_deserialize_raw _ _ (by cases h : i.free with | none => simp | some a => have := hf a h; simp; omega)
    (by cases h : i.next with | none => simp | some n => have := hn n h; simp; omega)]
  congr 2
  · cases h : i.free with
    | none => rfl
    | some a => have := hf a h; simp only [Option.getD_some, FsInfo.decodeFree]; rw [if_neg (by omega)]
  · cases h : i.next with
    | none => rfl
    | some n => have := hn n h; simp only [Option.getD_some, FsInfo.decodeNext]; rw [if_neg (by omega)]

theorem fsInfoBytes_length (i : FsInfoSt) : (fsInfoBytes i).length = 512 := by
  unfold fsInfoBytes
  simp only [List.length_append, List.length_replicate, len_le32]

theorem allB_getD' {l : List Nat} (h : AllB l) (k : Nat) : l.getD k 0 < 256 := by
  rw [List.getD_eq_getElem?_getD]
  cases hk : l[k]? with
  | none => simp
  | some b => simp; exact h b (List.mem_of_getElem? hk)

theorem chunksOf_flatten : ∀ (ns : List Nat) (bs : List Nat), (chunksOf bs ns).flatten = bs.take ns.sum := by
  intro ns
  induction ns with
  | nil => intro bs; simp [chunksOf]
  | cons n rest ih =>
    intro bs
    simp only [chunksOf, List.flatten_cons, ih, List.sum_cons]
    rw [List.take_add]

/-! ### flush_fs_info on the image -/

/-- a successful `flush_fs_info`: on FAT32 with a dirty FS-info the 512 bytes at the FS-info location ARE the
    serialisation of the in-memory FS-info and every other byte is unchanged; otherwise no byte changes -/
theorem flushFsInfo_img (d : Dev) (hwf : d.img.WF) {u : Unit} {d' : Dev} (hr : run flushFsInfo d = (.ok u, d')) :
    d'.img.WF ∧ d'.fs = { d.fs with fsInfo := d'.fs.fsInfo } ∧
    ((d.fs.fatType = .fat32 ∧ d.fs.fsInfo.dirty = true) →
      d'.img.read (d.fs.fsInfoSector * d.fs.bps) 512 = fsInfoBytes d.fs.fsInfo ∧
      (∀ q, ¬ (d.fs.fsInfoSector * d.fs.bps ≤ q ∧ q < d.fs.fsInfoSector * d.fs.bps + 512) →
        d'.img.getByte q = d.img.getByte q) ∧
      d'.fs.fsInfo = { d.fs.fsInfo with dirty := false }) ∧
    (¬ (d.fs.fatType = .fat32 ∧ d.fs.fsInfo.dirty = true) → d' = d) := by
  have hfs := FatVerif.flushFsInfo_fs d hr
  unfold flushFsInfo at hr
  rcases run_bind_cases hr with ⟨fs, d0, h0, h1⟩ | ⟨e, _, he⟩
  rotate_left
  · cases he
  obtain ⟨rfl, rfl⟩ := run_getFs_inv h0
  by_cases hc : d0.fs.fatType = .fat32 ∧ d0.fs.fsInfo.dirty = true
  · rw [if_pos hc] at h1
    rcases run_bind_cases h1 with ⟨t, d1, h2, h3⟩ | ⟨e, _, he⟩
    rotate_left
    · cases he
    rcases run_bind_cases h3 with ⟨u2, d2, h4, h5⟩ | ⟨e, _, he⟩
    rotate_left
    · cases he
    rw [FileSim.run_modifyFs] at h5
    cases h5
    have hs := run_seekStart_spec _ d0 h2
    have hpos := hs.2.2 _ rfl
    have himg1 : d1.img = d0.img := run_seekStart_img _ d0 h2
    have htile := writeChunks_dev_tiled _ d1 u2 d2 h4
    rw [chunksOf_flatten] at htile
    have hsum : fsInfoChunks.sum = 512 := by decide
    rw [hsum, ← fsInfoBytes_length d0.fs.fsInfo, List.take_length] at htile
    obtain ⟨L, hL, hseg⟩ := htile.tileAt
    obtain ⟨hwf2, hbytes⟩ := img_after_seg h4 (by rw [himg1]; exact hwf) hseg
    have hrep : ∀ q, d2.img.getByte q =
        if d0.fs.fsInfoSector * d0.fs.bps ≤ q ∧ q < d0.fs.fsInfoSector * d0.fs.bps + 512 then
          (fsInfoBytes d0.fs.fsInfo).getD (q - d0.fs.fsInfoSector * d0.fs.bps) 0 else d0.img.getByte q := by
      intro q
      have := hL.replay d1.img.getByte [] q
      rw [List.append_nil] at this
      rw [hbytes q, this, hpos, fsInfoBytes_length, himg1]
      split
      · exact Nat.mod_eq_of_lt (allB_getD' (fsInfoBytes_allB _) _)
      · simp only [replay]; exact Nat.mod_eq_of_lt (Img.getByte_lt _ _)
    refine ⟨hwf2, hfs, fun _ => ⟨?_, ?_, ?_⟩, fun h => absurd hc h⟩
    · apply List.ext_getElem
      · rw [Img.read_length, fsInfoBytes_length]
      · intro k h1 h2
        rw [Img.read_length] at h1
        have e1 := Img.read_getD' d2.img (d0.fs.fsInfoSector * d0.fs.bps) 512 k h1
        rw [List.getD_eq_getElem?_getD, List.getElem?_eq_getElem (by rw [Img.read_length]; exact h1)] at e1
        simp only [Option.getD_some] at e1
        rw [e1, hrep, if_pos ⟨by omega, by omega⟩, Nat.add_sub_cancel_left,
          List.getD_eq_getElem?_getD, List.getElem?_eq_getElem h2]
        rfl
    · intro q hq
      rw [hrep, if_neg hq]
    · have hw := writeChunks_dev_within _ d1 _ _ h4
      show ({ d2.fs.fsInfo with dirty := false } : FsInfoSt) = _
      rw [hw.1, hs.1]
  · rw [if_neg hc] at h1
    have h1' : run (Prog.pure ()) d0 = (.ok u, d') := h1
    simp only [run] at h1'; cases h1'
    exact ⟨hwf, rfl, fun h => absurd h hc, fun _ => rfl⟩

end FatVerif.FsInfoImg
