import FatVerif.Proofs.AFileRead
import FatVerif.Proofs.AFileWrite
/-! The default loops of io.rs on top of the single calls: `read_exact`, `write_all`. -/
namespace FatVerif.Cursor

theorem take_drop_split (c : List Nat) (o k n : Nat) (hk : k ≤ n) :
    (c.drop o).take k ++ (c.drop (o + k)).take (n - k) = (c.drop o).take n := by
  have : n = k + (n - k) := by omega
  conv => rhs; rw [this, List.take_add, List.drop_drop]

local macro "triv" : tactic => `(tactic| first | rfl | trivial | assumption)

section
variable {σ : Type} {isFree : σ → Nat → Prop} {A : Allocator σ}

/-- `read_exact` with `fuel ≥ need`: the whole buffer if enough bytes remain, else `UnexpectedEof` with the cursor
    at the end of the file -/
theorem readExactLoop_spec {s : σ} : ∀ (fuel : Nat) (f : AFile) (need : Nat) (acc : List Nat),
    AFileInv isFree f s → need ≤ fuel →
    AFileInv isFree (f.readExactLoop fuel need acc).2 s ∧ (f.readExactLoop fuel need acc).2.cs = f.cs ∧
    (need ≤ f.size - f.offset →
      (f.readExactLoop fuel need acc).1 = .ok (acc ++ (f.abs.read need).1) ∧
      (f.readExactLoop fuel need acc).2.abs = (f.abs.read need).2) ∧
    (f.size - f.offset < need →
      (f.readExactLoop fuel need acc).1 = .error .eof ∧
      (f.readExactLoop fuel need acc).2.abs = { f.abs with pos := f.size })
  | 0, f, need, acc, h, hf => by
    have hn : need = 0 := by omega
    subst hn
    simp only [AFile.readExactLoop, if_true]
    refine ⟨h, (by triv), fun _ => ⟨by simp [ByteFile.read], by simp [ByteFile.read, AFile.abs]⟩, fun hlt => by omega⟩
  | fuel + 1, f, need, acc, h, hf => by
    by_cases hn : need = 0
    · subst hn
      simp only [AFile.readExactLoop, if_true]
      refine ⟨h, (by triv), fun _ => ⟨by simp [ByteFile.read], by simp [ByteFile.read, AFile.abs]⟩, fun hlt => by omega⟩
    · obtain ⟨p, hi⟩ := h.read_post need
      have hcs := h.cs_pos
      have hoff := h.off_le
      have hdm := divmod_spec f.cs f.offset hcs
      have hk : f.readLen need ≤ need ∧ f.readLen need ≤ f.size - f.offset := by unfold AFile.readLen; omega
      have hlen : ((f.content.drop f.offset).take (f.readLen need)).length = f.readLen need := by
        simp; omega
      have hstep : f.readExactLoop (fuel + 1) need acc =
          if f.readLen need = 0 then (.error .eof, (f.read need).2)
          else (f.read need).2.readExactLoop fuel (need - f.readLen need)
            (acc ++ (f.content.drop f.offset).take (f.readLen need)) := by
        have hres := p.res
        rw [AFile.readExactLoop]
        simp only [hn, if_false]
        generalize f.read need = r at hres ⊢
        obtain ⟨r1, r2⟩ := r
        simp only at hres
        subst hres
        simp only [hlen]
      rw [hstep]
      by_cases hk0 : f.readLen need = 0
      · simp only [hk0, if_true]
        have hrem : f.size - f.offset = 0 := by unfold AFile.readLen at hk0; omega
        refine ⟨hi, p.cs, fun hle => by omega, fun _ => ⟨(by triv), ?_⟩⟩
        simp only [AFile.abs, p.content, p.offset, hk0]
        congr 1; omega
      · simp only [hk0, if_false]
        obtain ⟨i1, i2, i3, i4⟩ := readExactLoop_spec fuel (f.read need).2 (need - f.readLen need)
          (acc ++ (f.content.drop f.offset).take (f.readLen need)) hi (by omega)
        refine ⟨i1, i2.trans p.cs, fun hle => ?_, fun hlt => ?_⟩
        · obtain ⟨j1, j2⟩ := i3 (by rw [p.size, p.offset]; omega)
          refine ⟨?_, ?_⟩
          · rw [j1]
            simp only [ByteFile.read, AFile.abs, p.content, p.offset]
            rw [List.append_assoc, take_drop_split _ _ _ _ hk.1]
          · rw [j2]
            simp only [ByteFile.read, AFile.abs, p.content, p.offset, ByteFile.remaining, AFile.content_length]
            congr 1; omega
        · obtain ⟨j1, j2⟩ := i4 (by rw [p.size, p.offset]; omega)
          refine ⟨j1, ?_⟩
          rw [j2]
          simp only [AFile.abs, p.content, p.size]

/-- `write_all` with `fuel ≥ |bs|` -/
theorem writeAllLoop_spec (hA : AllocLaws A isFree) : ∀ (fuel : Nat) (f : AFile) (s : σ) (bs : List Nat),
    AFileInv isFree f s → bs.length ≤ fuel →
    AFileInv isFree (f.writeAllLoop A fuel s bs).2.1 (f.writeAllLoop A fuel s bs).2.2 ∧
    (f.writeAllLoop A fuel s bs).2.1.cs = f.cs ∧
    (((f.writeAllLoop A fuel s bs).1 = .ok () ∧ (f.writeAllLoop A fuel s bs).2.1.abs = (f.abs.write bs).2 ∧
        f.offset + bs.length ≤ u32Max) ∨
     (∃ e k, (f.writeAllLoop A fuel s bs).1 = .error e ∧ k < bs.length ∧
        (f.writeAllLoop A fuel s bs).2.1.offset = f.offset + k ∧
        (f.writeAllLoop A fuel s bs).2.1.abs = (f.abs.write (bs.take k)).2 ∧
        ((e = .noSpace ∧ A.alloc (f.writeAllLoop A fuel s bs).2.2 = none ∧
            (f.writeAllLoop A fuel s bs).2.1.offset % f.cs = 0 ∧
            f.size ≤ (f.writeAllLoop A fuel s bs).2.1.offset) ∨
         (e = .writeZero ∧ (f.writeAllLoop A fuel s bs).2.1.offset = u32Max))))
  | 0, f, s, bs, h, hf => by
    have hn : bs = [] := List.eq_nil_of_length_eq_zero (by omega)
    subst hn
    simp only [AFile.writeAllLoop, List.length_nil, if_true]
    have := h.off_le; have := h.size_le
    exact ⟨h, (by triv), Or.inl ⟨(by triv), by simp [ByteFile.write_nil], by simp; omega⟩⟩
  | fuel + 1, f, s, bs, h, hf => by
    have hoff := h.off_le
    have hsz := h.size_le
    have hcs := h.cs_pos
    have hdm := divmod_spec f.cs f.offset hcs
    by_cases hn : bs.length = 0
    · have hn' : bs = [] := List.eq_nil_of_length_eq_zero hn
      subst hn'
      simp only [AFile.writeAllLoop, List.length_nil, if_true]
      exact ⟨h, (by triv), Or.inl ⟨(by triv), by simp [ByteFile.write_nil], by simp; omega⟩⟩
    · rw [AFile.writeAllLoop]
      simp only [hn, if_false]
      rcases h.write_refines hA bs with ⟨he, hm, hes, hal, _⟩ | ⟨hres, hi, hcs', hab, _⟩
      · rw [he]
        simp only
        refine ⟨h, (by triv), Or.inr ⟨.noSpace, 0, (by triv), by omega, (by triv), by simp [ByteFile.write_nil], ?_⟩⟩
        exact Or.inl ⟨(by triv), hal, hm, by omega⟩
      · generalize hr : f.write A s bs = r at hres hi hcs' hab ⊢
        obtain ⟨r1, f', s'⟩ := r
        simp only at hres hi hcs' hab
        subst hres
        simp only
        have hwl : f.writeLen bs.length ≤ bs.length := by unfold AFile.writeLen; omega
        have htl : (bs.take (f.writeLen bs.length)).length = f.writeLen bs.length := by
          rw [List.length_take]; omega
        have hoff' : f'.offset = f.offset + f.writeLen bs.length := by
          have := congrArg ByteFile.pos hab
          simpa [ByteFile.write, htl] using this
        have hsize' : f'.size = max f.size (f.offset + f.writeLen bs.length) := by
          have := congrArg (fun b => b.content.length) hab
          simp only [AFile.abs_content, AFile.content_length] at this
          rw [this, ByteFile.write_content_length _ _ (by simpa using hoff), htl]
          simp
        by_cases hw : f.writeLen bs.length = 0
        · simp only [hw, if_true]
          refine ⟨hi, hcs', Or.inr ⟨.writeZero, 0, (by triv), by omega, by rw [hoff', hw], ?_, ?_⟩⟩
          · rw [hab, hw]
          · refine Or.inr ⟨(by triv), ?_⟩
            rw [hoff', hw]
            unfold AFile.writeLen at hw
            omega
        · simp only [hw, if_false]
          have hdl : (bs.drop (f.writeLen bs.length)).length ≤ fuel := by
            rw [List.length_drop]; omega
          obtain ⟨i1, i2, i3⟩ := writeAllLoop_spec hA fuel f' s' (bs.drop (f.writeLen bs.length)) hi hdl
          refine ⟨i1, i2.trans hcs', ?_⟩
          have hposle : f.abs.pos ≤ f.abs.content.length := by simpa using hoff
          rcases i3 with ⟨j1, j2, j3⟩ | ⟨e, k, j1, j2, j3, j4, j5⟩
          · left
            refine ⟨j1, ?_, ?_⟩
            · rw [j2, hab, ByteFile.write_write _ _ _ hposle, List.take_append_drop]
            · rw [List.length_drop] at j3; omega
          · right
            refine ⟨e, f.writeLen bs.length + k, j1, ?_, ?_, ?_, ?_⟩
            · rw [List.length_drop] at j2; omega
            · rw [j3, hoff']; omega
            · rw [j4, hab, ByteFile.write_write _ _ _ hposle]
              congr 2
              rw [List.take_add]
            · rcases j5 with ⟨e1, e0, e2, e3⟩ | ⟨e1, e2⟩
              · refine Or.inl ⟨e1, e0, by rw [← hcs']; exact e2, ?_⟩
                rw [hsize'] at e3
                omega
              · exact Or.inr ⟨e1, e2⟩

end
end FatVerif.Cursor
