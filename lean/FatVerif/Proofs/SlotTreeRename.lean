import FatVerif.Proofs.SlotTreeRenameAux
/-!
# Slot trees: `rename` against `Spec.evalRename`
-/
namespace FatVerif
namespace SlotTree
open Lfn DirSlots DirAlias

/-! ## the frame lemma: an update at `dp` that only extends the directory there leaves the handle `sp` intact -/

/-- `n'` extends `n`: every lookup that succeeded (by name) still succeeds with the same result -/
def Ext (up : Char → List Char) (n n' : Node) : Prop :=
  match n with
  | .file _ => True
  | .dir s ch => ∃ s' ch', n' = .dir s' ch' ∧
      ∀ q x, lookupS up s ch q = some x → NameHitOnly up s q → lookupS up s' ch' q = some x ∧ NameHitOnly up s' q

theorem find_map_key {e : LfnEntry} (g : LfnEntry × Node → LfnEntry × Node) (hg : ∀ x, (g x).1 = x.1) :
    ∀ ch : List (LfnEntry × Node), (ch.map g).find? (fun y => y.1 == e) = (ch.find? fun y => y.1 == e).map g
  | [] => rfl
  | x :: r => by
    simp only [List.map_cons, List.find?_cons, hg x]
    cases hk : (x.1 == e) with
    | true => rfl
    | false => exact find_map_key g hg r

theorem frame_upd {up : Char → List Char} (f : Node → Node) : ∀ (sp dp : List String) (t : Node), TreeWf up t →
    Lock up t sp → Lock up t dp → samePathS up sp dp = false →
    (∀ n, getAtS up t dp = some n → Ext up n (f n)) →
    ∀ ss sch, getAtS up t sp = some (.dir ss sch) →
      Lock up (updS up f dp t) sp ∧ ∃ ch1, getAtS up (updS up f dp t) sp = some (.dir ss ch1) := by
  intro sp
  induction sp with
  | nil =>
    intro dp t _ _ _ hns _ ss sch hg
    simp only [getAtS, Option.some.injEq] at hg
    subst hg
    refine ⟨trivial, ?_⟩
    cases dp with
    | nil => simp [samePathS, prefixS] at hns
    | cons q' r' =>
      simp only [updS]
      split
      · exact ⟨sch, rfl⟩
      · exact ⟨_, rfl⟩
  | cons q r ih =>
    intro dp t hwf hls hld hns hext ss sch hg
    cases t with
    | file c => simp [getAtS] at hg
    | dir s ch =>
      obtain ⟨hd, hch⟩ := (all_dir _ s ch).1 hwf
      simp only [getAtS] at hg
      cases hx : lookupS up s ch q with
      | none => rw [hx] at hg; cases hg
      | some x =>
        rw [hx] at hg
        simp only [Lock] at hls
        obtain ⟨hfx, hxm, hxl, hxq⟩ := lookupS_some hd hx
        cases dp with
        | nil =>
          obtain ⟨s', ch', he, hpres⟩ := hext _ rfl
          obtain ⟨p1, p2⟩ := hpres q x hx hls.1
          simp only [updS]
          rw [he]
          constructor
          · simp only [Lock]
            refine ⟨p2, fun y hy => ?_⟩
            rw [p1] at hy
            cases hy
            exact hls.2 x hx
          · simp only [getAtS, p1]
            exact ⟨sch, hg⟩
        | cons q' r' =>
          simp only [Lock] at hld
          simp only [updS]
          cases hf' : findEntry up s q'.toList with
          | none =>
            simp only
            exact ⟨by simp only [Lock]; exact hls, sch, by simp only [getAtS, hx]; exact hg⟩
          | some k' =>
            simp only
            have hkeys : ∀ y : LfnEntry × Node, (if y.1 == k' then (y.1, updS up f r' y.2) else y).1 = y.1 := by
              intro y; split <;> rfl
            have hlk : lookupS up s (ch.map fun y => if y.1 == k' then (y.1, updS up f r' y.2) else y) q =
                some (if x.1 == k' then (x.1, updS up f r' x.2) else x) := by
              unfold lookupS
              rw [hfx]
              simp only
              rw [find_map_key _ hkeys ch, hd.find_key hxm]
              rfl
            by_cases hk : x.1 = k'
            · -- the update goes through the same child
              have hlq' : lookupS up s ch q' = some x := by
                unfold lookupS; rw [hf', ← hk]; exact hd.find_key hxm
              have hsame : sameName up q q' = true := by
                rw [sameName_iff]
                have h1 := hls.1 x.1 hxl hxq
                have h2 := hld.1 x.1 hxl (by rw [hk]; exact (findEntry_some_iff up s _ k').1 hf' |>.choose_spec.choose_spec.2.1)
                rw [← h1, h2]
              have hns' : samePathS up r r' = false := by
                rw [samePathS_cons, hsame, Bool.true_and] at hns
                exact hns
              have hext' : ∀ n, getAtS up x.2 r' = some n → Ext up n (f n) := by
                intro n hn
                apply hext n
                simp only [getAtS, hlq']
                exact hn
              obtain ⟨i1, ch1, i2⟩ := ih r' x.2 (hch x hxm) (hls.2 x hx) (hld.2 x hlq') hns' hext' ss sch hg
              have hb : (x.1 == k') = true := by simpa using hk
              rw [hb] at hlk
              simp only [if_true] at hlk
              constructor
              · simp only [Lock]
                refine ⟨hls.1, fun y hy => ?_⟩
                rw [hlk] at hy
                cases hy
                exact i1
              · simp only [getAtS, hlk]
                exact ⟨ch1, i2⟩
            · have hb : (x.1 == k') = false := by simpa using hk
              rw [hb] at hlk
              simp only [Bool.false_eq_true, if_false] at hlk
              constructor
              · simp only [Lock]
                refine ⟨hls.1, fun y hy => ?_⟩
                rw [hlk] at hy
                cases hy
                exact hls.2 x hx
              · simp only [getAtS, hlk]
                exact ⟨sch, hg⟩

/-- writing an entry extends the directory -/
theorem ext_addEntry {up : Char → List Char} {slots : List (List Nat)} {ch : List (LfnEntry × Node)}
    (hd : DirOk up slots ch) (units sfn : List Nat) (child : Node)
    (hwf' : DirWf up (writeEntry slots units sfn))
    (h1 : 1 ≤ units.length) (h255 : units.length ≤ 255) (hu : ∀ x ∈ units, x < 65536)
    (hnz : ∀ x ∈ units, x ≠ 0) (hsfn : slotClass sfn = .file) (hkind : Lfn.isDir sfn = child.isDir) :
    Ext up (.dir slots ch) (addEntry units sfn child (.dir slots ch)) := by
  obtain ⟨hd', hsub, hnew, hnotin⟩ := addEntry_dirOk hd units sfn child hwf' h1 h255 hu hnz hsfn hkind
  refine ⟨_, _, addEntry_dir hd.wf.shape units sfn child ch h1 h255 hu hnz hsfn, ?_⟩
  intro q x hx hq
  obtain ⟨_, hxm, hxl, hxq⟩ := lookupS_some hd hx
  have hxl' := hsub x.1 hxl
  constructor
  · unfold lookupS
    rw [findEntry_unique up _ hwf' _ _ hxl' hxq]
    exact hd'.find_key (List.mem_append.2 (Or.inl hxm))
  · intro e' he' hm
    have hmem : e' ∈ (ch ++ [(newEntry slots units sfn, child)]).map (·.1) := hd'.perm.mem_iff.2 he'
    rw [List.map_append, List.mem_append] at hmem
    rcases hmem with hm1 | hm1
    · exact hq e' (hd.perm.mem_iff.1 hm1) hm
    · simp only [List.map_cons, List.map_nil, List.mem_singleton] at hm1
      have := match_unique up _ hwf'.keys e' he' x.1 hxl' _ hm hxq
      rw [hm1] at this
      rw [this] at hnotin
      exact absurd hxl hnotin

variable (u : Char → List Char)

/-! ## when the two abstract updates commute -/

theorem commCond_of_model (given : String) (e : LfnEntry) : ∀ (sp dp : List String) (t : Node),
    TreeWf (upOf u) t → Lock (upOf u) t sp → Lock (upOf u) t dp →
    ∀ ss sch, getAtS (upOf u) t sp = some (.dir ss sch) → e ∈ listing ss →
    ∀ ds dch, getAtS (upOf u) t dp = some (.dir ds dch) → findEntry (upOf u) ds given.toList = none →
    CommCond u given (entryName e) sp dp := by
  intro sp
  induction sp with
  | nil =>
    intro dp t hwf _ _ ss sch hgs he ds dch hgd hnone
    cases dp with
    | nil =>
      simp only [getAtS, Option.some.injEq] at hgs hgd
      subst hgs
      cases hgd
      obtain ⟨hd, _⟩ := (all_dir _ ss sch).1 hwf
      simp only [CommCond]
      cases hs : (cfgOf u).same given (entryName e) with
      | false => rfl
      | true =>
        rw [same_eq, sameName_iff, entryName_toList] at hs
        rw [findEntry_congr _ ss hs, findEntry_unique _ ss hd.wf _ e he (matches_self _ e)] at hnone
        cases hnone
    | cons _ _ => trivial
  | cons q r ih =>
    intro dp t hwf hls hld ss sch hgs he ds dch hgd hnone
    cases t with
    | file c => simp [getAtS] at hgs
    | dir s ch =>
      obtain ⟨hd, hch⟩ := (all_dir _ s ch).1 hwf
      simp only [getAtS] at hgs
      cases hx : lookupS (upOf u) s ch q with
      | none => rw [hx] at hgs; cases hgs
      | some x =>
        rw [hx] at hgs
        obtain ⟨hfx, hxm, _, _⟩ := lookupS_some hd hx
        cases dp with
        | nil =>
          simp only [getAtS, Option.some.injEq, Node.dir.injEq] at hgd
          obtain ⟨hg1, hg2⟩ := hgd
          subst hg1 hg2
          simp only [CommCond]
          cases hs : (cfgOf u).same given q with
          | false => rfl
          | true =>
            rw [same_eq, sameName_iff] at hs
            rw [findEntry_congr _ s hs, hfx] at hnone
            cases hnone
        | cons q' r' =>
          simp only [CommCond]
          intro hsame
          rw [same_eq] at hsame
          have hx' : lookupS (upOf u) s ch q' = some x := by rw [← lookupS_congr s ch hsame]; exact hx
          simp only [getAtS, hx'] at hgd
          simp only [Lock] at hls hld
          exact ih r' x.2 (hch x hxm) (hls.2 x hx) (hld.2 x hx') ss sch hgs he ds dch hgd hnone

/-! ## the specification's verdict, taken apart -/

def srcROf (rp : Except (List Err) Spec.Final) : Except (List Err) (List String × String × Spec.TNode) :=
  match rp with
  | .error e => .error e
  | .ok (.dot none) => .error [.invalidInput]
  | .ok (.dot (some _)) => .error [.invalidInput]
  | .ok (.entry _ _ none) => .error [.notFound]
  | .ok (.entry parent _ (some (nm, c))) => .ok (parent, nm, c)

def dstROf (cfg : Spec.TreeCfg) (rp : Except (List Err) Spec.Final) :
    Except (List Err) (List String × String × Option String) :=
  match rp with
  | .error e => .error e
  | .ok (.dot none) => .error [.invalidInput]
  | .ok (.dot (some _)) => .error [.invalidInput]
  | .ok (.entry parent given none) =>
    if given == "" then .error (Spec.nameErr cfg "")
    else match cfg.validName given with
      | some e => .error [e]
      | none => .ok (parent, given, none)
  | .ok (.entry parent given (some (nm, _))) => .ok (parent, given, some nm)

def renameDecide (cfg : Spec.TreeCfg) (t : Spec.TNode)
    (srcR : Except (List Err) (List String × String × Spec.TNode))
    (dstR : Except (List Err) (List String × String × Option String)) : Spec.Outcome :=
  match srcR, dstR with
  | .error a, .error b => Spec.failWith t (a ++ b)
  | .error a, .ok (_, _, ex) => Spec.failWith t (a ++ if ex.isSome then [.alreadyExists] else [])
  | .ok _, .error b => Spec.failWith t b
  | .ok (sp, snm, node), .ok (dp, given, ex) =>
    let sameDir := sp.length == dp.length && Spec.isPrefixOf cfg sp dp
    match ex with
    | some dnm =>
      if sameDir && cfg.same dnm snm then { tree := t, target := sp ++ [snm] }
      else if node.isDir && Spec.isPrefixOf cfg (sp ++ [snm]) dp then Spec.failWith t [.alreadyExists, .invalidInput]
      else Spec.failWith t [.alreadyExists]
    | none =>
      if node.isDir && Spec.isPrefixOf cfg (sp ++ [snm]) dp then Spec.failWith t [.invalidInput]
      else
        let t1 := Spec.updateAt cfg (Spec.eraseChild cfg snm) sp t
        let t2 := Spec.updateAt cfg (Spec.insertChild given node) dp t1
        { tree := t2, needsSpace := true, target := dp ++ [given], moved := some (sp ++ [snm], dp ++ [given]) }

theorem evalRename_eq (cfg : Spec.TreeCfg) (t : Spec.TNode) (cwd : List String) (src : String) (dcwd : List String)
    (dst : String) :
    Spec.evalRename cfg t cwd src dcwd dst =
      renameDecide cfg t (srcROf (Spec.resolveParent cfg t cwd src)) (dstROf cfg (Spec.resolveParent cfg t dcwd dst)) := by
  unfold Spec.evalRename renameDecide srcROf dstROf
  rfl

theorem decide_src_err (cfg : Spec.TreeCfg) (t : Spec.TNode) (a : List Err) (e : Err) (he : e ∈ a)
    (dstR : Except (List Err) (List String × String × Option String)) :
    e ∈ (renameDecide cfg t (.error a) dstR).errs := by
  cases dstR with
  | error b => simp [renameDecide, Spec.failWith, he]
  | ok r => obtain ⟨_, _, ex⟩ := r; simp [renameDecide, Spec.failWith, he]

theorem decide_dst_err (cfg : Spec.TreeCfg) (t : Spec.TNode) (b : List Err) (e : Err) (he : e ∈ b)
    (srcR : Except (List Err) (List String × String × Spec.TNode)) :
    e ∈ (renameDecide cfg t srcR (.error b)).errs := by
  cases srcR with
  | error a => simp [renameDecide, Spec.failWith, he]
  | ok r => simp [renameDecide, Spec.failWith, he]

end SlotTree
end FatVerif
