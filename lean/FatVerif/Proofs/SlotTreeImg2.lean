import FatVerif.Proofs.SlotTreeImg1
/-!
# Slot trees on a device image, part 2: the path walks of `open_dir` / `open_file`, and the listing

`openDir_walk` / `openFile_walk`: by induction along `split_path`, the programs `DirOps.openDir` / `DirOps.openFile`
run on a fault-free device whose image holds the slot tree (`ImgTree`) end exactly as the slot tree's walk
(`walkDirsS` + `stepCompS`) says: they return the stream / handle of the entry the slot tree resolves to, or fail with
the same error kind; the volume (image, write records, mounted state, fault schedule) is untouched (`Reads`/`FailsV`).
-/
namespace FatVerif
namespace SlotTreeImg
open Lfn DirSlots DirAlias SlotTree DirSim

/-! ## `split_path` -/

theorem dropWhile_length_le {α} (p : α → Bool) (l : List α) : (l.dropWhile p).length ≤ l.length :=
  (List.dropWhile_sublist p).length_le

theorem trimSlashes_length (cs : List Char) : (Names.trimSlashes cs).length ≤ cs.length := by
  unfold Names.trimSlashes
  rw [List.length_reverse]
  exact Nat.le_trans (dropWhile_length_le _ _) (by rw [List.length_reverse]; exact dropWhile_length_le _ _)

theorem span_loop_snd_length {α} (p : α → Bool) : ∀ (as acc : List α), (List.span.loop p as acc).2.length ≤ as.length
  | [], _ => by simp [List.span.loop]
  | a :: as, acc => by
    unfold List.span.loop
    cases p a with
    | true => exact Nat.le_trans (span_loop_snd_length p as (a :: acc)) (by simp)
    | false => simp

theorem splitPathL_rest_length (p a r : List Char) (h : Names.splitPathL p = (a, some r)) : r.length < p.length := by
  unfold Names.splitPathL at h
  have hl := trimSlashes_length p
  have hsl := span_loop_snd_length (fun c => c != '/') (Names.trimSlashes p) []
  unfold List.span at h
  cases hd : List.span.loop (fun c => c != '/') (Names.trimSlashes p) [] with
  | mk x y =>
    rw [hd] at h hsl
    cases y with
    | nil => simp at h
    | cons c b =>
      simp only [Prod.mk.injEq, Option.some.injEq] at h
      rw [← h.2]
      simp only [List.length_cons] at hsl
      omega

theorem splitPathL_nil : Names.splitPathL [] = ([], none) := by decide

theorem splitPath_ofList (chars : List Char) :
    Names.splitPath (String.ofList chars) =
      (String.ofList (Names.splitPathL chars).1, (Names.splitPathL chars).2.map String.ofList) := by
  unfold Names.splitPath
  rw [String.toList_ofList]

theorem splitAll_last (n : Nat) (chars a : List Char) (h : Names.splitPathL chars = (a, none)) :
    splitAll n chars = ([], String.ofList a) := by
  cases n with
  | zero => simp only [splitAll, h]
  | succ m => simp only [splitAll, h]

theorem splitAll_step (m : Nat) (chars a r : List Char) (h : Names.splitPathL chars = (a, some r)) :
    splitAll (m + 1) chars = (String.ofList a :: (splitAll m r).1, (splitAll m r).2) := by
  simp only [splitAll, h]

/-! ## the slot tree's walk as one function -/

def openRes (up : Char → List Char) (t : Node) (cur : List String) (parts : List String × String) :
    Except Err (List String × Node) :=
  match walkDirsS up t cur parts.1 with
  | .error e => .error e
  | .ok p => stepCompS up t p parts.2

theorem openRes_nil {up : Char → List Char} {t : Node} {cur : List String} {s : List (List Nat)}
    {ch : List (LfnEntry × Node)} (hg : getAtS up t cur = some (.dir s ch)) (l : String) :
    openRes up t cur ([], l) = stepCompS up t cur l := by
  unfold openRes; simp only [walkDirsS_nil hg]

theorem openRes_cons (up : Char → List Char) (t : Node) (cur : List String) (c : String) (ds : List String)
    (l : String) :
    openRes up t cur (c :: ds, l) =
      match stepCompS up t cur c with
      | .error e => .error e
      | .ok (p, .dir _ _) => openRes up t p (ds, l)
      | .ok (_, .file _) => .error .invalidInput := by
  unfold openRes
  simp only [walkDirsS]
  cases stepCompS up t cur c with
  | error e => rfl
  | ok pn =>
    obtain ⟨p, n⟩ := pn
    cases n <;> rfl

theorem openS_eq (up : Char → List Char) (t : Node) (cwd : List String) (path : String) (w : Bool) :
    openS up t cwd path w =
      match openRes up t cwd (pathParts path) with
      | .error e => fail t e
      | .ok (_, n) => if n.isDir == w then done t else fail t .invalidInput := by
  unfold openS openRes
  cases walkDirsS up t cwd (pathParts path).1 with
  | error e => rfl
  | ok p =>
    simp only
    cases stepCompS up t p (pathParts path).2 with
    | error e => rfl
    | ok pn => rfl

theorem openRes_err {up : Char → List Char} {t : Node} {cur : List String} {parts : List String × String} {e : Err}
    (h : openRes up t cur parts = .error e) : e ≠ .hang := by
  unfold openRes at h
  cases hw : walkDirsS up t cur parts.1 with
  | error e' =>
    rw [hw] at h
    simp only [Except.error.injEq] at h
    rw [← h]; exact err_ne_hang_of_walk hw
  | ok p =>
    rw [hw] at h
    rw [stepCompS_err h]; simp

section walk
variable {d : Dev} {up : Char → List Char} {t : Node} {cl : List String → Option Nat}

theorem den_view (I : ImgTree d up t cl) {cur : List String} {st : DirStream} (h : Den d up t cl cur st) :
    Nonempty (DirView d st) := by
  obtain ⟨⟨s, c, hg⟩, hs⟩ := h
  obtain ⟨V, _, _, _⟩ := I.dirs cur s c hg st hs
  exact ⟨V⟩

/-! ## `open_dir` -/

/-- what `open_dir` does on the image (on every device with the same volume), for the slot tree's verdict -/
def OpenDirRel (d : Dev) (up : Char → List Char) (t : Node) (cl : List String → Option Nat) (prog : Prog DirStream) :
    Except Err (List String × Node) → Prop
  | .error e => ∀ d1, SameVol d d1 → FailsV prog d1 e
  | .ok (p, n) =>
    if n.isDir = true then
      ∃ de, (∀ d1, SameVol d d1 → Reads prog d1 (DirEntry.dirStream d.fs de)) ∧ de.isDir = true ∧
        Den d up t cl p (DirEntry.dirStream d.fs de) ∧ getAtS up t p = some n
    else ∀ d1, SameVol d d1 → FailsV prog d1 .invalidInput

theorem openDir_unfold_last (env : Env) (f : Nat) (st : DirStream) (chars a : List Char)
    (h : Names.splitPathL chars = (a, none)) :
    openDir env (f + 1) st (String.ofList chars) =
      Prog.bind Prog.getFs fun fs =>
        Prog.bind (findEntry env st (String.ofList a) (some true)) fun e =>
          Prog.bind (e.toDir fs) fun sub => Prog.pure sub := by
  conv => lhs; unfold openDir
  rw [splitPath_ofList, h]
  rfl

theorem openDir_unfold_step (env : Env) (f : Nat) (st : DirStream) (chars a r : List Char)
    (h : Names.splitPathL chars = (a, some r)) :
    openDir env (f + 1) st (String.ofList chars) =
      Prog.bind Prog.getFs fun fs =>
        Prog.bind (findEntry env st (String.ofList a) (some true)) fun e =>
          Prog.bind (e.toDir fs) fun sub => thenDrop sub (openDir env f sub (String.ofList r)) := by
  conv => lhs; unfold openDir
  rw [splitPath_ofList, h]
  rfl

/-- the lookup of a component fails: the whole call fails with that error -/
theorem walk_fail {α} {st : DirStream} (V : DirView d st) (env : Env) (name : String) (k : Bool) (e : Err)
    (hl : V.lookup env name (some k) = .error e) (K : FsState → DirEntry → Prog α) :
    ∀ d1, SameVol d d1 →
      FailsV (Prog.bind Prog.getFs fun fs => Prog.bind (findEntry env st name (some k)) (K fs)) d1 e := by
  intro d1 hv
  refine FailsV.bind_right (Reads.getFs d1) (fun d2 hs2 => ?_)
  have := V.findEntry_sim env name (some k) d2 (hv.trans hs2)
  rw [hl] at this
  exact FailsV.bind_left this

/-- the last component of `open_dir` -/
theorem openDir_last (I : ImgTree d up t cl) (hwf : TreeWf up t) (hup : DotSafe up) (env : Env)
    (henv : env.upper = up) (f : Nat) (chars a : List Char) (hsp : Names.splitPathL chars = (a, none))
    (cur : List String) (st : DirStream) (hden : Den d up t cl cur st) :
    OpenDirRel d up t cl (openDir env (f + 1) st (String.ofList chars)) (stepCompS up t cur (String.ofList a)) := by
  obtain ⟨V, hrel⟩ := step_img I hwf hup env henv cur st hden (String.ofList a) true
  rw [openDir_unfold_last env f st chars a hsp]
  cases hr : stepCompS up t cur (String.ofList a) with
  | error e =>
    rw [hr] at hrel
    obtain ⟨_, hl⟩ := hrel
    rw [stepCompS_err hr]
    exact walk_fail V env _ true _ hl _
  | ok pn =>
    obtain ⟨p, nd⟩ := pn
    rw [hr] at hrel
    unfold StepRel at hrel
    unfold OpenDirRel
    simp only at hrel ⊢
    by_cases hk : nd.isDir = true
    · rw [if_pos hk] at hrel ⊢
      obtain ⟨de, hl, hdir, hgp, hsf⟩ := hrel
      refine ⟨de, ?_, hdir, ⟨?_, hsf trivial⟩, hgp⟩
      · intro d1 hv
        refine Reads.bind (Reads.getFs d1) (fun d2 hs2 => ?_)
        have := V.findEntry_sim env (String.ofList a) (some true) d2 (hv.trans hs2)
        rw [hl] at this
        refine Reads.bind this (fun d3 hs3 => ?_)
        rw [hv.fs]
        exact Reads.bind (toDir_sim d.fs _ hdir d3) (fun d4 _ => Reads.pure _ d4)
      · cases nd with
        | file _ => simp [Node.isDir] at hk
        | dir s' c' => exact ⟨s', c', hgp⟩
    · rw [if_neg hk] at hrel ⊢
      exact walk_fail V env _ true _ hrel _

/-- a directory component: the rest of the walk runs inside `thenDrop sub` -/
theorem walk_step {α} {st : DirStream} (I : ImgTree d up t cl) (V : DirView d st) (env : Env) (name : String)
    (de : DirEntry) (hl : V.lookup env name (some true) = .ok de) (hdir : de.isDir = true) (p : List String)
    (hden' : Den d up t cl p (DirEntry.dirStream d.fs de)) (rest : DirStream → Prog α) :
    (∀ v, (∀ d4, SameVol d d4 → Reads (rest (DirEntry.dirStream d.fs de)) d4 v) →
      ∀ d1, SameVol d d1 → Reads (Prog.bind Prog.getFs fun fs =>
        Prog.bind (findEntry env st name (some true)) fun e =>
          Prog.bind (e.toDir fs) fun sub => thenDrop sub (rest sub)) d1 v) ∧
    (∀ e, e ≠ .hang → (∀ d4, SameVol d d4 → FailsV (rest (DirEntry.dirStream d.fs de)) d4 e) →
      ∀ d1, SameVol d d1 → FailsV (Prog.bind Prog.getFs fun fs =>
        Prog.bind (findEntry env st name (some true)) fun e =>
          Prog.bind (e.toDir fs) fun sub => thenDrop sub (rest sub)) d1 e) := by
  obtain ⟨V'⟩ := den_view I hden'
  constructor
  · intro v hres d1 hv
    refine Reads.bind (Reads.getFs d1) (fun d2 hs2 => ?_)
    have h1 := V.findEntry_sim env name (some true) d2 (hv.trans hs2)
    rw [hl] at h1
    refine Reads.bind h1 (fun d3 hs3 => ?_)
    rw [hv.fs]
    refine Reads.bind (toDir_sim d.fs _ hdir d3) (fun d4 hs4 => ?_)
    have hv4 := ((hv.trans hs2).trans hs3).trans hs4
    exact Reads.thenDrop (hres d4 hv4) (fun d5 hs5 => V'.drop_sim d5 (hv4.trans hs5))
  · intro e hne hres d1 hv
    refine FailsV.bind_right (Reads.getFs d1) (fun d2 hs2 => ?_)
    have h1 := V.findEntry_sim env name (some true) d2 (hv.trans hs2)
    rw [hl] at h1
    refine FailsV.bind_right h1 (fun d3 hs3 => ?_)
    rw [hv.fs]
    refine FailsV.bind_right (toDir_sim d.fs _ hdir d3) (fun d4 hs4 => ?_)
    have hv4 := ((hv.trans hs2).trans hs3).trans hs4
    exact FailsV.thenDrop (hres d4 hv4) hne (fun d5 hs5 => V'.drop_sim d5 (hv4.trans hs5))

theorem openDir_walk (I : ImgTree d up t cl) (hwf : TreeWf up t) (hup : DotSafe up) (env : Env)
    (henv : env.upper = up) : ∀ (n : Nat) (chars : List Char), chars.length ≤ n → ∀ fuelD, n < fuelD →
    ∀ (cur : List String) (st : DirStream), Den d up t cl cur st →
    OpenDirRel d up t cl (openDir env fuelD st (String.ofList chars)) (openRes up t cur (splitAll n chars)) := by
  intro n
  induction n with
  | zero =>
    intro chars hlen fuelD hf cur st hden
    have hc : chars = [] := List.eq_nil_of_length_eq_zero (by omega)
    subst hc
    obtain ⟨f, rfl⟩ : ∃ f, fuelD = f + 1 := ⟨fuelD - 1, by omega⟩
    obtain ⟨⟨s, c, hg⟩, hs⟩ := hden
    rw [splitAll_last 0 [] [] splitPathL_nil, openRes_nil hg]
    exact openDir_last I hwf hup env henv f [] [] splitPathL_nil cur st ⟨⟨s, c, hg⟩, hs⟩
  | succ m ih =>
    intro chars hlen fuelD hf cur st hden
    obtain ⟨f, rfl⟩ : ∃ f, fuelD = f + 1 := ⟨fuelD - 1, by omega⟩
    obtain ⟨⟨s, c, hg⟩, hs⟩ := hden
    cases hsp : Names.splitPathL chars with
    | mk a ro =>
    cases ro with
    | none =>
      rw [splitAll_last (m + 1) chars a hsp, openRes_nil hg]
      exact openDir_last I hwf hup env henv f chars a hsp cur st ⟨⟨s, c, hg⟩, hs⟩
    | some r =>
      have hrl := splitPathL_rest_length chars a r hsp
      rw [splitAll_step m chars a r hsp, openRes_cons, openDir_unfold_step env f st chars a r hsp]
      obtain ⟨V, hrel⟩ := step_img I hwf hup env henv cur st ⟨⟨s, c, hg⟩, hs⟩ (String.ofList a) true
      cases hr : stepCompS up t cur (String.ofList a) with
      | error e =>
        rw [hr] at hrel
        obtain ⟨_, hl⟩ := hrel
        rw [stepCompS_err hr]
        exact walk_fail V env _ true _ hl _
      | ok pn =>
        obtain ⟨p, nd⟩ := pn
        rw [hr] at hrel
        unfold StepRel at hrel
        simp only at hrel
        cases nd with
        | file fc =>
          simp only [Node.isDir, Bool.false_eq_true, if_false] at hrel
          exact walk_fail V env _ true _ hrel _
        | dir s' c' =>
          simp only [Node.isDir, if_true] at hrel
          obtain ⟨de, hl, hdir, hgp, hsf⟩ := hrel
          have hden' : Den d up t cl p (DirEntry.dirStream d.fs de) := ⟨⟨s', c', hgp⟩, hsf trivial⟩
          have hrec := ih r (by omega) f (by omega) p _ hden'
          obtain ⟨w1, w2⟩ := walk_step I V env (String.ofList a) de hl hdir p hden'
            (fun sub => openDir env f sub (String.ofList r))
          simp only
          cases hres : openRes up t p (splitAll m r) with
          | error e =>
            rw [hres] at hrec
            exact w2 e (openRes_err hres) hrec
          | ok pn2 =>
            obtain ⟨p2, n2⟩ := pn2
            rw [hres] at hrec
            unfold OpenDirRel at hrec ⊢
            simp only at hrec ⊢
            by_cases hk2 : n2.isDir = true
            · rw [if_pos hk2] at hrec ⊢
              obtain ⟨de2, hrd, hdir2, hden2, hg2⟩ := hrec
              exact ⟨de2, w1 _ hrd, hdir2, hden2, hg2⟩
            · rw [if_neg hk2] at hrec ⊢
              exact w2 _ (by simp) hrec

/-! ## `open_file` -/

/-- what `open_file` does on the image, for the slot tree's verdict -/
def OpenFileRel (d : Dev) (up : Char → List Char) (t : Node) (prog : Prog FileH) :
    Except Err (List String × Node) → Prop
  | .error e => ∀ d1, SameVol d d1 → FailsV prog d1 e
  | .ok (p, n) =>
    if n.isDir = false then
      ∃ de : DirEntry, (∀ d1, SameVol d d1 → Reads prog d1 (FileH.new (de.firstCluster d.fs) (some de.editor))) ∧
        de.isDir = false ∧ getAtS up t p = some n
    else ∀ d1, SameVol d d1 → FailsV prog d1 .invalidInput

theorem openFile_unfold_last (env : Env) (f : Nat) (st : DirStream) (chars a : List Char)
    (h : Names.splitPathL chars = (a, none)) :
    openFile env (f + 1) st (String.ofList chars) =
      Prog.bind Prog.getFs fun fs =>
        Prog.bind (findEntry env st (String.ofList a) (some false)) fun e => e.toFile fs := by
  conv => lhs; unfold openFile
  rw [splitPath_ofList, h]
  rfl

theorem openFile_unfold_step (env : Env) (f : Nat) (st : DirStream) (chars a r : List Char)
    (h : Names.splitPathL chars = (a, some r)) :
    openFile env (f + 1) st (String.ofList chars) =
      Prog.bind Prog.getFs fun fs =>
        Prog.bind (findEntry env st (String.ofList a) (some true)) fun e =>
          Prog.bind (e.toDir fs) fun sub => thenDrop sub (openFile env f sub (String.ofList r)) := by
  conv => lhs; unfold openFile
  rw [splitPath_ofList, h]
  rfl

theorem openFile_last (I : ImgTree d up t cl) (hwf : TreeWf up t) (hup : DotSafe up) (env : Env)
    (henv : env.upper = up) (f : Nat) (chars a : List Char) (hsp : Names.splitPathL chars = (a, none))
    (cur : List String) (st : DirStream) (hden : Den d up t cl cur st) :
    OpenFileRel d up t (openFile env (f + 1) st (String.ofList chars)) (stepCompS up t cur (String.ofList a)) := by
  obtain ⟨V, hrel⟩ := step_img I hwf hup env henv cur st hden (String.ofList a) false
  rw [openFile_unfold_last env f st chars a hsp]
  cases hr : stepCompS up t cur (String.ofList a) with
  | error e =>
    rw [hr] at hrel
    obtain ⟨_, hl⟩ := hrel
    rw [stepCompS_err hr]
    exact walk_fail V env _ false _ hl _
  | ok pn =>
    obtain ⟨p, nd⟩ := pn
    rw [hr] at hrel
    unfold StepRel at hrel
    unfold OpenFileRel
    simp only at hrel ⊢
    by_cases hk : nd.isDir = false
    · rw [if_pos hk] at hrel ⊢
      obtain ⟨de, hl, hdir, hgp, _⟩ := hrel
      refine ⟨de, ?_, hdir, hgp⟩
      intro d1 hv
      refine Reads.bind (Reads.getFs d1) (fun d2 hs2 => ?_)
      have := V.findEntry_sim env (String.ofList a) (some false) d2 (hv.trans hs2)
      rw [hl] at this
      refine Reads.bind this (fun d3 hs3 => ?_)
      unfold DirEntry.toFile
      rw [hv.fs]
      simp only [id, hdir, Bool.false_eq_true, if_false]
      exact Reads.pure _ d3
    · rw [if_neg hk] at hrel ⊢
      exact walk_fail V env _ false _ hrel _

theorem openFile_walk (I : ImgTree d up t cl) (hwf : TreeWf up t) (hup : DotSafe up) (env : Env)
    (henv : env.upper = up) : ∀ (n : Nat) (chars : List Char), chars.length ≤ n → ∀ fuelD, n < fuelD →
    ∀ (cur : List String) (st : DirStream), Den d up t cl cur st →
    OpenFileRel d up t (openFile env fuelD st (String.ofList chars)) (openRes up t cur (splitAll n chars)) := by
  intro n
  induction n with
  | zero =>
    intro chars hlen fuelD hf cur st hden
    have hc : chars = [] := List.eq_nil_of_length_eq_zero (by omega)
    subst hc
    obtain ⟨f, rfl⟩ : ∃ f, fuelD = f + 1 := ⟨fuelD - 1, by omega⟩
    obtain ⟨⟨s, c, hg⟩, hs⟩ := hden
    rw [splitAll_last 0 [] [] splitPathL_nil, openRes_nil hg]
    exact openFile_last I hwf hup env henv f [] [] splitPathL_nil cur st ⟨⟨s, c, hg⟩, hs⟩
  | succ m ih =>
    intro chars hlen fuelD hf cur st hden
    obtain ⟨f, rfl⟩ : ∃ f, fuelD = f + 1 := ⟨fuelD - 1, by omega⟩
    obtain ⟨⟨s, c, hg⟩, hs⟩ := hden
    cases hsp : Names.splitPathL chars with
    | mk a ro =>
    cases ro with
    | none =>
      rw [splitAll_last (m + 1) chars a hsp, openRes_nil hg]
      exact openFile_last I hwf hup env henv f chars a hsp cur st ⟨⟨s, c, hg⟩, hs⟩
    | some r =>
      have hrl := splitPathL_rest_length chars a r hsp
      rw [splitAll_step m chars a r hsp, openRes_cons, openFile_unfold_step env f st chars a r hsp]
      obtain ⟨V, hrel⟩ := step_img I hwf hup env henv cur st ⟨⟨s, c, hg⟩, hs⟩ (String.ofList a) true
      cases hr : stepCompS up t cur (String.ofList a) with
      | error e =>
        rw [hr] at hrel
        obtain ⟨_, hl⟩ := hrel
        rw [stepCompS_err hr]
        exact walk_fail V env _ true _ hl _
      | ok pn =>
        obtain ⟨p, nd⟩ := pn
        rw [hr] at hrel
        unfold StepRel at hrel
        simp only at hrel
        cases nd with
        | file fc =>
          simp only [Node.isDir, Bool.false_eq_true, if_false] at hrel
          exact walk_fail V env _ true _ hrel _
        | dir s' c' =>
          simp only [Node.isDir, if_true] at hrel
          obtain ⟨de, hl, hdir, hgp, hsf⟩ := hrel
          have hden' : Den d up t cl p (DirEntry.dirStream d.fs de) := ⟨⟨s', c', hgp⟩, hsf trivial⟩
          have hrec := ih r (by omega) f (by omega) p _ hden'
          obtain ⟨w1, w2⟩ := walk_step I V env (String.ofList a) de hl hdir p hden'
            (fun sub => openFile env f sub (String.ofList r))
          simp only
          cases hres : openRes up t p (splitAll m r) with
          | error e =>
            rw [hres] at hrec
            exact w2 e (openRes_err hres) hrec
          | ok pn2 =>
            obtain ⟨p2, n2⟩ := pn2
            rw [hres] at hrec
            unfold OpenFileRel at hrec ⊢
            simp only at hrec ⊢
            by_cases hk2 : n2.isDir = false
            · rw [if_pos hk2] at hrec ⊢
              obtain ⟨de2, hrd, hdir2, hg2⟩ := hrec
              exact ⟨de2, w1 _ hrd, hdir2, hg2⟩
            · rw [if_neg hk2] at hrec ⊢
              exact w2 _ (by simp) hrec

/-! ## the listing -/

/-- `Dir::iter()` on a stream denoting a directory of the slot tree: the dot entries (none in the root), then exactly
    the listed entries of the node's slot list, as the library's `DirEntry` records of the image -/
theorem listDir_den (I : ImgTree d up t cl) (cur : List String) (st : DirStream) (slots : List (List Nat))
    (ch : List (LfnEntry × Node)) (hg : getAtS up t cur = some (.dir slots ch))
    (hs : StreamFor d.fs (cl cur) st) :
    ∃ (V : DirView d st) (dots : List LfnEntry) (k : Nat), DirImgV d cl cur slots ch V dots k ∧
      ∀ d1, SameVol d d1 →
        Reads (listDir st) d1 ((dots ++ (listing slots).map (shiftE k)).map (toDirEntryS V.src)) := by
  obtain ⟨V, dots, k, hI⟩ := I.dirs cur slots ch hg st hs
  refine ⟨V, dots, k, hI, fun d1 hv => ?_⟩
  have := V.dir.listDir_sim V.fuel d1 hv
  rw [← V.start] at this
  rw [← hI.entries]
  exact this

end walk

end SlotTreeImg
end FatVerif
