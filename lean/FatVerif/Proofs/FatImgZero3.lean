import FatVerif.Proofs.FatImgZero2
import FatVerif.Proofs.FileSimFlush1
import FatVerif.Proofs.FileSimRead
/-! `FileSystem::alloc_cluster(prev, zero)` for both values of `zero` and both states of the dirty mark: forward
    evaluation on a fault-free device (`run_allocClusterFs_any`). -/
namespace FatVerif.FileSim
open FatVerif FatVerif.Fat

/-- `write_zeros` on the raw device, forward: `len` zero bytes from the current position -/
theorem run_writeZerosLoop : ∀ (fuel len : Nat) (d : Dev), d.failAt = none → d.img.WF → len ≤ 512 * fuel →
    d.pos + len ≤ d.img.size →
    ∃ d', run (writeZerosLoop devStrm (fuel + 1) () len) d = (.ok (), d') ∧ DevStep d d' ∧ d'.fs = d.fs ∧
      (∀ q, d'.img.getByte q = if d.pos ≤ q ∧ q < d.pos + len then 0 else d.img.getByte q) := by
  intro fuel
  induction fuel with
  | zero =>
    intro len d _ _ hlen _
    have : len = 0 := by omega
    subst this
    refine ⟨d, ?_, DevStep.refl d, rfl, fun q => by rw [if_neg (by omega)]⟩
    unfold writeZerosLoop
    simp
  | succ k ih =>
    intro len d hfa hwf hlen hfit
    by_cases h0 : len = 0
    · subst h0
      refine ⟨d, ?_, DevStep.refl d, rfl, fun q => by rw [if_neg (by omega)]⟩
      unfold writeZerosLoop
      simp
    · unfold writeZerosLoop
      rw [if_neg h0]
      simp only
      have hne : 0 < (List.replicate (min len 512) 0).length := by simp; omega
      have hfit1 : d.pos + (List.replicate (min len 512) 0).length ≤ d.img.size := by simp; omega
      rw [run_bind_ok (run_writeAll_dev _ d hfa hne hfit1)]
      generalize hd1 : didWrite d (List.replicate (min len 512) 0) = d1
      have himg1 : d1.img = d.img.write d.pos (List.replicate (min len 512) 0) := by
        rw [← hd1, didWrite_img _ _ hfit1]
      have hpos1 : d1.pos = d.pos + min len 512 := by
        rw [← hd1]; show d.pos + min (List.replicate (min len 512) 0).length (d.img.size - d.pos) = _
        simp; omega
      have hstep1 : DevStep d d1 :=
        ⟨by rw [← hd1]; rfl, by rw [himg1, Img.write_size], fun _ => by rw [himg1]; exact Img.wf_write _ hwf _ _,
          by rw [← hd1]; exact FsGeomEq.refl _, by rw [← hd1]; rfl⟩
      have hfs1 : d1.fs = d.fs := by rw [← hd1]; rfl
      obtain ⟨d2, h2, hs2, hfs2, hb2⟩ := ih (len - min len 512) d1 (by rw [hstep1.failAt]; exact hfa)
        (hstep1.wf hwf) (by omega) (by rw [hpos1, hstep1.size]; omega)
      refine ⟨d2, h2, hstep1.trans hs2, hfs2.trans hfs1, fun q => ?_⟩
      rw [hb2 q, hpos1, himg1, Img.getByte_write _ hwf]
      simp only [List.length_replicate]
      by_cases ha : d.pos + min len 512 ≤ q ∧ q < d.pos + min len 512 + (len - min len 512)
      · rw [if_pos ha, if_pos (by omega)]
      · rw [if_neg ha]
        by_cases hb : d.pos ≤ q ∧ q < d.pos + min len 512
        · rw [if_pos hb, if_pos (by omega)]
          simp [List.getD_eq_getElem?_getD, List.getElem?_replicate]
          split <;> rfl
        · rw [if_neg hb, if_neg (by omega)]

theorem run_writeZeros (len : Nat) (d : Dev) (hfa : d.failAt = none) (hwf : d.img.WF) (hfit : d.pos + len ≤ d.img.size) :
    ∃ d', run (writeZeros devStrm () len) d = (.ok (), d') ∧ DevStep d d' ∧ d'.fs = d.fs ∧
      (∀ q, d'.img.getByte q = if d.pos ≤ q ∧ q < d.pos + len then 0 else d.img.getByte q) := by
  unfold writeZeros
  exact run_writeZerosLoop (len / 512 + 1) len d hfa hwf (by omega) hfit


theorem clusterOff_end {fs : FsState} {sz : Nat} (g : Geo fs sz) {c : Nat} (h2 : 2 ≤ c) (hc : c < fs.totalClusters + 2) :
    fs.firstDataSector * fs.bps ≤ clusterOff fs c ∧ clusterOff fs c + fs.clusterSize ≤ sz := by
  have hd := g.data_dev
  unfold clusterOff FsState.clusterSize at *
  constructor
  · exact Nat.mul_le_mul_right _ (Nat.le_add_right _ _)
  · have h1 : (c - 2) * fs.spc + fs.spc ≤ (fs.totalClusters + 2 - 2) * fs.spc := by
      have : (c - 2 + 1) * fs.spc ≤ (fs.totalClusters + 2 - 2) * fs.spc := Nat.mul_le_mul_right _ (by omega)
      rw [Nat.add_mul, Nat.one_mul] at this; exact this
    have h3 : (fs.firstDataSector + (c - 2) * fs.spc) * fs.bps + fs.bps * fs.spc =
        (fs.firstDataSector + ((c - 2) * fs.spc + fs.spc)) * fs.bps := by
      rw [Nat.add_mul, Nat.add_mul, Nat.add_mul, Nat.mul_comm fs.bps fs.spc]; omega
    rw [h3]
    exact Nat.le_trans (Nat.mul_le_mul_right _ (by omega)) hd

/-- the hint stored by `FileSystem::alloc_cluster` after handing out `c` -/
def hintAfter (total c : Nat) : Nat := if c + 1 < total + 2 then c + 1 else 2

/-- **`FileSystem::alloc_cluster(prev, zero)`, forward** — any `zero`, volume marked dirty or not. On a fault-free
    device with a well-formed image, the layout `Geo` and consistent bookkeeping `InfoOk`:
    * no free cluster: `NotEnoughSpace`, nothing changes;
    * otherwise the call succeeds with `c = allocFindV …`; the decoded FAT becomes `allocLinkV g prev c`; the volume is
      marked dirty (status byte, written first if it was clean); with `zero` the bytes of cluster `c` are all 0;
      from byte `0x42` on no other byte outside the FAT copies changes; the FS-info cache gets hint `hintAfter` and
      count − 1; `InfoOk` holds again. -/
theorem run_allocClusterFs_any (prev : Option Nat) (zero : Bool) (d : Dev) (hfa : d.failAt = none)
    (hwf : d.img.WF) (hg : Geo d.fs d.img.size) (hinfo : InfoOk d.fs d.img)
    (hp : ∀ p, prev = some p → 2 ≤ p ∧ p < d.fs.totalClusters + 2 ∧ tabView d.fs d.img p ≠ .free) :
    (allocFindV (tabView d.fs d.img) d.fs.fsInfo.next d.fs.totalClusters = none ∧
      ∃ d', run (allocClusterFs prev zero) d = (.error .noSpace, d') ∧ SameStore d d') ∨
    (∃ c d', allocFindV (tabView d.fs d.img) d.fs.fsInfo.next d.fs.totalClusters = some c ∧
      run (allocClusterFs prev zero) d = (.ok c, d') ∧ DevStep d d' ∧
      d'.fs = { markedFs d.fs with fsInfo := ({ d.fs.fsInfo with
        next := some (hintAfter d.fs.totalClusters c), dirty := true }).mapFree (· - 1) } ∧
      tabView d'.fs d'.img = allocLinkV (tabView d.fs d.img) prev c ∧ InfoOk d'.fs d'.img ∧
      (zero = true → ∀ q, clusterOff d.fs c ≤ q → q < clusterOff d.fs c + d.fs.clusterSize → d'.img.getByte q = 0) ∧
      (∀ q, 0x42 ≤ q → OutsideFat d.fs q →
        (zero = true → ¬ (clusterOff d.fs c ≤ q ∧ q < clusterOff d.fs c + d.fs.clusterSize)) →
        d'.img.getByte q = d.img.getByte q)) := by
  unfold allocClusterFs
  rw [run_bind_ok (run_getFs d)]
  simp only
  rcases run_allocCluster_any d.fs (fatSliceOf d.fs) (isFatSlice_self _) prev d.fs.fsInfo.next d hfa hwf hg hinfo.hint
      (fun p h => (hp p h).2.1) with ⟨hnone, d1, hr, hs1⟩ | ⟨c, d1, s1, hsome, hr, hst, hfs, htv, hfr⟩
  · left
    exact ⟨hnone, d1, by rw [run_bind_error hr], hs1⟩
  · right
    obtain ⟨hc2, hct, hcf⟩ := allocFindV_some _ _ _ _ hinfo.hint hsome
    rw [run_bind_ok hr]
    simp only
    have hfa1 : d1.failAt = none := by rw [hst.failAt]; exact hfa
    have hwf1 : d1.img.WF := hst.wf hwf
    obtain ⟨hco1, hco2⟩ := clusterOff_end hg hc2 hct
    have hfat_data := hg.fat_data
    have hst42 := hg.status_lt
    have hcount := countFreeV_allocLink (g := tabView d.fs d.img) (total := d.fs.totalClusters) prev hc2 hct hcf hp
    have hpos := countFreeV_pos hc2 hct hcf
    have hne0 : d.fs.fsInfo.free ≠ some 0 := by
      intro h0
      have := hinfo.count 0 h0
      omega
    have hmt : (markedFs d.fs).totalClusters = d.fs.totalClusters := (markedFs_geom d.fs).totalClusters
    generalize hnew : ({ markedFs d.fs with fsInfo := ({ d.fs.fsInfo with
        next := some (hintAfter d.fs.totalClusters c), dirty := true }).mapFree (· - 1) } : FsState) = newFs
    have hnext : newFs.fsInfo.next = some (hintAfter d.fs.totalClusters c) := by
      rw [← hnew]; show (FsInfoSt.mapFree _ _).next = _; rw [mapFree_next]
    have hfree' : newFs.fsInfo.free = d.fs.fsInfo.free.map (· - 1) := by
      rw [← hnew]; show (FsInfoSt.mapFree _ _).free = _; rw [mapFree_free]
    have hgeo : FsGeomEq d.fs newFs := by
      rw [← hnew]
      have := markedFs_geom d.fs
      unfold FsGeomEq at *
      rw [this]
    -- the bookkeeping tail, on any device carrying the marked state
    have hrest : ∀ d2 : Dev, d2.fs = markedFs d.fs → run (do
        let fs ← Prog.getFs
        match fs.fsInfo.free with
          | some 0 => Prog.fail Err.panic
          | _ => do
            Prog.setFs { fs with fsInfo := ({ fs.fsInfo with
              next := some (if c + 1 < fs.totalClusters + 2 then c + 1 else 2), dirty := true }).mapFree (· - 1) }
            (pure c : Prog Nat)) d2 = (.ok c, { d2 with fs := newFs }) := by
      intro d2 hfs2
      have hgf : run Prog.getFs d2 = (.ok (markedFs d.fs), d2) := by rw [← hfs2]; rfl
      rw [run_bind_ok hgf]
      simp only
      have hhint : (if c + 1 < (markedFs d.fs).totalClusters + 2 then c + 1 else 2) = hintAfter d.fs.totalClusters c := by
        unfold hintAfter; rw [hmt]
      rw [markedFs_fsInfo, hhint, ← hnew]
      split
      · rename_i h0; exact absurd h0 hne0
      · rfl
    -- what remains to be shown once the device `d2` before the bookkeeping tail is known
    have finish : ∀ d2 : Dev, DevStep d1 d2 →
        (∀ q, ¬ (zero = true ∧ clusterOff d.fs c ≤ q ∧ q < clusterOff d.fs c + d.fs.clusterSize) →
          d2.img.getByte q = d1.img.getByte q) →
        (zero = true → ∀ q, clusterOff d.fs c ≤ q → q < clusterOff d.fs c + d.fs.clusterSize → d2.img.getByte q = 0) →
        DevStep d { d2 with fs := newFs } ∧
        tabView ({ d2 with fs := newFs } : Dev).fs ({ d2 with fs := newFs } : Dev).img =
          allocLinkV (tabView d.fs d.img) prev c ∧
        InfoOk ({ d2 with fs := newFs } : Dev).fs ({ d2 with fs := newFs } : Dev).img ∧
        (zero = true → ∀ q, clusterOff d.fs c ≤ q → q < clusterOff d.fs c + d.fs.clusterSize →
          ({ d2 with fs := newFs } : Dev).img.getByte q = 0) ∧
        (∀ q, 0x42 ≤ q → OutsideFat d.fs q →
          (zero = true → ¬ (clusterOff d.fs c ≤ q ∧ q < clusterOff d.fs c + d.fs.clusterSize)) →
          ({ d2 with fs := newFs } : Dev).img.getByte q = d.img.getByte q) := by
      intro d2 hst2 hbytes2 hz0
      have htv2 : tabView d.fs d2.img = tabView d.fs d1.img := by
        apply tabView_congr hg
        intro q h1 h2
        apply hbytes2
        rintro ⟨_, h3, _⟩
        have : (fatSliceOf d.fs).size ≤ (fatSliceOf d.fs).mirrors * (fatSliceOf d.fs).size :=
          Nat.le_mul_of_pos_left _ hg.mirrors_pos
        omega
      have hstep : DevStep d d2 := hst.trans hst2
      refine ⟨⟨hstep.failAt, hstep.size, hstep.wf, hgeo, hstep.clock⟩, ?_, ?_, hz0, ?_⟩
      · show tabView newFs d2.img = _
        rw [hgeo.tabView, htv2]; exact htv
      · refine ⟨?_, ?_⟩
        · intro n hn
          have hn' : newFs.fsInfo.next = some n := hn
          rw [hnext] at hn'
          have := Option.some.inj hn'
          unfold hintAfter at this
          split at this <;> omega
        · intro n hn
          show n = countFreeV (tabView newFs d2.img) newFs.totalClusters
          rw [hgeo.tabView, hgeo.totalClusters, htv2, htv]
          have hn' : newFs.fsInfo.free = some n := hn
          rw [hfree'] at hn'
          cases hfree : d.fs.fsInfo.free with
          | none => rw [hfree] at hn'; cases hn'
          | some m =>
            rw [hfree] at hn'
            have hm := hinfo.count m hfree
            have : n = m - 1 := (Option.some.inj hn').symm
            omega
      · intro q h42 hout hnz
        show d2.img.getByte q = d.img.getByte q
        rw [hbytes2 q (fun h => hnz h.1 ⟨h.2.1, h.2.2⟩), hfr q h42 hout]
    cases zero with
    | false =>
      rw [if_neg (show ¬ (false = true) by decide)]
      obtain ⟨a1, a2, a3, a4, a5⟩ := finish d1 (DevStep.refl _) (fun _ _ => rfl) (fun h => by cases h)
      exact ⟨c, { d1 with fs := newFs }, hsome, hrest d1 hfs, a1, hnew.symm, a2, a3, a4, a5⟩
    | true =>
      rw [if_pos rfl]
      rw [run_bind_ok (run_offsetFromClusterP hg c hc2 hct d1), run_bind_ok (run_seekStart _ d1 hfa1)]
      obtain ⟨d2, h2, hs2, hfs2, hb2⟩ := run_writeZeros d.fs.clusterSize (d1.didSeek (clusterOff d.fs c)) hfa1 hwf1
        (by simp only [didSeek_pos, didSeek_img]; rw [hst.size]; exact hco2)
      rw [run_bind_ok h2]
      have hb2' : ∀ q, d2.img.getByte q =
          if clusterOff d.fs c ≤ q ∧ q < clusterOff d.fs c + d.fs.clusterSize then 0 else d1.img.getByte q := by
        intro q
        have := hb2 q
        simp only [didSeek_pos, didSeek_img] at this
        exact this
      obtain ⟨a1, a2, a3, a4, a5⟩ := finish d2 ((DevStep.of_sameStore (sameStore_didSeek d1 _)).trans hs2)
        (fun q hq => by rw [hb2' q, if_neg (fun h => hq ⟨rfl, h⟩)])
        (fun _ q h1 h2 => by rw [hb2' q, if_pos ⟨h1, h2⟩])
      exact ⟨c, { d2 with fs := newFs }, hsome, hrest d2 (by rw [hfs2]; exact hfs), a1, hnew.symm, a2, a3, a4, a5⟩

end FatVerif.FileSim
