import FatVerif.Proofs.SlotTreeNav
/-!
# Slot trees: the path walk against the specification's `stepComp` / `walkDirs` / `resolve` / `resolveParent`,
and the hypotheses on a call (`OpOk`)
-/
namespace FatVerif
namespace SlotTree
open Lfn DirSlots DirAlias

/-- the specification's way of splitting a path (`splitOn "/"`, empty components dropped) and `split_path` applied
    component by component give the same components.  A fact about two string functions, independent of the file
    system; it is a hypothesis of the refinement theorem (`String.splitOn` has no specification lemmas in core). -/
def SplitAgree (path : String) : Prop :=
  ((pathParts path).2 = "" ∧ (pathParts path).1 = [] ∧ Spec.splitPath path = []) ∨
  ((pathParts path).2 ≠ "" ∧ Spec.splitPath path = (pathParts path).1 ++ [(pathParts path).2])

/-- hypotheses on a path argument -/
def PathOk (up : Char → List Char) (t : Node) (path : String) : Prop :=
  SplitAgree path ∧ (∀ q ∈ (pathParts path).1, QAll up t q) ∧ QAll up t (pathParts path).2

/-- hypotheses on a directory handle: it is live (resolves to a directory) and no component answers to an alias only -/
def CwdOk (up : Char → List Char) (t : Node) (cwd : List String) : Prop :=
  Lock up t cwd ∧ ∃ s c, getAtS up t cwd = some (.dir s c)

/-- hypotheses on a call -/
def OpOk (up : Char → List Char) (t : Node) : Spec.Op → Prop
  | .createFile cwd p => CwdOk up t cwd ∧ PathOk up t p
  | .createDir cwd p => CwdOk up t cwd ∧ PathOk up t p
  | .openFile cwd p => CwdOk up t cwd ∧ PathOk up t p
  | .openDir cwd p => CwdOk up t cwd ∧ PathOk up t p
  | .list cwd => CwdOk up t cwd
  | .remove cwd p => CwdOk up t cwd ∧ PathOk up t p
  | .rename cwd s d p => CwdOk up t cwd ∧ PathOk up t s ∧ CwdOk up t d ∧ PathOk up t p

variable (u : Char → List Char)

theorem qall_at {t : Node} {q : String} (hq : QAll (upOf u) t q) {p : List String} {s : List (List Nat)}
    {ch : List (LfnEntry × Node)} (hg : getAtS (upOf u) t p = some (.dir s ch)) : QHit (upOf u) q s ch :=
  ((all_dir _ s ch).1 (all_getAtS _ p t _ hq hg)).1

theorem dirOk_at {t : Node} (hwf : TreeWf (upOf u) t) {p : List String} {s : List (List Nat)}
    {ch : List (LfnEntry × Node)} (hg : getAtS (upOf u) t p = some (.dir s ch)) : DirOk (upOf u) s ch :=
  ((all_dir _ s ch).1 (all_getAtS _ p t _ hwf hg)).1

theorem QHit.nameHitOnly {up : Char → List Char} {q : String} {s : List (List Nat)} {ch : List (LfnEntry × Node)}
    (h : QHit up q s ch) : NameHitOnly up s q := fun e he hm => (h e he hm).1

/-- a query that is a dot name, or is not a valid name, finds nothing -/
theorem lookup_none_of_bad {up : Char → List Char} {q : String} {s : List (List Nat)} {ch : List (LfnEntry × Node)}
    (h : QHit up q s ch) (hbad : isDotName q = true ∨ Names.validateLongName q ≠ .ok ()) :
    findEntry up s q.toList = none ∧ lookupS up s ch q = none := by
  have hf : findEntry up s q.toList = none := by
    rw [findEntry_none_iff]
    intro e he
    cases hm : matchesName up e q.toList with
    | false => rfl
    | true =>
      obtain ⟨_, h2, h3⟩ := h e he hm
      rcases hbad with hb | hb
      · rw [h3] at hb; cases hb
      · exact absurd h2 hb
  exact ⟨hf, by unfold lookupS; rw [hf]⟩

theorem isDotName_iff (s : String) : isDotName s = true ↔ s = "." ∨ s = ".." := by
  unfold isDotName; simp

theorem spec_isDot_eq (s : String) : Spec.isDot s = isDotName s := rfl

/-! ## one component -/

theorem stepComp_corr (t : Node) (hwf : TreeWf (upOf u) t) (cur : List String) (hl : Lock (upOf u) t cur)
    (comp : String) (hq : QAll (upOf u) t comp) :
    (∀ p n, stepCompS (upOf u) t cur comp = .ok (p, n) →
      Spec.stepComp (cfgOf u) (abs t) cur comp = .ok (p, abs n) ∧ Lock (upOf u) t p ∧
        getAtS (upOf u) t p = some n) ∧
    (∀ e, stepCompS (upOf u) t cur comp = .error e →
      ∃ es, Spec.stepComp (cfgOf u) (abs t) cur comp = .error es ∧ e ∈ es) := by
  unfold stepCompS Spec.stepComp
  rw [getAt_corr u cur t hwf hl]
  cases hg : getAtS (upOf u) t cur with
  | none => simp
  | some d =>
    cases d with
    | file c => simp [abs]
    | dir slots ch =>
      have hd := dirOk_at u hwf hg
      have hqh := qall_at u hq hg
      simp only [Option.map, abs_dir]
      by_cases h1 : comp = "."
      · subst h1
        by_cases hc : cur = []
        · subst hc
          have hn := (lookup_none_of_bad hqh (Or.inl rfl)).2
          simp [hn]
        · have hce : cur.isEmpty = false := by simpa using hc
          simp only [hce, beq_self_eq_true, Bool.not_false, Bool.and_self, if_true, Bool.false_eq_true, if_false]
          refine ⟨?_, by simp⟩
          intro p n h
          simp only [Except.ok.injEq, Prod.mk.injEq] at h
          obtain ⟨rfl, rfl⟩ := h
          exact ⟨by rw [abs_dir], hl, hg⟩
      · by_cases h2 : comp = ".."
        · subst h2
          by_cases hc : cur = []
          · subst hc
            have hn := (lookup_none_of_bad hqh (Or.inl rfl)).2
            simp [hn]
          · have hce : cur.isEmpty = false := by simpa using hc
            have hdl := lock_dropLast t cur hl
            rw [getAt_corr u cur.dropLast t hwf hdl]
            have hne : ((".." : String) == ".") = false := by decide
            simp only [hce, hne, beq_self_eq_true, Bool.not_false, Bool.and_self, if_true, Bool.false_eq_true,
              if_false, Bool.false_and]
            cases hp : getAtS (upOf u) t cur.dropLast with
            | none => simp
            | some pn =>
              simp only [Option.map]
              refine ⟨?_, by simp⟩
              intro p n h
              simp only [Except.ok.injEq, Prod.mk.injEq] at h
              obtain ⟨rfl, rfl⟩ := h
              exact ⟨rfl, hdl, hp⟩
        · have hb1 : (comp == ".") = false := by simpa using h1
          have hb2 : (comp == "..") = false := by simpa using h2
          simp only [hb1, hb2, Bool.false_and, Bool.false_eq_true, if_false]
          have hfc := find_corr u hd comp hqh.nameHitOnly
          rw [abs_dir] at hfc
          rw [hfc]
          cases hx : lookupS (upOf u) slots ch comp with
          | none => simp
          | some x =>
            simp only [Option.map]
            refine ⟨?_, by simp⟩
            intro p n h
            simp only [Except.ok.injEq, Prod.mk.injEq] at h
            obtain ⟨rfl, rfl⟩ := h
            obtain ⟨l1, l2⟩ := lock_snoc t hwf cur hl slots ch hg x (lookupS_mem hx)
            exact ⟨rfl, l1, l2⟩

/-! ## the directory components -/

theorem walkDirs_corr (t : Node) (hwf : TreeWf (upOf u) t) : ∀ (comps cur : List String), Lock (upOf u) t cur →
    (∀ c ∈ comps, QAll (upOf u) t c) →
    (∀ p, walkDirsS (upOf u) t cur comps = .ok p →
      Spec.walkDirs (cfgOf u) (abs t) cur comps = .ok p ∧ Lock (upOf u) t p ∧
        ∃ s c, getAtS (upOf u) t p = some (.dir s c)) ∧
    (∀ e, walkDirsS (upOf u) t cur comps = .error e →
      ∃ es, Spec.walkDirs (cfgOf u) (abs t) cur comps = .error es ∧ e ∈ es) := by
  intro comps
  induction comps with
  | nil =>
    intro cur hl _
    unfold walkDirsS Spec.walkDirs
    rw [getAt_corr u cur t hwf hl]
    cases hg : getAtS (upOf u) t cur with
    | none => simp
    | some d =>
      cases d with
      | file c => simp [abs]
      | dir slots ch =>
        simp only [Option.map, abs_dir]
        refine ⟨?_, by simp⟩
        intro p h
        simp only [Except.ok.injEq] at h
        subst h
        exact ⟨rfl, hl, slots, ch, hg⟩
  | cons c rest ih =>
    intro cur hl hq
    obtain ⟨s1, s2⟩ := stepComp_corr u t hwf cur hl c (hq c (by simp))
    unfold walkDirsS Spec.walkDirs
    cases hs : stepCompS (upOf u) t cur c with
    | error e =>
      obtain ⟨es, h1, h2⟩ := s2 e hs
      rw [h1]
      simp only
      exact ⟨by simp, fun e' he' => ⟨es, rfl, by simp only [Except.error.injEq] at he'; rw [← he']; exact h2⟩⟩
    | ok pn =>
      obtain ⟨p, n⟩ := pn
      obtain ⟨h1, h2, h3⟩ := s1 p n hs
      rw [h1]
      cases n with
      | file fc => simp [abs]
      | dir slots ch =>
        simp only [abs_dir]
        exact ih p h2 (fun c' hc' => hq c' (by simp [hc']))

end SlotTree
end FatVerif
