import FatVerif.Proofs.DirReadSim10
/-! Directory reads, part 11: PATH WALKS. A `DirView` packages a readable directory (a `DirSrc` starting at the given
    stream, inside the scan fuel); `ResolvesTo` is the pure path resolution over the listings of the image;
    `open_dir` / `open_file` evaluate to what it finds. -/
namespace FatVerif.DirSim
open DirAlias

/-- `find_entry(name, is_dir, None)` on a list of entries, without the generator -/
def lookupL (upper : Char → List Char) (name : List Char) (isDir : Option Bool) : List LfnEntry → Except Err LfnEntry
  | [] => .error .notFound
  | e :: es =>
    if DirSlots.matchesName upper e name then
      if isDir.isSome && some (Lfn.isDir e.sfn) != isDir then .error .invalidInput else .ok e
    else lookupL upper name isDir es

theorem scan_fst (upper : Char → List Char) (name : List Char) (isDir : Option Bool) :
    ∀ (es : List LfnEntry) (g : Names.Gen), (scan upper name isDir es g).1 = lookupL upper name isDir es := by
  intro es
  induction es with
  | nil => intro g; rfl
  | cons e es ih =>
    intro g
    unfold scan lookupL
    split
    · split <;> rfl
    · exact ih _

theorem lookupL_ok (upper : Char → List Char) (name : List Char) (isDir : Option Bool) :
    ∀ (es : List LfnEntry) (e : LfnEntry), lookupL upper name isDir es = .ok e →
      e ∈ es ∧ DirSlots.matchesName upper e name = true ∧ (∀ b, isDir = some b → Lfn.isDir e.sfn = b) := by
  intro es
  induction es with
  | nil => intro e h; cases h
  | cons x es ih =>
    intro e h
    unfold lookupL at h
    split at h
    · rename_i hm
      split at h
      · cases h
      · rename_i hk
        cases h
        refine ⟨List.mem_cons_self .., hm, ?_⟩
        intro b hb
        subst hb
        simp only [Option.isSome_some, Bool.true_and, bne_iff_ne, ne_eq, Option.some.injEq, Decidable.not_not] at hk
        exact hk
    · obtain ⟨h1, h2⟩ := ih e h
      exact ⟨List.mem_cons_of_mem _ h1, h2⟩

/-- a readable directory starting at the stream `st` -/
structure DirView (d : Dev) (st : DirStream) where
  S : Nat → DirStream
  N : Nat
  src : Nat → Nat
  room : Nat → Nat
  start : st = S 0
  dir : DirSrc d S N src room
  fuel : N < dirFuel d.fs

namespace DirView
variable {d : Dev} {st : DirStream}

/-- the entries the pure reader finds in the slots of the directory in the image -/
def lfnEntries (V : DirView d st) : List LfnEntry := readDirEntries d.fs.lfnAlloc true (srcSlots d.img V.src V.N)

/-- `find_entry(name, is_dir)` as a function of the image -/
def lookup (V : DirView d st) (env : Env) (name : String) (isDir : Option Bool) : Except Err DirEntry :=
  (lookupL env.upper name.toList isDir V.lfnEntries).map (toDirEntryS V.src)

/-- `find_entry(..)?` on a view evaluates to `lookup` -/
theorem findEntry_sim (V : DirView d st) (env : Env) (name : String) (isDir : Option Bool) (d1 : Dev)
    (hv : SameVol d d1) :
    Outcome (findEntry env st name isDir) d1 id (V.lookup env name isDir) := by
  have g0 : Names.Gen := default
  obtain ⟨S, N, src, room, start, dir, fuel⟩ := V
  subst start
  unfold lookup lfnEntries
  simp only
  cases hl : lookupL env.upper name.toList isDir (readDirEntries d.fs.lfnAlloc true (srcSlots d.img src N)) with
  | ok e =>
    exact dir.findEntry_ok fuel env name isDir g0 (by rw [scan_fst]; exact hl) d1 hv
  | error err =>
    exact dir.findEntry_error fuel env name isDir g0 (by rw [scan_fst]; exact hl) d1 hv

/-- what a successful lookup found: a listed entry answering to the name, of the requested kind -/
theorem lookup_ok (V : DirView d st) (env : Env) (name : String) (isDir : Option Bool) {e : DirEntry}
    (h : V.lookup env name isDir = .ok e) :
    ∃ le ∈ V.lfnEntries, e = toDirEntryS V.src le ∧ DirSlots.matchesName env.upper le name.toList = true ∧
      (∀ b, isDir = some b → e.isDir = b) := by
  unfold lookup at h
  cases hl : lookupL env.upper name.toList isDir V.lfnEntries with
  | error err => rw [hl] at h; cases h
  | ok le =>
    rw [hl] at h
    cases h
    obtain ⟨h1, h2, h3⟩ := lookupL_ok _ _ _ _ _ hl
    refine ⟨le, h1, rfl, h2, fun b hb => ?_⟩
    rw [toDirEntryS_isDir V.src le (srcEntries_slotOK _ _ _ _ _ le h1)]
    exact h3 b hb

/-- the destructor of (a clone of) the directory's stream at its start -/
theorem drop_sim (V : DirView d st) (d1 : Dev) (hv : SameVol d d1) : Reads st.dropBody d1 () := by
  rw [V.start]; exact V.dir.drop d1 hv 0 (Nat.zero_le _)

end DirView

/-- the stream `to_dir` opens for a directory entry -/
def DirEntry.dirStream (fs : FsState) (e : DirEntry) : DirStream :=
  match e.firstCluster fs with
  | some n => .file (FileH.new (some n) (some e.editor))
  | none => rootDirStream fs

theorem toDir_sim (fs : FsState) (e : DirEntry) (h : e.isDir = true) (d1 : Dev) :
    Reads (e.toDir fs) d1 (DirEntry.dirStream fs e) := by
  unfold DirEntry.toDir DirEntry.dirStream
  rw [h]
  simp only [Bool.not_true, Bool.false_eq_true, if_false]
  cases e.firstCluster fs <;> exact Reads.pure _ d1

/-- **pure path resolution on the image**: every component but the last must be a directory with a readable listing
    (`DirView`); the last component is looked up with the kind filter `kind` -/
inductive ResolvesTo (d : Dev) (env : Env) (kind : Option Bool) : Nat → DirStream → String → DirEntry → Prop
  | last {fuel : Nat} {st : DirStream} {path name : String} {e : DirEntry} (hsp : Names.splitPath path = (name, none))
      (V : DirView d st) (hl : V.lookup env name kind = .ok e) : ResolvesTo d env kind (fuel + 1) st path e
  | step {fuel : Nat} {st : DirStream} {path name rest : String} {e e' : DirEntry}
      (hsp : Names.splitPath path = (name, some rest)) (V : DirView d st)
      (hl : V.lookup env name (some true) = .ok e)
      (hr : ResolvesTo d env kind fuel (DirEntry.dirStream d.fs e) rest e') : ResolvesTo d env kind (fuel + 1) st path e'

theorem ResolvesTo.view {d : Dev} {env : Env} {kind : Option Bool} {fuel : Nat} {st : DirStream} {path : String}
    {e : DirEntry} (h : ResolvesTo d env kind fuel st path e) : Nonempty (DirView d st) := by
  cases h with
  | last _ V _ => exact ⟨V⟩
  | step _ V _ _ => exact ⟨V⟩

theorem Reads.thenDrop {α} {st : DirStream} {body : Prog α} {d : Dev} {a : α} (h : Reads body d a)
    (hd : ∀ d1, SameVol d d1 → Reads st.dropBody d1 ()) : Reads (thenDrop st body) d a :=
  Reads.finallyDrop h hd

/-- **`open_dir`** = the pure resolution (last component a directory): the stream of the directory found -/
theorem openDir_sim {d : Dev} {env : Env} : ∀ {fuel : Nat} {st : DirStream} {path : String} {e : DirEntry},
    ResolvesTo d env (some true) fuel st path e → ∀ d1, SameVol d d1 →
    Reads (openDir env fuel st path) d1 (DirEntry.dirStream d.fs e) := by
  intro fuel st path e h
  induction h with
  | @last fuel st path name e hsp V hl =>
    intro d1 hv
    unfold openDir
    refine Reads.bind (Reads.getFs d1) (fun d2 hs2 => ?_)
    rw [hv.fs, hsp]
    simp only
    have hf := V.findEntry_sim env name (some true) d2 (hv.trans hs2)
    rw [hl] at hf
    refine Reads.bind hf (fun d3 hs3 => ?_)
    obtain ⟨_, _, _, _, hk⟩ := V.lookup_ok env _ _ hl
    exact Reads.bind (toDir_sim d.fs _ (hk true rfl) d3) (fun d4 _ => Reads.pure _ d4)
  | @step fuel st path name rest e e' hsp V hl hr ih =>
    intro d1 hv
    unfold openDir
    refine Reads.bind (Reads.getFs d1) (fun d2 hs2 => ?_)
    rw [hv.fs, hsp]
    simp only
    have hf := V.findEntry_sim env name (some true) d2 (hv.trans hs2)
    rw [hl] at hf
    refine Reads.bind hf (fun d3 hs3 => ?_)
    obtain ⟨_, _, _, _, hk⟩ := V.lookup_ok env _ _ hl
    refine Reads.bind (toDir_sim d.fs _ (hk true rfl) d3) (fun d4 hs4 => ?_)
    have hv4 := ((hv.trans hs2).trans hs3).trans hs4
    obtain ⟨V'⟩ := hr.view
    exact Reads.thenDrop (ih d4 hv4) (fun d5 hs5 => V'.drop_sim d5 (hv4.trans hs5))

/-- **`open_file`** = the pure resolution (last component a file): the handle of the file found -/
theorem openFile_sim {d : Dev} {env : Env} : ∀ {fuel : Nat} {st : DirStream} {path : String} {e : DirEntry},
    ResolvesTo d env (some false) fuel st path e → ∀ d1, SameVol d d1 →
    Reads (openFile env fuel st path) d1 (FileH.new (e.firstCluster d.fs) (some e.editor)) := by
  intro fuel st path e h
  induction h with
  | @last fuel st path name e hsp V hl =>
    intro d1 hv
    unfold openFile
    refine Reads.bind (Reads.getFs d1) (fun d2 hs2 => ?_)
    rw [hv.fs, hsp]
    simp only
    have hf := V.findEntry_sim env name (some false) d2 (hv.trans hs2)
    rw [hl] at hf
    refine Reads.bind hf (fun d3 hs3 => ?_)
    obtain ⟨_, _, _, _, hk⟩ := V.lookup_ok env _ _ hl
    unfold DirEntry.toFile
    simp only [id, hk false rfl, Bool.false_eq_true, if_false]
    exact Reads.pure _ d3
  | @step fuel st path name rest e e' hsp V hl hr ih =>
    intro d1 hv
    unfold openFile
    refine Reads.bind (Reads.getFs d1) (fun d2 hs2 => ?_)
    rw [hv.fs, hsp]
    simp only
    have hf := V.findEntry_sim env name (some true) d2 (hv.trans hs2)
    rw [hl] at hf
    refine Reads.bind hf (fun d3 hs3 => ?_)
    obtain ⟨_, _, _, _, hk⟩ := V.lookup_ok env _ _ hl
    refine Reads.bind (toDir_sim d.fs _ (hk true rfl) d3) (fun d4 hs4 => ?_)
    have hv4 := ((hv.trans hs2).trans hs3).trans hs4
    obtain ⟨V'⟩ := hr.view
    exact Reads.thenDrop (ih d4 hv4) (fun d5 hs5 => V'.drop_sim d5 (hv4.trans hs5))

end FatVerif.DirSim
