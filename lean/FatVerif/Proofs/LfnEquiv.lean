import FatVerif.Proofs.LfnRun
/-! The fixed-buffer builder simulates the `Vec` builder as long as no run is restarted inside a block of
    long-name slots (`cleanStarts`). -/
namespace FatVerif
namespace Lfn
open LongNameBuilder

/-- simulation relation: same `index`, `chksum`, `len`; the fixed array is the vector followed by zeros -/
def Sim (bv bf : LongNameBuilder) : Prop :=
  bv.index = bf.index ∧ bv.chksum = bf.chksum ∧ bv.buf.len = bf.buf.len ∧
  bf.buf.units = bv.buf.units ++ List.replicate (bufCap - bv.buf.len) 0 ∧ WF true bv ∧ WF false bf

/-- both builders cleared -/
def DeadPair (bv bf : LongNameBuilder) : Prop :=
  DeadV bv ∧ bf.index = 0 ∧ bf.buf = ⟨List.replicate bufCap 0, 0⟩

theorem Sim_new : Sim (new true) (new false) := by
  refine ⟨rfl, rfl, rfl, ?_, WF_new true, WF_new false⟩
  simp [new, LfnBuf.new]

theorem DeadPair_new : DeadPair (new true) (new false) := ⟨DeadV_new, rfl, rfl⟩

theorem Sim_clear (bv bf : LongNameBuilder) (h : Sim bv bf) : Sim (clear true bv) (clear false bf) := by
  refine ⟨rfl, h.2.1, rfl, ?_, WF_clear true bv, WF_clear false bf⟩
  simp [clear, LfnBuf.clear, LfnBuf.new]

theorem DeadPair_clear (bv bf : LongNameBuilder) : DeadPair (clear true bv) (clear false bf) :=
  ⟨DeadV_clear bv, rfl, rfl⟩

/-- a slot that does not (re)start a run keeps the simulation -/
theorem Sim_process_nonstart (bv bf : LongNameBuilder) (s : List Nat) (h : Sim bv bf)
    (hs : ¬ (order s / 64 % 2 = 1 ∧ 1 ≤ order s % 32 ∧ order s % 32 ≤ 20)) :
    Sim (process true bv s) (process false bf s) := by
  have hsim := h
  obtain ⟨hi, hc, hl, hu, hwv, hwf⟩ := h
  by_cases h1 : order s % 32 = 0 ∨ order s % 32 > 20
  · rw [process_invalid _ _ _ h1, process_invalid _ _ _ h1]; exact Sim_clear _ _ hsim
  · have h2 : ¬ (order s / 64 % 2 = 1) := fun hf => hs ⟨hf, by omega, by omega⟩
    by_cases h3 : bv.index = 0 ∨ order s % 32 ≠ bv.index - 1 ∨ chk s ≠ bv.chksum
    · rw [process_mismatch _ _ _ h1 h2 h3, process_mismatch _ _ _ h1 h2 (by rw [← hi, ← hc]; exact h3)]
      exact Sim_clear _ _ hsim
    · have hwv' := WF_process true bv s hwv
      have hwf' := WF_process false bf s hwf
      rw [process_cont _ _ _ h1 h2 h3] at hwv' ⊢
      rw [process_cont _ _ _ h1 h2 (by rw [← hi, ← hc]; exact h3)] at hwf' ⊢
      refine ⟨by simp [hi], hc, hl, ?_, hwv', hwf'⟩
      simp only
      obtain ⟨_, _, w3, _, w5⟩ := hwv
      simp only [if_true] at w5
      rw [hu, setSlice_append_left _ _ _ _ (by omega)]

/-- from the cleared state any slot keeps the simulation -/
theorem Sim_process_start (bv bf : LongNameBuilder) (s : List Nat) (h : Sim bv bf) (hd : DeadPair bv bf) :
    Sim (process true bv s) (process false bf s) := by
  by_cases hs : order s / 64 % 2 = 1 ∧ 1 ≤ order s % 32 ∧ order s % 32 ≤ 20
  · obtain ⟨hf, g1, g2⟩ := hs
    obtain ⟨⟨d1, d2⟩, d3, d4⟩ := hd
    have h1 : ¬ (order s % 32 = 0 ∨ order s % 32 > 20) := by omega
    have hwv' := WF_process true bv s h.2.2.2.2.1
    have hwf' := WF_process false bf s h.2.2.2.2.2
    rw [process_last _ _ _ h1 hf] at hwv' ⊢
    rw [process_last _ _ _ h1 hf] at hwf' ⊢
    refine ⟨rfl, rfl, by simp [LfnBuf.setLen], ?_, hwv', hwf'⟩
    have hcap := bufCap_eq
    generalize order s % 32 = m at *
    simp only [LfnBuf.setLen, d2, d4, if_true, Bool.false_eq_true, if_false, resize_nil]
    unfold setSlice
    have e1 : 13 * (m - 1) + 13 = m * 13 := by omega
    rw [e1]
    simp only [List.take_replicate, List.drop_replicate, List.append_assoc]
    have e2 : min (13 * (m - 1)) (m * 13) = 13 * (m - 1) := by omega
    have e3 : min (13 * (m - 1)) bufCap = 13 * (m - 1) := by omega
    rw [e2, e3]
    simp
  · exact Sim_process_nonstart bv bf s h hs

/-- the two variants hand out the same name -/
theorem Sim_finish (bv bf : LongNameBuilder) (n : List Nat) (h : Sim bv bf) :
    finish true bv n = finish false bf n := by
  have hcap := bufCap_eq
  -- validate_chksum keeps the simulation
  have hv : Sim (validateChksum true bv n) (validateChksum false bf n) := by
    unfold validateChksum
    rw [← h.1, ← h.2.1]
    split
    · exact h
    · split
      · exact Sim_clear _ _ h
      · exact h
  unfold finish
  generalize validateChksum true bv n = cv at hv ⊢
  generalize validateChksum false bf n = cf at hv ⊢
  obtain ⟨hi, _, hl, hu, hwv, hwf⟩ := hv
  obtain ⟨_, v2, v3, v4, v5⟩ := hwv
  simp only [if_true] at v5
  unfold intoBuf
  rw [← hi]
  by_cases i1 : cv.index = 1
  · simp only [i1, if_true, truncate, LfnBuf.setLen, LfnBuf.asUnits, Bool.false_eq_true, if_false]
    have hs : stripLen cf.buf.units = stripLen cv.buf.units := by
      unfold stripLen
      rw [hu, stripTrailing_append_pads _ _ (replicate_zero_isPad _)]
    have hle := stripLen_le cv.buf.units
    rw [hs, hu, resize_of_le _ _ hle, List.take_append_of_le_length hle]
    rw [List.take_take, Nat.min_self]
  · by_cases i0 : cv.index = 0
    · have := v4 i0
      simp [i0, LfnBuf.asUnits, ← hl, this]
    · simp [i1, i0, clear, LfnBuf.clear, LfnBuf.new, LfnBuf.asUnits]

theorem cleanStarts_cons_lfn (prev : Bool) (s : List Nat) (rest : List (List Nat)) (hc : slotClass s = .lfn)
    (h : cleanStarts prev (s :: rest) = true) :
    (prev = true → ¬ (order s / 64 % 2 = 1 ∧ 1 ≤ order s % 32 ∧ order s % 32 ≤ 20)) ∧
      cleanStarts true rest = true := by
  unfold cleanStarts at h
  simp only [hc, Bool.and_eq_true, Bool.not_eq_true', Bool.and_eq_false_iff] at h
  refine ⟨?_, h.2⟩
  intro hp ⟨a, b, c⟩
  subst hp
  have := h.1
  simp [a, b, c] at this

theorem readLoop_equiv (sv : Bool) : ∀ (slots : List (List Nat)) (idx bg : Nat) (prev : Bool)
    (bv bf : LongNameBuilder), cleanStarts prev slots = true → Sim bv bf → (prev = false → DeadPair bv bf) →
    readLoop true sv slots idx bg bv = readLoop false sv slots idx bg bf := by
  intro slots
  induction slots with
  | nil => intros; rfl
  | cons s rest ih =>
    intro idx bg prev bv bf hcs hsim hdead
    unfold readLoop
    have hfin := Sim_finish bv bf (sfnName s) hsim
    cases hcl : slotClass s with
    | endMark => rfl
    | deleted =>
      have : cleanStarts false rest = true := by unfold cleanStarts at hcs; simpa [hcl] using hcs
      exact ih _ _ false _ _ this (Sim_clear _ _ hsim) (fun _ => DeadPair_clear _ _)
    | lfn =>
      obtain ⟨hns, hrest⟩ := cleanStarts_cons_lfn prev s rest hcl hcs
      have hstep : Sim (process true bv s) (process false bf s) := by
        cases prev
        · exact Sim_process_start bv bf s hsim (hdead rfl)
        · exact Sim_process_nonstart bv bf s hsim (hns rfl)
      exact ih _ _ true _ _ hrest hstep (fun h => by simp at h)
    | volume =>
      have : cleanStarts false rest = true := by unfold cleanStarts at hcs; simpa [hcl] using hcs
      simp only
      split
      · exact ih _ _ false _ _ this (Sim_clear _ _ hsim) (fun _ => DeadPair_clear _ _)
      · rw [hfin, ih _ _ false _ _ this Sim_new (fun _ => DeadPair_new)]
    | file =>
      have : cleanStarts false rest = true := by unfold cleanStarts at hcs; simpa [hcl] using hcs
      simp only
      rw [hfin, ih _ _ false _ _ this Sim_new (fun _ => DeadPair_new)]

end Lfn
end FatVerif
