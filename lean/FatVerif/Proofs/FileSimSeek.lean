import FatVerif.Proofs.FileSimRead
/-!
# FileSim, part 5: `File::seek` simulates the cursor machine's `seek`
-/
namespace FatVerif.FileSim
open FatVerif FatVerif.Fat

/-- the two `SeekFrom` types (byte-level model / cursor machine) -/
def convSeek : FatVerif.SeekFrom → Cursor.SeekFrom
  | .start n => .start n
  | .cur x => .current x
  | .fromEnd x => .fromEnd x

/-- the chain walk of `seek` along the FAT chain: it ends `toSkip − i` links further -/
theorem run_seekWalk (fs : FsState) (img : Img) (chain : List Nat) (first : Nat)
    (hg : Geo fs img.size) (hch : Chain (tabView fs img) first chain)
    (hin : ∀ c ∈ chain, c < fs.totalClusters + 2) :
    ∀ (k : Nat) (it : Table.CIter DiskSlice) (cluster i toSkip newOff j : Nat) (d : Dev),
      d.failAt = none → d.fs = fs → d.img = img →
      it.cluster = some cluster → it.err = false → IsFatSlice fs it.fat →
      chain[j]? = some cluster → j + (toSkip - i) < chain.length → toSkip - i ≤ k →
      ∃ d' c', run (FileH.seekWalk fs k it cluster i toSkip newOff) d = (.ok (c', newOff), d') ∧
        chain[j + (toSkip - i)]? = some c' ∧ SameStore d d' := by
  intro k
  induction k with
  | zero =>
    intro it cluster i toSkip newOff j d _ _ _ _ _ _ hj _ hk
    have : toSkip - i = 0 := by omega
    exact ⟨d, cluster, rfl, by rw [this]; exact hj, SameStore.refl d⟩
  | succ k ih =>
    intro it cluster i toSkip newOff j d hfa hfs himg hc herr hsl hj hlen hk
    unfold FileH.seekWalk
    by_cases hi : i ≥ toSkip
    · rw [if_pos hi]
      have : toSkip - i = 0 := by omega
      exact ⟨d, cluster, rfl, by rw [this]; exact hj, SameStore.refl d⟩
    · rw [if_neg hi]
      have hcin : cluster < fs.totalClusters + 2 := hin cluster (List.mem_of_getElem? hj)
      obtain ⟨d1, s1, h1, hs1, hsl1⟩ := run_citer_next fs it cluster d hfa (by rw [himg]; exact hg) hsl herr hc hcin
      have hnext : nextV (tabView fs d.img) cluster = chain[j + 1]? := by
        rw [himg]; exact chain_nextV_getElem? hch j cluster hj
      have hj1 : j + 1 < chain.length := by omega
      obtain ⟨c2, hc2⟩ : ∃ c2, chain[j + 1]? = some c2 := ⟨chain[j + 1], by simp [hj1]⟩
      rw [hnext, hc2] at h1
      rw [run_bind_ok h1]
      simp only [Option.map]
      obtain ⟨d2, c', h2, hget, hs2⟩ := ih { it with fat := s1, cluster := some c2 } c2 (i + 1) toSkip newOff (j + 1) d1
        (by rw [hs1.failAt]; exact hfa) (by rw [hs1.fs]; exact hfs) (by rw [hs1.img]; exact himg)
        rfl herr hsl1 hc2 (by omega) (by omega)
      refine ⟨d2, c', h2, ?_, hs1.trans hs2⟩
      rw [← hget]; congr 1; omega

/-- `new_offset_opt` of `File::seek` for a regular file of recorded size `sz` -/
def seekTgt (f : FileH) (sz : Nat) (p : FatVerif.SeekFrom) : Option Nat :=
  match p with
  | .cur x => (if -9223372036854775808 ≤ (f.offset : Int) + x ∧ (f.offset : Int) + x ≤ 9223372036854775807
      then some ((f.offset : Int) + x) else none).bind
      (fun t => if 0 ≤ t ∧ t < 4294967296 then some t.toNat else none)
  | .start x => if x < 4294967296 then some x else none
  | .fromEnd x => (if -9223372036854775808 ≤ (sz : Int) + x ∧ (sz : Int) + x ≤ 9223372036854775807
      then some ((sz : Int) + x) else none).bind
      (fun t => if 0 ≤ t ∧ t < 4294967296 then some t.toNat else none)

/-- `File::seek` after the target has been computed and clamped -/
def seekBody (f : FileH) (fs : FsState) (newOff : Nat) : Prog (Nat × FileH) :=
  if newOff = f.offset then pure (f.offset, f)
  else
    if newOff = 0 then pure (0, { f with offset := 0, currentCluster := none })
    else if FileH.clustersFromBytes fs newOff = FileH.clustersFromBytes fs f.offset then
      pure (newOff, { f with offset := newOff })
    else match f.firstCluster with
      | some first => do
        let it : Table.CIter DiskSlice := { fat := fatSliceOf fs, cluster := some first }
        let (c, off) ← FileH.seekWalk fs (FileH.clustersFromBytes fs newOff + 1) it first 0
          (FileH.clustersFromBytes fs newOff - 1) newOff
        pure (off, { f with offset := off, currentCluster := some c })
      | none => pure (0, { f with offset := 0, currentCluster := none })

/-- `FileH.seek` for a regular file, restated with `seekTgt` / `seekBody` -/
theorem seek_eq (f : FileH) (p : FatVerif.SeekFrom) (sz : Nat) (hsz : f.size? = some sz) :
    f.seek p = (Prog.getFs >>= fun fs =>
      match seekTgt f sz p with
      | none => Prog.fail Err.invalidInput
      | some t => seekBody f fs (if t > sz then sz else t)) := by
  unfold FileH.seek seekTgt seekBody
  simp only [hsz]
  cases p <;> rfl

/-- the target computation of the byte-level model is the machine's -/
theorem seekTgt_eq (f : FileH) (fs : FsState) (img : Img) (sz : Nat) (hsz : f.size? = some sz)
    (p : FatVerif.SeekFrom) : seekTgt f sz p = (absFile fs img f).seekTarget (convSeek p) := by
  unfold seekTgt
  have hasz : (absFile fs img f).size = sz := by simp [absFile, hsz]
  have hu : Cursor.u32Max = 4294967295 := rfl
  have hi : Cursor.i64Max = 9223372036854775807 := rfl
  cases p with
  | start n =>
    simp only [convSeek, Cursor.AFile.seekTarget]
    by_cases h : n < 4294967296
    · rw [if_pos h, if_pos (by omega)]
    · rw [if_neg h, if_neg (by omega)]
  | cur x =>
    simp only [convSeek, Cursor.AFile.seekTarget, Cursor.AFile.addToU32]
    show _ = if (f.offset : Int) + x > Cursor.i64Max then none
      else if 0 ≤ (f.offset : Int) + x ∧ (f.offset : Int) + x ≤ (Cursor.u32Max : Int) then
        some ((f.offset : Int) + x).toNat else none
    by_cases h1 : (f.offset : Int) + x > Cursor.i64Max
    · rw [if_pos h1, if_neg (by omega)]; rfl
    · rw [if_neg h1]
      by_cases h2 : 0 ≤ (f.offset : Int) + x ∧ (f.offset : Int) + x ≤ (Cursor.u32Max : Int)
      · rw [if_pos h2, if_pos (by omega)]
        simp only [Option.bind]
        rw [if_pos (by omega)]
      · rw [if_neg h2]
        by_cases h3 : -9223372036854775808 ≤ (f.offset : Int) + x ∧ (f.offset : Int) + x ≤ 9223372036854775807
        · rw [if_pos h3]; simp only [Option.bind]; rw [if_neg (by omega)]
        · rw [if_neg h3]; rfl
  | fromEnd x =>
    simp only [convSeek, Cursor.AFile.seekTarget, Cursor.AFile.addToU32, hasz]
    by_cases h1 : (sz : Int) + x > Cursor.i64Max
    · rw [if_pos h1, if_neg (by omega)]; rfl
    · rw [if_neg h1]
      by_cases h2 : 0 ≤ (sz : Int) + x ∧ (sz : Int) + x ≤ (Cursor.u32Max : Int)
      · rw [if_pos h2, if_pos (by omega)]
        simp only [Option.bind]
        rw [if_pos (by omega)]
      · rw [if_neg h2]
        by_cases h3 : -9223372036854775808 ≤ (sz : Int) + x ∧ (sz : Int) + x ≤ 9223372036854775807
        · rw [if_pos h3]; simp only [Option.bind]; rw [if_neg (by omega)]
        · rw [if_neg h3]; rfl

/-- the round-up cluster count of a 32-bit byte count needs no truncation -/
theorem clustersFromBytes_eq (fs : FsState) (b : Nat) (hcs : 0 < fs.clusterSize) (hb : b ≤ 4294967295) :
    FileH.clustersFromBytes fs b = Cursor.clustersFromBytes fs.clusterSize b := by
  unfold FileH.clustersFromBytes Cursor.clustersFromBytes
  apply Nat.mod_eq_of_lt
  have : (b + fs.clusterSize - 1) / fs.clusterSize ≤ b := by
    rcases Nat.eq_zero_or_pos b with h0 | h0
    · subst h0; rw [Nat.zero_add, Nat.div_eq_of_lt (by omega)]; exact Nat.zero_le _
    · apply Nat.div_le_of_le_mul
      have : fs.clusterSize * b ≥ fs.clusterSize + b - 1 := by
        have h1 : fs.clusterSize * b ≥ fs.clusterSize * 1 + (b - 1) * 1 := by
          have : fs.clusterSize * b = fs.clusterSize * 1 + fs.clusterSize * (b - 1) := by
            rw [← Nat.mul_add]; congr 1; omega
          rw [this]
          have : (b - 1) * 1 ≤ fs.clusterSize * (b - 1) := by
            rw [Nat.mul_comm fs.clusterSize]; exact Nat.mul_le_mul_left _ hcs
          omega
        omega
      omega
  omega

/-- a handle that differs from a represented one in cursor position only is represented as soon as the machine's
    invariant holds for it -/
theorem FileRep.of_cursor {fs : FsState} {img : Img} {f f' : FileH} (h : FileRep fs img f)
    (hfirst : f'.firstCluster = f.firstCluster) (hsize : f'.size? = f.size?)
    (hinv : Cursor.AFileInv viewFree (absFile fs img f') (tabView fs img)) : FileRep fs img f' := by
  have hch : fileChain fs img f' = fileChain fs img f := by unfold fileChain; rw [hfirst]
  obtain ⟨sz, hsz⟩ := h.file
  exact ⟨⟨sz, hsize.trans hsz⟩, hinv, fun c hc => by rw [hch]; exact h.chain c (hfirst ▸ hc),
    fun c hc => h.inTab c (hch ▸ hc), fun c hc => h.last_eoc c (hch ▸ hc)⟩

/-- the clamped part of `File::seek` is the machine's `seekTo` -/
theorem run_seekBody (f : FileH) (d : Dev) (hfa : d.failAt = none) (hg : Geo d.fs d.img.size)
    (hrep : FileRep d.fs d.img f) (sz : Nat) (hsz : f.size? = some sz) (new : Nat) (hnew : new ≤ sz) :
    ∃ pos f' d', run (seekBody f d.fs new) d = (.ok (pos, f'), d') ∧ SameStore d d' ∧
      ((absFile d.fs d.img f).seekTo new).1 = .ok pos ∧
      absFile d.fs d.img f' = ((absFile d.fs d.img f).seekTo new).2 ∧ FileRep d.fs d.img f' := by
  have hinv := hrep.inv
  have hasz : (absFile d.fs d.img f).size = sz := by simp [absFile, hsz]
  have hpost := hinv.seekTo_post new (by rw [hasz]; exact hnew)
  have hcs := hg.cs_pos
  have hszle : sz ≤ 4294967295 := by have := hinv.size_le; rw [hasz] at this; exact this
  have hoff : f.offset ≤ sz := by have := hinv.off_le; rw [hasz] at this; exact this
  have hrepOf : ∀ f' : FileH, f'.firstCluster = f.firstCluster → f'.size? = f.size? →
      absFile d.fs d.img f' = ((absFile d.fs d.img f).seekTo new).2 → FileRep d.fs d.img f' :=
    fun f' h1 h2 h3 => hrep.of_cursor h1 h2 (by rw [h3]; exact hpost.2)
  unfold seekBody
  unfold Cursor.AFile.seekTo at hpost ⊢
  show ∃ pos f' d', _ ∧ _ ∧
    (if new = f.offset then _ else _ : Except Err Nat × Cursor.AFile).1 = _ ∧ _ = (if new = f.offset then _ else _ : Except Err Nat × Cursor.AFile).2 ∧ _
  by_cases h1 : new = f.offset
  · rw [if_pos h1, if_pos h1]
    exact ⟨f.offset, f, d, rfl, SameStore.refl d, rfl, rfl, hrep⟩
  · rw [if_neg h1, if_neg h1]
    have hp1 : ¬ new = (absFile d.fs d.img f).offset := h1
    rw [if_neg hp1] at hpost
    by_cases h2 : new = 0
    · rw [if_pos h2, if_pos h2]
      rw [if_pos h2] at hpost
      exact ⟨0, _, d, rfl, SameStore.refl d, rfl, rfl, hrep.of_cursor rfl rfl hpost.2⟩
    · rw [if_neg h2, if_neg h2]
      rw [if_neg h2] at hpost
      rw [clustersFromBytes_eq d.fs new hcs (by omega), clustersFromBytes_eq d.fs f.offset hcs (by omega)]
      show ∃ pos f' d', _ ∧ _ ∧
        (if Cursor.clustersFromBytes d.fs.clusterSize new = Cursor.clustersFromBytes d.fs.clusterSize f.offset
          then _ else _ : Except Err Nat × Cursor.AFile).1 = _ ∧
        _ = (if Cursor.clustersFromBytes d.fs.clusterSize new = Cursor.clustersFromBytes d.fs.clusterSize f.offset
          then _ else _ : Except Err Nat × Cursor.AFile).2 ∧ _
      by_cases h3 : Cursor.clustersFromBytes d.fs.clusterSize new = Cursor.clustersFromBytes d.fs.clusterSize f.offset
      · rw [if_pos h3, if_pos h3]
        have hp3 : Cursor.clustersFromBytes (absFile d.fs d.img f).cs new =
            Cursor.clustersFromBytes (absFile d.fs d.img f).cs (absFile d.fs d.img f).offset := h3
        rw [if_pos hp3] at hpost
        exact ⟨new, _, d, rfl, SameStore.refl d, rfl, rfl, hrep.of_cursor rfl rfl hpost.2⟩
      · rw [if_neg h3, if_neg h3]
        have hp3 : ¬ Cursor.clustersFromBytes (absFile d.fs d.img f).cs new =
            Cursor.clustersFromBytes (absFile d.fs d.img f).cs (absFile d.fs d.img f).offset := h3
        rw [if_neg hp3] at hpost
        show ∃ pos f' d', run (match f.firstCluster with | some first => _ | none => _) d = _ ∧ _ ∧
          (match f.firstCluster with | some first => _ | none => _ : Except Err Nat × Cursor.AFile).1 = _ ∧
          _ = (match f.firstCluster with | some first => _ | none => _ : Except Err Nat × Cursor.AFile).2 ∧ _
        cases hf : f.firstCluster with
        | none =>
          have hpf : (absFile d.fs d.img f).firstCluster = none := hf
          rw [hpf] at hpost
          simp only at hpost ⊢
          refine ⟨0, _, d, rfl, SameStore.refl d, rfl, ?_, ?_⟩
          · unfold absFile fileChain; simp only [hf]; rfl
          · refine hrep.of_cursor hf.symm rfl ?_
            have : absFile d.fs d.img { firstCluster := none, entry := f.entry } =
                { absFile d.fs d.img f with firstCluster := none, offset := 0, current := none } := by
              unfold absFile fileChain; simp only [hf]; rfl
            rw [this]; exact hpost.2
        | some first =>
          have hpf : (absFile d.fs d.img f).firstCluster = some first := hf
          rw [hpf] at hpost
          simp only at hpost ⊢
          have hnpos : 0 < new := Nat.pos_of_ne_zero h2
          have hcfb := Cursor.clustersFromBytes_pos hcs hnpos
          have hidx : (new - 1) / d.fs.clusterSize < (fileChain d.fs d.img f).length := by
            have := hinv.index_lt (p := new - 1) (by rw [hasz]; omega)
            exact this
          have h0 : (fileChain d.fs d.img f)[0]? = some first := by
            have := hinv.first
            have e : (absFile d.fs d.img f).firstCluster = (fileChain d.fs d.img f).head? := this
            rw [hpf, List.head?_eq_getElem?] at e; exact e.symm
          have hcfb' : Cursor.clustersFromBytes (absFile d.fs d.img f).cs new =
              (new - 1) / (absFile d.fs d.img f).cs + 1 := hcfb
          rw [hcfb'] at hpost ⊢
          rw [hcfb]
          simp only [Nat.add_sub_cancel] at hpost ⊢
          obtain ⟨d1, c', hw, hget, hs1⟩ := run_seekWalk d.fs d.img (fileChain d.fs d.img f) first hg
            (hrep.chain first hf) (fun c hc => (hrep.inTab c hc).2)
            ((new - 1) / d.fs.clusterSize + 1 + 1) { fat := fatSliceOf d.fs, cluster := some first } first 0
            ((new - 1) / d.fs.clusterSize) new 0 d hfa rfl rfl rfl rfl (isFatSlice_self _) h0
            (by rw [Nat.zero_add, Nat.sub_zero]; exact hidx) (by omega)
          obtain ⟨c'', hget', hw'⟩ := Cursor.seekWalk_of_getElem? (fileChain d.fs d.img f) d.fs.clusterSize
            hinv.nodup ((new - 1) / d.fs.clusterSize) 0 first 0 new h0 (by rw [Nat.zero_add]; exact hidx)
          have hcc : c'' = c' := by
            simp only [Nat.sub_zero] at hget
            rw [hget] at hget'; exact (Option.some.inj hget').symm
          subst hcc
          have hw'' : Cursor.AFile.seekWalk (absFile d.fs d.img f).chain (absFile d.fs d.img f).cs first 0
              ((new - 1) / (absFile d.fs d.img f).cs) new = (c'', new) := hw'
          rw [hw''] at hpost ⊢
          rw [run_bind_ok hw]
          refine ⟨new, _, d1, rfl, hs1, rfl, ?_, ?_⟩
          · unfold absFile fileChain; simp only [hf]; rfl
          · refine hrep.of_cursor hf.symm rfl ?_
            have : absFile d.fs d.img ⟨some first, some c'', new, f.entry⟩ =
                { absFile d.fs d.img f with firstCluster := some first, offset := new, current := some c'' } := by
              unfold absFile fileChain; simp only [hf]; rfl
            rw [this]; exact hpost.2

/-- **`seek_sim`.**  `File::seek`, all three forms: either the machine rejects the target (before the start, or
    not representable in 32 bits) and so does the byte-level model, with `InvalidInput` and nothing changed; or both
    move the cursor to the same position (`min target size`), the new handle is exactly the machine's new state and
    is represented again; the device keeps image, log and mounted state. -/
theorem seek_sim (f : FileH) (p : FatVerif.SeekFrom) (d : Dev) (hfa : d.failAt = none) (hg : Geo d.fs d.img.size)
    (hrep : FileRep d.fs d.img f) :
    (∃ pos f' d', run (f.seek p) d = (.ok (pos, f'), d') ∧ SameStore d d' ∧
      ((absFile d.fs d.img f).seek (convSeek p)).1 = .ok pos ∧
      absFile d.fs d.img f' = ((absFile d.fs d.img f).seek (convSeek p)).2 ∧ FileRep d.fs d.img f') ∨
    (run (f.seek p) d = (.error .invalidInput, d) ∧
      (absFile d.fs d.img f).seek (convSeek p) = (.error .invalidInput, absFile d.fs d.img f)) := by
  obtain ⟨sz, hsz⟩ := hrep.file
  have hasz : (absFile d.fs d.img f).size = sz := by simp [absFile, hsz]
  rw [seek_eq f p sz hsz, run_bind_ok (run_getFs d)]
  rw [seekTgt_eq f d.fs d.img sz hsz p]
  unfold Cursor.AFile.seek
  cases (absFile d.fs d.img f).seekTarget (convSeek p) with
  | none => exact Or.inr ⟨rfl, rfl⟩
  | some t =>
    left
    simp only [hasz]
    exact run_seekBody f d hfa hg hrep sz hsz _ (by split <;> omega)

end FatVerif.FileSim
