import FatVerif.Proofs.AFileLoops
import FatVerif.Proofs.AFileSeek
import FatVerif.Proofs.AFileTrunc
/-!
Footprint of the operations of one file handle: they touch only clusters that are in the file's chain or free.
Consequence (`Props/C02.lean`, `file_frame`): another file of the same volume — disjoint chain, same allocator —
keeps its content and its invariant, whatever is done to this one.
-/
namespace FatVerif.Cursor

section
variable {σ : Type} {isFree : σ → Nat → Prop} {A : Allocator σ}

/-- the clusters a handle may touch: its own chain and the free ones -/
def Own (isFree : σ → Nat → Prop) (f : AFile) (s : σ) (c : Nat) : Prop := c ∈ f.chain ∨ isFree s c

/-- `(f, s) → (f', s')` stayed inside `Own f s`: no cluster outside was linked, freed or written -/
structure Footprint (isFree : σ → Nat → Prop) (f : AFile) (s : σ) (f' : AFile) (s' : σ) : Prop where
  own : ∀ c, Own isFree f' s' c → Own isFree f s c
  data : ∀ c, ¬ Own isFree f s c → f'.data c = f.data c

theorem Footprint.of_eq {f f' : AFile} {s : σ} (hc : f'.chain = f.chain) (hd : f'.data = f.data) :
    Footprint isFree f s f' s :=
  ⟨fun c h => by unfold Own at *; rw [hc] at h; exact h, fun c _ => by rw [hd]⟩

theorem Footprint.trans {f f' f'' : AFile} {s s' s'' : σ} (a : Footprint isFree f s f' s')
    (b : Footprint isFree f' s' f'' s'') : Footprint isFree f s f'' s'' :=
  ⟨fun c h => a.own c (b.own c h), fun c h => by
    rw [b.data c (fun h' => h (a.own c h')), a.data c h]⟩

theorem cutAfter_subset (c : Nat) : ∀ (l : List Nat) (x : Nat), x ∈ cutAfter c l → x ∈ l
  | [], x, h => by simp [cutAfter] at h
  | y :: r, x, h => by
    unfold cutAfter at h
    split at h
    · simp at h; simp [h]
    · rcases List.mem_cons.mp h with e | e
      · simp [e]
      · exact List.mem_cons_of_mem _ (cutAfter_subset c r x e)

theorem freedAfter_subset (c : Nat) : ∀ (l : List Nat) (x : Nat), x ∈ freedAfter c l → x ∈ l
  | [], x, h => by simp [freedAfter] at h
  | y :: r, x, h => by
    unfold freedAfter at h
    split at h
    · exact List.mem_cons_of_mem _ h
    · exact List.mem_cons_of_mem _ (freedAfter_subset c r x h)

/-- a read touches nothing -/
theorem read_chain_data (f : AFile) (n : Nat) : (f.read n).2.chain = f.chain ∧ (f.read n).2.data = f.data := by
  unfold AFile.read
  split
  · exact ⟨rfl, rfl⟩
  · split
    · exact ⟨rfl, rfl⟩
    · split <;> exact ⟨rfl, rfl⟩

theorem readExactLoop_chain_data : ∀ (fuel : Nat) (f : AFile) (need : Nat) (acc : List Nat),
    (f.readExactLoop fuel need acc).2.chain = f.chain ∧ (f.readExactLoop fuel need acc).2.data = f.data
  | 0, f, need, acc => by
    unfold AFile.readExactLoop; split <;> exact ⟨rfl, rfl⟩
  | fuel + 1, f, need, acc => by
    have hr := read_chain_data f need
    unfold AFile.readExactLoop
    split
    · exact ⟨rfl, rfl⟩
    · generalize f.read need = r at hr
      obtain ⟨r1, f'⟩ := r
      cases r1 with
      | error e => exact hr
      | ok l =>
        simp only
        split
        · exact hr
        · have ih := readExactLoop_chain_data fuel f' (need - l.length) (acc ++ l)
          exact ⟨ih.1.trans hr.1, ih.2.trans hr.2⟩

theorem seekTo_chain_data (f : AFile) (new : Nat) :
    (f.seekTo new).2.chain = f.chain ∧ (f.seekTo new).2.data = f.data := by
  unfold AFile.seekTo
  split
  · exact ⟨rfl, rfl⟩
  · split
    · exact ⟨rfl, rfl⟩
    · split
      · exact ⟨rfl, rfl⟩
      · split <;> exact ⟨rfl, rfl⟩

theorem seek_chain_data (f : AFile) (w : SeekFrom) : (f.seek w).2.chain = f.chain ∧ (f.seek w).2.data = f.data := by
  unfold AFile.seek
  split
  · exact ⟨rfl, rfl⟩
  · exact seekTo_chain_data f _

/-- `truncate` frees part of the own chain and touches no data -/
theorem truncate_footprint (hA : AllocLaws A isFree) (f : AFile) (s : σ) :
    Footprint isFree f s (f.truncate A s).2.1 (f.truncate A s).2.2 := by
  unfold AFile.truncate
  split
  · rename_i c hc
    split
    · exact Footprint.of_eq rfl rfl
    · refine ⟨fun x hx => ?_, fun _ _ => rfl⟩
      rcases hx with hx | hx
      · exact Or.inl (cutAfter_subset c f.chain x hx)
      · rcases hA.release_sub hx with h1 | h1
        · exact Or.inr h1
        · exact Or.inl (freedAfter_subset c f.chain x h1)
  · split
    · exact Footprint.of_eq rfl rfl
    · split
      · refine ⟨fun x hx => ?_, fun _ _ => rfl⟩
        rcases hx with hx | hx
        · simp at hx
        · rcases hA.release_sub hx with h1 | h1
          · exact Or.inr h1
          · exact Or.inl h1
      · exact Footprint.of_eq rfl rfl

/-- the ways `writeCluster` can end -/
theorem writeCluster_cases (f : AFile) (s : σ) :
    (f.writeCluster A s).2 = (f, s) ∨
    ∃ c s1, A.alloc s = some (c, s1) ∧ f.writeCluster A s = (.ok c, f.linkNew c, s1) ∧
      f.offset % f.cs = 0 ∧ f.boundaryCluster = none := by
  unfold AFile.writeCluster
  split
  · rename_i hm
    split
    · exact Or.inl rfl
    · rename_i hb
      split
      · exact Or.inl rfl
      · rename_i c s1 ha
        exact Or.inr ⟨c, s1, ha, rfl, hm, hb⟩
  · split <;> exact Or.inl rfl

theorem putBytes_other (data : Nat → Nat → Nat) (c o : Nat) (arr : Array Nat) (d : Nat) (h : d ≠ c) :
    AFile.putBytes data c o arr d = data d := by
  funext j
  simp [AFile.putBytes, h]

/-- ONE write stays inside the own chain and the free clusters -/
theorem AFileInv.write_footprint {f : AFile} {s : σ} (h : AFileInv isFree f s) (hA : AllocLaws A isFree)
    (bs : List Nat) : Footprint isFree f s (f.write A s bs).2.1 (f.write A s bs).2.2 := by
  have hpost := h.writeCluster_post hA
  unfold AFile.write
  split
  · exact Footprint.of_eq rfl rfl
  · rcases hpost with ⟨he, _⟩ | ⟨c, f1, s1, he, h1, hc, _, _, _⟩
    · rw [he]; exact Footprint.of_eq rfl rfl
    · rw [he]
      simp only
      have hcm : c ∈ f1.chain := List.mem_of_getElem? hc
      -- footprint of the cluster selection
      have hfp1 : Footprint isFree f s f1 s1 := by
        rcases writeCluster_cases (A := A) f s with hsame | ⟨c', s1', ha, he', hm, hb⟩
        · rw [he] at hsame
          have e1 : f1 = f := congrArg Prod.fst hsame
          have e2 : s1 = s := congrArg Prod.snd hsame
          subst e1; subst e2
          exact Footprint.of_eq rfl rfl
        · rw [he] at he'
          have e0 : c = c' := by injection he' with a b; injection a
          have e1 : f1 = f.linkNew c' := by injection he' with a b; exact congrArg Prod.fst b
          have e2 : s1 = s1' := by injection he' with a b; exact congrArg Prod.snd b
          subst e0; subst e2
          have hnone : f.readCluster = none := by unfold AFile.readCluster; simp [hm, hb]
          obtain ⟨_, hend⟩ := h.readCluster_none hnone
          obtain ⟨l1, _, _, l4, _⟩ := h.linkNew_post c hend
          rw [e1]
          refine ⟨fun x hx => ?_, fun x _ => by rw [l4]⟩
          rcases hx with hx | hx
          · rw [l1] at hx
            rcases List.mem_append.mp hx with hx | hx
            · exact Or.inl hx
            · simp at hx; exact Or.inr (hx ▸ hA.alloc_free ha)
          · exact Or.inr (hA.alloc_frame ha hx).1
      -- the device write touches cluster `c` only
      have hfp2 : Footprint isFree f1 s1 (f1.put c (bs.take (f.writeLen bs.length))) s1 :=
        ⟨fun x hx => hx, fun x hx => by
          have hne : x ≠ c := fun e => hx (Or.inl (e ▸ hcm))
          show AFile.putBytes f1.data c _ _ x = f1.data x
          exact putBytes_other _ _ _ _ _ hne⟩
      exact hfp1.trans hfp2

theorem writeAllLoop_footprint (hA : AllocLaws A isFree) : ∀ (fuel : Nat) (f : AFile) (s : σ) (bs : List Nat),
    AFileInv isFree f s →
    Footprint isFree f s (f.writeAllLoop A fuel s bs).2.1 (f.writeAllLoop A fuel s bs).2.2
  | 0, f, s, bs, _ => by
    unfold AFile.writeAllLoop; split <;> exact Footprint.of_eq rfl rfl
  | fuel + 1, f, s, bs, h => by
    have hfp := h.write_footprint hA bs
    have hinv : AFileInv isFree (f.write A s bs).2.1 (f.write A s bs).2.2 := by
      rcases h.write_refines hA bs with ⟨he, _⟩ | ⟨_, hi, _⟩
      · rw [he]; exact h
      · exact hi
    unfold AFile.writeAllLoop
    split
    · exact Footprint.of_eq rfl rfl
    · generalize f.write A s bs = r at hfp hinv
      obtain ⟨r1, f', s'⟩ := r
      cases r1 with
      | error e => exact hfp
      | ok n =>
        simp only
        split
        · exact hfp
        · exact hfp.trans (writeAllLoop_footprint hA fuel f' s' (bs.drop n) hinv)

/-- every operation stays inside the own chain and the free clusters -/
theorem AFileInv.step_footprint {f : AFile} {s : σ} (h : AFileInv isFree f s) (hA : AllocLaws A isFree)
    (op : FileOp) : Footprint isFree f s (AFile.step A op f s).2.1 (AFile.step A op f s).2.2 := by
  cases op with
  | read n =>
    have := read_chain_data f n
    simp only [AFile.step]
    generalize f.read n = r at this
    obtain ⟨r1, f'⟩ := r
    cases r1 <;> exact Footprint.of_eq this.1 this.2
  | write bs =>
    have := h.write_footprint hA bs
    simp only [AFile.step]
    generalize f.write A s bs = r at this
    obtain ⟨r1, f', s'⟩ := r
    cases r1 <;> exact this
  | readExact n =>
    have := readExactLoop_chain_data n f n []
    simp only [AFile.step, AFile.readExact]
    generalize f.readExactLoop n n [] = r at this
    obtain ⟨r1, f'⟩ := r
    cases r1 <;> exact Footprint.of_eq this.1 this.2
  | writeAll bs =>
    have := writeAllLoop_footprint hA bs.length f s bs h
    simp only [AFile.step, AFile.writeAll]
    generalize f.writeAllLoop A bs.length s bs = r at this
    obtain ⟨r1, f', s'⟩ := r
    cases r1 <;> exact this
  | seek w =>
    have := seek_chain_data f w
    simp only [AFile.step]
    generalize f.seek w = r at this
    obtain ⟨r1, f'⟩ := r
    cases r1 <;> exact Footprint.of_eq this.1 this.2
  | truncate =>
    have := truncate_footprint hA f s
    simp only [AFile.step]
    generalize f.truncate A s = r at this
    obtain ⟨r1, f', s'⟩ := r
    cases r1 <;> exact this
  | flush => exact Footprint.of_eq rfl rfl
  | reopen =>
    simp only [AFile.step]
    generalize f.reopen.readExact f.size = r
    obtain ⟨r1, f'⟩ := r
    cases r1 <;> exact Footprint.of_eq rfl rfl

end
end FatVerif.Cursor
