import FatVerif.Proofs.FileSimDefs
/-!
# FileSim, part 4: `File::read` simulates the cursor machine's `read`
-/
namespace FatVerif.FileSim
open FatVerif FatVerif.Fat

/-! ### cluster offsets -/

theorem clusterOff_succ (fs : FsState) (c : Nat) (hc : 2 ≤ c) :
    clusterOff fs (c + 1) = clusterOff fs c + fs.clusterSize := by
  unfold clusterOff FsState.clusterSize
  have : c + 1 - 2 = (c - 2) + 1 := by omega
  rw [this, Nat.succ_mul, ← Nat.add_assoc, Nat.add_mul, Nat.mul_comm fs.spc fs.bps]

theorem clusterOff_mono (fs : FsState) {a b : Nat} (h : a ≤ b) : clusterOff fs a ≤ clusterOff fs b := by
  unfold clusterOff
  exact Nat.mul_le_mul_right _ (Nat.add_le_add_left (Nat.mul_le_mul_right _ (Nat.sub_le_sub_right h 2)) _)

/-- the cluster `c` of the table lies inside the device -/
theorem Geo.cluster_dev {fs : FsState} {sz : Nat} (g : Geo fs sz) {c : Nat} (h2 : 2 ≤ c) (hc : c < fs.totalClusters + 2) :
    clusterOff fs c + fs.clusterSize ≤ sz := by
  rw [← clusterOff_succ fs c h2]
  exact Nat.le_trans (clusterOff_mono fs (by omega)) g.data_dev

theorem Geo.cs_pos {fs : FsState} {sz : Nat} (g : Geo fs sz) : 0 < fs.clusterSize :=
  Nat.mul_pos g.bps_pos g.spc_pos

/-- `offset_from_cluster` of a cluster of the table: no overflow, the byte offset of the cluster -/
theorem run_offsetFromClusterP {fs : FsState} {sz : Nat} (g : Geo fs sz) (c : Nat) (h2 : 2 ≤ c)
    (hc : c < fs.totalClusters + 2) (d : Dev) :
    run (offsetFromClusterP fs c) d = (.ok (clusterOff fs c), d) := by
  have hle : (c - 2) * fs.spc ≤ fs.totalClusters * fs.spc := Nat.mul_le_mul_right _ (by omega)
  have h1 := g.u32a
  have h3 := g.u32b
  unfold offsetFromClusterP
  rw [if_neg (by omega), if_neg (by omega), if_neg (by omega)]
  rfl

/-! ### editor updates do not change the recorded size -/

theorem size?_setAccessed (e : DirEntryEditor) (x : Date) : (e.setAccessed x).data.size? = e.data.size? := by
  unfold DirEntryEditor.setAccessed
  split <;> rfl

/-! ### the cluster of the cursor -/

section
variable {fs : FsState} {img : Img} {f : FileH}

theorem FileRep.first_of_mem (_h : FileRep fs img f) {c : Nat} (hc : c ∈ fileChain fs img f) :
    ∃ c0, f.firstCluster = some c0 := by
  unfold fileChain at hc
  cases hf : f.firstCluster with
  | none => rw [hf] at hc; simp at hc
  | some c0 => exact ⟨c0, rfl⟩

/-- the machine's successor in the chain is the FAT link -/
theorem FileRep.nextOf_eq (h : FileRep fs img f) {i c : Nat} (hi : (fileChain fs img f)[i]? = some c) :
    Cursor.nextOf (fileChain fs img f) c = nextV (tabView fs img) c := by
  obtain ⟨c0, hc0⟩ := h.first_of_mem (List.mem_of_getElem? hi)
  have hnd : (fileChain fs img f).Nodup := h.inv.nodup
  rw [Cursor.nextOf_of_getElem? _ i c hnd hi, chain_nextV_getElem? (h.chain c0 hc0) i c hi]

end

/-- the cluster `File::read`/`File::write` select: the machine's `readCluster` -/
theorem run_curOpt (f : FileH) (d : Dev) (hfa : d.failAt = none) (hg : Geo d.fs d.img.size)
    (hrep : FileRep d.fs d.img f) :
    ∃ d1, run (if f.offset % d.fs.clusterSize = 0 then f.boundaryCluster else pure f.currentCluster) d =
      (.ok (absFile d.fs d.img f).readCluster, d1) ∧ SameStore d d1 := by
  unfold Cursor.AFile.readCluster
  show ∃ d1, _ = (Except.ok (if f.offset % d.fs.clusterSize = 0 then (absFile d.fs d.img f).boundaryCluster
    else f.currentCluster), d1) ∧ _
  by_cases hm : f.offset % d.fs.clusterSize = 0
  · rw [if_pos hm, if_pos hm]
    unfold FileH.boundaryCluster Cursor.AFile.boundaryCluster
    show ∃ d1, _ = (Except.ok (match f.currentCluster with
      | none => f.firstCluster
      | some c => Cursor.nextOf (fileChain d.fs d.img f) c), d1) ∧ _
    cases hcur : f.currentCluster with
    | none => exact ⟨d, rfl, SameStore.refl d⟩
    | some c =>
      simp only
      have hc := hrep.inv.cur
      have hc' : f.currentCluster = if f.offset = 0 then none
          else (fileChain d.fs d.img f)[(f.offset - 1) / d.fs.clusterSize]? := hc
      rw [hcur] at hc'
      by_cases h0 : f.offset = 0
      · rw [if_pos h0] at hc'; cases hc'
      · rw [if_neg h0] at hc'
        have hmem : c ∈ fileChain d.fs d.img f := List.mem_of_getElem? hc'.symm
        obtain ⟨d1, h1, hs1⟩ := run_nextCluster c d hfa hg (hrep.inTab c hmem).2
        exact ⟨d1, by rw [hrep.nextOf_eq hc'.symm]; exact h1, hs1⟩
  · rw [if_neg hm, if_neg hm]
    exact ⟨d, rfl, SameStore.refl d⟩

/-- **`read_sim`.**  On a fault-free device with the layout `Geo`, for a handle represented in the image
    (`FileRep`): ONE `File::read` call succeeds; the bytes it returns and the new handle are exactly the cursor
    machine's `read` step on `absFile`; the device keeps its image, log and mounted state (`SameStore`); the new handle
    is represented again.  With `accDate` on, only the accessed date of the handle's editor differs. -/
theorem read_sim (f : FileH) (n : Nat) (d : Dev) (hfa : d.failAt = none) (hg : Geo d.fs d.img.size)
    (hrep : FileRep d.fs d.img f) :
    ∃ bs f' d', run (f.read n) d = (.ok (bs, f'), d') ∧ SameStore d d' ∧
      ((absFile d.fs d.img f).read n).1 = .ok bs ∧
      absFile d.fs d.img f' = ((absFile d.fs d.img f).read n).2 ∧
      FileRep d.fs d.img f' := by
  obtain ⟨sz, hsz⟩ := hrep.file
  obtain ⟨d1, h1, hs1⟩ := run_curOpt f d hfa hg hrep
  have hinv := hrep.inv
  have hoff : f.offset ≤ sz := by
    have := hinv.off_le
    have e : (absFile d.fs d.img f).size = sz := by simp [absFile, hsz]
    rw [e] at this; exact this
  have hasz : (absFile d.fs d.img f).size = sz := by simp [absFile, hsz]
  have hrl : (absFile d.fs d.img f).readLen n =
      min (min n (d.fs.clusterSize - f.offset % d.fs.clusterSize)) (sz - f.offset) := by
    unfold Cursor.AFile.readLen; rw [hasz]; rfl
  unfold FileH.read
  rw [run_bind_ok (run_getFs d)]
  simp only
  rw [run_bind_ok h1]
  unfold Cursor.AFile.read
  cases hrc : (absFile d.fs d.img f).readCluster with
  | none =>
    exact ⟨[], f, d1, rfl, hs1, rfl, rfl, hrep⟩
  | some cur =>
    have hci : (fileChain d.fs d.img f)[f.offset / d.fs.clusterSize]? = some cur := by
      have := hinv.readCluster_eq; rw [hrc] at this; exact this.symm
    have hmem : cur ∈ fileChain d.fs d.img f := List.mem_of_getElem? hci
    obtain ⟨hc2, hct⟩ := hrep.inTab cur hmem
    have hnp : ¬ (absFile d.fs d.img f).size < (absFile d.fs d.img f).offset := by
      rw [hasz]; show ¬ sz < f.offset; omega
    simp only [hsz, if_neg (show ¬ sz < f.offset by omega), hnp, if_false]
    rw [hrl]
    by_cases hk : min (min n (d.fs.clusterSize - f.offset % d.fs.clusterSize)) (sz - f.offset) = 0
    · rw [if_pos hk, if_pos hk]
      exact ⟨[], f, d1, rfl, hs1, rfl, rfl, hrep⟩
    · rw [if_neg hk, if_neg hk]
      generalize hkk : min (min n (d.fs.clusterSize - f.offset % d.fs.clusterSize)) (sz - f.offset) = k at hk
      have hfa1 : d1.failAt = none := by rw [hs1.failAt]; exact hfa
      rw [run_bind_ok (run_offsetFromClusterP hg cur hc2 hct d1)]
      rw [run_bind_ok (run_seekStart _ d1 hfa1)]
      have hcsp := hg.cs_pos
      have hmod : f.offset % d.fs.clusterSize < d.fs.clusterSize := Nat.mod_lt _ hcsp
      have hdev := hg.cluster_dev hc2 hct
      have hmin : min k ((d1.didSeek (clusterOff d.fs cur + f.offset % d.fs.clusterSize)).img.size -
          (d1.didSeek (clusterOff d.fs cur + f.offset % d.fs.clusterSize)).pos) = k := by
        simp only [didSeek_img, didSeek_pos, hs1.img]; omega
      rw [run_bind_ok (run_read k _ (by simpa using hfa1)), hmin]
      simp only [Img.read_length, if_neg hk, didSeek_img, didSeek_pos, hs1.img]
      have hbytes : d.img.read (clusterOff d.fs cur + f.offset % d.fs.clusterSize) k =
          (absFile d.fs d.img f).clusterBytes cur ((absFile d.fs d.img f).offset % (absFile d.fs d.img f).cs) k := by
        unfold Img.read Cursor.AFile.clusterBytes
        apply List.map_congr_left
        intro j _
        show d.img.getByte _ = d.img.getByte _
        rw [Nat.add_assoc]; rfl
      have hstore : SameStore d ((d1.didSeek (clusterOff d.fs cur + f.offset % d.fs.clusterSize)).didRead k) :=
        hs1.trans ((sameStore_didSeek _ _).trans (sameStore_didRead _ _))
      -- the represented state after the step
      have hpost := (hinv.read_post n).2
      unfold Cursor.AFile.read at hpost
      rw [hrc] at hpost
      simp only [hnp, if_false, hrl, hkk, if_neg hk] at hpost
      obtain ⟨e, he⟩ : ∃ e, f.entry = some e := by
        unfold FileH.size? at hsz
        cases hfe : f.entry with
        | none => rw [hfe] at hsz; cases hsz
        | some e => exact ⟨e, rfl⟩
      have hrepOf : ∀ e' : DirEntryEditor, e'.data.size? = e.data.size? →
          absFile d.fs d.img { f with offset := f.offset + k, currentCluster := some cur, entry := some e' } =
            { absFile d.fs d.img f with offset := f.offset + k, current := some cur } ∧
          FileRep d.fs d.img { f with offset := f.offset + k, currentCluster := some cur, entry := some e' } := by
        intro e' he'
        have hsz' : ({ f with offset := f.offset + k, currentCluster := some cur, entry := some e' } : FileH).size? =
            f.size? := by
          unfold FileH.size?; rw [he]; exact he'
        have hab : absFile d.fs d.img { f with offset := f.offset + k, currentCluster := some cur, entry := some e' } =
            { absFile d.fs d.img f with offset := f.offset + k, current := some cur } := by
          unfold absFile; rw [hsz']; rfl
        refine ⟨hab, ⟨⟨sz, hsz'.trans hsz⟩, by rw [hab]; exact hpost, hrep.chain, hrep.inTab, hrep.last_eoc⟩⟩
      rw [he]
      simp only
      by_cases hacc : d.fs.accDate = true
      · rw [if_pos hacc]
        have ht : ∀ dd : Dev, run Prog.today dd = (.ok dd.clock, dd) := fun _ => rfl
        rw [run_bind_ok (ht _)]
        obtain ⟨hab, hr⟩ := hrepOf (e.setAccessed (clockDate
          ((d1.didSeek (clusterOff d.fs cur + f.offset % d.fs.clusterSize)).didRead k).clock)) (size?_setAccessed _ _)
        exact ⟨_, _, _, rfl, hstore, by rw [hbytes], hab, hr⟩
      · rw [if_neg hacc]
        obtain ⟨hab, hr⟩ := hrepOf e rfl
        exact ⟨_, _, _, rfl, hstore, by rw [hbytes], hab, hr⟩

end FatVerif.FileSim
