import FatVerif.Proofs.SliceModel4
/-! WHERE the model writes, part 5 (C11): `dir.rs` and `fs.rs`. -/
namespace FatVerif

/-- a fixed-root stream keeps the window of the root slice; cluster-chain directories carry no constraint -/
def DirOK (fs0 : FsState) : DirStream → Prop
  | .file _ => True
  | .root s => SliceInv (rootSliceOf fs0) s

theorem rootSliceOf_geom {a b : FsState} (h : SameGeom a b) : rootSliceOf b = rootSliceOf a := by
  simp only [rootSliceOf, h.proj FsState.firstDataSector, h.proj FsState.rootDirSectors, h.proj FsState.bps]

theorem dirOK_root {fs0 fs : FsState} (h : SameGeom fs0 fs) : DirOK fs0 (rootDirStream fs) := by
  unfold rootDirStream
  split
  · trivial
  · show SliceInv _ _
    rw [rootSliceOf_geom h]
    exact SliceInv.self (Nat.zero_le _)

section dir
variable {fs0 : FsState} {sz : Nat} (hfit : DevFits fs0 sz)
include hfit

namespace DirStream

theorem read_gs {st : DirStream} (hst : DirOK fs0 st) (n : Nat) :
    GS fs0 sz (WClass fs0) (st.read n) (fun r => DirOK fs0 r.2) := by
  cases st with
  | file f =>
    simp only [read]
    exact GS.bind (GS.of_quiet (f.read_quiet n)) (fun _ _ => GS.pure trivial)
  | root s =>
    simp only [read]
    exact GS.bind ((rootStrm_gs hfit).read s n hst) (fun b hb => GS.pure hb)

theorem write_gs {st : DirStream} (hst : DirOK fs0 st) (bs : List Nat) :
    GS fs0 sz (WClass fs0) (st.write bs) (fun r => DirOK fs0 r.2) := by
  cases st with
  | file f =>
    simp only [write]
    exact GS.bind (FileH.write_gs hfit f bs) (fun _ _ => GS.pure trivial)
  | root s =>
    simp only [write]
    exact GS.bind ((rootStrm_gs hfit).write s bs hst) (fun b hb => GS.pure hb)

theorem seek_gs {st : DirStream} (hst : DirOK fs0 st) (p : SeekFrom) :
    GS fs0 sz (WClass fs0) (st.seek p) (fun r => DirOK fs0 r.2) := by
  cases st with
  | file f =>
    simp only [seek]
    exact GS.bind (GS.of_quiet (f.seek_quiet p)) (fun _ _ => GS.pure trivial)
  | root s =>
    simp only [seek]
    exact GS.bind ((rootStrm_gs hfit).seek s p hst) (fun b hb => GS.pure hb)

theorem strm_gs : StrmGS fs0 sz (WClass fs0) DirStream.strm (DirOK fs0) :=
  ⟨fun _ n h => read_gs hfit h n, fun _ bs h => write_gs hfit h bs, fun _ p h => seek_gs hfit h p⟩

end DirStream
end dir

section dir2
variable {fs0 : FsState} {sz : Nat}

theorem DirStream.dropBody_gs (st : DirStream) : GS fs0 sz (WClass fs0) st.dropBody (fun _ => True) := by
  unfold DirStream.dropBody
  split
  · exact FileH.dropBody_gs _
  · exact GS.pure trivial

theorem DirStream.drop_gs (st : DirStream) : GS fs0 sz (WClass fs0) st.drop (fun _ => True) :=
  inDrop_gs st.dropBody_gs

theorem withStream_gs {α} (st0 : DirStream) {body : Prog (α × DirStream)} {Q : α × DirStream → Prop}
    (hb : GS fs0 sz (WClass fs0) body Q) : GS fs0 sz (WClass fs0) (withStream st0 body) (fun _ => True) := by
  unfold withStream
  refine GS.bind (GS.finallyDrop hb ?_ (DirStream.dropBody_gs _)) (fun _ _ => ?_)
  · rintro ⟨a, st⟩ _; exact DirStream.dropBody_gs _
  · exact GS.pure trivial

theorem thenDrop_gs {α} (st : DirStream) {body : Prog α} {Post : α → Prop}
    (hb : GS fs0 sz (WClass fs0) body Post) : GS fs0 sz (WClass fs0) (thenDrop st body) Post := by
  unfold thenDrop
  exact GS.finallyDrop hb (fun _ _ => DirStream.dropBody_gs _) (DirStream.dropBody_gs _)

theorem liftE_gs {α} (r : Except Err α) : GS fs0 sz (WClass fs0) (liftE r) (fun _ => True) :=
  GS.of_quiet (liftE_quiet r)

theorem DirEntry.toDir_gs {fs : FsState} (hfs : SameGeom fs0 fs) (e : DirEntry) :
    GS fs0 sz (WClass fs0) (e.toDir fs) (DirOK fs0) := by
  unfold DirEntry.toDir
  split
  · exact GS.fail _
  · split
    · exact GS.pure trivial
    · exact GS.pure (dirOK_root hfs)

theorem DirEntry.toFile_gs (fs : FsState) (e : DirEntry) : GS fs0 sz (WClass fs0) (e.toFile fs) (fun _ => True) :=
  GS.of_quiet (DirEntry.toFile_quiet fs e)

end dir2

section dir3
variable {fs0 : FsState} {sz : Nat} (hfit : DevFits fs0 sz)
include hfit

theorem readSlot_gs {st : DirStream} (hst : DirOK fs0 st) :
    GS fs0 sz (WClass fs0) (readSlot st) (fun r => DirOK fs0 r.2) := by
  have hS := DirStream.strm_gs hfit
  unfold readSlot
  refine GS.bind (Q := fun r => ∀ p, r = some p → DirOK fs0 p.2) ?_ ?_
  · refine GS.tryCatch ?_ ?_
    · refine GS.bind (readExact_gs hS st 11 hst) ?_
      rintro ⟨bs, st'⟩ hst'
      refine GS.pure ?_
      intro p hp; cases hp; exact hst'
    · intro e
      split
      · refine GS.pure ?_
        intro p hp; cases hp
      · exact GS.fail _
  · intro r hr
    split
    · exact GS.pure hst
    · rename_i name st'
      have hst' : DirOK fs0 st' := hr _ rfl
      refine GS.bind (readU8_gs hS st' hst') ?_
      rintro ⟨attrs, st2⟩ hst2
      refine GS.bind (readChunks_gs hS _ st2 [] hst2) ?_
      rintro ⟨tail, st3⟩ hst3
      exact GS.pure hst3

theorem writeSlot_gs {st : DirStream} (hst : DirOK fs0 st) (e : DirEntryData) :
    GS fs0 sz (WClass fs0) (writeSlot st e) (DirOK fs0) := by
  unfold writeSlot
  split
  · exact writeChunks_gs (DirStream.strm_gs hfit) _ _ hst
  · exact writeChunks_gs (DirStream.strm_gs hfit) _ _ hst

theorem readDirEntryLoop_gs (alloc skipVolume : Bool) :
    ∀ fuel st offset beginOff b, DirOK fs0 st →
      GS fs0 sz (WClass fs0) (readDirEntryLoop alloc skipVolume fuel st offset beginOff b) (fun r => DirOK fs0 r.2) := by
  intro fuel
  induction fuel with
  | zero => intros; unfold readDirEntryLoop; exact GS.fail _
  | succ k ih =>
    intro st offset beginOff b hst
    unfold readDirEntryLoop
    refine GS.bind (readSlot_gs hfit hst) ?_
    rintro ⟨raw, st'⟩ hst'
    gs [DirStream.absPos_quiet]

theorem readDirEntry_gs (skipVolume : Bool) {st : DirStream} (hst : DirOK fs0 st) :
    GS fs0 sz (WClass fs0) (readDirEntry skipVolume st) (fun r => DirOK fs0 r.2) := by
  unfold readDirEntry
  refine GS.bind GS.getFs (fun fs _ => ?_)
  refine GS.bind (DirStream.seek_gs hfit hst _) ?_
  rintro ⟨offset, st'⟩ hst'
  exact readDirEntryLoop_gs hfit _ _ _ _ _ _ _ hst'

theorem findEntryLoop_gs (env name isDir) : ∀ fuel st gen, DirOK fs0 st →
    GS fs0 sz (WClass fs0) (findEntryLoop env name isDir fuel st gen) (fun r => DirOK fs0 r.2) := by
  intro fuel
  induction fuel with
  | zero => intros; unfold findEntryLoop; exact GS.fail _
  | succ k ih =>
    intro st gen hst
    unfold findEntryLoop
    refine GS.bind (readDirEntry_gs hfit true hst) ?_
    rintro ⟨r, st'⟩ hst'
    gs

theorem findEntryG_gs (env) {d : DirStream} (hd : DirOK fs0 d) (name isDir gen) :
    GS fs0 sz (WClass fs0) (findEntryG env d name isDir gen) (fun _ => True) := by
  unfold findEntryG
  exact GS.bind GS.getFs (fun fs _ => withStream_gs d (findEntryLoop_gs hfit _ _ _ _ _ _ hd))

theorem findEntry_gs (env) {d : DirStream} (hd : DirOK fs0 d) (name isDir) :
    GS fs0 sz (WClass fs0) (findEntry env d name isDir) (fun _ => True) := by
  unfold findEntry
  refine GS.bind (findEntryG_gs hfit env hd name isDir none) ?_
  rintro ⟨r, g⟩ _
  dsimp only
  split
  · exact GS.pure trivial
  · exact GS.fail _

theorem checkForExistenceLoop_gs (env) {d : DirStream} (hd : DirOK fs0 d) (name isDir) :
    ∀ fuel gen, GS fs0 sz (WClass fs0) (checkForExistenceLoop env d name isDir fuel gen) (fun _ => True) := by
  intro fuel
  induction fuel with
  | zero => intros; unfold checkForExistenceLoop; exact GS.fail _
  | succ k ih =>
    intro gen
    unfold checkForExistenceLoop
    refine GS.bind (findEntryG_gs hfit env hd name isDir _) ?_
    rintro ⟨r, gen'⟩ _
    dsimp only
    split
    · exact GS.pure trivial
    · split
      · split
        · refine GS.bind (findEntryG_gs hfit env hd _ none none) ?_
          rintro ⟨r2, g2⟩ _
          dsimp only
          split
          · exact GS.pure trivial
          · exact GS.fail _
          · exact ih _
        · exact GS.pure trivial
      · exact ih _
    · exact GS.fail _

theorem checkForExistence_gs (env) {d : DirStream} (hd : DirOK fs0 d) (name isDir) :
    GS fs0 sz (WClass fs0) (checkForExistence env d name isDir) (fun _ => True) := by
  unfold checkForExistence
  split
  · exact GS.fail _
  · exact checkForExistenceLoop_gs hfit env hd _ _ _ _

theorem findFreeLoop_gs (num) : ∀ fuel st firstFree numFree i, DirOK fs0 st →
    GS fs0 sz (WClass fs0) (findFreeLoop num fuel st firstFree numFree i) (DirOK fs0) := by
  intro fuel
  induction fuel with
  | zero => intros; unfold findFreeLoop; exact GS.fail _
  | succ k ih =>
    intro st firstFree numFree i hst
    unfold findFreeLoop
    refine GS.bind (readSlot_gs hfit hst) ?_
    rintro ⟨raw, st'⟩ hst'
    dsimp only
    split
    · refine GS.bind (DirStream.seek_gs hfit hst' _) ?_
      rintro ⟨_, st2⟩ hst2; exact GS.pure hst2
    · split
      · try dsimp only
        split
        · refine GS.bind (DirStream.seek_gs hfit hst' _) ?_
          rintro ⟨_, st2⟩ hst2; exact GS.pure hst2
        · exact ih _ _ _ _ hst'
      · exact ih _ _ _ _ hst'

theorem findFreeEntries_gs {d : DirStream} (hd : DirOK fs0 d) (num : Nat) :
    GS fs0 sz (WClass fs0) (findFreeEntries d num) (DirOK fs0) := by
  unfold findFreeEntries
  refine GS.bind GS.getFs (fun fs _ => ?_)
  refine GS.finallyDrop (findFreeLoop_gs hfit _ _ _ _ _ _ hd) (fun _ _ => GS.pure trivial) (DirStream.dropBody_gs _)

omit hfit in
theorem createSfnEntry_gs (sn attrs first) : GS fs0 sz (WClass fs0) (createSfnEntry sn attrs first) (fun _ => True) := by
  refine GS.of_quiet ?_
  unfold createSfnEntry; quiet

theorem writeSlotsKeep_gs : ∀ slots st, DirOK fs0 st →
    GS fs0 sz (WClass fs0) (writeSlotsKeep slots st) (fun r => DirOK fs0 r.2) := by
  intro slots
  induction slots with
  | nil => intro st hst; unfold writeSlotsKeep; exact GS.pure hst
  | cons e rest ih =>
    intro st hst
    unfold writeSlotsKeep
    refine GS.bind (Q := fun r => ∀ st', r = .ok st' → DirOK fs0 st') ?_ ?_
    · unfold Prog.attempt
      refine GS.tryCatch (GS.bind (writeSlot_gs hfit hst e) (fun st' hst' => GS.pure ?_)) (fun err => GS.pure ?_)
      · intro st2 h; cases h; exact hst'
      · intro st2 h; cases h
    · intro r hr
      split
      · exact ih _ (hr _ rfl)
      · exact GS.pure hst

theorem freeWrittenLoop_gs : ∀ k st pos endPos, DirOK fs0 st →
    GS fs0 sz (WClass fs0) (freeWrittenLoop k st pos endPos) (DirOK fs0) := by
  intro k
  induction k with
  | zero => intro st pos endPos hst; unfold freeWrittenLoop; exact GS.pure hst
  | succ k ih =>
    intro st pos endPos hst
    unfold freeWrittenLoop
    split
    · refine GS.bind (DirStream.seek_gs hfit hst _) ?_
      rintro ⟨_, st1⟩ hst1
      dsimp only
      exact GS.bind (writeAll_gs (DirStream.strm_gs hfit) _ _ hst1) (fun st2 hst2 => ih _ _ _ hst2)
    · exact GS.pure hst

theorem freeWrittenEntries_gs {st : DirStream} (hst : DirOK fs0 st) (startPos : Nat) :
    GS fs0 sz (WClass fs0) (freeWrittenEntries st startPos) (fun _ => True) := by
  unfold freeWrittenEntries
  refine GS.bind (DirStream.seek_gs hfit hst _) ?_
  rintro ⟨endPos, st1⟩ hst1
  dsimp only
  exact GS.bind (freeWrittenLoop_gs hfit _ _ _ _ hst1) (fun _ _ => GS.pure trivial)

theorem writeEntry_gs {d : DirStream} (hd : DirOK fs0 d) (name : String) (raw : DirFileEntryData) :
    GS fs0 sz (WClass fs0) (writeEntry d name raw) (fun _ => True) := by
  unfold writeEntry
  split
  · exact GS.fail _
  · refine GS.bind GS.getFs (fun fs _ => ?_)
    dsimp only
    refine GS.bind (findFreeEntries_gs hfit hd _) (fun st0 hst0 => ?_)
    refine GS.bind (Q := fun r => DirOK fs0 r.2) ?_ ?_
    · exact GS.finallyDrop (DirStream.seek_gs hfit hst0 _) (fun _ _ => GS.pure trivial) (DirStream.dropBody_gs _)
    · rintro ⟨startPos, st⟩ hst
      dsimp only
      refine GS.bind (writeSlotsKeep_gs hfit _ _ hst) ?_
      rintro ⟨err, st'⟩ hst'
      dsimp only
      split
      · exact thenDrop_gs _ (GS.bind (freeWrittenEntries_gs hfit hst' _) (fun _ _ => GS.fail _))
      · refine thenDrop_gs _ ?_
        refine GS.bind (DirStream.seek_gs hfit hst' _) ?_
        rintro ⟨endPos, st2⟩ _
        refine GS.bind (GS.of_quiet (DirStream.absPos_quiet _ _)) (fun endAbs _ => ?_)
        split
        · exact GS.fail _
        · exact GS.pure trivial

theorem deleteSlots_gs : ∀ k st, DirOK fs0 st → GS fs0 sz (WClass fs0) (deleteSlots k st) (DirOK fs0) := by
  intro k
  induction k with
  | zero => intro st hst; unfold deleteSlots; exact GS.pure hst
  | succ k ih =>
    intro st hst
    unfold deleteSlots
    refine GS.bind (readSlot_gs hfit hst) ?_
    rintro ⟨raw, st1⟩ hst1
    dsimp only
    refine GS.bind (DirStream.seek_gs hfit hst1 _) ?_
    rintro ⟨_, st2⟩ hst2
    dsimp only
    exact GS.bind (writeSlot_gs hfit hst2 _) (fun st3 hst3 => ih _ hst3)

theorem deleteEntry_gs {d : DirStream} (hd : DirOK fs0 d) (e : DirEntry) :
    GS fs0 sz (WClass fs0) (deleteEntry d e) (fun _ => True) := by
  unfold deleteEntry
  refine withStream_gs d (Q := fun _ => True) ?_
  refine GS.bind (DirStream.seek_gs hfit hd _) ?_
  rintro ⟨_, st⟩ hst
  dsimp only
  exact GS.bind (deleteSlots_gs hfit _ _ hst) (fun _ _ => GS.pure trivial)

end dir3

/-! ### public operations -/

section ops
variable {fs0 : FsState} {sz : Nat} (hfit : DevFits fs0 sz)
include hfit

theorem openDir_gs (env) : ∀ fuel d path, DirOK fs0 d →
    GS fs0 sz (WClass fs0) (openDir env fuel d path) (DirOK fs0) := by
  intro fuel
  induction fuel with
  | zero => intros; unfold openDir; exact GS.fail _
  | succ k ih =>
    intro d path hd
    unfold openDir
    refine GS.bind GS.getFs (fun fs hfs => ?_)
    split
    refine GS.bind (findEntry_gs hfit env hd _ _) (fun e _ => ?_)
    refine GS.bind (DirEntry.toDir_gs hfs e) (fun sub hsub => ?_)
    split
    · exact thenDrop_gs _ (ih _ _ hsub)
    · exact GS.pure hsub

theorem openFile_gs (env) : ∀ fuel d path, DirOK fs0 d →
    GS fs0 sz (WClass fs0) (openFile env fuel d path) (fun _ => True) := by
  intro fuel
  induction fuel with
  | zero => intros; unfold openFile; exact GS.fail _
  | succ k ih =>
    intro d path hd
    unfold openFile
    refine GS.bind GS.getFs (fun fs hfs => ?_)
    split
    split
    · refine GS.bind (findEntry_gs hfit env hd _ _) (fun e _ => ?_)
      refine GS.bind (DirEntry.toDir_gs hfs e) (fun sub hsub => ?_)
      exact thenDrop_gs _ (ih _ _ hsub)
    · refine GS.bind (findEntry_gs hfit env hd _ _) (fun e _ => ?_)
      exact DirEntry.toFile_gs _ _

theorem createFile_gs (env) : ∀ fuel d path, DirOK fs0 d →
    GS fs0 sz (WClass fs0) (createFile env fuel d path) (fun _ => True) := by
  intro fuel
  induction fuel with
  | zero => intros; unfold createFile; exact GS.fail _
  | succ k ih =>
    intro d path hd
    unfold createFile
    refine GS.bind GS.getFs (fun fs hfs => ?_)
    split
    split
    · refine GS.bind (findEntry_gs hfit env hd _ _) (fun e _ => ?_)
      refine GS.bind (DirEntry.toDir_gs hfs e) (fun sub hsub => ?_)
      exact thenDrop_gs _ (ih _ _ hsub)
    · split
      · exact GS.fail _
      refine GS.bind (checkForExistence_gs hfit env hd _ _) (fun r _ => ?_)
      split
      · refine GS.bind (createSfnEntry_gs _ _ _) (fun sfn _ => ?_)
        refine GS.bind (writeEntry_gs hfit hd _ _) (fun e _ => ?_)
        exact DirEntry.toFile_gs _ _
      · exact DirEntry.toFile_gs _ _

theorem createDir_gs (env) : ∀ fuel d path, DirOK fs0 d →
    GS fs0 sz (WClass fs0) (createDir env fuel d path) (DirOK fs0) := by
  intro fuel
  induction fuel with
  | zero => intros; unfold createDir; exact GS.fail _
  | succ k ih =>
    intro d path hd
    unfold createDir
    refine GS.bind GS.getFs (fun fs hfs => ?_)
    split
    split
    · refine GS.bind (findEntry_gs hfit env hd _ _) (fun e _ => ?_)
      refine GS.bind (DirEntry.toDir_gs hfs e) (fun sub hsub => ?_)
      exact thenDrop_gs _ (ih _ _ hsub)
    · refine GS.bind (checkForExistence_gs hfit env hd _ _) (fun r _ => ?_)
      split
      · split
        · exact GS.fail _
        refine GS.bind (liftE_gs _) (fun _ _ => ?_)
        refine GS.bind (allocClusterFs_gs hfit _ _) (fun cluster _ => ?_)
        refine GS.bind (createSfnEntry_gs _ _ _) (fun sfn _ => ?_)
        refine GS.bind (Q := fun _ => True) ?_ (fun r _ => ?_)
        · unfold Prog.attempt
          exact GS.tryCatch (GS.bind (writeEntry_gs hfit hd _ _) (fun _ _ => GS.pure trivial)) (fun _ => GS.pure trivial)
        refine GS.bind (Q := fun _ => True) ?_ (fun entry _ => ?_)
        · split
          · exact GS.pure trivial
          · exact GS.bind (freeClusterChain_gs hfit _) (fun _ _ => GS.fail _)
        refine GS.bind (DirEntry.toDir_gs hfs entry) (fun dir hdir => ?_)
        refine GS.finallyDrop ?_ (fun _ _ => GS.pure trivial) (DirStream.dropBody_gs _)
        refine GS.bind (createSfnEntry_gs _ _ _) (fun dot _ => ?_)
        refine GS.bind (writeEntry_gs hfit hdir _ _) (fun _ _ => ?_)
        dsimp only
        refine GS.bind (createSfnEntry_gs _ _ _) (fun dotdot _ => ?_)
        exact GS.bind (writeEntry_gs hfit hdir _ _) (fun _ _ => GS.pure hdir)
      · exact DirEntry.toDir_gs hfs _

theorem isEmptyLoop_gs : ∀ fuel st, DirOK fs0 st →
    GS fs0 sz (WClass fs0) (isEmptyLoop fuel st) (fun r => DirOK fs0 r.2) := by
  intro fuel
  induction fuel with
  | zero => intros; unfold isEmptyLoop; exact GS.fail _
  | succ k ih =>
    intro st hst
    unfold isEmptyLoop
    refine GS.bind (readDirEntry_gs hfit true hst) ?_
    rintro ⟨r, st'⟩ hst'
    gs

theorem isEmpty_gs {d : DirStream} (hd : DirOK fs0 d) : GS fs0 sz (WClass fs0) (isEmpty d) (fun _ => True) := by
  unfold isEmpty
  exact GS.bind GS.getFs (fun fs _ => withStream_gs d (isEmptyLoop_gs hfit _ _ hd))

theorem remove_gs (env) : ∀ fuel d path, DirOK fs0 d →
    GS fs0 sz (WClass fs0) (remove env fuel d path) (fun _ => True) := by
  intro fuel
  induction fuel with
  | zero => intros; unfold remove; exact GS.fail _
  | succ k ih =>
    intro d path hd
    unfold remove
    refine GS.bind GS.getFs (fun fs hfs => ?_)
    split
    split
    · refine GS.bind (findEntry_gs hfit env hd _ _) (fun e _ => ?_)
      refine GS.bind (DirEntry.toDir_gs hfs e) (fun sub hsub => ?_)
      exact thenDrop_gs _ (ih _ _ hsub)
    · split
      · exact GS.fail _
      refine GS.bind (findEntry_gs hfit env hd _ _) (fun e _ => ?_)
      refine GS.bind (Q := fun _ => True) ?_ (fun nonEmpty _ => ?_)
      · split
        · refine GS.bind (DirEntry.toDir_gs hfs e) (fun sub hsub => ?_)
          exact GS.bind (thenDrop_gs _ (isEmpty_gs hfit hsub)) (fun _ _ => GS.pure trivial)
        · exact GS.pure trivial
      split
      · exact GS.fail _
      · dsimp only
        split
        · exact GS.bind (freeClusterChain_gs hfit _) (fun _ _ => deleteEntry_gs hfit hd e)
        · exact deleteEntry_gs hfit hd e

theorem ancestorWalk_gs (env target) : ∀ fuel anc depth, DirOK fs0 anc →
    GS fs0 sz (WClass fs0) (ancestorWalk env target fuel anc depth) (fun _ => True) := by
  intro fuel
  induction fuel with
  | zero => intro anc depth _; unfold ancestorWalk; exact thenDrop_gs _ (GS.fail _)
  | succ k ih =>
    intro anc depth hanc
    unfold ancestorWalk
    refine GS.bind GS.getFs (fun fs hfs => ?_)
    split
    · exact thenDrop_gs _ (GS.fail _)
    · split
      · exact DirStream.drop_gs _
      · split
        · exact thenDrop_gs _ (GS.fail _)
        · refine GS.bind (Q := DirOK fs0) ?_ (fun up hup => ?_)
          · exact GS.finallyDrop (openDir_gs hfit env _ _ _ hanc) (fun _ _ => GS.pure trivial) (DirStream.dropBody_gs _)
          · exact GS.bind (DirStream.drop_gs _) (fun _ _ => ih _ _ hup)

theorem ancestorWalkTop_gs (env target) {dst : DirStream} (hdst : DirOK fs0 dst) :
    GS fs0 sz (WClass fs0) (ancestorWalkTop env target dst) (fun _ => True) := by
  unfold ancestorWalkTop
  exact GS.bind GS.getFs (fun fs _ => ancestorWalk_gs hfit env target _ _ _ hdst)

theorem renameInternal_gs (env) {d dst : DirStream} (hd : DirOK fs0 d) (hdst : DirOK fs0 dst) (srcName dstName) :
    GS fs0 sz (WClass fs0) (renameInternal env d srcName dst dstName) (fun _ => True) := by
  unfold renameInternal
  split
  · exact GS.fail _
  refine GS.bind GS.getFs (fun fs hfs => ?_)
  refine GS.bind (findEntry_gs hfit env hd _ _) (fun e _ => ?_)
  refine GS.bind (liftE_gs _) (fun _ _ => ?_)
  dsimp only
  split
  refine GS.bind (ancestorWalkTop_gs hfit env _ hdst) (fun _ _ => ?_)
  all_goals
    refine GS.bind (checkForExistence_gs hfit env hdst _ _) (fun r _ => ?_)
    split
    · split
      · exact GS.pure trivial
      · exact GS.fail _
    · refine GS.bind (writeEntry_gs hfit hdst _ _) (fun newEntry _ => ?_)
      refine GS.bind (deleteEntry_gs hfit hd e) (fun _ _ => ?_)
      split
      · try dsimp only
        refine GS.bind (DirEntry.toDir_gs hfs newEntry) (fun moved hmoved => ?_)
        refine GS.bind (thenDrop_gs _ (findEntry_gs hfit env hmoved _ _)) (fun dotdot _ => ?_)
        have h32 : FileH.entryChunkSizes.sum = 32 := by decide
        split <;> split <;> first
          | exact GS.pure (Post := fun _ => True) trivial
          | (refine GS.seek_unit (len := 32) ((PU.writeChunks _ _).mono ?_) (fun o b h1 h2 => .slot _ ⟨h1, h2⟩)
              (fun _ => GS.pure (Post := fun _ => True) trivial)
             exact Nat.le_trans (totalLen_chunksOf_le FileH.entryChunkSizes _) (Nat.le_of_eq h32))
      · exact GS.pure (Post := fun _ => True) trivial

theorem rename_gs (env) : ∀ fuel d srcPath dst dstPath, DirOK fs0 d → DirOK fs0 dst →
    GS fs0 sz (WClass fs0) (rename env fuel d srcPath dst dstPath) (fun _ => True) := by
  intro fuel
  induction fuel with
  | zero => intros; unfold rename; exact GS.fail _
  | succ k ih =>
    intro d srcPath dst dstPath hd hdst
    unfold rename
    refine GS.bind GS.getFs (fun fs hfs => ?_)
    split
    split
    · refine GS.bind (findEntry_gs hfit env hd _ _) (fun e _ => ?_)
      refine GS.bind (DirEntry.toDir_gs hfs e) (fun sub hsub => ?_)
      exact thenDrop_gs _ (ih _ _ _ _ hsub hdst)
    · split
      split
      · refine GS.bind (findEntry_gs hfit env hdst _ _) (fun e _ => ?_)
        refine GS.bind (DirEntry.toDir_gs hfs e) (fun sub hsub => ?_)
        exact thenDrop_gs _ (ih _ _ _ _ hd hsub)
      · exact renameInternal_gs hfit env hd hdst _ _

theorem listLoop_gs : ∀ fuel st acc, DirOK fs0 st →
    GS fs0 sz (WClass fs0) (listLoop fuel st acc) (fun r => DirOK fs0 r.2) := by
  intro fuel
  induction fuel with
  | zero => intros; unfold listLoop; exact GS.fail _
  | succ k ih =>
    intro st acc hst
    unfold listLoop
    refine GS.bind (readDirEntry_gs hfit true hst) ?_
    rintro ⟨r, st'⟩ hst'
    gs

theorem listDir_gs {d : DirStream} (hd : DirOK fs0 d) : GS fs0 sz (WClass fs0) (listDir d) (fun _ => True) := by
  unfold listDir
  exact GS.bind GS.getFs (fun fs _ => withStream_gs d (listLoop_gs hfit _ _ _ hd))

theorem findVolumeLoop_gs : ∀ fuel st, DirOK fs0 st →
    GS fs0 sz (WClass fs0) (findVolumeLoop fuel st) (fun r => DirOK fs0 r.2) := by
  intro fuel
  induction fuel with
  | zero => intros; unfold findVolumeLoop; exact GS.fail _
  | succ k ih =>
    intro st hst
    unfold findVolumeLoop
    refine GS.bind (readDirEntry_gs hfit false hst) ?_
    rintro ⟨r, st'⟩ hst'
    gs

theorem findVolumeEntry_gs {d : DirStream} (hd : DirOK fs0 d) :
    GS fs0 sz (WClass fs0) (findVolumeEntry d) (fun _ => True) := by
  unfold findVolumeEntry
  exact GS.bind GS.getFs (fun fs _ => withStream_gs d (findVolumeLoop_gs hfit _ _ hd))

theorem readVolumeLabelFromRootDir_gs : GS fs0 sz (WClass fs0) readVolumeLabelFromRootDir (fun _ => True) := by
  unfold readVolumeLabelFromRootDir
  refine GS.bind GS.getFs (fun fs hfs => ?_)
  dsimp only
  exact GS.bind (thenDrop_gs _ (findVolumeEntry_gs hfit (dirOK_root hfs))) (fun _ _ => GS.pure trivial)

end ops

/-! ### `fs.rs` -/

section fsops
variable {fs0 : FsState} {sz : Nat}

theorem fsInfoLo_geom {a b : FsState} (h : SameGeom a b) : fsInfoLo b = fsInfoLo a := by
  simp only [fsInfoLo, h.proj FsState.fsInfoSector, h.proj FsState.bps]

theorem flushFsInfo_gs : GS fs0 sz (WClass fs0) flushFsInfo (fun _ => True) := by
  unfold flushFsInfo
  refine GS.bind GS.getFs (fun fs hfs => ?_)
  split
  · refine GS.seek_unit (len := 512) ((PU.writeChunks _ _).mono ?_) ?_ (fun _ => GS.modifyFs (fun fs h => h))
    · have := totalLen_chunksOf_le fsInfoChunks (fsInfoBytes fs.fsInfo)
      rw [fsInfoChunks_sum] at this; exact this
    · intro o b h1 h2
      refine .fsInfo ⟨?_, ?_⟩
      · rw [← fsInfoLo_geom hfs]; exact h1
      · rw [← fsInfoLo_geom hfs]; exact h2
  · exact GS.pure trivial

theorem unmountInternal_gs : GS fs0 sz (WClass fs0) unmountInternal (fun _ => True) := by
  unfold unmountInternal
  exact GS.bind flushFsInfo_gs (fun _ _ => setDirtyFlag_gs false)

theorem unmount_gs : GS fs0 sz (WClass fs0) unmount (fun _ => True) := by
  unfold unmount
  exact GS.finallyDrop unmountInternal_gs (fun _ _ => unmountInternal_gs) unmountInternal_gs

theorem dropFs_gs : GS fs0 sz (WClass fs0) dropFs (fun _ => True) := inDrop_gs unmountInternal_gs

theorem stats_gs : GS fs0 sz (WClass fs0) stats (fun _ => True) := by
  unfold stats
  refine GS.bind GS.getFs (fun fs hfs => ?_)
  refine GS.bind (Q := fun _ => True) ?_ (fun _ _ => GS.pure trivial)
  split
  · exact GS.pure trivial
  · refine GS.bind (GS.of_quiet (Table.countFree_quiet _ DiskSlice.strm_quiet _ _ _)) ?_
    rintro ⟨n, _⟩ _
    exact GS.bind (GS.modifyFs (fun fs h => h)) (fun _ _ => GS.pure trivial)

end fsops

end FatVerif
