import FatVerif.Proofs.MountRun1
import FatVerif.Model.Fs
import FatVerif.Proofs.BpbProbe
/-! The effectful readers of the mount path on a fault-free device: `readBootSector` returns the first 512 bytes,
`readFsInfoSector` computes `FsInfo.deserialize` of the 512 bytes at the device position. -/
namespace FatVerif

theorem run_liftE {α} (x : Except Err α) (d : Dev) : run (liftE x) d = (x, d) := by
  cases x <;> rfl

/-- number of `read_exact` calls `BootSector::deserialize` makes (FAT32 layout: 29, FAT12/16 layout: 22) -/
def bootSectorReads (bs : List Nat) : Nat := if bs.getD 22 0 = 0 ∧ bs.getD 23 0 = 0 then 29 else 22

/-- `BootSector::deserialize(&mut disk)` on a device with 512 bytes available at the position: the chunked reads
    return exactly those 512 bytes -/
theorem run_readBootSector (d : Dev) (h : d.failAt = none) (hsz : d.pos + 512 ≤ d.img.size) :
    ∃ d', run readBootSector d = (.ok (d.img.read d.pos 512), d') ∧ SameStore d d' ∧ d'.pos = d.pos + 512 ∧
      d'.reads = d.reads + bootSectorReads (d.img.read d.pos 512) ∧ d'.seeks = d.seeks := by
  have hsum : bootHeadChunks.sum = 36 := by decide
  unfold readBootSector
  rw [run_bind_ok (run_readChunks_ok bootHeadChunks d [] h (by rw [hsum]; omega))]
  simp only [List.nil_append, hsum]
  have hs1 := sameStore_readChunks bootHeadChunks d
  have hp1 := readChunks_pos bootHeadChunks d
  rw [hsum] at hp1
  have hf1 : (d.readChunks bootHeadChunks).failAt = none := by rw [hs1.failAt, h]
  have h22 : (d.img.read d.pos 36).getD 22 0 = (d.img.read d.pos 512).getD 22 0 := by
    rw [Img.read_getD _ _ _ _ (by omega), Img.read_getD _ _ _ _ (by omega)]
  have h23 : (d.img.read d.pos 36).getD 23 0 = (d.img.read d.pos 512).getD 23 0 := by
    rw [Img.read_getD _ _ _ _ (by omega), Img.read_getD _ _ _ _ (by omega)]
  have hr1 : (d.readChunks bootHeadChunks).reads = d.reads + 14 := by
    rw [readChunks_reads]; rfl
  -- the second batch of chunks, whichever layout: 476 bytes
  have rest : ∀ L : List Nat, L.sum = 476 →
      run (readChunks devStrm () L [] >>= fun x => pure (d.img.read d.pos 36 ++ x.1)) (d.readChunks bootHeadChunks) =
        (.ok (d.img.read d.pos 512), (d.readChunks bootHeadChunks).readChunks L) := by
    intro L hL
    rw [run_bind_ok (run_readChunks_ok L _ [] hf1 (by rw [hL, hp1, hs1.img]; omega))]
    simp only [run_pure, List.nil_append, hL, hp1, hs1.img]
    rw [show (512 : Nat) = 36 + 476 from rfl, Img.read_append]
  by_cases h32 : (d.img.read d.pos 512).getD 22 0 = 0 ∧ (d.img.read d.pos 512).getD 23 0 = 0
  · have hc : ((d.img.read d.pos 36).getD 22 0 = 0 ∧ (d.img.read d.pos 36).getD 23 0 = 0) := by
      rw [h22, h23]; exact h32
    simp only [hc, and_self, if_true]
    refine ⟨(d.readChunks bootHeadChunks).readChunks (bootExt32Chunks ++ bootTailChunks ++ [420, 2]),
      rest _ (by decide), hs1.trans (sameStore_readChunks _ _), ?_, ?_, ?_⟩
    · rw [readChunks_pos, hp1]; rfl
    · rw [readChunks_reads, hr1, bootSectorReads, if_pos h32]; rfl
    · rw [readChunks_seeks, readChunks_seeks]
  · have hc : ¬ ((d.img.read d.pos 36).getD 22 0 = 0 ∧ (d.img.read d.pos 36).getD 23 0 = 0) := by
      rw [h22, h23]; exact h32
    simp only [hc, if_false, List.nil_append]
    refine ⟨(d.readChunks bootHeadChunks).readChunks (bootTailChunks ++ [448, 2]),
      rest _ (by decide), hs1.trans (sameStore_readChunks _ _), ?_, ?_, ?_⟩
    · rw [readChunks_pos, hp1]; rfl
    · rw [readChunks_reads, hr1, bootSectorReads, if_neg h32]; rfl
    · rw [readChunks_seeks, readChunks_seeks]

/-! ### the FS-info sector -/

/-- the model's `FsInfo` as the mounted state's `FsInfoSt` -/
def FsInfo.toSt (f : FsInfo) : FsInfoSt := { free := f.freeClusterCount, next := f.nextFreeCluster, dirty := f.dirty }

theorem u32At_read (i : Img) (off len k : Nat) (hk : k + 4 ≤ len) :
    u32At (i.read off len) k =
      le32 (i.getByte (off + k)) (i.getByte (off + k + 1)) (i.getByte (off + k + 2)) (i.getByte (off + k + 3)) := by
  unfold u32At
  rw [Img.read_getD _ _ _ _ (by omega), Img.read_getD _ _ _ _ (by omega), Img.read_getD _ _ _ _ (by omega),
    Img.read_getD _ _ _ _ (by omega)]
  simp only [Nat.add_assoc]

theorem readN_failAt (d : Dev) (n : Nat) : (d.readN n).failAt = d.failAt := (sameStore_readN d n).failAt
theorem readN_img (d : Dev) (n : Nat) : (d.readN n).img = d.img := (sameStore_readN d n).img

/-- `FsInfoSector::deserialize(&mut disk)` with the 512 bytes available at the position: the sequential reads with the
    signature checks in between compute `FsInfo.deserialize` of those bytes -/
theorem run_readFsInfoSector (d : Dev) (h : d.failAt = none) (hsz : d.pos + 512 ≤ d.img.size) :
    ∃ d', run readFsInfoSector d = ((FsInfo.deserialize (d.img.read d.pos 512)).map FsInfo.toSt, d') ∧
      SameStore d d' ∧ d'.seeks = d.seeks := by
  have e0 := u32At_read d.img d.pos 512 0 (by omega)
  have e484 := u32At_read d.img d.pos 512 484 (by omega)
  have e488 := u32At_read d.img d.pos 512 488 (by omega)
  have e492 := u32At_read d.img d.pos 512 492 (by omega)
  have e508 := u32At_read d.img d.pos 512 508 (by omega)
  simp only [Nat.add_zero] at e0
  -- the devices along the way
  have s1 := sameStore_readN d 4
  have f1 : (d.readN 4).failAt = none := by rw [s1.failAt, h]
  have s2 := sameStore_readN (d.readN 4) 480
  have f2 : ((d.readN 4).readN 480).failAt = none := by rw [s2.failAt, f1]
  have s3 := sameStore_readN ((d.readN 4).readN 480) 4
  have f3 : (((d.readN 4).readN 480).readN 4).failAt = none := by rw [s3.failAt, f2]
  have s4 := sameStore_readN (((d.readN 4).readN 480).readN 4) 4
  have f4 : ((((d.readN 4).readN 480).readN 4).readN 4).failAt = none := by rw [s4.failAt, f3]
  have s5 := sameStore_readN ((((d.readN 4).readN 480).readN 4).readN 4) 4
  have f5 : (((((d.readN 4).readN 480).readN 4).readN 4).readN 4).failAt = none := by rw [s5.failAt, f4]
  have s6 := sameStore_readN (((((d.readN 4).readN 480).readN 4).readN 4).readN 4) 12
  have f6 : ((((((d.readN 4).readN 480).readN 4).readN 4).readN 4).readN 12).failAt = none := by rw [s6.failAt, f5]
  have s7 := sameStore_readN ((((((d.readN 4).readN 480).readN 4).readN 4).readN 4).readN 12) 4
  have i1 := s1.img
  have i2 := s2.img.trans i1
  have i3 := s3.img.trans i2
  have i4 := s4.img.trans i3
  have i5 := s5.img.trans i4
  have i6 := s6.img.trans i5
  unfold readFsInfoSector FsInfo.deserialize FsInfo.LEAD_SIG FsInfo.STRUC_SIG FsInfo.TRAIL_SIG
  rw [run_bind_ok (run_readU32 d h (by omega))]
  simp only [← e0]
  by_cases hl : u32At (d.img.read d.pos 512) 0 ≠ 0x41615252
  · simp only [if_pos hl]
    exact ⟨_, rfl, s1, readN_seeks _ _⟩
  simp only [if_neg hl]
  rw [run_bind_ok (run_readExact_ok (d.readN 4) 480 f1 (by rw [readN_pos, i1]; omega))]
  rw [run_bind_ok (run_readU32 _ f2 (by simp only [readN_pos, i2]; omega))]
  simp only [readN_pos, i2]
  rw [show d.pos + 4 + 480 = d.pos + 484 from rfl, ← e484]
  by_cases hs : u32At (d.img.read d.pos 512) 484 ≠ 0x61417272
  · simp only [if_pos hs]
    exact ⟨_, rfl, (s1.trans s2).trans s3, by rw [readN_seeks, readN_seeks, readN_seeks]⟩
  simp only [if_neg hs]
  rw [run_bind_ok (run_readU32 _ f3 (by simp only [readN_pos, i3]; omega))]
  rw [run_bind_ok (run_readU32 _ f4 (by simp only [readN_pos, i4]; omega))]
  rw [run_bind_ok (run_readExact_ok _ 12 f5 (by simp only [readN_pos, i5]; omega))]
  rw [run_bind_ok (run_readU32 _ f6 (by simp only [readN_pos, i6]; omega))]
  simp only [readN_pos, i3, i4, i6]
  rw [show d.pos + 4 + 480 + 4 = d.pos + 488 from rfl, show d.pos + 488 + 4 = d.pos + 492 from rfl,
    show d.pos + 492 + 4 + 12 = d.pos + 508 from rfl, ← e488, ← e492, ← e508]
  by_cases ht : u32At (d.img.read d.pos 512) 508 ≠ 0xAA550000
  · simp only [if_pos ht]
    exact ⟨_, rfl, (((((s1.trans s2).trans s3).trans s4).trans s5).trans s6).trans s7, by
      simp only [readN_seeks]⟩
  simp only [if_neg ht, run_pure, Except.map, FsInfo.toSt]
  exact ⟨_, rfl, (((((s1.trans s2).trans s3).trans s4).trans s5).trans s6).trans s7, by
    simp only [readN_seeks]⟩

theorem readFsInfoSector_nonFatal : NonFatal readFsInfoSector := by
  unfold readFsInfoSector
  refine NonFatal.bind readU32_dev_nonFatal ?_
  rintro ⟨lead, _⟩
  show NonFatal (if lead ≠ 0x41615252 then _ else _)
  split
  · exact NonFatal.fail _ rfl
  refine NonFatal.bind (readExact_dev_nonFatal 480) (fun _ => ?_)
  refine NonFatal.bind readU32_dev_nonFatal ?_
  rintro ⟨struc, _⟩
  show NonFatal (if struc ≠ 0x61417272 then _ else _)
  split
  · exact NonFatal.fail _ rfl
  refine NonFatal.bind readU32_dev_nonFatal ?_
  rintro ⟨free, _⟩
  refine NonFatal.bind readU32_dev_nonFatal ?_
  rintro ⟨next, _⟩
  refine NonFatal.bind (readExact_dev_nonFatal 12) (fun _ => ?_)
  refine NonFatal.bind readU32_dev_nonFatal ?_
  rintro ⟨trail, _⟩
  show NonFatal (if trail ≠ 0xAA550000 then _ else _)
  split
  · exact NonFatal.fail _ rfl
  · exact NonFatal.pure _

/-- 512 bytes read from an image form a sector -/
theorem isSector_read (i : Img) (off : Nat) : IsSector (i.read off 512) :=
  ⟨Img.read_length i off 512, Img.read_lt i off 512⟩

end FatVerif
