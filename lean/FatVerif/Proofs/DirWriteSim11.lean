import FatVerif.Proofs.DirWriteSim10
/-! Directory WRITES, part 11: the write family of a cluster-chain directory WITHOUT an entry (the root of FAT32),
    inside its allocated clusters. -/
namespace FatVerif.DirSim
open FatVerif.FileSim FatVerif.Fat DirEntryData

theorem chainSrc_geom {a b : FsState} (h : FsGeomEq a b) (chain : List Nat) : chainSrc b chain = chainSrc a chain := by
  funext o
  unfold chainSrc
  rw [h.clusterSize, h.clusterOff]

theorem chainRoom_geom {a b : FsState} (h : FsGeomEq a b) (chain : List Nat) : chainRoom b chain = chainRoom a chain := by
  funext o
  unfold chainRoom
  rw [h.clusterSize]

theorem absPos_geom {a b : FsState} (h : FsGeomEq a b) (st : DirStream) : st.absPos b = st.absPos a := by
  cases st with
  | root s => rfl
  | file f =>
    simp only [DirStream.absPos, FileH.absPos]
    cases f.currentCluster with
    | none => rfl
    | some n =>
      simp only
      rw [h.clusterSize]
      have : offsetFromClusterP b n = offsetFromClusterP a n := by rw [h]; rfl
      rw [this]

/-- the invariant threaded through the writes on the directory of first cluster `c0` (geometry `fs0`) -/
structure ChainInv (fs0 : FsState) (f0 : FileH) (c0 : Nat) (chain : List Nat) (d : Dev) : Prop where
  dir : ChainDir d f0 c0 chain
  wf : d.img.WF
  geom : FsGeomEq fs0 d.fs
  fuel : chain.length * (fs0.clusterSize / 32) < dirFuel fs0

section chain
variable {fs0 : FsState} {f0 : FileH} {c0 : Nat} {chain : List Nat}

theorem chainInv_ok : InvOK (ChainInv fs0 f0 c0 chain) where
  noFault := fun _ h => h.dir.failAt
  wf := fun _ h => h.wf
  vol := fun d d1 h hv _ => ⟨h.dir.of_sameVol hv, by rw [hv.img]; exact h.wf, by rw [hv.fs]; exact h.geom, h.fuel⟩

theorem dirFuel_geom {a b : FsState} (h : FsGeomEq a b) : dirFuel b = dirFuel a := by rw [h]; rfl

/-- the write family (`F = G`: without an entry, writing does not change the handle) -/
theorem chain_wfam (hent : f0.entry = none) :
    WFam (ChainInv fs0 f0 c0 chain) (chainS f0 chain fs0.clusterSize) (chainS f0 chain fs0.clusterSize)
      (chain.length * (fs0.clusterSize / 32)) (chainSrc fs0 chain) (chainRoom fs0 chain) := by
  refine ⟨fun d h => ?_, fun d h o bs hne hroom hfit => ?_, fun d h o ho32 hfit => ?_⟩
  · have := h.dir.dirSrc.toByteSrc
    rw [h.geom.clusterSize, chainSrc_geom h.geom, chainRoom_geom h.geom] at this
    exact this
  · have hcs : d.fs.clusterSize = fs0.clusterSize := h.geom.clusterSize
    have hT : 32 * (chain.length * (fs0.clusterSize / 32)) = chain.length * fs0.clusterSize := by
      have := Nat.div_add_mod fs0.clusterSize 32
      have h32 := h.dir.cs32
      rw [hcs] at h32
      rw [h32, Nat.add_zero] at this
      rw [Nat.mul_left_comm, this]
    obtain ⟨d', h1, hw, hC0, hwf⟩ := h.dir.core.file_write h.wf o bs hne
      (by rw [chainRoom_geom h.geom]; exact hroom) (by rw [hcs, ← hT]; exact hfit)
    rw [hcs, stamped_none f0 _ hent] at h1
    rw [chainSrc_geom h.geom] at hw
    have hC : ChainDir d' f0 c0 chain :=
      ⟨hC0.failAt, hC0.geo, hC0.first, hC0.link, hC0.inTab, hC0.nosize, hC0.noacc, h.dir.clean, hC0.cs32, hC0.u32⟩
    refine ⟨d', ?_, hw, ⟨hC, hwf, h.geom.trans hw.step.geom, h.fuel⟩⟩
    simp only [chainS, DirStream.write]
    rw [run_bind_ok h1]
    rfl
  · have hcs : d.fs.clusterSize = fs0.clusterSize := h.geom.clusterSize
    have hT : 32 * (chain.length * (fs0.clusterSize / 32)) = chain.length * fs0.clusterSize := by
      have := Nat.div_add_mod fs0.clusterSize 32
      have h32 := h.dir.cs32
      rw [hcs] at h32
      rw [h32, Nat.add_zero] at this
      rw [Nat.mul_left_comm, this]
    obtain ⟨d1, h1, hs1⟩ := h.dir.core.seekBack o (by rw [hcs, ← hT]; exact hfit)
    rw [hcs] at h1
    refine ⟨d1, ?_, hs1.toVol⟩
    simp only [chainS, DirStream.seek]
    rw [run_bind_ok h1]
    rfl

/-- … and its stream operations -/
theorem chain_wops (hent : f0.entry = none) :
    WOps (ChainInv fs0 f0 c0 chain) (chainS f0 chain fs0.clusterSize) (chainS f0 chain fs0.clusterSize)
      (chain.length * (fs0.clusterSize / 32)) (chainSrc fs0 chain) (chainRoom fs0 chain) (fun _ => False)
      (fun im im' => im' = im) := by
  have hT : ∀ d, ChainInv fs0 f0 c0 chain d →
      32 * (chain.length * (fs0.clusterSize / 32)) = chain.length * d.fs.clusterSize := by
    intro d h
    have hcs : d.fs.clusterSize = fs0.clusterSize := h.geom.clusterSize
    have := Nat.div_add_mod fs0.clusterSize 32
    have h32 := h.dir.cs32
    rw [hcs] at h32
    rw [h32, Nat.add_zero] at this
    rw [hcs, Nat.mul_left_comm, this]
  have hD : ∀ d, ChainInv fs0 f0 c0 chain d → DirSrc d (chainS f0 chain fs0.clusterSize)
      (chain.length * (fs0.clusterSize / 32)) (chainSrc fs0 chain) (chainRoom fs0 chain) := by
    intro d h
    have := h.dir.dirSrc
    rw [h.geom.clusterSize, chainSrc_geom h.geom, chainRoom_geom h.geom] at this
    exact this
  refine ⟨hD, fun d h => by rw [dirFuel_geom h.geom]; exact h.fuel, fun d h d0 hv0 o t ho ht => ?_, fun d h o ho => ?_,
    fun d h o ho => ?_, fun d h fs' hg o ho32 hpos ho => ?_, fun d h o ho => ?_, fun _ _ _ _ h => h⟩
  · have h0 : ChainInv fs0 f0 c0 chain d0 :=
      ⟨h.dir.of_sameVol hv0, by rw [hv0.img]; exact h.wf, by rw [hv0.fs]; exact h.geom, h.fuel⟩
    obtain ⟨d1, h1, hs1⟩ := h0.dir.core.seekStart o t (by rw [← hT d0 h0]; exact ho) (by rw [← hT d0 h0]; exact ht)
    rw [h0.geom.clusterSize] at h1
    refine ⟨d1, ?_, hs1.toVol⟩
    simp only [chainS, DirStream.seek]
    rw [run_bind_ok h1]
    rfl
  · exact (hD d h).seekCur d (SameVol.refl d) o ho
  · exact (hD d h).seekCur d (SameVol.refl d) o ho
  · have := (hD d h).absPos d (SameVol.refl d) o ho32 hpos ho
    rw [absPos_geom hg] at this
    exact this
  · obtain ⟨d1, h1, hs1⟩ := (hD d h).drop d (SameVol.refl d) o ho
    exact ⟨d1, h1, VolStep.of_sameVol hs1, chainInv_ok.vol d d1 h hs1 (run_clock _ _ _ _ h1), fun hk => by rw [hs1.fs]; exact hk,
      fun q _ _ => by rw [hs1.img], hs1.img⟩

end chain

end FatVerif.DirSim
