import FatVerif.Proofs.SlotTreeImg10
import FatVerif.Proofs.SlotTreeImg18
/-!
# Slot trees on a device image, part 19: `rename` of a file inside the root, both paths single names — the call
-/
namespace FatVerif
namespace SlotTreeImg
open Lfn DirSlots DirAlias SlotTree DirSim FatVerif.FileSim FatVerif.Fat

theorem pathParts_single (p : String) (a : List Char) (h : Names.splitPathL p.toList = (a, none)) :
    pathParts p = ([], String.ofList a) := by
  have hpp : pathParts p = splitAll p.toList.length p.toList := rfl
  rw [hpp, splitAll_last _ _ _ h]

theorem splitPath_single (p : String) (a : List Char) (h : Names.splitPathL p.toList = (a, none)) :
    Names.splitPath p = (String.ofList a, none) := by
  have := splitPath_ofList p.toList
  rw [String.ofList_toList, h] at this
  exact this

/-- two single names through the root handle: the model goes straight to `renameInternalS` in the root -/
theorem renameS_single (up : Char → List Char) (t : Node) (src dst : String) (sa da : List Char)
    (h1 : Names.splitPathL src.toList = (sa, none)) (h2 : Names.splitPathL dst.toList = (da, none))
    (hroot : ∃ s c, t = .dir s c) :
    renameS up 70000 t [] src [] dst = renameInternalS up 70000 t [] (String.ofList sa) [] (String.ofList da) := by
  obtain ⟨s, c, rfl⟩ := hroot
  unfold renameS
  rw [pathParts_single src sa h1, pathParts_single dst da h2]
  simp only [walkDirsS_nil (up := up) (t := .dir s c) (cwd := []) (s := s) (ch := c) rfl]

theorem renameFinal_isDir (up : Char → List Char) (fuel : Nat) (t : Node) (sp : List String) (e : LfnEntry) (c : Node)
    (dp : List String) (ds : List (List Nat)) (dn : String) :
    (renameFinal up fuel t sp e c dp ds dn).tree.isDir = t.isDir := by
  unfold renameFinal
  repeat' split
  all_goals first
    | rfl
    | exact (updS_isDir _ _ _ (fun _ => delEntry_isDir _ _)).trans (updS_isDir _ _ _ (fun _ => addEntry_isDir _ _ _ _))

theorem renameInternalS_isDir (up : Char → List Char) (fuel : Nat) (t : Node) (sp : List String) (sn : String)
    (dp : List String) (dn : String) : (renameInternalS up fuel t sp sn dp dn).tree.isDir = t.isDir := by
  unfold renameInternalS
  repeat' split
  all_goals first | rfl | exact renameFinal_isDir _ _ _ _ _ _ _ _ _

theorem renameS_isDir (up : Char → List Char) (fuel : Nat) (t : Node) (cwd : List String) (src : String)
    (dcwd : List String) (dst : String) : (renameS up fuel t cwd src dcwd dst).tree.isDir = t.isDir := by
  unfold renameS
  repeat' split
  all_goals first | rfl | exact renameInternalS_isDir _ _ _ _ _ _ _

theorem renameFinal_err_tree (up : Char → List Char) (fuel : Nat) (t : Node) (sp : List String) (e : LfnEntry)
    (c : Node) (dp : List String) (ds : List (List Nat)) (dn : String) (err : Err)
    (h : (renameFinal up fuel t sp e c dp ds dn).out = .error err) :
    (renameFinal up fuel t sp e c dp ds dn).tree = t := by
  unfold renameFinal at h ⊢
  repeat' split
  all_goals first | rfl | skip
  all_goals simp_all [done]

theorem renameInternalS_err_tree (up : Char → List Char) (fuel : Nat) (t : Node) (sp : List String) (sn : String)
    (dp : List String) (dn : String) (err : Err) (h : (renameInternalS up fuel t sp sn dp dn).out = .error err) :
    (renameInternalS up fuel t sp sn dp dn).tree = t := by
  unfold renameInternalS at h ⊢
  repeat' split
  all_goals first | rfl | skip
  all_goals
    rename_i h1 h2 h3 h4 h5 h6
    simp_all only []
    exact renameFinal_err_tree _ _ _ _ _ _ _ _ _ err (by simp_all)

section top
variable {d : Dev} {up : Char → List Char} {t : Node} {cl : List String → Option Nat}

/-- **`rename` of a file inside the fixed root at byte level** (both paths single names, both handles the root's).
    `RenameRes`: the source, if found, is a file whose attribute byte has no undefined bits; the new entry fits into
    the root region.  The program ends as `renameS` says; after success the image holds the new slot tree. -/
theorem rename_file_root_img (W : ImgTreeW d up t cl) (hwf : TreeWf up t) (env : Env) (henv : env.upper = up)
    (fuel : Nat) (src dst : String) (sa da : List Char) (h1 : Names.splitPathL src.toList = (sa, none))
    (h2 : Names.splitPathL dst.toList = (da, none)) (hroot : ∃ s c, t = .dir s c)
    (hres : ∀ slots ch, t = .dir slots ch → RenameRes d up slots ch (String.ofList sa) (String.ofList da))
    (hnh : (renameS up 70000 t [] src [] dst).out ≠ .error .hang) :
    (∀ e, (renameS up 70000 t [] src [] dst).out = .error e →
      FailsV (FatVerif.rename env (fuel + 1) (rootDirStream d.fs) src (rootDirStream d.fs) dst) d e) ∧
    (∀ rows, (renameS up 70000 t [] src [] dst).out = .ok rows →
      ∃ d' : Dev, run (FatVerif.rename env (fuel + 1) (rootDirStream d.fs) src (rootDirStream d.fs) dst) d =
          (.ok (), d') ∧ VolStep d d' ∧ ImgTreeW d' up (renameS up 70000 t [] src [] dst).tree cl) := by
  rw [renameS_single up t src dst sa da h1 h2 hroot] at hnh ⊢
  obtain ⟨slots, ch, rfl⟩ := hroot
  rw [rootDirStream_fixed d.fs W.lay.fat16,
    rename_unfold_last env fuel _ _ src dst _ _ (splitPath_single src sa h1) (splitPath_single dst da h2)]
  have F := fun d4 hv => renameFile_root_final W hwf env henv (String.ofList sa) (String.ofList da)
    (hres slots ch rfl) hnh d4 hv
  constructor
  · intro e he
    refine FailsV.bind_right (Reads.getFs d) (fun d2 hs2 => ?_)
    have := F d2 hs2
    unfold outErr at this
    rw [he] at this
    exact this
  · intro rows hr
    have := F d (SameVol.refl d)
    unfold outErr at this
    rw [hr] at this
    obtain ⟨_, d', hrun, hvs, hW⟩ := this
    exact ⟨d', by rw [run_bind_ok' (run_getFs d)]; exact hrun, hvs, hW⟩

end top

end SlotTreeImg
end FatVerif
