import FatVerif.Proofs.FileSimFatFind
/-!
# FileSim, part 12: `alloc_cluster` on the FAT slice and `FileSystem::alloc_cluster`

`run_findFree`: the scan of `find_free_cluster` (all three FAT types) = `findFreeV` on the decoded FAT of the image.
`run_allocCluster_fine`: `table.rs::alloc_cluster` finds `allocFindV (tabView …) hint total`, marks it end-of-chain and links
it after `prev`: the decoded FAT afterwards is `allocLinkV`; `NotEnoughSpace` iff there is no free entry.
`run_allocClusterFs_fine`: `FileSystem::alloc_cluster(prev, zero = false)` on top, with the FS-info bookkeeping.
-/
namespace FatVerif.FileSim
open FatVerif FatVerif.Fat

/-- `find_free_cluster(start, end)` -/
theorem run_findFree (fs : FsState) (img : Img) (hg : Geo fs img.size) (s : DiskSlice) (start endC : Nat) (d : Dev)
    (hs : IsFatSlice fs s) (hstart : start ≤ fs.totalClusters + 2) (hend : endC ≤ fs.totalClusters + 2)
    (hfa : d.failAt = none) (himg : d.img = img) :
    ∃ d', SameStore d d' ∧ ScanOut fs d' (findFreeV (tabView fs img) start (endC - start))
      (run (Table.findFree DiskSlice.strm fs.fatType s start endC) d) := by
  obtain ⟨hb, hsz, hm, hvf⟩ := hs
  have hfdev := hg.fat_dev
  -- the last entry of the table bounds every offset used below
  have hlast : ∀ c, c ≤ fs.totalClusters + 2 → entOff fs.fatType c ≤ (fatSliceOf fs).size := by
    intro c hc
    rcases Nat.lt_or_ge c (fs.totalClusters + 2) with h | h
    · have := hg.ents c h; omega
    · have hc' : c = fs.totalClusters + 2 := by omega
      have := hg.ents (fs.totalClusters + 1) (by omega)
      subst hc'
      cases hft : fs.fatType <;> rw [hft] at this <;> simp only [entOff, entWidth] at this ⊢ <;> omega
  unfold Table.findFree
  cases hft : fs.fatType with
  | fat12 =>
    simp only
    by_cases hse : start ≥ endC
    · rw [if_pos hse]
      have : endC - start = 0 := by omega
      rw [this]
      exact ⟨d, SameStore.refl d, rfl⟩
    · rw [if_neg hse]
      have hst : start < fs.totalClusters + 2 := by omega
      have hfit := hg.ents start hst
      rw [hft] at hfit
      simp only [entOff, entWidth] at hfit
      rw [run_bind_ok (run_slice_seekStart s (start + start / 2) d (by rw [hsz]; omega))]
      simp only
      obtain ⟨d1, h1, hs1⟩ := run_slice_readU16 { s with offset := start + start / 2 } d hfa
        (by show start + start / 2 + 2 ≤ s.size; rw [hsz]; exact hfit)
        (by show s.beginOff + s.size ≤ _; rw [hb, hsz, himg]; exact hfdev)
      rw [run_bind_ok h1]
      simp only
      obtain ⟨d2, hs2, hout⟩ := run_findFree12Loop fs img hg hft (endC - start + 2)
        { s with offset := start + start / 2 + 2 } start endC (d.img.le16 (s.beginOff + (start + start / 2))) d1
        ⟨hb, hsz, hm, hvf⟩ rfl (by rw [himg, hb]) (by omega) hend (by omega) (by rw [hs1.failAt]; exact hfa)
        (by rw [hs1.img]; exact himg)
      exact ⟨d2, hs1.trans hs2, hout⟩
  | fat16 =>
    simp only
    have hl := hlast start hstart
    rw [hft] at hl
    simp only [entOff] at hl
    rw [run_bind_ok (run_slice_seekStart s (start * 2) d (by rw [hsz]; exact hl))]
    simp only
    have := run_findFreeLoop fs img hg (by rw [hft]; intro h; cases h) (endC - start + 2)
      { s with offset := start * 2 } start endC d ⟨hb, hsz, hm, hvf⟩ (by rw [hft]; rfl) hend (by omega) hfa himg
    rw [hft] at this
    exact this
  | fat32 =>
    simp only
    have hl := hlast start hstart
    rw [hft] at hl
    simp only [entOff] at hl
    rw [run_bind_ok (run_slice_seekStart s (start * 4) d (by rw [hsz]; exact hl))]
    simp only
    have := run_findFreeLoop fs img hg (by rw [hft]; intro h; cases h) (endC - start + 2)
      { s with offset := start * 4 } start endC d ⟨hb, hsz, hm, hvf⟩ (by rw [hft]; rfl) hend (by omega) hfa himg
    rw [hft] at this
    exact this

/-- a point update of the first FAT copy is a point update of the decoded table -/
theorem tabView_of_set {fs : FsState} {sz : Nat} (g : Geo fs sz) (img img' : Img) {c : Nat} {v : FatValue}
    (hc : c < fs.totalClusters + 2) (hv : Representable fs.fatType v)
    (h : Fat.set fs.fatType (fatArr fs img) c v = .ok (fatArr fs img')) :
    tabView fs img' = updV (tabView fs img) c v := by
  have hnsp : fs.fatType = .fat32 → ¬ special32 c := ((g.tableOk img).plain hc).2
  have hvs := view_set (wfBytes_fatArr fs img) hv hnsp h
  funext i
  by_cases hi : i < fs.totalClusters + 2
  · rw [tabView_eq_view g img' hi, hvs]
    unfold updV
    by_cases hic : i = c
    · rw [if_pos hic, if_pos hic]
    · rw [if_neg hic, if_neg hic, tabView_eq_view g img hi]
  · have hic : i ≠ c := by omega
    unfold updV tabView
    rw [if_neg hi, if_neg hic, if_neg hi]

/-- the records of the later FAT copies do not touch the first one -/
theorem applyRecs_mirrors_below (off size : Nat) (bs : List Nat) : ∀ (k i : Nat) (img : Img), img.WF →
    ∀ q, q < off + i * size → (applyRecs img (mirrorRecs off size bs k i)).getByte q = img.getByte q
  | 0, _, _, _, _, _ => rfl
  | k + 1, i, img, hwf, q, hq => by
    show (applyRecs (img.write (off + i * size) bs) (mirrorRecs off size bs k (i + 1))).getByte q = _
    rw [applyRecs_mirrors_below off size bs k (i + 1) _ (Img.wf_write _ hwf _ _) q (by rw [Nat.succ_mul]; omega),
      Img.getByte_write_of_not_mem _ hwf _ _ _ (by omega)]

/-- the classified records of ONE FAT update whose effect on the decoded table is a point update -/
theorem FatUpd.trace {fs : FsState} {c : Nat} {d d' : Dev} {arr' : Array Nat} {v : FatValue} (hu : FatUpd fs c d d' arr')
    (hg : Geo fs d.img.size) (hwf : d.img.WF) (hc : c < fs.totalClusters + 2)
    (htv : tabView fs d'.img = updV (tabView fs d.img) c v) (E D : Nat → Prop) (hE : E c) : Trace fs E D d d' := by
  obtain ⟨bs, hl, hlog, himg⟩ := hu.recs
  refine ⟨_, hlog, himg, ?_⟩
  refine classified_mirrors fs d.img.size hg c hc bs hl E D hE _ 0 d.img hwf rfl (by omega) (fun _ x hx => ?_)
  obtain ⟨m, hm⟩ : ∃ m, (fatSliceOf fs).mirrors = m + 1 := ⟨(fatSliceOf fs).mirrors - 1, by have := hg.mirrors_pos; omega⟩
  rw [hm] at himg
  have himg' : d'.img = applyRecs (d.img.write ((fatSliceOf fs).beginOff + entOff fs.fatType c) bs)
      (mirrorRecs ((fatSliceOf fs).beginOff + entOff fs.fatType c) (fatSliceOf fs).size bs m 1) := by
    rw [himg]
    show applyRecs (d.img.write ((fatSliceOf fs).beginOff + entOff fs.fatType c + 0 * (fatSliceOf fs).size) bs) _ = _
    rw [Nat.zero_mul, Nat.add_zero]
  have hfat : FatAgree fs (d.img.write ((fatSliceOf fs).beginOff + entOff fs.fatType c) bs) d'.img := by
    intro q _ h2
    rw [himg']
    exact applyRecs_mirrors_below _ _ _ m 1 _ (Img.wf_write _ hwf _ _) q (by omega)
  have hg1 : Geo fs (d.img.write ((fatSliceOf fs).beginOff + entOff fs.fatType c) bs).size := by
    rw [Img.write_size]; exact hg
  have h1 := tabView_congr hg1 hfat
  rw [← h1, htv]
  unfold updV
  rw [if_neg hx]

theorem run_tryCatch_ok {α} {p : Prog α} {h : Err → Prog α} {d d' : Dev} {a : α} (hp : run p d = (.ok a, d')) :
    run (Prog.tryCatch p h) d = (.ok a, d') := by
  simp only [run, hp]

theorem run_tryCatch_err {α} {p : Prog α} {h : Err → Prog α} {d d' : Dev} {e : Err} (hp : run p d = (.error e, d'))
    (he : e.isFatal = false) : run (Prog.tryCatch p h) d = run (h e) d' := by
  simp only [run, hp, he, Bool.false_eq_true, if_false]

/-- the scans of `alloc_cluster` -/
def allocScan (fs : FsState) (s : DiskSlice) (hint : Option Nat) : Prog (Nat × DiskSlice) :=
  Prog.tryCatch
    (Table.findFree DiskSlice.strm fs.fatType s (allocStartV hint fs.totalClusters) (fs.totalClusters + 2))
    (fun e => match e with
      | .noSpace => if allocStartV hint fs.totalClusters > 2 then
          Table.findFree DiskSlice.strm fs.fatType s 2 (allocStartV hint fs.totalClusters)
        else .fail .noSpace
      | e => .fail e)

theorem allocCluster_eq (fs : FsState) (s : DiskSlice) (prev hint : Option Nat) :
    Table.allocCluster DiskSlice.strm fs.fatType s prev hint fs.totalClusters =
      (allocScan fs s hint >>= fun x =>
        Table.set DiskSlice.strm fs.fatType x.2 x.1 .eoc >>= fun s1 =>
          (match prev with
            | some n => Table.set DiskSlice.strm fs.fatType s1 n (.data x.1)
            | none => pure s1) >>= fun s2 => pure (x.1, s2)) := by
  unfold Table.allocCluster allocScan allocStartV
  cases hint <;> rfl

/-- the two scans of `alloc_cluster` -/
theorem run_allocFind (fs : FsState) (img : Img) (hg : Geo fs img.size) (s : DiskSlice) (hint : Option Nat) (d : Dev)
    (hs : IsFatSlice fs s) (hfa : d.failAt = none) (himg : d.img = img) :
    ∃ d', SameStore d d' ∧ ScanOut fs d' (allocFindV (tabView fs img) hint fs.totalClusters)
      (run (allocScan fs s hint) d) := by
  unfold allocScan
  have hsle := allocStartV_le hint fs.totalClusters
  obtain ⟨d1, hs1, hout1⟩ := run_findFree fs img hg s (allocStartV hint fs.totalClusters) (fs.totalClusters + 2) d hs
    hsle (Nat.le_refl _) hfa himg
  unfold allocFindV
  cases hf1 : findFreeV (tabView fs img) (allocStartV hint fs.totalClusters)
      (fs.totalClusters + 2 - allocStartV hint fs.totalClusters) with
  | some c =>
    rw [hf1] at hout1
    obtain ⟨s', hr, hsl⟩ := hout1
    exact ⟨d1, hs1, s', by rw [run_tryCatch_ok hr], hsl⟩
  | none =>
    rw [hf1] at hout1
    have hr : run (Table.findFree DiskSlice.strm fs.fatType s (allocStartV hint fs.totalClusters)
        (fs.totalClusters + 2)) d = (.error .noSpace, d1) := hout1
    rw [run_tryCatch_err hr rfl]
    simp only
    by_cases hgt : allocStartV hint fs.totalClusters > 2
    · rw [if_pos hgt, if_pos hgt]
      obtain ⟨d2, hs2, hout2⟩ := run_findFree fs img hg s 2 (allocStartV hint fs.totalClusters) d1 hs (by omega) hsle
        (by rw [hs1.failAt]; exact hfa) (by rw [hs1.img]; exact himg)
      exact ⟨d2, hs1.trans hs2, hout2⟩
    · rw [if_neg hgt, if_neg hgt]
      exact ⟨d1, hs1, rfl⟩

/-- `table.rs::alloc_cluster` on the FAT slice of a volume already marked dirty -/
theorem run_allocCluster_fine (fs : FsState) (s : DiskSlice) (hs : IsFatSlice fs s) (prev hint : Option Nat) (d : Dev)
    (hfa : d.failAt = none) (hcd : d.fs.curDirty = true) (hwf : d.img.WF) (hg : Geo fs d.img.size)
    (hh : ∀ n, hint = some n → 2 ≤ n) (hp : ∀ p, prev = some p → p < fs.totalClusters + 2) :
    (allocFindV (tabView fs d.img) hint fs.totalClusters = none ∧
      ∃ d', run (Table.allocCluster DiskSlice.strm fs.fatType s prev hint fs.totalClusters) d = (.error .noSpace, d') ∧
        SameStore d d') ∨
    (∃ c d' s', allocFindV (tabView fs d.img) hint fs.totalClusters = some c ∧
      run (Table.allocCluster DiskSlice.strm fs.fatType s prev hint fs.totalClusters) d = (.ok (c, s'), d') ∧
      DevStep d d' ∧ d'.fs = d.fs ∧
      tabView fs d'.img = allocLinkV (tabView fs d.img) prev c ∧
      (∀ q, (q < (fatSliceOf fs).beginOff ∨
          (fatSliceOf fs).beginOff + (fatSliceOf fs).mirrors * (fatSliceOf fs).size ≤ q) →
        d'.img.getByte q = d.img.getByte q) ∧
      (∀ q, ¬ FatEntryPos fs c q → (∀ p, prev = some p → ¬ FatEntryPos fs p q) →
        d'.img.getByte q = d.img.getByte q) ∧
      (∀ E D : Nat → Prop, E c → (∀ p, prev = some p → E p) → Trace fs E D d d')) := by
  obtain ⟨d1, hs1, hout⟩ := run_allocFind fs d.img hg s hint d hs hfa rfl
  rw [allocCluster_eq]
  cases hf : allocFindV (tabView fs d.img) hint fs.totalClusters with
  | none =>
    left
    rw [hf] at hout
    refine ⟨rfl, d1, ?_, hs1⟩
    rw [run_bind_error hout]
  | some c =>
    right
    rw [hf] at hout
    obtain ⟨s1, hr, hsl1⟩ := hout
    obtain ⟨hc2, hct, _⟩ := allocFindV_some _ _ _ _ hh hf
    rw [run_bind_ok hr]
    simp only
    have hfa1 : d1.failAt = none := by rw [hs1.failAt]; exact hfa
    have hcd1 : d1.fs.curDirty = true := by rw [hs1.fs]; exact hcd
    have hwf1 : d1.img.WF := by rw [hs1.img]; exact hwf
    have hg1 : Geo fs d1.img.size := by rw [hs1.img]; exact hg
    obtain ⟨d2, s2, arr2, hr2, hsl2, hset2, hu2⟩ := run_table_set fs s1 hsl1 c .eoc d1 hfa1 hcd1 hwf1 hg1 hct
    rw [run_bind_ok hr2]
    have hsmall := hg.small
    have hrep_eoc : Representable fs.fatType .eoc := by cases fs.fatType <;> trivial
    have htv2 : tabView fs d2.img = updV (tabView fs d.img) c .eoc := by
      have := tabView_of_set hg1 d1.img d2.img hct hrep_eoc (by rw [hu2.arr]; exact hset2)
      rw [this, hs1.img]
    cases hprev : prev with
    | none =>
      simp only
      refine ⟨c, d2, s2, rfl, rfl, (DevStep.of_sameStore hs1).trans hu2.step, hu2.fs_eq.trans hs1.fs, ?_, ?_, ?_,
        fun E D hE _ => (Trace.of_sameStore hs1).trans
          (hu2.trace hg1 hwf1 hct (by rw [hs1.img]; exact htv2) E D hE)⟩
      · rw [htv2]; rfl
      · intro q hq; rw [hu2.frame q hq, hs1.img]
      · intro q hq _; rw [hu2.fine q hq, hs1.img]
    | some p =>
      simp only
      have hpt := hp p hprev
      have hfa2 : d2.failAt = none := by rw [hu2.step.failAt]; exact hfa1
      have hcd2 : d2.fs.curDirty = true := by rw [hu2.fs_eq]; exact hcd1
      have hwf2 : d2.img.WF := hu2.step.wf hwf1
      have hg2 : Geo fs d2.img.size := by rw [hu2.step.size]; exact hg1
      obtain ⟨d3, s3, arr3, hr3, hsl3, hset3, hu3⟩ := run_table_set fs s2 hsl2 p (.data c) d2 hfa2 hcd2 hwf2 hg2 hpt
      rw [run_bind_ok hr3]
      have hrep_data : Representable fs.fatType (.data c) := by
        cases hft : fs.fatType <;> rw [hft] at hsmall <;> simp only [badMark] at hsmall <;>
          simp only [Representable] <;> omega
      have htv3 : tabView fs d3.img = updV (tabView fs d2.img) p (.data c) :=
        tabView_of_set hg2 d2.img d3.img hpt hrep_data (by rw [hu3.arr]; exact hset3)
      refine ⟨c, d3, s3, rfl, rfl, ((DevStep.of_sameStore hs1).trans hu2.step).trans hu3.step,
        (hu3.fs_eq.trans hu2.fs_eq).trans hs1.fs, ?_, ?_, ?_,
        fun E D hE hEp => ((Trace.of_sameStore hs1).trans
          (hu2.trace hg1 hwf1 hct (by rw [hs1.img]; exact htv2) E D hE)).trans
          (hu3.trace hg2 hwf2 hpt htv3 E D (hEp p rfl))⟩
      · rw [htv3, htv2]; rfl
      · intro q hq; rw [hu3.frame q hq, hu2.frame q hq, hs1.img]
      · intro q hq hqp; rw [hu3.fine q (hqp p rfl), hu2.fine q hq, hs1.img]

/-- the FS-info bookkeeping is consistent with the FAT of the image: the next-free hint is a cluster number, the
    cached free count (if any) is the number of free entries -/
structure InfoOk (fs : FsState) (img : Img) : Prop where
  hint : ∀ n, fs.fsInfo.next = some n → 2 ≤ n
  count : ∀ n, fs.fsInfo.free = some n → n = countFreeV (tabView fs img) fs.totalClusters

theorem mapFree_next (i : FsInfoSt) (f : Nat → Nat) : (i.mapFree f).next = i.next := by
  unfold FsInfoSt.mapFree; split <;> rfl

theorem mapFree_free (i : FsInfoSt) (f : Nat → Nat) : (i.mapFree f).free = i.free.map f := by
  unfold FsInfoSt.mapFree
  split
  · rename_i n h; rw [h]; rfl
  · rename_i h; rw [h]; rfl

theorem countFreeV_pos {g : Nat → FatValue} {total c : Nat} (h2 : 2 ≤ c) (hc : c < total + 2) (hf : g c = .free) :
    0 < countFreeV g total := by
  have := countFreeV_updV g c .eoc total h2 hc
  rw [if_pos hf, if_neg (by intro h; cases h)] at this
  omega

/-- the free count after `alloc_cluster`: one less -/
theorem countFreeV_allocLink {g : Nat → FatValue} {total c : Nat} (prev : Option Nat) (h2 : 2 ≤ c)
    (hc : c < total + 2) (hf : g c = .free)
    (hp : ∀ p, prev = some p → 2 ≤ p ∧ p < total + 2 ∧ g p ≠ .free) :
    countFreeV (allocLinkV g prev c) total + 1 = countFreeV g total := by
  have h1 := countFreeV_updV g c .eoc total h2 hc
  rw [if_pos hf, if_neg (by intro h; cases h)] at h1
  cases prev with
  | none => simp only [allocLinkV]; omega
  | some p =>
    obtain ⟨hp2, hpt, hpf⟩ := hp p rfl
    have hpc : p ≠ c := fun e => hpf (e ▸ hf)
    have h2' := countFreeV_updV (updV g c .eoc) p (.data c) total hp2 hpt
    rw [updV_ne _ _ _ _ hpc, if_neg hpf, if_neg (by intro h; cases h)] at h2'
    simp only [allocLinkV]; omega

/-- `FileSystem::alloc_cluster(prev, zero = false)` on a volume already marked dirty -/
theorem run_allocClusterFs_fine (prev : Option Nat) (d : Dev) (hfa : d.failAt = none) (hcd : d.fs.curDirty = true)
    (hwf : d.img.WF) (hg : Geo d.fs d.img.size) (hinfo : InfoOk d.fs d.img)
    (hp : ∀ p, prev = some p → 2 ≤ p ∧ p < d.fs.totalClusters + 2 ∧ tabView d.fs d.img p ≠ .free) :
    (allocFindV (tabView d.fs d.img) d.fs.fsInfo.next d.fs.totalClusters = none ∧
      ∃ d', run (allocClusterFs prev false) d = (.error .noSpace, d') ∧ SameStore d d') ∨
    (∃ c d', allocFindV (tabView d.fs d.img) d.fs.fsInfo.next d.fs.totalClusters = some c ∧
      run (allocClusterFs prev false) d = (.ok c, d') ∧ DevStep d d' ∧ d'.fs.curDirty = true ∧
      tabView d'.fs d'.img = allocLinkV (tabView d.fs d.img) prev c ∧ InfoOk d'.fs d'.img ∧
      (∀ q, (q < (fatSliceOf d.fs).beginOff ∨
          (fatSliceOf d.fs).beginOff + (fatSliceOf d.fs).mirrors * (fatSliceOf d.fs).size ≤ q) →
        d'.img.getByte q = d.img.getByte q) ∧
      (∀ q, ¬ FatEntryPos d.fs c q → (∀ p, prev = some p → ¬ FatEntryPos d.fs p q) →
        d'.img.getByte q = d.img.getByte q) ∧
      (∀ E D : Nat → Prop, E c → (∀ p, prev = some p → E p) → Trace d.fs E D d d')) := by
  unfold allocClusterFs
  rw [run_bind_ok (run_getFs d)]
  simp only
  rcases run_allocCluster_fine d.fs (fatSliceOf d.fs) (isFatSlice_self _) prev d.fs.fsInfo.next d hfa hcd hwf hg hinfo.hint
      (fun p h => (hp p h).2.1) with ⟨hnone, d1, hr, hs1⟩ | ⟨c, d1, s1, hsome, hr, hst, hfs, htv, hfr, hfine, htr⟩
  · left
    exact ⟨hnone, d1, by rw [run_bind_error hr], hs1⟩
  · right
    obtain ⟨hc2, hct, hcf⟩ := allocFindV_some _ _ _ _ hinfo.hint hsome
    rw [run_bind_ok hr]
    simp only [Bool.false_eq_true, if_false]
    have hgf : run Prog.getFs d1 = (.ok d.fs, d1) := by rw [← hfs]; rfl
    rw [run_bind_ok (run_bind_ok (p := (pure () : Prog Unit)) (k := fun _ => Prog.getFs) (d := d1) rfl ▸ hgf)]
    have hcount := countFreeV_allocLink (g := tabView d.fs d.img) (total := d.fs.totalClusters) prev hc2 hct hcf hp
    have hpos := countFreeV_pos hc2 hct hcf
    have hne0 : d.fs.fsInfo.free ≠ some 0 := by
      intro h0
      have := hinfo.count 0 h0
      omega
    -- the state written back
    have hnext : ({ d.fs with fsInfo := ({ d.fs.fsInfo with
        next := some (if c + 1 < d.fs.totalClusters + 2 then c + 1 else 2), dirty := true }).mapFree (· - 1) } :
        FsState).fsInfo.next = some (if c + 1 < d.fs.totalClusters + 2 then c + 1 else 2) := by
      show (FsInfoSt.mapFree _ _).next = _
      rw [mapFree_next]
    have hfree' : ({ d.fs with fsInfo := ({ d.fs.fsInfo with
        next := some (if c + 1 < d.fs.totalClusters + 2 then c + 1 else 2), dirty := true }).mapFree (· - 1) } :
        FsState).fsInfo.free = d.fs.fsInfo.free.map (· - 1) := by
      show (FsInfoSt.mapFree _ _).free = _
      rw [mapFree_free]
    generalize hnew : ({ d.fs with fsInfo := ({ d.fs.fsInfo with
        next := some (if c + 1 < d.fs.totalClusters + 2 then c + 1 else 2), dirty := true }).mapFree (· - 1) } :
        FsState) = newFs at hnext hfree'
    have hgeo : FsGeomEq d.fs newFs := by rw [← hnew]; rfl
    have hrun : run (match d.fs.fsInfo.free with
        | some 0 => Prog.fail Err.panic
        | _ => do
          Prog.setFs newFs
          pure c) d1 = (.ok c, { d1 with fs := newFs }) := by
      cases hfree : d.fs.fsInfo.free with
      | none => rfl
      | some n =>
        cases n with
        | zero => exact absurd hfree hne0
        | succ m => rfl
    refine ⟨c, { d1 with fs := newFs }, hsome, hrun, ?_, ?_, ?_, ?_, hfr, hfine, fun E D hE hEp => ?_⟩
    rotate_left 4
    · obtain ⟨r, l, i, cl⟩ := htr E D hE hEp
      exact ⟨r, l, i, cl⟩
    · exact ⟨hst.failAt, hst.size, hst.wf, hgeo, hst.clock⟩
    · show newFs.curDirty = true
      rw [← hnew]; exact hcd
    · show tabView newFs d1.img = _
      rw [hgeo.tabView]; exact htv
    · refine ⟨?_, ?_⟩
      · intro n hn
        rw [hnext] at hn
        have := Option.some.inj hn
        split at this <;> omega
      · intro n hn
        show n = countFreeV (tabView newFs d1.img) newFs.totalClusters
        rw [hgeo.tabView, hgeo.totalClusters, htv]
        rw [hfree'] at hn
        cases hfree : d.fs.fsInfo.free with
        | none => rw [hfree] at hn; cases hn
        | some m =>
          rw [hfree] at hn
          have hm := hinfo.count m hfree
          have : n = m - 1 := (Option.some.inj hn).symm
          omega

/-! ### the same statements without the entry-window frame (the form other modules use) -/

theorem run_allocCluster (fs : FsState) (s : DiskSlice) (hs : IsFatSlice fs s) (prev hint : Option Nat) (d : Dev)
    (hfa : d.failAt = none) (hcd : d.fs.curDirty = true) (hwf : d.img.WF) (hg : Geo fs d.img.size)
    (hh : ∀ n, hint = some n → 2 ≤ n) (hp : ∀ p, prev = some p → p < fs.totalClusters + 2) :
    (allocFindV (tabView fs d.img) hint fs.totalClusters = none ∧
      ∃ d', run (Table.allocCluster DiskSlice.strm fs.fatType s prev hint fs.totalClusters) d = (.error .noSpace, d') ∧
        SameStore d d') ∨
    (∃ c d' s', allocFindV (tabView fs d.img) hint fs.totalClusters = some c ∧
      run (Table.allocCluster DiskSlice.strm fs.fatType s prev hint fs.totalClusters) d = (.ok (c, s'), d') ∧
      DevStep d d' ∧ d'.fs = d.fs ∧
      tabView fs d'.img = allocLinkV (tabView fs d.img) prev c ∧
      (∀ q, (q < (fatSliceOf fs).beginOff ∨
          (fatSliceOf fs).beginOff + (fatSliceOf fs).mirrors * (fatSliceOf fs).size ≤ q) →
        d'.img.getByte q = d.img.getByte q)) := by
  rcases run_allocCluster_fine fs s hs prev hint d hfa hcd hwf hg hh hp with h | ⟨c, d', s', h1, h2, h3, h4, h5, h6, _⟩
  · exact Or.inl h
  · exact Or.inr ⟨c, d', s', h1, h2, h3, h4, h5, h6⟩

theorem run_allocClusterFs (prev : Option Nat) (d : Dev) (hfa : d.failAt = none) (hcd : d.fs.curDirty = true)
    (hwf : d.img.WF) (hg : Geo d.fs d.img.size) (hinfo : InfoOk d.fs d.img)
    (hp : ∀ p, prev = some p → 2 ≤ p ∧ p < d.fs.totalClusters + 2 ∧ tabView d.fs d.img p ≠ .free) :
    (allocFindV (tabView d.fs d.img) d.fs.fsInfo.next d.fs.totalClusters = none ∧
      ∃ d', run (allocClusterFs prev false) d = (.error .noSpace, d') ∧ SameStore d d') ∨
    (∃ c d', allocFindV (tabView d.fs d.img) d.fs.fsInfo.next d.fs.totalClusters = some c ∧
      run (allocClusterFs prev false) d = (.ok c, d') ∧ DevStep d d' ∧ d'.fs.curDirty = true ∧
      tabView d'.fs d'.img = allocLinkV (tabView d.fs d.img) prev c ∧ InfoOk d'.fs d'.img ∧
      (∀ q, (q < (fatSliceOf d.fs).beginOff ∨
          (fatSliceOf d.fs).beginOff + (fatSliceOf d.fs).mirrors * (fatSliceOf d.fs).size ≤ q) →
        d'.img.getByte q = d.img.getByte q)) := by
  rcases run_allocClusterFs_fine prev d hfa hcd hwf hg hinfo hp with h | ⟨c, d', h1, h2, h3, h4, h5, h6, h7, _⟩
  · exact Or.inl h
  · exact Or.inr ⟨c, d', h1, h2, h3, h4, h5, h6, h7⟩

end FatVerif.FileSim
