import FatVerif.Proofs.FileSimSeek
import FatVerif.Proofs.ImgLemmas
import FatVerif.Proofs.FileSimTrace
/-!
# FileSim, part 6: device writes on a fault-free device, `set_dirty_flag`, frame lemmas

* `run_write`: ONE device write without a scheduled fault;
* `run_setDirtyFlag_true`: `set_dirty_flag(true)` either does nothing (the volume is marked already) or writes the
  status byte at `0x25` / `0x41` and records `curDirty`; bytes from `0x42` on, image size and geometry stay;
* `FsGeomEq`: two mounted states that differ only in the interior-mutable part;
* `absFile_frame`, `FileRep.frame`, `Geo.frame`: abstraction, representation invariant and layout only depend on the
  geometry and on the bytes of the FAT and of the data region.
-/
namespace FatVerif.FileSim
open FatVerif FatVerif.Fat

/-- the device after one successful `write` of `bs` -/
def didWrite (d : Dev) (bs : List Nat) : Dev :=
  { d.count .w with
    img := d.img.write d.pos (bs.take (min bs.length (d.img.size - d.pos)))
    pos := d.pos + min bs.length (d.img.size - d.pos)
    log := .write d.pos (bs.take (min bs.length (d.img.size - d.pos))) :: d.log }

theorem run_write (bs : List Nat) (d : Dev) (h : d.failAt = none) :
    run (Prog.write bs) d = (.ok (min bs.length (d.img.size - d.pos)), didWrite d bs) := by
  show stepOp (.write bs) d = _
  simp only [stepOp]
  rw [devCall_nofault _ _ _ h]
  rfl

theorem Img.write_size (i : Img) (off : Nat) (bs : List Nat) : (i.write off bs).size = i.size := by
  rw [Img.write_eq]

@[simp] theorem didWrite_failAt (d : Dev) (bs : List Nat) : (didWrite d bs).failAt = d.failAt := rfl
@[simp] theorem didWrite_fs (d : Dev) (bs : List Nat) : (didWrite d bs).fs = d.fs := rfl
@[simp] theorem didWrite_img_size (d : Dev) (bs : List Nat) : (didWrite d bs).img.size = d.img.size :=
  Img.write_size _ _ _
@[simp] theorem didWrite_clock (d : Dev) (bs : List Nat) : (didWrite d bs).clock = d.clock := rfl

theorem didWrite_img (d : Dev) (bs : List Nat) (hfit : d.pos + bs.length ≤ d.img.size) :
    (didWrite d bs).img = d.img.write d.pos bs := by
  have : min bs.length (d.img.size - d.pos) = bs.length := by omega
  show d.img.write d.pos (bs.take (min bs.length (d.img.size - d.pos))) = _
  rw [this, List.take_length]

theorem didWrite_log (d : Dev) (bs : List Nat) (hfit : d.pos + bs.length ≤ d.img.size) :
    (didWrite d bs).log = .write d.pos bs :: d.log := by
  have : min bs.length (d.img.size - d.pos) = bs.length := by omega
  show LogItem.write d.pos (bs.take (min bs.length (d.img.size - d.pos))) :: d.log = _
  rw [this, List.take_length]

/-- `write_u8` on the raw device with room for the byte -/
theorem run_writeU8_dev (v : Nat) (d : Dev) (h : d.failAt = none) (hfit : d.pos + 1 ≤ d.img.size) :
    run (writeU8 devStrm () v) d = (.ok (), didWrite d [v % 256]) := by
  have hmin : min [v % 256].length (d.img.size - d.pos) = 1 := by simp; omega
  unfold writeU8 writeAll
  simp only [List.length_singleton]
  unfold writeAllLoop
  simp only [List.isEmpty_cons, Bool.false_eq_true, if_false]
  have hw : run (devStrm.write () [v % 256]) d = (.ok (1, ()), didWrite d [v % 256]) := by
    show run (Prog.write [v % 256] >>= fun n => (pure (n, ()) : Prog (Nat × Unit))) d = _
    rw [run_bind_ok (run_write _ d h), hmin]
    rfl
  rw [run_bind_ok hw]
  simp [writeAllLoop]

/-- mounted states that differ only in the interior-mutable part (`fsInfo`, `curDirty`, `curIoErr`) -/
def FsGeomEq (a b : FsState) : Prop :=
  b = { a with fsInfo := b.fsInfo, curDirty := b.curDirty, curIoErr := b.curIoErr }

theorem FsGeomEq.refl (a : FsState) : FsGeomEq a a := rfl

theorem FsGeomEq.symm {a b : FsState} (h : FsGeomEq a b) : FsGeomEq b a := by
  unfold FsGeomEq at h ⊢
  rw [h]

theorem FsGeomEq.trans {a b c : FsState} (h1 : FsGeomEq a b) (h2 : FsGeomEq b c) : FsGeomEq a c := by
  unfold FsGeomEq at *
  rw [h2, h1]

theorem run_modifyFs (g : FsState → FsState) (d : Dev) :
    run (Prog.modifyFs g) d = (.ok (), { d with fs := g d.fs }) := rfl

/-- what a mutating step keeps of the device -/
structure DevStep (d d' : Dev) : Prop where
  failAt : d'.failAt = d.failAt
  size : d'.img.size = d.img.size
  wf : d.img.WF → d'.img.WF
  geom : FsGeomEq d.fs d'.fs
  clock : d'.clock = d.clock

theorem DevStep.refl (d : Dev) : DevStep d d := ⟨rfl, rfl, id, FsGeomEq.refl _, rfl⟩

theorem DevStep.trans {a b c : Dev} (h1 : DevStep a b) (h2 : DevStep b c) : DevStep a c :=
  ⟨h2.failAt.trans h1.failAt, h2.size.trans h1.size, fun h => h2.wf (h1.wf h), h1.geom.trans h2.geom,
   h2.clock.trans h1.clock⟩

theorem DevStep.of_sameStore {d d' : Dev} (h : SameStore d d') : DevStep d d' :=
  ⟨h.failAt, by rw [h.img], fun hw => by rw [h.img]; exact hw, by rw [h.fs]; exact FsGeomEq.refl _, h.clock⟩

/-- `set_dirty_flag(true)`: afterwards the volume is marked dirty; only the status byte (below `0x42`) may change -/
theorem run_setDirtyFlag_true (d : Dev) (hfa : d.failAt = none) (hsz : 0x42 ≤ d.img.size) :
    ∃ d', run (setDirtyFlag true) d = (.ok (), d') ∧ DevStep d d' ∧ d'.fs.curDirty = true ∧
      d'.fs.fsInfo = d.fs.fsInfo ∧
      (d.img.WF → ∀ q, 0x42 ≤ q → d'.img.getByte q = d.img.getByte q) := by
  unfold setDirtyFlag
  rw [run_bind_ok (run_getFs d)]
  simp only [Bool.or_true]
  by_cases hc : ((true == d.fs.curDirty && d.fs.bpbIoErr == d.fs.curIoErr) = true)
  · rw [if_pos hc]
    refine ⟨d, rfl, DevStep.refl d, ?_, rfl, fun _ _ _ => rfl⟩
    simp only [Bool.and_eq_true, beq_iff_eq] at hc
    exact hc.1.symm
  · rw [if_neg hc]
    generalize hoff : (if (d.fs.fatType == FatType.fat32) = true then 65 else 37) = off
    have hoff42 : off < 0x42 := by rw [← hoff]; split <;> decide
    rw [run_bind_ok (run_seekStart off d hfa)]
    have hfa1 : (d.didSeek off).failAt = none := hfa
    rw [run_bind_ok (run_writeU8_dev _ (d.didSeek off) hfa1 (by simp only [didSeek_pos, didSeek_img]; omega))]
    rw [run_modifyFs]
    have himg : (didWrite (d.didSeek off) [(encodeStatus true d.fs.bpbIoErr ||| d.fs.statusRaw / 4 * 4) % 256]).img =
        d.img.write off [(encodeStatus true d.fs.bpbIoErr ||| d.fs.statusRaw / 4 * 4) % 256] := by
      rw [didWrite_img _ _ (by simp only [didSeek_pos, didSeek_img, List.length_singleton]; omega)]
      rfl
    refine ⟨_, rfl, ⟨rfl, ?_, ?_, rfl, rfl⟩, rfl, rfl, ?_⟩
    · show (didWrite (d.didSeek off) _).img.size = d.img.size
      rw [didWrite_img_size]; rfl
    · intro hw
      show (didWrite (d.didSeek off) _).img.WF
      rw [himg]; exact Img.wf_write _ hw _ _
    · intro hw q hq
      show (didWrite (d.didSeek off) _).img.getByte q = _
      rw [himg, Img.getByte_write_of_not_mem _ hw _ _ _ (by simp only [List.length_singleton]; omega)]

/-- … and the only byte it may change is the status byte -/
theorem setDirtyFlag_only_status (d d' : Dev) (hr : run (setDirtyFlag true) d = (.ok (), d')) (hfa : d.failAt = none)
    (hsz : 0x42 ≤ d.img.size) (hw : d.img.WF) :
    ∀ q, q ≠ statusOff d.fs → d'.img.getByte q = d.img.getByte q := by
  unfold setDirtyFlag at hr
  rw [run_bind_ok (run_getFs d)] at hr
  simp only [Bool.or_true] at hr
  by_cases hc : ((true == d.fs.curDirty && d.fs.bpbIoErr == d.fs.curIoErr) = true)
  · rw [if_pos hc] at hr
    have : d' = d := (congrArg Prod.snd hr).symm
    intro q _; rw [this]
  · rw [if_neg hc] at hr
    have hoff : (if (d.fs.fatType == FatType.fat32) = true then 65 else 37) = statusOff d.fs := rfl
    rw [hoff] at hr
    have hoff42 : statusOff d.fs < 0x42 := by unfold statusOff; split <;> decide
    rw [run_bind_ok (run_seekStart (statusOff d.fs) d hfa)] at hr
    have hfa1 : (d.didSeek (statusOff d.fs)).failAt = none := hfa
    rw [run_bind_ok (run_writeU8_dev _ (d.didSeek (statusOff d.fs)) hfa1
      (by simp only [didSeek_pos, didSeek_img]; omega)), run_modifyFs] at hr
    have hd' : d' = _ := (congrArg Prod.snd hr).symm
    intro q hq
    rw [hd']
    show (didWrite (d.didSeek (statusOff d.fs)) _).img.getByte q = _
    rw [didWrite_img _ _ (by simp only [didSeek_pos, didSeek_img, List.length_singleton]; omega)]
    show (d.img.write (statusOff d.fs) _).getByte q = _
    rw [Img.getByte_write_of_not_mem _ hw _ _ _ (by simp only [List.length_singleton]; omega)]

/-- … by at most one record: the status byte -/
theorem setDirtyFlag_trace (d d' : Dev) (hr : run (setDirtyFlag true) d = (.ok (), d')) (hfa : d.failAt = none)
    (hsz : 0x42 ≤ d.img.size) (E D : Nat → Prop) : Trace d.fs E D d d' := by
  unfold setDirtyFlag at hr
  rw [run_bind_ok (run_getFs d)] at hr
  simp only [Bool.or_true] at hr
  by_cases hc : ((true == d.fs.curDirty && d.fs.bpbIoErr == d.fs.curIoErr) = true)
  · rw [if_pos hc] at hr
    have : d' = d := (congrArg Prod.snd hr).symm
    rw [this]; exact Trace.refl _ _ _ d
  · rw [if_neg hc] at hr
    have hoff : (if (d.fs.fatType == FatType.fat32) = true then 65 else 37) = statusOff d.fs := rfl
    rw [hoff] at hr
    have hoff42 : statusOff d.fs < 0x42 := by unfold statusOff; split <;> decide
    rw [run_bind_ok (run_seekStart (statusOff d.fs) d hfa)] at hr
    have hfa1 : (d.didSeek (statusOff d.fs)).failAt = none := hfa
    rw [run_bind_ok (run_writeU8_dev _ (d.didSeek (statusOff d.fs)) hfa1
      (by simp only [didSeek_pos, didSeek_img]; omega)), run_modifyFs] at hr
    have hd' : d' = _ := (congrArg Prod.snd hr).symm
    rw [hd']
    refine Trace.single (off := statusOff d.fs)
      (bs := [(encodeStatus true d.fs.bpbIoErr ||| d.fs.statusRaw / 4 * 4) % 256]) ?_ ?_ (Or.inl ⟨rfl, rfl⟩)
    · show (didWrite (d.didSeek (statusOff d.fs)) _).log = _
      have hmin : min [(encodeStatus true d.fs.bpbIoErr ||| d.fs.statusRaw / 4 * 4) % 256].length
          ((d.didSeek (statusOff d.fs)).img.size - (d.didSeek (statusOff d.fs)).pos) = 1 := by
        simp only [didSeek_pos, didSeek_img, List.length_singleton]; omega
      show LogItem.write (d.didSeek (statusOff d.fs)).pos (List.take (min _ _) _) :: (d.didSeek (statusOff d.fs)).log = _
      rw [hmin]
      rfl
    · show (didWrite (d.didSeek (statusOff d.fs)) _).img = _
      rw [didWrite_img _ _ (by simp only [didSeek_pos, didSeek_img, List.length_singleton]; omega)]
      rfl

/-! ### frame lemmas -/

section
variable {a b : FsState}

theorem FsGeomEq.clusterSize (h : FsGeomEq a b) : b.clusterSize = a.clusterSize := by rw [h]; rfl
theorem FsGeomEq.totalClusters (h : FsGeomEq a b) : b.totalClusters = a.totalClusters := by rw [h]
theorem FsGeomEq.fatType (h : FsGeomEq a b) : b.fatType = a.fatType := by rw [h]
theorem FsGeomEq.fatSlice (h : FsGeomEq a b) : fatSliceOf b = fatSliceOf a := by rw [h]; rfl
theorem FsGeomEq.clusterOff (h : FsGeomEq a b) (c : Nat) : clusterOff b c = clusterOff a c := by rw [h]; rfl
theorem FsGeomEq.tabView (h : FsGeomEq a b) (img : Img) : tabView b img = tabView a img := by rw [h]; rfl
theorem FsGeomEq.accDate (h : FsGeomEq a b) : b.accDate = a.accDate := by rw [h]

theorem Geo.frame {sz : Nat} (g : Geo a sz) (h : FsGeomEq a b) : Geo b sz := by
  rw [h]; exact ⟨g.bps_pos, g.spc_pos, g.status_lt, g.ents, g.mirrors_pos, g.fat_data, g.data_dev, g.u32a, g.u32b, g.fat_u32, g.small⟩

theorem RecOk.frame (h : FsGeomEq a b) {E D : Nat → Prop} {img : Img} {r : Rec} (hr : RecOk a E D img r) :
    RecOk b E D img r := by
  rw [h]; exact hr

theorem Classified.frame (h : FsGeomEq a b) {E D : Nat → Prop} : ∀ {recs : List Rec} {img : Img},
    Classified a E D img recs → Classified b E D img recs
  | [], _, _ => trivial
  | _ :: _, _, hc => ⟨hc.1.frame h, Classified.frame h hc.2⟩

theorem Trace.frame (h : FsGeomEq a b) {E D : Nat → Prop} {d d' : Dev} (ht : Trace a E D d d') : Trace b E D d d' := by
  obtain ⟨r, l, i, c⟩ := ht
  exact ⟨r, l, i, c.frame h⟩

end

/-- the two images agree on the first FAT copy -/
def FatAgree (fs : FsState) (img img' : Img) : Prop :=
  ∀ q, (fatSliceOf fs).beginOff ≤ q → q < (fatSliceOf fs).beginOff + (fatSliceOf fs).size →
    img'.getByte q = img.getByte q

/-- the two images agree on the data region -/
def DataAgree (fs : FsState) (img img' : Img) : Prop :=
  ∀ q, fs.firstDataSector * fs.bps ≤ q → img'.getByte q = img.getByte q

theorem tabView_congr {fs : FsState} {sz : Nat} (g : Geo fs sz) {img img' : Img} (h : FatAgree fs img img') :
    tabView fs img' = tabView fs img := by
  funext c
  unfold tabView
  split
  · rename_i hc
    have hfit := g.ents c hc
    unfold imgFatView
    congr 1
    have hb : ∀ k, k < entWidth fs.fatType → img'.getByte ((fatSliceOf fs).beginOff + entOff fs.fatType c + k) =
        img.getByte ((fatSliceOf fs).beginOff + entOff fs.fatType c + k) := by
      intro k hk
      exact h _ (by omega) (by omega)
    cases hft : fs.fatType with
    | fat12 =>
      rw [hft] at hb
      have h0 := hb 0 (by decide); have h1 := hb 1 (by decide)
      simp only [entOff, Nat.add_zero] at h0 h1
      simp only [imgFatRaw, Img.le16, h0, h1]
    | fat16 =>
      rw [hft] at hb
      have h0 := hb 0 (by decide); have h1 := hb 1 (by decide)
      simp only [entOff, Nat.add_zero] at h0 h1
      simp only [imgFatRaw, Img.le16, h0, h1]
    | fat32 =>
      rw [hft] at hb
      have h0 := hb 0 (by decide); have h1 := hb 1 (by decide)
      have h2 := hb 2 (by decide); have h3 := hb 3 (by decide)
      simp only [entOff, Nat.add_zero] at h0 h1 h2 h3
      simp only [imgFatRaw, Img.le32, h0, h1, h2, h3]
  · rfl

/-- the abstraction only looks at the geometry, the FAT and the data region -/
theorem absFile_frame {fs fs' : FsState} {sz : Nat} (g : Geo fs sz) {img img' : Img} (f : FileH)
    (hgeo : FsGeomEq fs fs') (hfat : FatAgree fs img img') (hdata : DataAgree fs img img') :
    absFile fs' img' f = absFile fs img f := by
  have htv : tabView fs' img' = tabView fs img := by rw [hgeo.tabView, tabView_congr g hfat]
  unfold absFile fileChain
  rw [htv, hgeo.clusterSize, hgeo.totalClusters]
  congr 1
  funext c j
  rw [hgeo.clusterOff]
  apply hdata
  unfold clusterOff
  have : fs.firstDataSector * fs.bps ≤ (fs.firstDataSector + (c - 2) * fs.spc) * fs.bps :=
    Nat.mul_le_mul_right _ (Nat.le_add_right _ _)
  omega

theorem FileRep.frame {fs fs' : FsState} {sz : Nat} (g : Geo fs sz) {img img' : Img} {f : FileH}
    (h : FileRep fs img f) (hgeo : FsGeomEq fs fs') (hfat : FatAgree fs img img') (hdata : DataAgree fs img img') :
    FileRep fs' img' f := by
  have htv : tabView fs' img' = tabView fs img := by rw [hgeo.tabView, tabView_congr g hfat]
  have hab := absFile_frame g f hgeo hfat hdata
  have hch : fileChain fs' img' f = fileChain fs img f := congrArg Cursor.AFile.chain hab
  exact ⟨h.file, by rw [hab, htv]; exact h.inv, fun c hc => by rw [hch, htv]; exact h.chain c hc,
    fun c hc => by rw [hgeo.totalClusters]; exact h.inTab c (hch ▸ hc),
    fun c hc => by rw [htv]; exact h.last_eoc c (hch ▸ hc)⟩

end FatVerif.FileSim
