import FatVerif.Proofs.SlotTreeImg11
/-!
# Slot trees on a device image, part 12: the bundle after a new directory in the root; `create_dir`'s last component

* `imgTreeW_newDir`: the root gains the entry `k` of an empty directory in the fresh cluster `c`: the bundle holds of
  the new tree with the cluster map `clAdd cl up k c`, which agrees with `cl` on every directory of the old tree.
* `createDir_root_final`: the last component of `create_dir` in the root directory.
-/
namespace FatVerif
namespace SlotTreeImg
open Lfn DirSlots DirAlias SlotTree DirSim FatVerif.FileSim FatVerif.Fat

/-- the new cluster map agrees with the old one on the directories of `t` -/
def ClAgree (up : Char → List Char) (t : Node) (cl cl' : List String → Option Nat) : Prop :=
  ∀ p, (∃ s c, getAtS up t p = some (.dir s c)) → cl' p = cl p

theorem ClAgree.refl (up : Char → List Char) (t : Node) (cl : List String → Option Nat) : ClAgree up t cl cl :=
  fun _ _ => rfl

theorem lookupS_nil (up : Char → List Char) (q : String) : lookupS up [] [] q = none := by
  unfold lookupS
  cases DirSlots.findEntry up [] q.toList <;> rfl

theorem getAtS_empty (up : Char → List Char) (r : List String) (s : List (List Nat)) (c : List (LfnEntry × Node))
    (h : getAtS up (.dir [] []) r = some (.dir s c)) : r = [] ∧ s = [] ∧ c = [] := by
  cases r with
  | nil =>
    simp only [getAtS, Option.some.injEq, Node.dir.injEq] at h
    exact ⟨rfl, h.1.symm, h.2.symm⟩
  | cons a b =>
    simp only [getAtS, lookupS_nil] at h
    cases h

section newdir
variable {d d' : Dev} {up : Char → List Char} {cl : List String → Option Nat}
  {slots slots' : List (List Nat)} {ch : List (LfnEntry × Node)}

/-- **the bundle after a new (empty) directory in the root** -/
theorem imgTreeW_newDir (W : ImgTreeW d up (.dir slots ch) cl) (hd : DirOk up slots ch) (k : LfnEntry)
    (hd' : DirOk up slots' (ch ++ [(k, .dir [] [])])) (hsub : ∀ e ∈ listing slots, e ∈ listing slots')
    (hknew : k ∉ listing slots) {N : Nat} (hR : RootReadable d N) (hs : VolStep d d') (c : Nat) (hc2 : 2 ≤ c)
    (htv : tabView d'.fs d'.img = updV (tabView d.fs d.img) c .eoc) (hfr : DirFrame d d' N c)
    (tail' : List (List Nat)) (hsl' : rootDirSlots d'.fs d'.img = slots' ++ tail')
    (htl' : ∀ s ∈ tail', Lfn.isEnd s = true)
    (hkc : (toDirEntryS (rootSrc d'.fs) k).firstCluster d'.fs = some c)
    (hfresh : ∀ q : String, matchesName up k q.toList = true → SubImg d' (clAdd cl up k c) [q] [] [])
    (hapart : ∀ cur s c', cur ≠ [] → getAtS up (.dir slots ch) cur = some (.dir s c') → ∀ c0 chain,
      cl cur = some c0 → Chain (tabView d.fs d.img) c0 chain → c ∉ chain) :
    ImgTreeW d' up (.dir slots' (ch ++ [(k, .dir [] [])])) (clAdd cl up k c) ∧
      ClAgree up (.dir slots ch) cl (clAdd cl up k c) := by
  have hkm : (k, Node.dir [] []) ∈ ch ++ [(k, .dir [] [])] := List.mem_append.2 (Or.inr (List.mem_singleton.2 rfl))
  have hkl : k ∈ listing slots' := hd'.mem_listing hkm
  -- a query that hits `k` finds the new directory; one that does not finds what it found before
  have hhit : ∀ (q : String) (y : LfnEntry × Node), lookupS up slots' (ch ++ [(k, .dir [] [])]) q = some y →
      matchesName up k q.toList = true → y = (k, .dir [] []) := by
    intro q y hl hm
    obtain ⟨hf, hym, _, _⟩ := lookupS_some hd' hl
    have hfk := DirSlots.findEntry_unique up _ hd'.wf _ _ hkl hm
    rw [hfk] at hf
    have hyk : y.1 = k := by simpa using hf.symm
    have h1 := hd'.find_key hym
    have h2 := hd'.find_key hkm
    rw [hyk] at h1
    rw [h1] at h2
    simpa using h2
  have hmiss : ∀ (q : String) (y : LfnEntry × Node), lookupS up slots' (ch ++ [(k, .dir [] [])]) q = some y →
      matchesName up k q.toList = false → lookupS up slots ch q = some y := by
    intro q y hl hm
    obtain ⟨_, hym, _, hyq⟩ := lookupS_some hd' hl
    have hmem : y ∈ ch := by
      rcases List.mem_append.1 hym with h | h
      · exact h
      · simp only [List.mem_singleton] at h
        rw [h] at hyq
        rw [hyq] at hm; cases hm
    unfold lookupS
    rw [DirSlots.findEntry_unique up _ hd.wf _ _ (hd.mem_listing hmem) hyq]
    exact hd.find_key hmem
  constructor
  · refine ⟨W.lay.of_volStep hs, W.rootNone, ?_, ?_⟩
    · intro s c' ht
      simp only [Node.dir.injEq] at ht
      obtain ⟨rfl, rfl⟩ := ht
      obtain ⟨N0, tail0, _, _, _, hchild⟩ := W.rootImg slots ch rfl
      refine ⟨N, tail', hR.of_volStep hs, hsl', htl', ?_⟩
      intro x hx hdx
      cases hm : matchesName up k (entryName x.1).toList with
      | true =>
        rw [clAdd_hit _ _ _ _ _ hm]
        have hxk : k = x.1 := hd'.name_hits_self (hd'.mem_listing hx) hkl (by rw [← entryName_toList]; exact hm)
        rw [← hxk]; exact hkc
      | false =>
        rw [clAdd_miss _ _ _ _ _ [] hm]
        have hmem : x ∈ ch := by
          rcases List.mem_append.1 hx with h | h
          · exact h
          · simp only [List.mem_singleton] at h
            rw [h, entryName_toList, matches_self] at hm
            cases hm
        have := hchild x hmem hdx
        unfold rootSrc at this ⊢
        rw [rootSliceOf_geomEq hs.geom, firstCluster_geom hs.geom]
        exact this
    · intro cur s c' hne hg
      cases cur with
      | nil => exact absurd rfl hne
      | cons q r =>
        simp only [getAtS] at hg
        cases hl : lookupS up slots' (ch ++ [(k, .dir [] [])]) q with
        | none => rw [hl] at hg; cases hg
        | some y =>
          rw [hl] at hg
          simp only at hg
          cases hm : matchesName up k q.toList with
          | true =>
            have hy := hhit q y hl hm
            rw [hy] at hg
            obtain ⟨rfl, rfl, rfl⟩ := getAtS_empty up r s c' hg
            exact hfresh q hm
          | false =>
            have hl0 := hmiss q y hl hm
            have hg0 : getAtS up (.dir slots ch) (q :: r) = some (.dir s c') := by
              simp only [getAtS, hl0]; exact hg
            have S := (W.subs (q :: r) s c' hne hg0).of_dirStep W.lay hR hs c hc2 htv hfr
              (hapart (q :: r) s c' hne hg0)
            refine S.congr_cl (clAdd_miss _ _ _ _ _ r hm) (clAdd_dropLast _ _ _ _ _ r hm) (fun x _ _ => ?_)
            exact clAdd_miss _ _ _ _ _ _ hm
  · intro p hp
    cases p with
    | nil => rfl
    | cons q r =>
      cases hm : matchesName up k q.toList with
      | false => exact clAdd_miss _ _ _ _ _ r hm
      | true =>
        exfalso
        obtain ⟨s, c', hg⟩ := hp
        simp only [getAtS] at hg
        cases hl : lookupS up slots ch q with
        | none => rw [hl] at hg; cases hg
        | some x =>
          obtain ⟨_, hxm, hxl, hxq⟩ := lookupS_some hd hl
          have := match_unique up _ hd'.wf.keys x.1 (hsub _ hxl) k hkl q.toList hxq hm
          exact hknew (this ▸ hxl)

end newdir

/-! ## `create_dir`: the program -/

theorem createDir_unfold_step (env : Env) (f : Nat) (st : DirStream) (chars a r : List Char)
    (h : Names.splitPathL chars = (a, some r)) :
    createDir env (f + 1) st (String.ofList chars) =
      Prog.bind Prog.getFs fun fs =>
        Prog.bind (findEntry env st (String.ofList a) (some true)) fun e =>
          Prog.bind (e.toDir fs) fun sub => thenDrop sub (createDir env f sub (String.ofList r)) := by
  conv => lhs; unfold createDir
  rw [splitPath_ofList, h]
  rfl

/-- `create_dir` of `.`/`..` where no such entry exists (the root): `InvalidInput` after the lookup -/
theorem createDir_dot_fails {d : Dev} {st : DirStream} (V : DirView d st) (ha : d.fs.lfnAlloc = true) (env : Env)
    (path name : String) (hsp : Names.splitPath path = (name, none)) (hdot : isDotName name = true) (a : List Nat)
    (h : V.check env name (some true) = .ok (.alias a)) (fuel : Nat) (d1 : Dev) (hv : SameVol d d1) :
    FailsV (createDir env (fuel + 1) st path) d1 .invalidInput := by
  have hce := V.checkForExistence_sim ha env name (some true)
  unfold createDir
  refine FailsV.bind_right (Reads.getFs d1) (fun d2 hs2 => ?_)
  rw [hsp]
  simp only
  have := hce d2 (hv.trans hs2)
  rw [h] at this
  refine FailsV.bind_right this (fun d3 hs3 => ?_)
  simp only [liftEOA, isDotName_eq, hdot, if_true]
  exact ⟨d3, rfl, SameVol.refl d3⟩

/-- `create_dir` of a free but invalid name: refused before anything is written -/
theorem createDir_invalid_fails {d : Dev} {st : DirStream} (V : DirView d st) (ha : d.fs.lfnAlloc = true) (env : Env)
    (path name : String) (hsp : Names.splitPath path = (name, none)) (hdot : isDotName name = false) (a : List Nat)
    (h : V.check env name (some true) = .ok (.alias a)) (err : Err)
    (hval : Names.validateLongName name = .error err) (fuel : Nat) (d1 : Dev) (hv : SameVol d d1) :
    FailsV (createDir env (fuel + 1) st path) d1 err := by
  have hce := V.checkForExistence_sim ha env name (some true)
  unfold createDir
  refine FailsV.bind_right (Reads.getFs d1) (fun d2 hs2 => ?_)
  rw [hsp]
  simp only
  have := hce d2 (hv.trans hs2)
  rw [h] at this
  refine FailsV.bind_right this (fun d3 hs3 => ?_)
  simp only [liftEOA, isDotName_eq, hdot, Bool.false_eq_true, if_false]
  refine FailsV.bind_left ?_
  rw [hval]
  exact ⟨d3, rfl, SameVol.refl d3⟩

/-! ## the slot tree's verdict at the last directory -/

/-- what `createS … true` does once the walk has reached the directory at `p` -/
def cdFinal (up : Char → List Char) (t : Node) (p : List String) (name : String) (stamp : List Nat) : Res :=
  match getAtS up t p with
  | some (.dir slots _) =>
    if isDotName name && !p.isEmpty then done t else createFinal up 70000 t p slots name true stamp
  | _ => fail t .notFound

theorem createS_dir_eq (up : Char → List Char) (t : Node) (cwd : List String) (path : String) (stamp : List Nat) :
    createS up 70000 t cwd path true stamp =
      match walkDirsS up t cwd (pathParts path).1 with
      | .error e => fail t e
      | .ok p => cdFinal up t p (pathParts path).2 stamp := by
  unfold createS cdFinal
  cases walkDirsS up t cwd (pathParts path).1 with
  | error e => rfl
  | ok p =>
    simp only
    cases getAtS up t p with
    | none => rfl
    | some n =>
      cases n with
      | file _ => rfl
      | dir s c =>
        simp only
        cases isDotName (pathParts path).2 <;> simp

end SlotTreeImg
end FatVerif
