import FatVerif.Proofs.FormatCompose
import FatVerif.Proofs.FormatLayout
import FatVerif.Spec.ValidBpb
import FatVerif.Model.FormatDriver
/-! `format_valid`: an accepted format request that succeeds produces a `ValidBpb` boot sector. -/
namespace FatVerif.Format
open FatVerif.FormatSpec

/-- cluster sizes the builder accepts: powers of two from 512 up to 2^31 (`u32`) -/
def bpcValues : List Nat :=
  [512, 1024, 2048, 4096, 8192, 16384, 32768, 65536, 131072, 262144, 524288, 1048576, 2097152, 4194304, 8388608,
   16777216, 33554432, 67108864, 134217728, 268435456, 536870912, 1073741824, 2147483648]

/-- what the builder methods of `FormatVolumeOptions` let through (their `assert!`s) plus the field types -/
structure Accepted (o : FormatOpts) : Prop where
  bps : o.bps ∈ [512, 1024, 2048, 4096, 8192, 16384, 32768]
  bpc : ∀ c, o.bpc = some c → c ∈ bpcValues
  fats : o.fats = 1 ∨ o.fats = 2
  root : o.rootEntries < 65536

/-- projection of the model's boot sector onto the spec's view (no arithmetic) -/
def viewOfBoot (boot : FBoot) : BpbView :=
  { jmp := boot.bootjmp, oem := boot.oemName, bps := boot.bpb.bps, spc := boot.bpb.spc,
    reserved := boot.bpb.reserved, fats := boot.bpb.fats, rootEntries := boot.bpb.rootEntries,
    ts16 := boot.bpb.totalSectors16, media := boot.bpb.media, spf16 := boot.bpb.spf16, spt := boot.bpb.spt,
    heads := boot.bpb.heads, hidden := boot.bpb.hidden, ts32 := boot.bpb.totalSectors32, spf32 := boot.bpb.spf32,
    extFlags := boot.bpb.extFlags, fsVersion := boot.bpb.fsVersion, rootCluster := boot.bpb.rootCluster,
    fsInfo := boot.bpb.fsInfoSector, backup := boot.bpb.backupBoot, driveNum := boot.bpb.driveNum,
    reserved1 := boot.bpb.reserved1, extSig := boot.bpb.extSig, volumeId := boot.bpb.volumeId,
    label := boot.bpb.label, fsType := boot.bpb.fsTypeLabel, sig := boot.bootSig }

theorem widthOf_eq (n : Nat) : widthOf n = (FatType.fromClusters n).bits := by
  unfold widthOf FatType.fromClusters
  split
  · rfl
  · split <;> rfl

/-- the boot sector `format_boot_sector` assembles from a layout -/
def bootOf (o : FormatOpts) (t : Nat) (ft : FatType) (spf spc : Nat) : FBoot :=
  ⟨bootJmpFor ft, oemName, mkBpb o t ⟨ft, reservedFor ft, spf, spc⟩ (if ft = .fat32 then 0 else spf),
   bootCodeFor ft, [0x55, 0xAA]⟩

section view
variable (o : FormatOpts) (t spf spc : Nat) (ft : FatType)

theorem view_spf (hspf1 : 1 ≤ spf) : (viewOfBoot (bootOf o t ft spf spc)).spf = spf := by
  cases ft <;> simp [viewOfBoot, bootOf, mkBpb, BpbView.spf] <;> omega

theorem view_total : (viewOfBoot (bootOf o t ft spf spc)).total = t := by
  cases ft <;> simp [viewOfBoot, bootOf, mkBpb, BpbView.total] <;> (try split) <;> simp_all <;> omega

theorem view_rootSecs (hb : 0 < o.bps) :
    (viewOfBoot (bootOf o t ft spf spc)).rootSecs = determineRootDirSectors o.rootEntries o.bps ft := by
  cases ft <;> simp [viewOfBoot, bootOf, mkBpb, BpbView.rootSecs, determineRootDirSectors]
  omega

theorem view_firstData (hspf1 : 1 ≤ spf) (hb : 0 < o.bps) :
    (viewOfBoot (bootOf o t ft spf spc)).firstData =
      reservedFor ft + o.fats * spf + determineRootDirSectors o.rootEntries o.bps ft := by
  unfold BpbView.firstData
  rw [view_spf o t spf spc ft hspf1, view_rootSecs o t spf spc ft hb]
  simp [viewOfBoot, bootOf, mkBpb]

theorem view_clusters (hspf1 : 1 ≤ spf) (hb : 0 < o.bps) :
    (viewOfBoot (bootOf o t ft spf spc)).clusters =
      (t - (reservedFor ft + o.fats * spf + determineRootDirSectors o.rootEntries o.bps ft)) / spc := by
  unfold BpbView.clusters
  rw [view_firstData o t spf spc ft hspf1 hb, view_total o t spf spc ft]
  simp [viewOfBoot, bootOf, mkBpb]

end view

set_option maxHeartbeats 1000000 in
/-- pure data → `ValidBpb` -/
theorem validBpb_of_facts (o : FormatOpts) (t spf spc : Nat) (ft : FatType)
    (ht : t < 4294967296)
    (hbps : o.bps ∈ [512, 1024, 2048, 4096]) (hspc : spc ∈ [1, 2, 4, 8, 16, 32, 64, 128])
    (hfats : o.fats = 1 ∨ o.fats = 2)
    (hcs : match o.bpc with | some c => spc * o.bps = c | none => spc * o.bps ≤ 32768)
    (hspf1 : 1 ≤ spf) (hspf32 : spf < 4294967296) (h16 : ft ≠ .fat32 → spf ≤ 65535)
    (hroot : ft ≠ .fat32 → o.rootEntries ≠ 0)
    (hreq : ∀ w, o.fatType = some w → w = ft)
    (hft : ft = FatType.fromClusters
      ((t - (reservedFor ft + o.fats * spf + determineRootDirSectors o.rootEntries o.bps ft)) / spc))
    (hmax : (t - (reservedFor ft + o.fats * spf + determineRootDirSectors o.rootEntries o.bps ft)) / spc ≤ maxClusters ft)
    (hcap : (t - (reservedFor ft + o.fats * spf + determineRootDirSectors o.rootEntries o.bps ft)) / spc + 2 ≤
      spf * o.bps * 8 / ft.bits)
    (hfit : reservedFor ft + o.fats * spf + determineRootDirSectors o.rootEntries o.bps ft < t) :
    ValidBpb (viewOfBoot (bootOf o t ft spf spc)) (FormatDriver.requestOf o t) ft.bits := by
  have hbps0 : 0 < o.bps := by
    simp only [List.mem_cons, List.mem_nil_iff, or_false] at hbps; omega
  have hspfv := view_spf o t spf spc ft hspf1
  have htot := view_total o t spf spc ft
  have hrs := view_rootSecs o t spf spc ft hbps0
  have hfd := view_firstData o t spf spc ft hspf1 hbps0
  have hcl := view_clusters o t spf spc ft hspf1 hbps0
  have hw : (viewOfBoot (bootOf o t ft spf spc)).width = ft.bits := by
    unfold BpbView.width; rw [hcl, widthOf_eq, ← hft]
  refine ⟨?_, ?_, ?_, ?_, ?_, ?_, ?_, ?_, ?_, ?_, ?_, ?_, ?_, ?_⟩
  · -- CBps
    exact ⟨hbps, rfl⟩
  · exact hspc
  · -- CClusterSize
    unfold CClusterSize
    simp only [FormatDriver.requestOf]
    exact hcs
  · -- CReserved
    unfold CReserved; cases ft <;> simp [viewOfBoot, bootOf, mkBpb, reservedFor]
  · exact ⟨hfats, rfl⟩
  · -- CTotal
    refine ⟨htot, ?_, ?_, ?_⟩
    · show (mkBpb o t ⟨ft, reservedFor ft, spf, spc⟩ (if ft = .fat32 then 0 else spf)).totalSectors16 ≠ 0 →
        (mkBpb o t ⟨ft, reservedFor ft, spf, spc⟩ (if ft = .fat32 then 0 else spf)).totalSectors32 = 0
      simp only [mkBpb]
      intro h; rw [if_neg h]
    · show (mkBpb o t ⟨ft, reservedFor ft, spf, spc⟩ (if ft = .fat32 then 0 else spf)).totalSectors16 < 65536
      simp only [mkBpb]
      repeat' split
      all_goals omega
    · show (mkBpb o t ⟨ft, reservedFor ft, spf, spc⟩ (if ft = .fat32 then 0 else spf)).totalSectors32 < 4294967296
      simp only [mkBpb]
      repeat' split
      all_goals omega
  · -- CFits
    unfold CFits
    have e1 : (viewOfBoot (bootOf o t ft spf spc)).reserved = reservedFor ft := rfl
    have e2 : (viewOfBoot (bootOf o t ft spf spc)).fats = o.fats := rfl
    have e3 : (viewOfBoot (bootOf o t ft spf spc)).spc = spc := rfl
    rw [hfd, htot, hcl, hspfv, hrs, e1, e2, e3]
    refine ⟨hfit, ?_⟩
    have := Nat.div_mul_le_self (t - (reservedFor ft + o.fats * spf + determineRootDirSectors o.rootEntries o.bps ft)) spc
    omega
  · -- CWidth
    unfold CWidth
    rw [hw]
    refine ⟨?_, rfl, ?_, ?_⟩
    · cases ft <;> simp [viewOfBoot, bootOf, mkBpb, FatType.bits] <;> omega
    · intro w hwq
      simp only [FormatDriver.requestOf, Option.map_eq_some_iff] at hwq
      obtain ⟨w', h1, rfl⟩ := hwq
      rw [hreq w' h1]
    · cases ft <;> simp [viewOfBoot, bootOf, mkBpb, FatType.bits, fsTypeText, fsTypeLabelOf]
  · -- CCapacity
    unfold CCapacity
    rw [hcl, hspfv, hw]
    exact hcap
  · -- CMaxClusters
    unfold CMaxClusters
    rw [hcl, hw]
    intro h32
    cases ft <;> simp [FatType.bits] at h32
    exact hmax
  · -- CFat32Fields
    unfold CFat32Fields
    rw [hw]
    intro h32
    cases ft <;> simp [FatType.bits] at h32
    simp [viewOfBoot, bootOf, mkBpb, reservedFor]
    omega
  · -- CFat1xFields
    unfold CFat1xFields
    rw [hw]
    intro h32
    cases ft <;> simp [FatType.bits] at h32 <;> simp [viewOfBoot, bootOf, mkBpb, FormatDriver.requestOf] <;>
      refine ⟨hroot (by simp), by omega⟩
  · -- CSignature
    unfold CSignature
    cases ft <;> simp [viewOfBoot, bootOf, mkBpb, bootJmpFor]
  · -- CEcho
    unfold CEcho
    rw [hw]
    cases ft <;> simp [viewOfBoot, bootOf, mkBpb, FormatDriver.requestOf, noNameLabel, FatType.bits]

/-! ### assembling the facts from a successful run -/

theorem isPow2_small : ∀ n, n < 256 → isPow2 n = true → n ∈ [1, 2, 4, 8, 16, 32, 64, 128] := by
  decide +kernel

theorem validateBoot_ok_facts {boot : FBoot} (h : validateBoot boot = .ok ()) :
    512 ≤ boot.bpb.bps ∧ boot.bpb.bps ≤ 4096 ∧ isPow2 boot.bpb.spc = true ∧
    (boot.bpb.isFat32 = false → boot.bpb.rootEntries ≠ 0) := by
  unfold validateBoot at h
  split at h
  · cases h
  · unfold validateBpb at h
    split at h
    · cases h
    · obtain ⟨_, h1, h⟩ := bind_ok_iff.mp h
      obtain ⟨_, h2, h⟩ := bind_ok_iff.mp h
      obtain ⟨_, _, h⟩ := bind_ok_iff.mp h
      obtain ⟨_, _, h⟩ := bind_ok_iff.mp h
      obtain ⟨_, h5, _⟩ := bind_ok_iff.mp h
      unfold validateBytesPerSector at h1
      unfold validateSectorsPerCluster at h2
      unfold validateRootEntries at h5
      repeat' split at h1
      all_goals first | cases h1 | skip
      repeat' split at h2
      all_goals first | cases h2 | skip
      repeat' split at h5
      all_goals first | cases h5 | skip
      rename_i hb _ hs _ hr
      refine ⟨by omega, by omega, by simpa using hs, ?_⟩
      intro hf hz
      exact hr ⟨by simp [hf], hz⟩

theorem rds_le (root bps : Nat) (ft : FatType) (hr : root < 65536)
    (hb : bps ∈ [512, 1024, 2048, 4096, 8192, 16384, 32768]) : determineRootDirSectors root bps ft ≤ 4096 := by
  unfold determineRootDirSectors
  split
  · omega
  · simp only [List.mem_cons, List.mem_nil_iff, or_false] at hb
    rcases hb with rfl | rfl | rfl | rfl | rfl | rfl | rfl <;> omega

theorem checkClusters_ok {ft : FatType} {res spf cl r s : Nat} (h : checkClusters ft res spf cl = .ok (r, s)) :
    ft = FatType.fromClusters cl ∧ cl ≤ maxClusters ft ∧ r = res ∧ s = spf := by
  unfold checkClusters at h
  repeat' split at h
  all_goals first | cases h | skip
  rename_i h1 _ h3
  exact ⟨by simpa using h1, by omega, rfl, rfl⟩

/-- what a successful `try_fs_layout` says (no arithmetic beyond the flat form) -/
theorem tryFsLayout_ok {t bps spc rds fats : Nat} {ft : FatType} {r s : Nat}
    (h : tryFsLayout t bps spc ft rds fats = .ok (r, s)) :
    ¬ t ≤ reservedFor ft + rds + 8 ∧ LayoutArithOk t bps spc ft.bits (reservedFor ft) rds fats ∧
    r = reservedFor ft ∧ s = spfOf t bps spc ft.bits (reservedFor ft) rds fats ∧
    ft = FatType.fromClusters (clOf t spc (reservedFor ft) rds fats s) ∧
    clOf t spc (reservedFor ft) rds fats s ≤ maxClusters ft := by
  rw [tryFsLayout_eq] at h
  split at h
  · cases h
  · split at h
    · obtain ⟨h1, h2, h3, h4⟩ := checkClusters_ok h
      subst h4
      exact ⟨‹_›, ‹_›, h3, rfl, h1, h2⟩
    · cases h

theorem pow2_le_32768 : ∀ k, k < 64 → 2 ^ k ≤ 32768 →
    2 ^ k ∈ [1, 2, 4, 8, 16, 32, 64, 128, 256, 512, 1024, 2048, 4096, 8192, 16384, 32768] := by
  decide +kernel

theorem isPow2_le_32768 {c : Nat} (h : isPow2 c = true) (hc : c ≤ 32768) :
    c ∈ [1, 2, 4, 8, 16, 32, 64, 128, 256, 512, 1024, 2048, 4096, 8192, 16384, 32768] := by
  simp only [isPow2, List.any_eq_true, List.mem_range, beq_iff_eq] at h
  obtain ⟨k, hk, rfl⟩ := h
  exact pow2_le_32768 k hk hc

theorem div_mul_given : ∀ c ∈ bpcValues, ∀ b ∈ [512, 1024, 2048, 4096, 8192, 16384, 32768],
    c < b ∨ c / b * b = c := by
  decide +kernel

theorem div_mul_auto : ∀ c ∈ [1, 2, 4, 8, 16, 32, 64, 128, 256, 512, 1024, 2048, 4096, 8192, 16384, 32768],
    ∀ b ∈ [512, 1024, 2048, 4096, 8192, 16384, 32768], b ≤ c →
      c / b * b = c ∧ c / b ∈ [1, 2, 4, 8, 16, 32, 64, 128] := by
  decide +kernel

/-- the heuristic returns a power of two between the sector size and 32 KiB -/
theorem determineBytesPerCluster_ok {tb bps c : Nat} {ft : Option FatType}
    (h : determineBytesPerCluster tb bps ft = .ok c) : isPow2 c = true ∧ bps ≤ c ∧ c ≤ 32768 := by
  unfold determineBytesPerCluster at h
  obtain ⟨x, _, h⟩ := bind_ok_iff.mp h
  unfold clampCluster at h
  split at h
  · cases h
  · split at h
    · cases h
      refine ⟨‹_›, ?_, ?_⟩ <;> unfold clampVal <;> repeat' split
      all_goals omega
    · cases h

/-- the cluster-size clause and the range of sectors-per-cluster -/
theorem effectiveBpc_facts {o : FormatOpts} {t c : Nat} (hacc : Accepted o) (h : effectiveBpc o t = .ok c)
    (hpos : c / o.bps ≠ 0) :
    (match o.bpc with | some c' => c / o.bps * o.bps = c' | none => c / o.bps * o.bps ≤ 32768) ∧
    (c / o.bps ≤ 255 → c / o.bps ∈ [1, 2, 4, 8, 16, 32, 64, 128]) := by
  unfold effectiveBpc at h
  split at h
  · rename_i c' hc'
    cases h
    have hm := hacc.bpc c hc'
    rcases div_mul_given c hm o.bps hacc.bps with hlt | heq
    · exact absurd (Nat.div_eq_of_lt hlt) hpos
    · refine ⟨by simp only [hc']; exact heq, ?_⟩
      intro h255
      have hb := hacc.bps
      simp only [bpcValues, List.mem_cons, List.mem_nil_iff, or_false] at hm hb
      rcases hb with hb | hb | hb | hb | hb | hb | hb <;> rw [hb] at h255 hpos ⊢ <;>
        rcases hm with rfl | rfl | rfl | rfl | rfl | rfl | rfl | rfl | rfl | rfl | rfl | rfl | rfl | rfl | rfl | rfl |
          rfl | rfl | rfl | rfl | rfl | rfl | rfl <;> first | (exfalso; omega) | decide
  · rename_i hnone
    obtain ⟨hp, hle, h32⟩ := determineBytesPerCluster_ok h
    have hm := isPow2_le_32768 hp h32
    obtain ⟨h1, h2⟩ := div_mul_auto c hm o.bps hacc.bps hle
    refine ⟨by simp only [hnone]; omega, fun _ => h2⟩

/-- decomposition of a successful `formatChecked`: the boot sector is `bootOf` of a layout with all the facts -/
theorem formatChecked_ok_layout {o : FormatOpts} {t : Nat} {boot : FBoot} {ft : FatType}
    (hacc : Accepted o) (ht : t < 4294967296) (h : formatChecked o t = .ok (boot, ft)) :
    ∃ c, effectiveBpc o t = .ok c ∧ c / o.bps ∈ [1, 2, 4, 8, 16, 32, 64, 128] ∧
      o.bps ∈ [512, 1024, 2048, 4096] ∧ ft ∈ allowedTypes o.fatType ∧
      (ft ≠ .fat32 → o.rootEntries ≠ 0) ∧
      ¬ t ≤ reservedFor ft + determineRootDirSectors o.rootEntries o.bps ft + 8 ∧
      LayoutFacts t o.bps (c / o.bps) ft.bits (reservedFor ft) (determineRootDirSectors o.rootEntries o.bps ft) o.fats ∧
      boot = bootOf o t ft
        (spfOf t o.bps (c / o.bps) ft.bits (reservedFor ft) (determineRootDirSectors o.rootEntries o.bps ft) o.fats)
        (c / o.bps) ∧
      (ft ≠ .fat32 →
        spfOf t o.bps (c / o.bps) ft.bits (reservedFor ft) (determineRootDirSectors o.rootEntries o.bps ft) o.fats
          ≤ 65535) ∧
      ft = FatType.fromClusters (clOf t (c / o.bps) (reservedFor ft)
        (determineRootDirSectors o.rootEntries o.bps ft) o.fats
        (spfOf t o.bps (c / o.bps) ft.bits (reservedFor ft) (determineRootDirSectors o.rootEntries o.bps ft) o.fats)) ∧
      clOf t (c / o.bps) (reservedFor ft) (determineRootDirSectors o.rootEntries o.bps ft) o.fats
        (spfOf t o.bps (c / o.bps) ft.bits (reservedFor ft) (determineRootDirSectors o.rootEntries o.bps ft) o.fats)
          ≤ maxClusters ft := by
  obtain ⟨hfb, hv⟩ := formatChecked_ok h
  obtain ⟨hbpb, hboot⟩ := formatBootSector_ok hfb
  obtain ⟨L, s16, hL, hs, hft, hb, _, _, _⟩ := formatBpb_ok hbpb
  obtain ⟨c, hc, _, h255, hspc, hmem, htry⟩ := determineFsLayout_ok hL
  obtain ⟨hnsmall, _, hres, hspf, hfrom, hmax⟩ := tryFsLayout_ok htry
  obtain ⟨hb512, hb4096, hpow, hroot⟩ := validateBoot_ok_facts hv
  obtain ⟨lft, lres, lspf, lspc⟩ := L
  simp only at hft hspc hres hspf hmem htry hfrom hmax hnsmall
  subst hft hspc hres
  have hbpsv : boot.bpb.bps = o.bps := by rw [hb]; rfl
  have hspcv : boot.bpb.spc = c / o.bps := by rw [hb]; rfl
  rw [hbpsv] at hb512 hb4096
  rw [hspcv] at hpow
  have hbmem : o.bps ∈ [512, 1024, 2048, 4096] := by
    have := hacc.bps
    simp only [List.mem_cons, List.mem_nil_iff, or_false] at this ⊢
    omega
  have hspcmem : c / o.bps ∈ [1, 2, 4, 8, 16, 32, 64, 128] := isPow2_small _ (by omega) hpow
  have hfacts := layout_facts t o.bps (c / o.bps) (determineRootDirSectors o.rootEntries o.bps lft) o.fats lft ht
    (rds_le _ _ _ hacc.root hacc.bps) hacc.bps hspcmem hacc.fats hnsmall
  have hs16 : s16 = (if lft = .fat32 then 0 else lspf) ∧ (lft ≠ .fat32 → lspf ≤ 65535) := by
    rcases spf16Of_ok hs with ⟨h1, h2⟩ | ⟨h1, h2, h3⟩
    · simp only at h1; simp [h1, h2]
    · simp only at h1 h2 h3; simp [h1, h2, h3]
  refine ⟨c, hc, hspcmem, hbmem, hmem, ?_, hnsmall, hfacts, ?_, ?_, ?_, ?_⟩
  · intro hne hz
    have h1 := hfacts.1
    rw [← hspf] at h1
    have hr := hroot (by
      show (boot.bpb.spf16 == 0) = false
      rw [hb]; simp only [mkBpb, hs16.1, if_neg hne, beq_eq_false_iff_ne]; omega)
    apply hr
    show boot.bpb.rootEntries = 0
    rw [hb]; simp only [mkBpb, if_neg hne]; exact hz
  · rw [hboot, hb, hs16.1, ← hspf]; rfl
  · rw [← hspf]; exact hs16.2
  · rw [← hspf]; exact hfrom
  · rw [← hspf]; exact hmax

/-- C06.2 at the level of the boot-sector record -/
theorem formatChecked_valid {o : FormatOpts} {t : Nat} {boot : FBoot} {ft : FatType}
    (hacc : Accepted o) (ht : t < 4294967296) (h : formatChecked o t = .ok (boot, ft)) :
    ValidBpb (viewOfBoot boot) (FormatDriver.requestOf o t) ft.bits := by
  obtain ⟨c, hc, hspc, hbps, hmem, hroot, hns, hfacts, hboot, h16, hfrom, hmax⟩ := formatChecked_ok_layout hacc ht h
  obtain ⟨hspf1, hcap, hfit, hf32, hcleq⟩ := hfacts
  rw [hcleq] at hfrom hmax hcap
  rw [hboot]
  have hpos : c / o.bps ≠ 0 := by
    simp only [List.mem_cons, List.mem_nil_iff, or_false] at hspc; omega
  refine validBpb_of_facts o t _ _ ft ht hbps hspc hacc.fats ?_ hspf1 ?_ h16 hroot ?_ hfrom hmax hcap hfit
  · exact (effectiveBpc_facts hacc hc hpos).1
  · unfold spfOf; omega
  · intro w hw
    rw [hw] at hmem
    simp only [allowedTypes, List.mem_cons, List.mem_nil_iff, or_false] at hmem
    exact hmem.symm

end FatVerif.Format
