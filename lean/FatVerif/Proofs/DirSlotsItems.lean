import FatVerif.Proofs.DirSlotsFree
import FatVerif.Proofs.LfnGen
/-! A well-formed directory as a list of items (deleted slot / label / entry = complete run + short slot) followed by
    the end region; its listing; where `find_free_entries` lands in terms of items. -/
namespace FatVerif
namespace DirSlots
open Lfn LongNameBuilder

inductive Item where
  | deleted (s : List Nat)
  | label (s : List Nat)
  | entry (R : List (List Nat)) (sfn : List Nat)

namespace Item

def slots : Item → List (List Nat)
  | .deleted s => [s]
  | .label s => [s]
  | .entry R sfn => R ++ [sfn]

/-- what each kind of item must look like -/
def Ok : Item → Prop
  | .deleted s => slotClass s = .deleted
  | .label s => slotClass s = .volume
  | .entry R sfn =>
    (R = [] ∨ CompleteRun (lfnChecksum (sfnName sfn)) R) ∧ (∀ s ∈ R, slotClass s = .lfn) ∧ slotClass sfn = .file

def IsDeleted : Item → Prop
  | .deleted _ => True
  | _ => False

end Item

def flatten (items : List Item) : List (List Nat) := items.flatMap Item.slots

@[simp] theorem flatten_nil : flatten [] = [] := rfl
@[simp] theorem flatten_cons (it : Item) (items : List Item) : flatten (it :: items) = it.slots ++ flatten items := by
  simp [flatten]
@[simp] theorem flatten_append (a b : List Item) : flatten (a ++ b) = flatten a ++ flatten b := by
  simp [flatten]

/-- the long name the reader attaches to a run (`[]` for no run) -/
def nameOf (R : List (List Nat)) : List Nat := capName (cutAtNul (runUnits R))

theorem nameOf_nil : nameOf [] = [] := by simp [nameOf, runUnits, tailUnits, cutAtNul, capName]

/-- the listing of an item list whose first slot has index `i` -/
def listOf : List Item → Nat → List LfnEntry
  | [], _ => []
  | .deleted _ :: r, i => listOf r (i + 1)
  | .label _ :: r, i => listOf r (i + 1)
  | .entry R sfn :: r, i => ⟨sfn, nameOf R, i, i + R.length + 1⟩ :: listOf r (i + R.length + 1)

theorem slotClass_end (s : List Nat) (h : isEnd s = true) : slotClass s = .endMark := by simp [slotClass, h]

theorem class_not_end {s : List Nat} {c : SlotClass} (h : slotClass s = c) (hc : c ≠ .endMark) : isEnd s = false := by
  cases he : isEnd s with
  | false => rfl
  | true => rw [slotClass_end s he] at h; exact absurd h.symm hc

theorem class_deleted {s : List Nat} (h : slotClass s = .deleted) : isEnd s = false ∧ isDeleted s = true := by
  have h1 := class_not_end h (by simp)
  refine ⟨h1, ?_⟩
  cases hd : isDeleted s with
  | true => rfl
  | false =>
    exfalso
    unfold slotClass at h
    rw [if_neg (by simp [h1]), if_neg (by simp [hd])] at h
    split at h
    · exact absurd h (by simp)
    · split at h <;> exact absurd h (by simp)

theorem class_used {s : List Nat} {c : SlotClass} (h : slotClass s = c) (h1 : c ≠ .endMark) (h2 : c ≠ .deleted) :
    isEnd s = false ∧ isDeleted s = false := by
  have he := class_not_end h h1
  refine ⟨he, ?_⟩
  cases hd : isDeleted s with
  | false => rfl
  | true => simp [slotClass, he, hd] at h; exact absurd h.symm h2

/-- **the listing of a well-formed directory is the listing of its items** (both buffer variants) -/
theorem readLoop_items (alloc : Bool) : ∀ (items : List Item) (i : Nat) (b : LongNameBuilder) (tail : List (List Nat)),
    (∀ it ∈ items, it.Ok) → (∀ t ∈ tail, isEnd t = true) → Dead alloc b →
    readLoop alloc true (flatten items ++ tail) i i b = listOf items i := by
  intro items
  induction items with
  | nil =>
    intro i b tail _ ht _
    cases tail with
    | nil => rfl
    | cons t ts => simp [readLoop, slotClass_end t (ht t (by simp)), listOf]
  | cons it items ih =>
    intro i b tail hok ht hb
    have hrest : ∀ it ∈ items, it.Ok := fun x hx => hok x (by simp [hx])
    have hit := hok it (by simp)
    cases it with
    | deleted s =>
      simp only [flatten_cons, Item.slots, List.cons_append, List.nil_append, listOf]
      rw [readLoop, show slotClass s = .deleted from hit]
      exact ih (i + 1) _ tail hrest ht (Dead_clear alloc b)
    | label s =>
      simp only [flatten_cons, Item.slots, List.cons_append, List.nil_append, listOf]
      rw [readLoop, show slotClass s = .volume from hit]
      simp only [if_true]
      exact ih (i + 1) _ tail hrest ht (Dead_clear alloc b)
    | entry R sfn =>
      obtain ⟨hR, hl, hs⟩ := hit
      simp only [flatten_cons, Item.slots, List.append_assoc, List.cons_append, List.nil_append, listOf]
      rw [readLoop_lfn_block alloc true R _ i i b hl, readLoop, hs]
      simp only
      rw [ih (i + R.length + 1) _ tail hrest ht (Dead_new alloc)]
      congr 2
      rcases hR with rfl | hR
      · simp only [List.foldl_nil, nameOf_nil]
        exact finish_Dead alloc b _ hb
      · have := run_spec alloc (sfnName sfn) b hb R.reverse 1 [] (by simp [TailOk]) (Nat.le_refl 1)
        simp only [List.foldl_nil, tailUnits, runB, List.foldr_reverse] at this
        have hc := specRun_complete _ R [] hR
        simp only [List.append_nil] at hc
        rw [hc] at this
        rw [this, outName, nameOf]

theorem listOf_append : ∀ (a b : List Item) (i : Nat),
    listOf (a ++ b) i = listOf a i ++ listOf b (i + (flatten a).length) := by
  intro a
  induction a with
  | nil => intro b i; simp [listOf]
  | cons it a ih =>
    intro b i
    cases it with
    | deleted s => simp [listOf, ih, Item.slots, Nat.add_assoc, Nat.add_comm]
    | label s => simp [listOf, ih, Item.slots, Nat.add_assoc, Nat.add_comm]
    | entry R sfn => simp [listOf, ih, Item.slots, Nat.add_assoc, Nat.add_comm]

theorem listOf_deleted : ∀ (d : List Item) (i : Nat), (∀ it ∈ d, it.IsDeleted) →
    listOf d i = [] ∧ (flatten d).length = d.length := by
  intro d
  induction d with
  | nil => intro i _; simp [listOf]
  | cons it d ih =>
    intro i h
    have hit := h it (by simp)
    cases it with
    | deleted s =>
      have := ih (i + 1) (fun x hx => h x (by simp [hx]))
      simp [listOf, this.1, this.2, Item.slots]
    | label s => exact absurd hit (by simp [Item.IsDeleted])
    | entry R sfn => exact absurd hit (by simp [Item.IsDeleted])

theorem listOf_bounds : ∀ (items : List Item) (i : Nat), ∀ e ∈ listOf items i,
    i ≤ e.beginIdx ∧ e.beginIdx < e.endIdx ∧ e.endIdx ≤ i + (flatten items).length := by
  intro items
  induction items with
  | nil => intro i e he; simp [listOf] at he
  | cons it items ih =>
    intro i e he
    cases it with
    | deleted s =>
      have := ih (i + 1) e (by simpa [listOf] using he)
      simp [Item.slots]; omega
    | label s =>
      have := ih (i + 1) e (by simpa [listOf] using he)
      simp [Item.slots]; omega
    | entry R sfn =>
      simp only [listOf, List.mem_cons] at he
      rcases he with rfl | he
      · simp [Item.slots]; omega
      · have := ih _ e he
        simp [Item.slots]; omega

/-! ### `find_free_entries` in terms of items -/

theorem findFreeLoop_used_block (num : Nat) : ∀ (B rest : List (List Nat)) (ff nf i : Nat),
    (∀ s ∈ B, isEnd s = false ∧ isDeleted s = false) → B ≠ [] →
    findFreeLoop num (B ++ rest) ff nf i = findFreeLoop num rest ff 0 (i + B.length) := by
  intro B
  induction B with
  | nil => intro _ _ _ _ _ h; exact absurd rfl h
  | cons s B ih =>
    intro rest ff nf i h _
    obtain ⟨h1, h2⟩ := h s (by simp)
    simp only [List.cons_append, findFreeLoop, h1, h2, Bool.false_eq_true, if_false, List.length_cons]
    by_cases hB : B = []
    · subst hB; simp
    · rw [ih rest ff 0 (i + 1) (fun x hx => h x (by simp [hx])) hB]
      congr 1; omega

theorem item_slots_used (it : Item) (hok : it.Ok) (hnd : ¬ it.IsDeleted) :
    (∀ s ∈ it.slots, isEnd s = false ∧ isDeleted s = false) ∧ it.slots ≠ [] := by
  cases it with
  | deleted s => exact absurd trivial hnd
  | label s =>
    refine ⟨?_, by simp [Item.slots]⟩
    intro x hx
    simp only [Item.slots, List.mem_singleton] at hx
    subst hx
    exact class_used (show slotClass x = .volume from hok) (by simp) (by simp)
  | entry R sfn =>
    obtain ⟨_, hl, hs⟩ := hok
    refine ⟨?_, by simp [Item.slots]⟩
    intro x hx
    simp only [Item.slots, List.mem_append, List.mem_singleton] at hx
    rcases hx with hx | rfl
    · exact class_used (hl x hx) (by simp) (by simp)
    · exact class_used hs (by simp) (by simp)

def carriedI (I : List Item) (nf : Nat) : Nat :=
  match I with
  | [] => nf
  | _ :: _ => 0

/-- the loop invariant of `find_free_entries` on a well-formed directory, in terms of items -/
theorem findFreeLoop_items (num : Nat) (tail : List (List Nat)) (ht : ∀ t ∈ tail, isEnd t = true) :
    ∀ (items : List Item) (ff nf i : Nat), (∀ it ∈ items, it.Ok) → nf < num → (0 < nf → ff + nf = i) →
    ∃ I1 Dd I2, items = I1 ++ Dd ++ I2 ∧ (∀ it ∈ Dd, it.IsDeleted) ∧
      findFreeLoop num (flatten items ++ tail) ff nf i = i + (flatten I1).length - carriedI I1 nf ∧
      (carriedI I1 nf + Dd.length = num ∨ (carriedI I1 nf + Dd.length < num ∧ I2 = [])) := by
  intro items
  induction items with
  | nil =>
    intro ff nf i _ hnf hff
    refine ⟨[], [], [], rfl, by simp, ?_, Or.inr ⟨by simpa [carriedI] using hnf, rfl⟩⟩
    simp only [flatten_nil, List.nil_append, carriedI, List.length_nil, Nat.add_zero]
    cases tail with
    | nil => simp only [findFreeLoop]; split <;> omega
    | cons t ts => simp only [findFreeLoop, ht t (by simp), if_true]; split <;> omega
  | cons it items ih =>
    intro ff nf i hok hnf hff
    have hrest : ∀ it ∈ items, it.Ok := fun x hx => hok x (by simp [hx])
    have hit := hok it (by simp)
    by_cases hd : it.IsDeleted
    · cases it with
      | label s => exact absurd hd (by simp [Item.IsDeleted])
      | entry R sfn => exact absurd hd (by simp [Item.IsDeleted])
      | deleted s =>
        obtain ⟨hE, hD⟩ := class_deleted (show slotClass s = .deleted from hit)
        by_cases hfull : nf + 1 = num
        · refine ⟨[], [.deleted s], items, rfl, by simp [Item.IsDeleted], ?_, Or.inl (by simpa [carriedI] using hfull)⟩
          simp only [flatten_cons, Item.slots, List.cons_append, List.nil_append, findFreeLoop, hE, hD, hfull,
            if_true, Bool.false_eq_true, if_false, flatten_nil, List.length_nil, carriedI, Nat.add_zero]
          split <;> omega
        · obtain ⟨I1, Dd, I2, e1, e2, e3, e4⟩ :=
            ih (if nf = 0 then i else ff) (nf + 1) (i + 1) hrest (by omega) (by intro _; split <;> omega)
          have hloop : findFreeLoop num (flatten (Item.deleted s :: items) ++ tail) ff nf i =
              findFreeLoop num (flatten items ++ tail) (if nf = 0 then i else ff) (nf + 1) (i + 1) := by
            simp [Item.slots, findFreeLoop, hE, hD, hfull]
          cases I1 with
          | nil =>
            refine ⟨[], .deleted s :: Dd, I2, by simp [e1], ?_, ?_, ?_⟩
            · intro x hx
              rcases List.mem_cons.1 hx with rfl | hx
              · trivial
              · exact e2 x hx
            · rw [hloop, e3]; simp [carriedI]
            · simp only [carriedI, List.length_cons] at e4 ⊢
              rcases e4 with e4 | e4
              · left; omega
              · right; exact ⟨by omega, e4.2⟩
          | cons x I1 =>
            refine ⟨.deleted s :: x :: I1, Dd, I2, by simp [e1], e2, ?_, by simpa [carriedI] using e4⟩
            rw [hloop, e3]; simp [carriedI, Item.slots]; omega
    · obtain ⟨hu, hne⟩ := item_slots_used it hit hd
      obtain ⟨I1, Dd, I2, e1, e2, e3, e4⟩ := ih ff 0 (i + it.slots.length) hrest (by omega) (by intro h; omega)
      have hloop : findFreeLoop num (flatten (it :: items) ++ tail) ff nf i =
          findFreeLoop num (flatten items ++ tail) ff 0 (i + it.slots.length) := by
        rw [flatten_cons, List.append_assoc]
        exact findFreeLoop_used_block num _ _ ff nf i hu hne
      refine ⟨it :: I1, Dd, I2, by simp [e1], e2, ?_, ?_⟩
      · rw [hloop, e3]
        cases I1 <;> simp [carriedI] <;> omega
      · cases I1 <;> simpa [carriedI] using e4

/-- where `find_free_entries(num)` lands in a well-formed directory: after the items `I1`, on `num` deleted slots — or on
    fewer than `num` trailing deleted slots followed by the end region -/
theorem findFree_items (num : Nat) (hnum : 1 ≤ num) (items : List Item) (tail : List (List Nat))
    (hok : ∀ it ∈ items, it.Ok) (ht : ∀ t ∈ tail, isEnd t = true) :
    ∃ I1 Dd I2, items = I1 ++ Dd ++ I2 ∧ (∀ it ∈ Dd, it.IsDeleted) ∧
      findFree (flatten items ++ tail) num = (flatten I1).length ∧
      (Dd.length = num ∨ (Dd.length < num ∧ I2 = [])) := by
  obtain ⟨I1, Dd, I2, e1, e2, e3, e4⟩ := findFreeLoop_items num tail ht items 0 0 0 hok (by omega) (by omega)
  refine ⟨I1, Dd, I2, e1, e2, ?_, ?_⟩
  · unfold findFree; rw [e3]; cases I1 <;> simp [carriedI]
  · cases I1 <;> simpa [carriedI] using e4

end DirSlots
end FatVerif
