import FatVerif.Proofs.DirWriteSim39
/-! Directory WRITES, part 40: `write_entry` across one growth of a chain directory without an entry, with the decoded
    FAT afterwards (`chain_writeEntry_grow` of part 21 plus `tabView d' = allocLinkV … (some last) c`): the invariant of
    the grown directory is strengthened by the FAT it was created with, which later writes keep. -/
namespace FatVerif.DirSim
open FatVerif.FileSim FatVerif.Fat DirEntryData

/-- the decoded FAT of the device is `tv` -/
def TvIs (tv : Nat → FatValue) (d : Dev) : Prop := tabView d.fs d.img = tv

theorem TvIs.of_sameVol {tv : Nat → FatValue} {d d1 : Dev} (h : TvIs tv d) (hv : SameVol d d1) : TvIs tv d1 := by
  unfold TvIs at *; rw [hv.fs, hv.img]; exact h

theorem TvIs.of_writesTo {tv : Nat → FatValue} {d d' : Dev} {p : Nat} {bs : List Nat} (h : TvIs tv d)
    (hw : WritesTo d d' p bs) (hwf : d.img.WF) (hgeo : Geo d.fs d.img.size) (hp : d.fs.firstDataSector * d.fs.bps ≤ p) :
    TvIs tv d' := by
  have hfat : FatAgree d.fs d.img d'.img := by
    intro q h1 h2
    have := hgeo.status_lt
    have := hgeo.fat_data
    have : (fatSliceOf d.fs).size ≤ (fatSliceOf d.fs).mirrors * (fatSliceOf d.fs).size :=
      Nat.le_mul_of_pos_left _ hgeo.mirrors_pos
    rw [hw.bytes hwf q (by omega)]
    unfold putBytes
    rw [if_neg (by omega)]
  unfold TvIs at *
  rw [hw.step.geom.tabView, tabView_congr hgeo hfat]; exact h

section grow
variable {fs0 : FsState} {f0 : FileH} {c0 : Nat} {chain : List Nat}

/-- the growth slot of a chain directory without an entry -/
theorem chain_growSlot_tv (hent : f0.entry = none) (c last : Nat) (tv0 : Nat → FatValue) (nx0 : Option Nat)
    (hlast : chain.getLast? = some last) (hlv : tv0 last ≠ .free)
    (hfind : allocFindV tv0 nx0 fs0.totalClusters = some c)
    (hu32 : (chain.length + 1) * fs0.clusterSize < 4294967296)
    (hfuel' : (chain.length + 1) * (fs0.clusterSize / 32) < dirFuel fs0) :
    GrowSlot (fun d => ChainInv fs0 f0 c0 chain d ∧ AllocOk tv0 nx0 d)
      (fun d => ChainInv fs0 f0 c0 (chain ++ [c]) d ∧ TvIs (allocLinkV tv0 (some last) c) d)
      (chainS f0 chain fs0.clusterSize) (chainS f0 (chain ++ [c]) fs0.clusterSize)
      (chain.length * (fs0.clusterSize / 32)) (fs0.clusterSize / 32) (chainSrc fs0 chain) (chainSrc fs0 (chain ++ [c]))
      (OutsideFat fs0) := by
  intro d hinv e hl hb
  obtain ⟨h, ha⟩ := hinv
  have hcs : d.fs.clusterSize = fs0.clusterSize := h.geom.clusterSize
  have hcspos : 0 < fs0.clusterSize := by rw [← hcs]; exact h.dir.geo.cs_pos
  have h32 : fs0.clusterSize % 32 = 0 := by rw [← hcs]; exact h.dir.cs32
  have hK : 32 * (fs0.clusterSize / 32) = fs0.clusterSize := by
    have := Nat.div_add_mod fs0.clusterSize 32; omega
  have hT : 32 * (chain.length * (fs0.clusterSize / 32)) = chain.length * fs0.clusterSize := by
    rw [Nat.mul_left_comm, hK]
  have hNK : (chain.length + 1) * (fs0.clusterSize / 32) = chain.length * (fs0.clusterSize / 32) + fs0.clusterSize / 32 := by
    rw [Nat.add_mul, Nat.one_mul]
  have WG' : WFam (ChainInv fs0 f0 c0 (chain ++ [c])) (chainS f0 (chain ++ [c]) fs0.clusterSize)
      (chainS f0 (chain ++ [c]) fs0.clusterSize) ((chain.length + 1) * (fs0.clusterSize / 32))
      (chainSrc fs0 (chain ++ [c])) (chainRoom fs0 (chain ++ [c])) := by
    have := chain_wfam (fs0 := fs0) (f0 := f0) (c0 := c0) (chain := chain ++ [c]) hent
    rwa [List.length_append, List.length_singleton] at this
  have hisdir : f0.isDir = true := by unfold FileH.isDir; rw [hent]
  obtain ⟨d', hr, hs, hd, hinv', hinfo', hsl, htv, hfr⟩ := grow_slot f0 f0 c last (ChainInv fs0 f0 c0 (chain ++ [c])) WG' d
    h.dir.core h.wf h.geom (stamped_none f0 _ hent) ha.info hisdir hlast (by rw [ha.tv]; exact hlv)
    (by rw [ha.tv, ha.next, h.geom.totalClusters]; exact hfind) (by rw [hcs]; exact hu32)
    (fun d1 hs1 hwf1 hC1 => ⟨⟨hC1.failAt, hC1.geo, hC1.first, hC1.link, hC1.inTab, hC1.nosize, hC1.noacc,
      (fun e he => by rw [hent] at he; cases he), hC1.cs32, hC1.u32⟩, hwf1, h.geom.trans hs1.geom, by
        rw [List.length_append, List.length_singleton]; exact hfuel'⟩)
    (fun d1 h1 => ⟨h1.dir.geo, h1.wf, h1.geom⟩) e hl hb
  rw [← hT] at hr
  refine ⟨d', hr, hs, hd, ⟨hinv', by unfold TvIs; rw [htv, ha.tv]⟩, ?_, ?_⟩
  · rw [← hNK]; exact hsl
  · intro q hq ho hn
    refine hfr q hq (by unfold OutsideFat at ho ⊢; rw [h.geom.fatSlice]; exact ho) ?_
    rintro ⟨h1, h2⟩
    rw [h.geom.clusterOff] at h1 h2
    rw [hcs] at h2
    have hget : (chain ++ [c]).getD chain.length 0 = c := by
      rw [List.getD_eq_getElem?_getD, List.getElem?_append_right (Nat.le_refl _), Nat.sub_self]; rfl
    obtain ⟨i, hi, hi1, hi2⟩ := cluster_in_slots fs0 (chain ++ [c]) hcspos h32 chain.length
      (by rw [List.length_append, List.length_singleton]; omega) q (by rw [hget]; exact h1) (by rw [hget]; exact h2)
    rw [List.length_append, List.length_singleton, hNK] at hi
    exact hn i hi ⟨hi1, hi2⟩


/-- **`write_entry` in a chain directory without an entry, across one growth** (the entry does not fit into the
    allocated clusters but fits after one more): the allocator's cluster `c` is linked behind `last`, zero-filled, and the
    slots of the grown directory are `DirSlots.writeEntry` of the old ones followed by the remaining zero slots -/
theorem chain_writeEntry_grow_tv (hent : f0.entry = none) (c last : Nat) (name : String) (raw : DirFileEntryData)
    (hval : Names.validateLongName name = .ok ()) (hdot : (name = "." || name = "..") = false) (hraw : raw.WF)
    (hlfn : attrsIsLfn raw.attrs = false) (d : Dev) (h : ChainInv fs0 f0 c0 chain d) (hinfo : InfoOk d.fs d.img)
    (hlast : chain.getLast? = some last) (hlv : tabView d.fs d.img last ≠ .free)
    (hfind : allocFindV (tabView d.fs d.img) d.fs.fsInfo.next d.fs.totalClusters = some c)
    (hu32 : (chain.length + 1) * fs0.clusterSize < 4294967296)
    (hfuel' : (chain.length + 1) * (fs0.clusterSize / 32) < dirFuel fs0)
    (hgrow : chain.length * (fs0.clusterSize / 32) <
      DirSlots.findFree (srcSlots d.img (chainSrc fs0 chain) (chain.length * (fs0.clusterSize / 32)))
        (Lfn.numParts (Names.encodeUtf16 name.toList).length + 1) + (Lfn.numParts (Names.encodeUtf16 name.toList).length + 1))
    (hfit : DirSlots.findFree (srcSlots d.img (chainSrc fs0 chain) (chain.length * (fs0.clusterSize / 32)))
        (Lfn.numParts (Names.encodeUtf16 name.toList).length + 1) + (Lfn.numParts (Names.encodeUtf16 name.toList).length + 1) ≤
      chain.length * (fs0.clusterSize / 32) + fs0.clusterSize / 32) :
    ∃ (d' : Dev) (e : DirEntry), run (FatVerif.writeEntry (chainS f0 chain fs0.clusterSize 0) name raw) d = (.ok e, d') ∧
      e = toDirEntryS (chainSrc fs0 (chain ++ [c])) ⟨raw.serialize, Names.encodeUtf16 name.toList,
        DirSlots.findFree (srcSlots d.img (chainSrc fs0 chain) (chain.length * (fs0.clusterSize / 32)))
          (Lfn.numParts (Names.encodeUtf16 name.toList).length + 1),
        DirSlots.findFree (srcSlots d.img (chainSrc fs0 chain) (chain.length * (fs0.clusterSize / 32)))
          (Lfn.numParts (Names.encodeUtf16 name.toList).length + 1) + (Lfn.numParts (Names.encodeUtf16 name.toList).length + 1)⟩ ∧
      VolStep d d' ∧ d'.fs.curDirty = true ∧ ChainInv fs0 f0 c0 (chain ++ [c]) d' ∧
      srcSlots d'.img (chainSrc fs0 (chain ++ [c])) (chain.length * (fs0.clusterSize / 32) + fs0.clusterSize / 32) =
        DirSlots.writeEntry (srcSlots d.img (chainSrc fs0 chain) (chain.length * (fs0.clusterSize / 32)))
          (Names.encodeUtf16 name.toList) raw.serialize ++
        List.replicate (chain.length * (fs0.clusterSize / 32) + fs0.clusterSize / 32 -
          (DirSlots.findFree (srcSlots d.img (chainSrc fs0 chain) (chain.length * (fs0.clusterSize / 32)))
            (Lfn.numParts (Names.encodeUtf16 name.toList).length + 1) +
            (Lfn.numParts (Names.encodeUtf16 name.toList).length + 1))) DirSlots.zeroSlot ∧
      (∀ q, 0x42 ≤ q → OutsideFat fs0 q →
        (∀ i, i < chain.length * (fs0.clusterSize / 32) + fs0.clusterSize / 32 →
          ¬ (chainSrc fs0 (chain ++ [c]) (32 * i) ≤ q ∧ q < chainSrc fs0 (chain ++ [c]) (32 * i) + 32)) →
        d'.img.getByte q = d.img.getByte q) ∧
      tabView d'.fs d'.img = allocLinkV (tabView d.fs d.img) (some last) c := by
  have hcs : d.fs.clusterSize = fs0.clusterSize := h.geom.clusterSize
  have hcspos : 0 < fs0.clusterSize := by rw [← hcs]; exact h.dir.geo.cs_pos
  have h32 : fs0.clusterSize % 32 = 0 := by rw [← hcs]; exact h.dir.cs32
  have hK : 32 * (fs0.clusterSize / 32) = fs0.clusterSize := by
    have := Nat.div_add_mod fs0.clusterSize 32; omega
  have hKpos : 0 < fs0.clusterSize / 32 := by
    rcases Nat.eq_zero_or_pos (fs0.clusterSize / 32) with h0 | h0
    · rw [h0] at hK; omega
    · exact h0
  have hNK : (chain ++ [c]).length * (fs0.clusterSize / 32) = chain.length * (fs0.clusterSize / 32) + fs0.clusterSize / 32 := by
    rw [List.length_append, List.length_singleton, Nat.add_mul, Nat.one_mul]
  have hgeo0 : Geo fs0 d.img.size := by
    have := h.dir.geo
    have hg := h.geom
    unfold FsGeomEq at hg
    rw [hg] at this
    exact ⟨this.bps_pos, this.spc_pos, this.status_lt, this.ents, this.mirrors_pos, this.fat_data, this.data_dev,
      this.u32a, this.u32b, this.fat_u32, this.small⟩
  obtain ⟨hc2, hct, hcf⟩ := allocFindV_some _ _ _ _ hinfo.hint hfind
  have hcnotin : c ∉ chain := by
    intro hmem
    obtain ⟨i, hi, hie⟩ := List.mem_iff_getElem.mp hmem
    by_cases hil : i + 1 < chain.length
    · have hn := chain_nextV_getElem? h.dir.link i c (by rw [List.getElem?_eq_getElem hi, hie])
      rw [List.getElem?_eq_getElem hil] at hn
      unfold nextV at hn
      rw [hcf] at hn
      cases hn
    · have hil' : i = chain.length - 1 := by omega
      have : chain.getLast? = some c := by
        rw [List.getLast?_eq_getElem?, ← hil', List.getElem?_eq_getElem hi, hie]
      rw [this] at hlast
      cases hlast
      exact hlv hcf
  -- the configurations
  have hg : SlotGeo (chain.length * (fs0.clusterSize / 32)) (chainSrc fs0 chain) :=
    slotGeo_of hgeo0 h32 (fun x hx => (h.dir.inTab x hx).1) (chain_nodup' h.dir.link)
  have hg' : SlotGeo (chain.length * (fs0.clusterSize / 32) + fs0.clusterSize / 32) (chainSrc fs0 (chain ++ [c])) := by
    rw [← hNK]
    refine slotGeo_of hgeo0 h32 (fun x hx => ?_) ?_
    · rcases List.mem_append.mp hx with hx | hx
      · exact (h.dir.inTab x hx).1
      · simp only [List.mem_singleton] at hx; subst hx; exact hc2
    · rw [List.nodup_append]
      exact ⟨chain_nodup' h.dir.link, by simp, fun a ha b hb hab => by
        simp only [List.mem_singleton] at hb; subst hb; subst hab; exact hcnotin ha⟩
  have W := (chain_wfam (fs0 := fs0) (f0 := f0) (c0 := c0) (chain := chain) hent).strengthen
    (AllocOk (tabView d.fs d.img) d.fs.fsInfo.next) (fun d1 d2 o bs hi ha hw _ _ =>
      ha.of_writesTo hw hi.wf hi.dir.geo (by rw [← chainSrc_geom hi.geom]; exact chainSrc_ge _ _ _))
  have IO := (chainInv_ok (fs0 := fs0) (f0 := f0) (c0 := c0) (chain := chain)).strengthen
    (AllocOk (tabView d.fs d.img) d.fs.fsInfo.next) (fun _ _ ha hv => ha.of_sameVol hv)
  have O := (chain_wops (fs0 := fs0) (f0 := f0) (c0 := c0) (chain := chain) hent).strengthen
    (AllocOk (tabView d.fs d.img) d.fs.fsInfo.next) (fun d1 hi ha o d2 ho hr => by
      obtain ⟨d2', hr', hs'⟩ := (chain_wops (fs0 := fs0) (f0 := f0) (c0 := c0) (chain := chain) hent).dsrc d1 hi |>.drop d1
        (SameVol.refl d1) o ho
      rw [hr] at hr'
      cases hr'
      exact ha.of_sameVol hs')
  have WG' : WFam (ChainInv fs0 f0 c0 (chain ++ [c])) (chainS f0 (chain ++ [c]) fs0.clusterSize)
      (chainS f0 (chain ++ [c]) fs0.clusterSize) (chain.length * (fs0.clusterSize / 32) + fs0.clusterSize / 32)
      (chainSrc fs0 (chain ++ [c])) (chainRoom fs0 (chain ++ [c])) := by
    have := chain_wfam (fs0 := fs0) (f0 := f0) (c0 := c0) (chain := chain ++ [c]) hent
    rwa [hNK] at this
  have O' : WOps (ChainInv fs0 f0 c0 (chain ++ [c])) (chainS f0 (chain ++ [c]) fs0.clusterSize)
      (chainS f0 (chain ++ [c]) fs0.clusterSize) (chain.length * (fs0.clusterSize / 32) + fs0.clusterSize / 32)
      (chainSrc fs0 (chain ++ [c])) (chainRoom fs0 (chain ++ [c])) (fun _ => False) (fun im im' => im' = im) := by
    have := chain_wops (fs0 := fs0) (f0 := f0) (c0 := c0) (chain := chain ++ [c]) hent
    rwa [hNK] at this
  have hsub : ∀ i, i < chain.length * (fs0.clusterSize / 32) →
      chainSrc fs0 (chain ++ [c]) (32 * i) = chainSrc fs0 chain (32 * i) := by
    intro i hi
    apply chainSrc_append_old
    apply div_lt_of_lt_mul hcspos
    have : 32 * (chain.length * (fs0.clusterSize / 32)) = chain.length * fs0.clusterSize := by
      rw [Nat.mul_left_comm, hK]
    omega
  have IO' := (chainInv_ok (fs0 := fs0) (f0 := f0) (c0 := c0) (chain := chain ++ [c])).strengthen
    (TvIs (allocLinkV (tabView d.fs d.img) (some last) c)) (fun _ _ hp hv => hp.of_sameVol hv)
  have WG'' := WG'.strengthen (TvIs (allocLinkV (tabView d.fs d.img) (some last) c)) (fun d1 d2 o bs hi hp hw _ _ =>
      hp.of_writesTo hw hi.wf hi.dir.geo (by rw [← chainSrc_geom hi.geom]; exact chainSrc_ge _ _ _))
  have O'' := O'.strengthen (TvIs (allocLinkV (tabView d.fs d.img) (some last) c)) (fun d1 hi hp o d2 ho hr => by
      obtain ⟨d2', hr', hs'⟩ := O'.dsrc d1 hi |>.drop d1 (SameVol.refl d1) o ho
      rw [hr] at hr'
      cases hr'
      exact hp.of_sameVol hs')
  have hgs := chain_growSlot_tv (fs0 := fs0) (f0 := f0) (c0 := c0) (chain := chain) hent c last (tabView d.fs d.img)
    d.fs.fsInfo.next hlast hlv (by rw [← h.geom.totalClusters]; exact hfind) hu32 hfuel'
  obtain ⟨d', hr, hs, hd, ⟨hinv', htv'⟩, hsl, hfr⟩ := writeEntry_grow IO IO' hg hg' W W WG'' hKpos hsub hgs hgs O O'' name raw
    hval hdot hraw d ⟨h, hinfo, rfl, rfl⟩ hgrow hfit
  exact ⟨d', _, hr, writeEntry_result _ raw hraw hlfn _ _ _ (by omega), hs, hd, hinv', hsl,
    fun q hq ho hn => hfr q hq ho hn (fun hf => hf), htv'⟩

end grow

end FatVerif.DirSim
