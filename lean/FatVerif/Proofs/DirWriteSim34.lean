import FatVerif.Proofs.DirWriteSim33
/-! Directory WRITES, part 34: `rename` of a DIRECTORY inside one writable directory: ancestor walk, new entry, old
    entry deleted, `..` of the moved directory inspected (its parent stays, nothing is written). -/
namespace FatVerif.DirSim
open FatVerif.FileSim FatVerif.Fat DirEntryData DirAlias

/-- a chain directory read through another clean editor, on a later device with the same FAT -/
theorem ChainDir.reEdit {d d' : Dev} {c0 : Nat} {ed : DirEntryEditor} {chain : List Nat}
    (C : ChainDir d (FileH.new (some c0) (some ed)) c0 chain) (hs : VolStep d d')
    (htv : tabView d'.fs d'.img = tabView d.fs d.img) (ed' : DirEntryEditor) (hclean : ed'.dirty = false)
    (hsz : ed'.data.size? = none) : ChainDir d' (FileH.new (some c0) (some ed')) c0 chain := by
  have C' := C.of_tabView hs htv
  refine ⟨C'.failAt, C'.geo, rfl, C'.link, C'.inTab, hsz, ?_, ?_, C'.cs32, C'.u32⟩
  · rcases C'.noacc with h | h
    · exact Or.inl h
    · cases h
  · intro e he
    cases he
    exact hclean

/-- the read view of that directory -/
def movedView {d' : Dev} {c0 : Nat} {ed' : DirEntryEditor} {chain : List Nat}
    (C' : ChainDir d' (FileH.new (some c0) (some ed')) c0 chain)
    (hfuel : chain.length * (d'.fs.clusterSize / 32) < dirFuel d'.fs) : DirView d' (.file (FileH.new (some c0) (some ed'))) :=
  ⟨chainS (FileH.new (some c0) (some ed')) chain d'.fs.clusterSize, chain.length * (d'.fs.clusterSize / 32),
    chainSrc d'.fs chain, chainRoom d'.fs chain, rfl, C'.dirSrc, hfuel⟩

theorem renamed_firstCluster (e : DirFileEntryData) (a : List Nat) (ft : FatType) :
    (e.renamed a).firstCluster ft = e.firstCluster ft := rfl

theorem renamed_isDir (e : DirFileEntryData) (a : List Nat) : (e.renamed a).isDir = e.isDir := rfl

theorem isDir_size? (e : DirFileEntryData) (h : e.isDir = true) : e.size? = none := by
  unfold DirFileEntryData.size? DirFileEntryData.isFile
  rw [h]; rfl

namespace WView
variable {d : Dev} {st : DirStream}

/-- **`rename_internal(src, self, dst)` of a directory inside one directory**. Besides the hypotheses of the file case:
    `hclimb` — the climb from this directory to the root never meets the moved directory; the moved directory (first
    cluster `c0`, chain `mchain`) is readable through its entry, lies apart from the slots (and own entry) of this
    directory, and lists `..` (`ldd`) naming this directory, so that nothing has to be written into it -/
theorem rename_dir_sim (V : WView d st) (env : Env) (srcName dstName : String)
    (hdots : (srcName = "." || srcName = ".." || dstName = "." || dstName = "..") = false)
    (hval : Names.validateLongName dstName = .ok ()) (ha : d.fs.lfnAlloc = true) (hgeo : Geo d.fs d.img.size)
    (le : LfnEntry)
    (hl : lookupL env.upper srcName.toList none (readDirEntries d.fs.lfnAlloc true (V.slots d.img)) = .ok le)
    (hdir : Lfn.isDir le.sfn = true) (n : Nat)
    (hclimb : Climbs d env ((toDirEntryS V.src le).firstCluster d.fs) st 0 n) (hn : n < d.fs.totalClusters + 3)
    (a : List Nat)
    (hchk : DirAlias.checkForExistenceL env.upper (V.slots d.img) dstName none 70000 = .ok (.alias a))
    (hfit : DirSlots.findFree (V.slots d.img) (Lfn.numParts (Names.encodeUtf16 dstName.toList).length + 1) +
      (Lfn.numParts (Names.encodeUtf16 dstName.toList).length + 1) ≤ V.N)
    (hbehind : ∀ j, j < V.N → (fatSliceOf d.fs).beginOff + (fatSliceOf d.fs).size ≤ V.src (32 * j))
    (hextra : ∀ q, V.Extra q → (fatSliceOf d.fs).beginOff + (fatSliceOf d.fs).size ≤ q)
    (c0 : Nat) (hfc : (toDirEntryS V.src le).firstCluster d.fs = some c0) (mchain : List Nat)
    (hC : ChainDir d (FileH.new (some c0) (some (toDirEntryS V.src le).editor)) c0 mchain)
    (hfuelm : mchain.length * (d.fs.clusterSize / 32) < dirFuel d.fs)
    (hapart : ∀ i, i < mchain.length * (d.fs.clusterSize / 32) → ∀ x, x < 32 →
      ¬ V.Extra (chainSrc d.fs mchain (32 * i) + x) ∧
      ∀ j, j < V.N → ¬ (V.src (32 * j) ≤ chainSrc d.fs mchain (32 * i) + x ∧
        chainSrc d.fs mchain (32 * i) + x < V.src (32 * j) + 32))
    (ldd : LfnEntry)
    (hldd : lookupL env.upper "..".toList (some true) (readDirEntries d.fs.lfnAlloc true
      (srcSlots d.img (chainSrc d.fs mchain) (mchain.length * (d.fs.clusterSize / 32)))) = .ok ldd)
    (hddc : (toDirEntryS (chainSrc d.fs mchain) ldd).data.firstCluster d.fs.fatType =
      (if st.isRootDir then none else st.firstCluster)) :
    ∃ d', run (renameInternal env st srcName st dstName) d = (.ok (), d') ∧
      VolStep d d' ∧ d'.fs.curDirty = true ∧ V.Inv d' ∧
      V.slots d'.img =
        DirSlots.deleteRange
          (DirSlots.writeEntry (V.slots d.img) (Names.encodeUtf16 dstName.toList)
            ((toDirEntryS V.src le).data.renamed a).serialize)
          le.beginIdx le.endIdx ∧
      tabView d'.fs d'.img = tabView d.fs d.img := by
  obtain ⟨hmem, _, _⟩ := lookupL_ok _ _ _ _ _ hl
  have hslotok := srcEntries_slotOK _ _ _ _ _ le hmem
  have hbnd := readLoop_bounds d.fs.lfnAlloc true (V.slots d.img) 0 0 _ (Nat.le_refl _) le hmem
  unfold WView.slots at hbnd
  rw [srcSlots_length, Nat.zero_add] at hbnd
  obtain ⟨k, hk⟩ : ∃ k, le.endIdx = le.beginIdx + k := ⟨le.endIdx - le.beginIdx, by omega⟩
  have hsfn : le.sfn.length = 32 ∧ ∀ b ∈ le.sfn, b < 256 := by
    have hm := readLoop_sfn_mem d.fs.lfnAlloc true _ _ _ _ le hmem
    simp only [WView.slots, srcSlots, List.mem_map] at hm
    obtain ⟨j, _, hj⟩ := hm
    rw [← hj]
    exact ⟨Img.read_length _ _ _, Img.read_lt _ _ _⟩
  -- 1. find_entry
  have hfe := V.toDirView.findEntry_sim env srcName none d (SameVol.refl d)
  have hlook : V.toDirView.lookup env srcName none = .ok (toDirEntryS V.src le) := by
    unfold DirView.lookup DirView.lfnEntries
    show (lookupL env.upper srcName.toList none (readDirEntries d.fs.lfnAlloc true (srcSlots d.img V.src V.N))).map _ = _
    have : srcSlots d.img V.src V.N = V.slots d.img := rfl
    rw [this, hl]; rfl
  rw [hlook] at hfe
  obtain ⟨d1, h1, hs1⟩ := hfe
  have hisdir : (toDirEntryS V.src le).isDir = true := by
    rw [toDirEntryS_isDir V.src le hslotok]; exact hdir
  -- 2. the ancestor walk
  obtain ⟨d1', h1', hs1'⟩ := ancestorWalkTop_sim hclimb hn d1 hs1
  have hv01 := hs1.trans hs1'
  have hc1 : d1'.clock = d.clock := (run_clock _ _ _ _ h1').trans (run_clock _ _ _ _ h1)
  -- 3. check_for_existence
  have hce := (V.ops.dsrc d V.here).checkForExistence_sim (V.ops.fuel d V.here) ha env dstName none d1' hv01
  have hsl0 : srcSlots d.img V.src V.N = V.slots d.img := rfl
  rw [hsl0, hchk] at hce
  obtain ⟨d2, h2, hs2⟩ := hce
  have hv02 := hv01.trans hs2
  have hc2 : d2.clock = d.clock := (run_clock _ _ _ _ h2).trans hc1
  have hinv2 := V.io.vol d d2 V.here hv02 hc2
  -- 4. write_entry of the renamed record
  obtain ⟨hcan, hl11, _⟩ := C16dir.dir_alias_canon env.upper (V.slots d.img) dstName none 70000 a hchk
  have hdwf : (toDirEntryS V.src le).data.WF := deserializeFile_wf le.sfn hsfn.1 hsfn.2
  have hrawwf : ((toDirEntryS V.src le).data.renamed a).WF := hdwf.renamed a hl11 (canon_lt hcan)
  have hattr : ((toDirEntryS V.src le).data.renamed a).attrs = attrsTruncate (DirEntryData.u8At le.sfn 11) := rfl
  have hlfn : attrsIsLfn ((toDirEntryS V.src le).data.renamed a).attrs = false := by
    rw [hattr, deser_lfn le.sfn hslotok.2]
    exact readLoop_sfn_notLfn d.fs.lfnAlloc true _ _ _ _ le hmem
  have hdotd : (dstName = "." || dstName = "..") = false := by
    simp only [Bool.or_eq_false_iff] at hdots ⊢
    exact ⟨hdots.1.2, hdots.2⟩
  have hsl2 : V.slots d2.img = V.slots d.img := by unfold WView.slots; rw [hv02.img]
  obtain ⟨d3, h3, hs3, hd3, hinv3, hsl3, hfr3, _⟩ := (V.step hinv2).writeEntry_sim dstName _ hval hdotd hrawwf hlfn
    (by show DirSlots.findFree (V.slots d2.img) _ + _ ≤ V.N
        rw [hsl2]; exact hfit)
  have hfr3' : FrameOutE V.N V.src V.Extra d2 d3 := hfr3
  have hsl3' : V.slots d3.img = DirSlots.writeEntry (V.slots d.img) (Names.encodeUtf16 dstName.toList)
      ((toDirEntryS V.src le).data.renamed a).serialize := by
    have e1 : (V.step hinv2).slots d3.img = V.slots d3.img := rfl
    have e2 : (V.step hinv2).slots d2.img = V.slots d.img := hsl2
    rw [← e1, hsl3, e2]
  -- 5. deleteEntry of the old entry
  obtain ⟨d4, h4, hs4, hd4, hinv4, hsl4, hfr4, _⟩ := (V.step hinv3).deleteEntry_range (toDirEntryS V.src le) le.beginIdx k
    (by have := hbnd.2.1; omega) rfl (by simp only [toDirEntryS]; rw [hk])
    (by show le.beginIdx + k ≤ V.N; have := hbnd.2.2; omega)
  have hfr4' : FrameOutE V.N V.src V.Extra d3 d4 := hfr4
  have hvs3 : VolStep d d3 := (VolStep.of_sameVol hv02).trans hs3
  have hvs4 : VolStep d d4 := hvs3.trans hs4
  -- the FAT
  have htvstep : ∀ X Y : Dev, VolStep d X → VolStep X Y → FrameOutE V.N V.src V.Extra X Y →
      tabView Y.fs Y.img = tabView X.fs X.img := by
    intro X Y hX hXY hf
    have hgX : Geo X.fs X.img.size := by rw [hX.size]; exact hgeo.frame hX.geom
    have hag : FatAgree X.fs X.img Y.img :=
      fatAgree_of_frameE hf X.fs (by rw [hX.geom.fatSlice]; exact hgeo.status_lt)
        (fun j hj => by rw [hX.geom.fatSlice]; exact hbehind j hj) (fun q hq => by rw [hX.geom.fatSlice]; exact hextra q hq)
    rw [hXY.geom.tabView, tabView_congr hgX hag]
  have htv4 : tabView d4.fs d4.img = tabView d.fs d.img := by
    rw [htvstep d3 d4 hvs3 hs4 hfr4', htvstep d2 d3 (VolStep.of_sameVol hv02) hs3 hfr3', hv02.fs, hv02.img]
  -- 6. the moved directory on `d4`
  generalize hne : toDirEntryS (V.step hinv2).src
    ⟨((toDirEntryS V.src le).data.renamed a).serialize, Names.encodeUtf16 dstName.toList,
      DirSlots.findFree ((V.step hinv2).slots d2.img) (Lfn.numParts (Names.encodeUtf16 dstName.toList).length + 1),
      DirSlots.findFree ((V.step hinv2).slots d2.img) (Lfn.numParts (Names.encodeUtf16 dstName.toList).length + 1) +
        (Lfn.numParts (Names.encodeUtf16 dstName.toList).length + 1)⟩ = newE at h3
  have hnd : newE.data = (toDirEntryS V.src le).data.renamed a := by
    rw [← hne, ← writeEntry_result (V.step hinv2).src _ hrawwf hlfn _ _ _ (by omega)]
  have hnewdir : newE.isDir = true := by
    unfold DirEntry.isDir; rw [hnd, renamed_isDir]; exact hisdir
  have hnewfc : newE.firstCluster d.fs = some c0 := by
    unfold DirEntry.firstCluster; rw [hnd, renamed_firstCluster]; exact hfc
  have hds : DirEntry.dirStream d.fs newE = .file (FileH.new (some c0) (some newE.editor)) := by
    unfold DirEntry.dirStream; rw [hnewfc]
  have C4 := hC.reEdit hvs4 htv4 newE.editor rfl (by
    show newE.data.size? = none
    exact isDir_size? _ hnewdir)
  have hg4 := hvs4.geom
  have hfuel4 : mchain.length * (d4.fs.clusterSize / 32) < dirFuel d4.fs := by
    rw [hg4.clusterSize, dirFuel_geom hg4]; exact hfuelm
  have hmslots : srcSlots d4.img (chainSrc d.fs mchain) (mchain.length * (d.fs.clusterSize / 32)) =
      srcSlots d.img (chainSrc d.fs mchain) (mchain.length * (d.fs.clusterSize / 32)) := by
    have hcont : ∀ i, i < mchain.length * (d.fs.clusterSize / 32) → ∀ x, x < 32 →
        0x42 ≤ chainSrc d.fs mchain (32 * i) + x ∧ ¬ V.Extra (chainSrc d.fs mchain (32 * i) + x) ∧
        ∀ j, j < V.N → ¬ (V.src (32 * j) ≤ chainSrc d.fs mchain (32 * i) + x ∧
          chainSrc d.fs mchain (32 * i) + x < V.src (32 * j) + 32) := by
      intro i hi x hx
      have h1 := chainSrc_ge d.fs mchain (32 * i)
      have h2 := hgeo.fat_data
      have h3 := hgeo.status_lt
      exact ⟨by omega, (hapart i hi x hx).1, (hapart i hi x hx).2⟩
    rw [srcSlots_frameE hfr4' _ _ hcont, srcSlots_frameE hfr3' _ _ hcont, hv02.img]
  obtain ⟨Vm, hVm⟩ : ∃ Vm : DirView d4 (DirEntry.dirStream d.fs newE),
      Vm.lookup env ".." (some true) = .ok (toDirEntryS (chainSrc d.fs mchain) ldd) := by
    rw [hds]
    refine ⟨movedView C4 hfuel4, ?_⟩
    show (lookupL env.upper "..".toList (some true) (readDirEntries d4.fs.lfnAlloc true
      (srcSlots d4.img (chainSrc d4.fs mchain) (mchain.length * (d4.fs.clusterSize / 32))))).map
        (toDirEntryS (chainSrc d4.fs mchain)) = _
    have hla : d4.fs.lfnAlloc = d.fs.lfnAlloc := by
      have := hg4; unfold FsGeomEq at this; rw [this]
    rw [chainSrc_geom hg4, hg4.clusterSize, hla, hmslots, hldd]
    rfl
  -- 7. the `..` entry stays
  obtain ⟨d5, h5, hs5⟩ := fixDotDot_same env d.fs st newE hnewdir Vm _ hVm hddc d4 (SameVol.refl d4)
  have hc4 : d4.clock = d.clock :=
    (run_clock _ _ _ _ h4).trans ((run_clock _ _ _ _ h3).trans hc2)
  have hinv5 : V.Inv d5 := V.io.vol d4 d5 hinv4 hs5 (run_clock _ _ _ _ h5)
  refine ⟨d5, ?_, hvs4.trans (VolStep.of_sameVol hs5), by rw [hs5.fs]; exact hd4, hinv5, ?_,
    by rw [hs5.fs, hs5.img]; exact htv4⟩
  · unfold renameInternal
    rw [if_neg (by rw [hdots]; decide)]
    rw [run_bind_ok (run_getFs d), run_bind_ok h1]
    simp only [id, liftE, hval, hisdir, if_true]
    rw [run_bind_ok (rfl : run (pure () : Prog Unit) d1 = (.ok (), d1)), run_bind_ok h1']
    have h2' : run (checkForExistence env st dstName none) d1' = (.ok (liftEOA V.src (.alias a)), d2) :=
      (congrArg (fun s => run (checkForExistence env s dstName none) d1') V.start).trans h2
    rw [run_bind_ok h2']
    simp only [liftEOA]
    rw [run_bind_ok h3, run_bind_ok h4]
    exact h5
  · have e1 : (V.step hinv3).slots d4.img = V.slots d4.img := rfl
    have e2 : (V.step hinv3).slots d3.img = V.slots d3.img := rfl
    have e3 : V.slots d5.img = V.slots d4.img := by unfold WView.slots; rw [hs5.img]
    rw [e3, ← e1, hsl4, e2, hsl3', hk]

end WView

end FatVerif.DirSim
