import FatVerif.Props.C10slice
/-! C06 image part, 1: replay of the write log — tiles (`Pieces`), skipping records that do not cover a point,
    flushes are invisible. -/
namespace FatVerif

theorem getD_append_lt' {A R : List Nat} {i : Nat} (h : i < A.length) : (A ++ R).getD i 0 = A.getD i 0 := by
  simp [List.getD_eq_getElem?_getD, List.getElem?_append_left h]

theorem getD_append_ge' {A R : List Nat} {i : Nat} (h : A.length ≤ i) : (A ++ R).getD i 0 = R.getD (i - A.length) 0 := by
  simp [List.getD_eq_getElem?_getD, List.getElem?_append_right h]

/-- records tiling `bs` from `p` replay to `bs` on `[p, p + |bs|)` and leave everything else alone -/
theorem replay_pieces {p : Nat} {bs : List Nat} {items : List LogItem} (h : Pieces p bs items) :
    ∀ (g : Nat → Nat) (x : Nat),
      replay g items.reverse x = if p ≤ x ∧ x < p + bs.length then bs.getD (x - p) 0 else g x := by
  induction h with
  | nil p =>
    intro g x
    simp only [List.reverse_nil, replay, List.length_nil, Nat.add_zero]
    rw [if_neg (by omega)]
  | cons p c bs' rest hc _ ih =>
    intro g x
    rw [List.reverse_cons, replay_append, ih]
    simp only [replay, applyRec, List.length_append]
    by_cases h1 : p + c.length ≤ x ∧ x < p + c.length + bs'.length
    · rw [if_pos h1, if_pos (by omega), getD_append_ge' (by omega)]
      congr 1; omega
    · rw [if_neg h1]
      by_cases h2 : p ≤ x ∧ x < p + c.length
      · rw [if_pos h2, if_pos (by omega), getD_append_lt' (by omega)]
      · rw [if_neg h2, if_neg (by omega)]

/-- every record of a tiling lies inside `[p, p + |bs|)` -/
theorem Pieces.within {p : Nat} {bs : List Nat} {items : List LogItem} (h : Pieces p bs items) :
    ∀ off b, LogItem.write off b ∈ items → p ≤ off ∧ off + b.length ≤ p + bs.length := by
  induction h with
  | nil p => intro off b hm; cases hm
  | cons p c bs' rest hc _ ih =>
    intro off b hm
    rcases List.mem_cons.mp hm with h | h
    · cases h; simp only [List.length_append]; omega
    · have := ih off b h
      simp only [List.length_append]; omega

/-- records that do not cover `x` can be skipped -/
theorem replay_skip (g : Nat → Nat) (a b : List LogItem) (x : Nat)
    (h : ∀ off bs, LogItem.write off bs ∈ a → ¬ (off ≤ x ∧ x < off + bs.length)) :
    replay g (a ++ b) x = replay g b x := by
  rw [replay_append]; exact replay_outside _ _ _ h

/-- flush records are invisible to the replay -/
theorem replay_writesOf (g : Nat → Nat) : ∀ (l : List LogItem), replay g (l.filter LogItem.isWrite) = replay g l := by
  intro l
  induction l with
  | nil => rfl
  | cons it l ih =>
    cases it with
    | flush =>
      have : (LogItem.flush :: l).filter LogItem.isWrite = l.filter LogItem.isWrite := rfl
      rw [this, ih]
      funext x; simp [replay, applyRec]
    | write off bs =>
      have : (LogItem.write off bs :: l).filter LogItem.isWrite = .write off bs :: l.filter LogItem.isWrite := rfl
      rw [this]
      simp only [replay, ih]

/-- the bytes of the device as far as the log tells: `g` (the bytes before the log started) overlaid with the log -/
def Dev.bytes (g : Nat → Nat) (d : Dev) : Nat → Nat := replay g d.log

theorem Dev.bytes_writesOf (g : Nat → Nat) (d : Dev) : replay g d.writesOf = d.bytes g :=
  replay_writesOf g d.log

end FatVerif
