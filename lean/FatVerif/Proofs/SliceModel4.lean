import FatVerif.Props.C10slice
/-! WHERE the model writes, part 4 (C11): the record classes of a mounted volume, the position-sensitive units
    (seek, then raw writes), and the `File` layer. -/
namespace FatVerif

/-- byte offset of cluster `c` (`offset_from_cluster`) -/
def clusterOff (fs : FsState) (c : Nat) : Nat := (fs.firstDataSector + (c - 2) * fs.spc) * fs.bps

/-- inside the data cluster `c`, for some `c ≥ 2` -/
def ClusterRec (fs : FsState) (off : Nat) (bs : List Nat) : Prop :=
  ∃ c, 2 ≤ c ∧ clusterOff fs c ≤ off ∧ off + bs.length ≤ clusterOff fs c + fs.clusterSize

/-- inside the FS-info sector -/
def FsInfoRec (fs : FsState) (off : Nat) (bs : List Nat) : Prop :=
  fsInfoLo fs ≤ off ∧ off + bs.length ≤ fsInfoLo fs + 512

/-- inside the 32-byte directory record at `pos` -/
def SlotAt (pos : Nat) (off : Nat) (bs : List Nat) : Prop := pos ≤ off ∧ off + bs.length ≤ pos + 32

/-- the classes of write records of a mounted volume with geometry `fs`: status byte, FS-info sector, window of the
    FAT copies, fixed root-directory region, a data cluster, the directory record of an open handle -/
inductive WClass (fs : FsState) (off : Nat) (bs : List Nat) : Prop where
  | status : StatusRec fs off bs → WClass fs off bs
  | fsInfo : FsInfoRec fs off bs → WClass fs off bs
  | fat : SliceRec (fatSliceOf fs) off bs → WClass fs off bs
  | root : SliceRec (rootSliceOf fs) off bs → WClass fs off bs
  | cluster : ClusterRec fs off bs → WClass fs off bs
  | slot (pos : Nat) : SlotAt pos off bs → WClass fs off bs

/-- the FAT copies and the fixed root region lie inside a device of size `sz` -/
structure DevFits (fs : FsState) (sz : Nat) : Prop where
  fat : (fatSliceOf fs).beginOff + (fatSliceOf fs).mirrors * (fatSliceOf fs).size ≤ sz
  root : (rootSliceOf fs).beginOff + (rootSliceOf fs).mirrors * (rootSliceOf fs).size ≤ sz

/-! ### position-sensitive units: after `seek(p)`, raw writes of `len` bytes stay in `[p, p+len)` -/

/-- started at device position `p`, `q` keeps the mounted state and appends only records inside `[p, p + len)` -/
structure PU {β} (p len : Nat) (q : Prog β) : Prop where
  out : ∀ (d : Dev) (r : Except Err β) (d' : Dev), d.pos = p → run q d = (r, d') →
    d'.fs = d.fs ∧ LogWithin p (p + len) d d'

theorem PU.write (p : Nat) (data : List Nat) : PU p data.length (Prog.write data) := by
  refine ⟨fun d r d' hp hr => ?_⟩
  simp only [Prog.write, run] at hr
  rcases stepOp_write_spec data d hr with ⟨hfs, ⟨e, _, hlog⟩ | ⟨m, _, hle, hlog, _⟩⟩
  · exact ⟨hfs, LogWithin.of_log_eq hlog⟩
  · refine ⟨hfs, [.write d.pos (data.take m)], by simp [hlog], ?_⟩
    intro it hit
    simp only [List.mem_singleton] at hit; subst hit
    refine ⟨by omega, ?_⟩
    simp only [List.length_take]; omega

theorem PU.writeChunks (p : Nat) (cs : List (List Nat)) : PU p (totalLen cs) (writeChunks devStrm () cs) :=
  ⟨fun d r d' hp hr => by
    have := writeChunks_dev_within cs d r d' hr
    rw [hp] at this; exact this⟩

theorem PU.mono {β} {p len len' : Nat} {q : Prog β} (h : PU p len q) (hl : len ≤ len') : PU p len' q :=
  ⟨fun d r d' hp hr => ⟨(h.out d r d' hp hr).1, (h.out d r d' hp hr).2.mono (Nat.le_refl _) (by omega)⟩⟩

theorem writeZerosLoop_dev_within : ∀ (fuel len : Nat) (d : Dev) r d',
    run (writeZerosLoop devStrm fuel () len) d = (r, d') →
    d'.fs = d.fs ∧ LogWithin d.pos (d.pos + len) d d' := by
  intro fuel
  induction fuel with
  | zero =>
    intro len d r d' hr
    unfold writeZerosLoop at hr
    simp only [run] at hr; cases hr
    exact ⟨rfl, LogWithin.refl _ _ _⟩
  | succ k ih =>
    intro len d r d' hr
    unfold writeZerosLoop at hr
    split at hr
    · have hr' : run (Prog.pure ()) d = (r, d') := hr
      simp only [run] at hr'; cases hr'
      exact ⟨rfl, LogWithin.refl _ _ _⟩
    · dsimp only at hr
      rcases run_bind_cases hr with ⟨u, d1, h1, h2⟩ | ⟨e, h1, _⟩
      · have hw := writeAll_dev_within _ d h1
        have hp := hw.2.2 u rfl
        simp only [List.length_replicate] at hw hp
        have h3 := ih _ _ _ _ h2
        refine ⟨h3.1.trans hw.1, (hw.2.1.mono (Nat.le_refl _) (by omega)).trans (h3.2.mono (by omega) (by omega))⟩
      · have hw := writeAll_dev_within _ d h1
        simp only [List.length_replicate] at hw
        exact ⟨hw.1, hw.2.1.mono (Nat.le_refl _) (by omega)⟩

theorem PU.writeZeros (p len : Nat) : PU p len (writeZeros devStrm () len) :=
  ⟨fun d r d' hp hr => by
    have := writeZerosLoop_dev_within _ len d r d' hr
    rw [hp] at this; exact this⟩

/-- the composition rule: seek, one position-sensitive unit, continuation -/
theorem GS.seek_unit {α β} {fs0 : FsState} {sz : Nat} {C : Nat → List Nat → Prop} {p len : Nat} {q : Prog β}
    {k : β → Prog α} {Post : α → Prop} (hq : PU p len q)
    (hC : ∀ off bs, p ≤ off → off + bs.length ≤ p + len → C off bs) (hk : ∀ b, GS fs0 sz C (k b) Post) :
    GS fs0 sz C (Prog.bind (Prog.seekStart p) (fun _ => Prog.bind q k)) Post := by
  refine ⟨fun d r d' hg hs hr => ?_⟩
  rcases run_bind_cases hr with ⟨_, d1, h1, h2⟩ | ⟨e, h1, he⟩
  · have hsk := run_seekStart_spec p d h1
    have hs1 : d1.img.size = sz := (run_img_size _ _ _ _ h1).trans hs
    rcases run_bind_cases h2 with ⟨b, d2, h3, h4⟩ | ⟨e, h3, he⟩
    · have hu := hq.out d1 _ _ (hsk.2.2 _ rfl) h3
      have hg2 : SameGeom fs0 d2.fs := by rw [hu.1, hsk.1]; exact hg
      have a := (hk b).out d2 _ _ hg2 ((run_img_size _ _ _ _ h3).trans hs1) h4
      exact ⟨a.1, ((LogAll.of_log_eq hsk.2.1).trans (LogAll.of_within hu.2 hC)).trans a.2.1, a.2.2⟩
    · have hu := hq.out d1 _ _ (hsk.2.2 _ rfl) h3
      exact ⟨by rw [hu.1, hsk.1]; exact hg, (LogAll.of_log_eq hsk.2.1).trans (LogAll.of_within hu.2 hC),
        fun v hv => by rw [he] at hv; cases hv⟩
  · have hsk := run_seekStart_spec p d h1
    exact ⟨by rw [hsk.1]; exact hg, LogAll.of_log_eq hsk.2.1, fun v hv => by rw [he] at hv; cases hv⟩


/-! ### the `File` layer -/

section file
variable {fs0 : FsState} {sz : Nat}

theorem setDirtyFlag_gs (b : Bool) : GS fs0 sz (WClass fs0) (setDirtyFlag b) (fun _ => True) := by
  refine ⟨fun d r d' hg _ hr => ?_⟩
  have h := setDirtyFlag_all b d hr
  exact ⟨hg.trans h.1, h.2.mono (fun off bs hs => .status (hs.geom hg)), fun _ _ => trivial⟩

theorem fatSliceOf_offset (fs : FsState) : (fatSliceOf fs).offset = 0 := by
  unfold fatSliceOf; split <;> rfl

theorem fatSlice_inv {fs : FsState} (h : SameGeom fs0 fs) : SliceInv (fatSliceOf fs0) (fatSliceOf fs) := by
  rw [fatSliceOf_geom h]
  exact SliceInv.self (by rw [fatSliceOf_offset]; exact Nat.zero_le _)

theorem fatStrm_gs (hfit : DevFits fs0 sz) :
    StrmGS fs0 sz (WClass fs0) DiskSlice.strm (SliceInv (fatSliceOf fs0)) :=
  DiskSlice.strm_gs _ hfit.fat (fun _ _ h => .fat h) (fun _ _ h => .status h)

theorem rootStrm_gs (hfit : DevFits fs0 sz) :
    StrmGS fs0 sz (WClass fs0) DiskSlice.strm (SliceInv (rootSliceOf fs0)) :=
  DiskSlice.strm_gs _ hfit.root (fun _ _ h => .root h) (fun _ _ h => .status h)

theorem mapFree_geom {fs : FsState} (h : SameGeom fs0 fs) (i : FsInfoSt) : SameGeom fs0 { fs with fsInfo := i } := h

theorem truncateClusterChain_gs (hfit : DevFits fs0 sz) (c : Nat) :
    GS fs0 sz (WClass fs0) (truncateClusterChain c) (fun _ => True) := by
  unfold truncateClusterChain
  refine GS.bind GS.getFs (fun fs hfs => ?_)
  dsimp only
  refine GS.bind (Table.CIter.truncate_gs (fatStrm_gs hfit) _ _ _ (fatSlice_inv hfs)) (fun _ _ => ?_)
  exact GS.modifyFs (fun fs h => h)

theorem freeClusterChain_gs (hfit : DevFits fs0 sz) (c : Nat) :
    GS fs0 sz (WClass fs0) (freeClusterChain c) (fun _ => True) := by
  unfold freeClusterChain
  refine GS.bind GS.getFs (fun fs hfs => ?_)
  dsimp only
  refine GS.bind (Table.CIter.free_gs (fatStrm_gs hfit) _ _ _ (fatSlice_inv hfs)) (fun _ _ => ?_)
  exact GS.modifyFs (fun fs h => h)

theorem offsetFromClusterP_ro (fs' fs : FsState) (c : Nat) :
    RO fs' (offsetFromClusterP fs c) (fun off => 2 ≤ c ∧ off = clusterOff fs c) := by
  unfold offsetFromClusterP
  split
  · exact RO.fail _
  · split
    · exact RO.fail _
    · split
      · exact RO.fail _
      · exact RO.pure ⟨by omega, rfl⟩

theorem clusterOff_geom {a b : FsState} (h : SameGeom a b) (c : Nat) : clusterOff b c = clusterOff a c := by
  simp only [clusterOff, h.proj FsState.firstDataSector, h.proj FsState.spc, h.proj FsState.bps]

theorem clusterSize_geom {a b : FsState} (h : SameGeom a b) : b.clusterSize = a.clusterSize := by
  simp only [FsState.clusterSize, h.proj FsState.spc, h.proj FsState.bps]

/-- `FileSystem::alloc_cluster(prev, zero)`, for any record class containing the FAT window, the status byte and —
    when `zero` is requested — the data clusters -/
theorem allocClusterFs_gsC {C : Nat → List Nat → Prop}
    (hdev : (fatSliceOf fs0).beginOff + (fatSliceOf fs0).mirrors * (fatSliceOf fs0).size ≤ sz)
    (hfat : ∀ o b, SliceRec (fatSliceOf fs0) o b → C o b) (hst : ∀ o b, StatusRec fs0 o b → C o b)
    (prev : Option Nat) (zero : Bool) (hcl : zero = true → ∀ o b, ClusterRec fs0 o b → C o b) :
    GS fs0 sz C (allocClusterFs prev zero) (fun _ => True) := by
  unfold allocClusterFs
  refine GS.bind GS.getFs (fun fs hfs => ?_)
  refine GS.bind (Table.allocCluster_gs (DiskSlice.strm_gs _ hdev hfat hst) _ _ _ _ _ (fatSlice_inv hfs)) ?_
  rintro ⟨c, sl⟩ _
  dsimp only
  have hrest : GS fs0 sz C (do
      let fs ← Prog.getFs
      match fs.fsInfo.free with
      | some 0 => Prog.fail Err.panic
      | _ =>
        let nextFree := if c + 1 < fs.totalClusters + 2 then c + 1 else 2
        Prog.setFs { fs with fsInfo := ({ fs.fsInfo with next := some nextFree, dirty := true }).mapFree (· - 1) }
        pure c) (fun _ => True) := by
    refine GS.bind GS.getFs (fun fs2 hfs2 => ?_)
    split
    · exact GS.fail _
    · exact GS.bind (GS.setFs hfs2) (fun _ _ => GS.pure trivial)
  split
  · rename_i hz
    refine GS.bind (GS.of_ro (fun fs' => offsetFromClusterP_ro fs' fs c)) ?_
    rintro off ⟨hc, rfl⟩
    refine GS.seek_unit (PU.writeZeros _ _) ?_ (fun _ => hrest)
    intro o b h1 h2
    exact hcl hz _ _ ⟨c, hc, by rw [← clusterOff_geom hfs]; exact h1,
      by rw [← clusterOff_geom hfs, ← clusterSize_geom hfs]; exact h2⟩
  · exact hrest

theorem allocClusterFs_gs (hfit : DevFits fs0 sz) (prev : Option Nat) (zero : Bool) :
    GS fs0 sz (WClass fs0) (allocClusterFs prev zero) (fun _ => True) :=
  allocClusterFs_gsC hfit.fat (fun _ _ h => .fat h) (fun _ _ h => .status h) prev zero (fun _ _ _ h => .cluster h)

theorem FileH.flushDirEntry_gs (f : FileH) :
    GS fs0 sz (fun off bs => ∀ e, f.entry = some e → SlotAt e.pos off bs) f.flushDirEntry (fun _ => True) := by
  unfold FileH.flushDirEntry
  split
  · rename_i e he
    split
    · refine GS.seek_unit (len := 32) ((PU.writeChunks _ _).mono ?_) ?_ (fun _ => GS.pure trivial)
      · have := totalLen_chunksOf_le FileH.entryChunkSizes e.data.serialize
        have h32 : FileH.entryChunkSizes.sum = 32 := by decide
        omega
      · intro o b h1 h2 e' he'
        rw [he] at he'; cases he'
        exact ⟨h1, h2⟩
    · exact GS.pure trivial
  · exact GS.pure trivial

theorem FileH.flushDirEntry_gsW (f : FileH) : GS fs0 sz (WClass fs0) f.flushDirEntry (fun _ => True) := by
  cases he : f.entry with
  | none =>
    unfold FileH.flushDirEntry; rw [he]; exact GS.pure trivial
  | some e =>
    exact (FileH.flushDirEntry_gs f).mono (fun off bs h => .slot e.pos (h e he))

theorem FileH.flush_gs (f : FileH) : GS fs0 sz (WClass fs0) f.flush (fun _ => True) := by
  unfold FileH.flush
  exact GS.bind (FileH.flushDirEntry_gsW f) (fun _ _ => GS.bind (GS.of_quiet QuietOps.progFlush) (fun _ _ => GS.pure trivial))

theorem FileH.dropBody_gs (f : FileH) : GS fs0 sz (WClass fs0) (do let _ ← f.flush; pure ()) (fun _ => True) :=
  GS.bind (FileH.flush_gs f) (fun _ _ => GS.pure trivial)

theorem inDrop_gs {C : Nat → List Nat → Prop} {c : Prog Unit} (hc : GS fs0 sz C c (fun _ => True)) :
    GS fs0 sz C (Prog.inDrop c) (fun _ => True) :=
  GS.finallyDrop (GS.pure trivial) (fun _ _ => hc) hc

theorem FileH.drop_gs (f : FileH) : GS fs0 sz (WClass fs0) f.drop (fun _ => True) := inDrop_gs (FileH.dropBody_gs f)

theorem FileH.write_gs (hfit : DevFits fs0 sz) (f : FileH) (buf : List Nat) :
    GS fs0 sz (WClass fs0) (f.write buf) (fun _ => True) := by
  unfold FileH.write
  refine GS.bind GS.getFs (fun fs hfs => ?_)
  dsimp only
  split
  · exact GS.pure trivial
  · refine GS.bind (setDirtyFlag_gs true) (fun _ _ => ?_)
    refine GS.bind (Q := fun _ => True) ?_ ?_
    · split
      · refine GS.bind (GS.of_quiet (FileH.boundaryCluster_quiet f)) (fun nxt _ => ?_)
        split
        · exact GS.pure trivial
        · exact GS.bind (allocClusterFs_gs hfit _ _) (fun _ _ => GS.pure trivial)
      · split
        · exact GS.pure trivial
        · exact GS.fail _
    · rintro ⟨cur, f1⟩ _
      dsimp only
      refine GS.bind (GS.of_ro (fun fs' => offsetFromClusterP_ro fs' fs cur)) ?_
      rintro off ⟨hc, rfl⟩
      refine GS.seek_unit (PU.write _ _) ?_ (fun n => ?_)
      · intro o b h1 h2
        refine .cluster ⟨cur, hc, by rw [← clusterOff_geom hfs]; omega, ?_⟩
        rw [← clusterOff_geom hfs, ← clusterSize_geom hfs]
        simp only [List.length_take] at h2
        have hm : f.offset % fs.clusterSize < fs.clusterSize ∨ fs.clusterSize = 0 := by
          rcases Nat.eq_zero_or_pos fs.clusterSize with h | h
          · exact Or.inr h
          · exact Or.inl (Nat.mod_lt _ h)
        omega
      · split
        · exact GS.pure trivial
        · refine GS.bind (GS.of_quiet ?_) (fun _ _ => GS.pure trivial)
          unfold FileH.updateAfterWrite; quiet

theorem FileH.truncate_gs (hfit : DevFits fs0 sz) (f : FileH) : GS fs0 sz (WClass fs0) f.truncate (fun _ => True) := by
  unfold FileH.truncate
  refine GS.bind (setDirtyFlag_gs true) (fun _ _ => ?_)
  refine GS.bind GS.getFs (fun fs hfs => ?_)
  split
  · exact GS.fail _
  · dsimp only
    split
    · split
      · exact GS.fail _
      · exact GS.bind (truncateClusterChain_gs hfit _) (fun _ _ => GS.pure trivial)
    · split
      · exact GS.fail _
      · split
        · exact GS.bind (freeClusterChain_gs hfit _) (fun _ _ => GS.pure trivial)
        · exact GS.pure trivial

theorem FileH.strm_gs (hfit : DevFits fs0 sz) : StrmGS fs0 sz (WClass fs0) FileH.strm (fun _ => True) :=
  ⟨fun f n _ => (GS.of_quiet (f.read_quiet n)).weaken (fun _ _ => trivial),
   fun f bs _ => (FileH.write_gs hfit f bs).weaken (fun _ _ => trivial),
   fun f p _ => (GS.of_quiet (f.seek_quiet p)).weaken (fun _ _ => trivial)⟩

end file

end FatVerif
