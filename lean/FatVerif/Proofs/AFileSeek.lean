import FatVerif.Proofs.AFileInv
import FatVerif.Proofs.AFileByteFile
import FatVerif.Proofs.AFileRead
/-! `File::seek` refines `ByteFile.seek`: the round-up shortcut and the walk from the first cluster both
    re-establish `current = chain[(offset − 1) / cs]`; the "chain ends before the new position" clamp is dead
    code under the invariant. -/
namespace FatVerif.Cursor

section
variable {σ : Type} {isFree : σ → Nat → Prop} {f : AFile} {s : σ}

structure SeekPost (f : AFile) (new : Nat) (r : Except Err Nat × AFile) : Prop where
  res : r.1 = .ok new
  offset : r.2.offset = new
  cs : r.2.cs = f.cs
  chain : r.2.chain = f.chain
  data : r.2.data = f.data
  size : r.2.size = f.size
  first : r.2.firstCluster = f.firstCluster

theorem AFileInv.seekTo_post (h : AFileInv isFree f s) (new : Nat) (hn : new ≤ f.size) :
    SeekPost f new (f.seekTo new) ∧ AFileInv isFree (f.seekTo new).2 s := by
  have hcs := h.cs_pos
  unfold AFile.seekTo
  by_cases h1 : new = f.offset
  · simp only [h1, if_true]
    exact ⟨⟨rfl, rfl, rfl, rfl, rfl, rfl, rfl⟩, h⟩
  · simp only [h1, if_false]
    by_cases h2 : new = 0
    · simp only [h2, if_true]
      exact ⟨⟨rfl, rfl, rfl, rfl, rfl, rfl, rfl⟩,
        ⟨hcs, h.nodup, h.first, h.cover, Nat.zero_le _, h.size_le, by simp, h.live⟩⟩
    · simp only [h2, if_false]
      have hnpos : 0 < new := Nat.pos_of_ne_zero h2
      have hidx : (new - 1) / f.cs < f.chain.length := h.index_lt (by omega)
      by_cases h3 : clustersFromBytes f.cs new = clustersFromBytes f.cs f.offset
      · simp only [h3, if_true]
        refine ⟨⟨rfl, rfl, rfl, rfl, rfl, rfl, rfl⟩,
          ⟨hcs, h.nodup, h.first, h.cover, hn, h.size_le, ?_, h.live⟩⟩
        show f.current = _
        simp only [h2, if_false]
        have ho : f.offset ≠ 0 := by
          intro e
          rw [e, clustersFromBytes_zero hcs, clustersFromBytes_pos hcs hnpos] at h3
          exact Nat.succ_ne_zero _ h3
        rw [clustersFromBytes_pos hcs hnpos, clustersFromBytes_pos hcs (Nat.pos_of_ne_zero ho)] at h3
        rw [h.cur]; simp only [ho, if_false]
        have : (new - 1) / f.cs = (f.offset - 1) / f.cs := Nat.add_right_cancel h3
        show _ = f.chain[(new - 1) / f.cs]?
        rw [this]
      · simp only [h3, if_false]
        cases hf : f.firstCluster with
        | none =>
          -- empty chain, hence size 0, hence new = 0: impossible
          exfalso
          have hnil : f.chain = [] := by
            have hfi := h.first; rw [hf] at hfi
            cases hc : f.chain with
            | nil => rfl
            | cons a l => rw [hc] at hfi; simp at hfi
          have hcov := h.cover; rw [hnil] at hcov; simp at hcov
          omega
        | some first =>
          have h0 : f.chain[0]? = some first := by
            rw [← hf, h.first, List.head?_eq_getElem?]
          rw [clustersFromBytes_pos hcs hnpos]
          obtain ⟨c', hc', hw⟩ := seekWalk_of_getElem? f.chain f.cs h.nodup ((new - 1) / f.cs) 0 first 0 new h0
            (by omega)
          simp only [Nat.add_sub_cancel, hw]
          have hfirst : some first = f.chain.head? := by rw [← hf]; exact h.first
          refine ⟨⟨rfl, rfl, rfl, rfl, rfl, rfl, hf.symm ▸ rfl⟩,
            ⟨hcs, h.nodup, hfirst, h.cover, hn, h.size_le, ?_, h.live⟩⟩
          show some c' = _
          simp only [h2, if_false]
          show some c' = f.chain[(new - 1) / f.cs]?
          rw [← hc']; simp

/-- the model's target computation (`u32::try_from`, `i64::checked_add`) agrees with the specification's -/
theorem seekTarget_spec (f : AFile) (w : SeekFrom) :
    (f.seekTarget w = none ∧ (f.abs.seekTarget w < 0 ∨ f.abs.seekTarget w > (u32Max : Int))) ∨
    (∃ t, f.seekTarget w = some t ∧ ¬ (f.abs.seekTarget w < 0 ∨ f.abs.seekTarget w > (u32Max : Int)) ∧
      (f.abs.seekTarget w).toNat = t) := by
  cases w with
  | start n =>
    simp only [AFile.seekTarget, ByteFile.seekTarget]
    by_cases h : n ≤ u32Max
    · right; refine ⟨n, by simp [h], ?_, by simp⟩
      unfold u32Max at *; omega
    · left; refine ⟨by simp [h], ?_⟩
      unfold u32Max at *; omega
  | current d =>
    simp only [AFile.seekTarget, ByteFile.seekTarget, AFile.addToU32, AFile.abs_pos]
    unfold i64Max u32Max
    by_cases h1 : (f.offset : Int) + d > 9223372036854775807
    · left; simp only [h1, if_true, true_and]; omega
    · simp only [h1, if_false]
      by_cases h2 : 0 ≤ (f.offset : Int) + d ∧ (f.offset : Int) + d ≤ ((4294967295 : Nat) : Int)
      · right; simp only [h2, and_self, if_true]
        exact ⟨_, rfl, by omega, rfl⟩
      · left; simp only [h2, if_false, true_and]; omega
  | fromEnd d =>
    simp only [AFile.seekTarget, ByteFile.seekTarget, AFile.addToU32, AFile.abs_content, AFile.content_length]
    unfold i64Max u32Max
    by_cases h1 : (f.size : Int) + d > 9223372036854775807
    · left; simp only [h1, if_true, true_and]; omega
    · simp only [h1, if_false]
      by_cases h2 : 0 ≤ (f.size : Int) + d ∧ (f.size : Int) + d ≤ ((4294967295 : Nat) : Int)
      · right; simp only [h2, and_self, if_true]
        exact ⟨_, rfl, by omega, rfl⟩
      · left; simp only [h2, if_false, true_and]; omega

/-- `seek` with a target before the start or beyond 32 bits: `InvalidInput`, nothing changes -/
theorem seek_invalid (f : AFile) (w : SeekFrom)
    (hbad : f.abs.seekTarget w < 0 ∨ f.abs.seekTarget w > (u32Max : Int)) :
    f.seek w = (.error .invalidInput, f) := by
  rcases seekTarget_spec f w with ⟨hn, _⟩ | ⟨t, _, hok, _⟩
  · simp [AFile.seek, hn]
  · exact absurd hbad hok

/-- `seek` with a representable target: the position becomes `min target size` -/
theorem AFileInv.seek_valid (h : AFileInv isFree f s) (w : SeekFrom)
    (hok : ¬ (f.abs.seekTarget w < 0 ∨ f.abs.seekTarget w > (u32Max : Int))) :
    SeekPost f (min (f.abs.seekTarget w).toNat f.size) (f.seek w) ∧ AFileInv isFree (f.seek w).2 s := by
  rcases seekTarget_spec f w with ⟨_, hbad⟩ | ⟨t, ht, _, hte⟩
  · exact absurd hbad hok
  · have : (if t > f.size then f.size else t) = min (f.abs.seekTarget w).toNat f.size := by
      rw [hte]; split <;> omega
    simp only [AFile.seek, ht, this]
    exact h.seekTo_post _ (Nat.min_le_right _ _)

theorem SeekPost.content {f : AFile} {n : Nat} {r} (p : SeekPost f n r) : r.2.content = f.content :=
  content_congr p.cs p.chain p.data p.size

/-- refinement of `seek` -/
theorem AFileInv.seek_refines (h : AFileInv isFree f s) (w : SeekFrom) :
    (∃ p, (f.seek w).1 = .ok p ∧ ByteFile.check f.cs (.seek w) (.pos p) f.abs = .ok (f.seek w).2.abs) ∨
    ((f.seek w).1 = .error .invalidInput ∧ (f.seek w).2 = f ∧
      ByteFile.check f.cs (.seek w) (.err .invalidInput) f.abs = .ok f.abs) := by
  by_cases hbad : f.abs.seekTarget w < 0 ∨ f.abs.seekTarget w > (u32Max : Int)
  · right
    rw [seek_invalid f w hbad]
    refine ⟨rfl, rfl, ?_⟩
    simp [ByteFile.check, ByteFile.seek, hbad]
  · left
    obtain ⟨p, _⟩ := h.seek_valid w hbad
    refine ⟨_, p.res, ?_⟩
    simp only [ByteFile.check, ByteFile.seek, hbad, if_false, AFile.abs_content, AFile.content_length, if_true]
    congr 1
    simp only [AFile.abs, p.content, p.offset]

end
end FatVerif.Cursor
