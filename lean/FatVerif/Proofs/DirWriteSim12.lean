import FatVerif.Proofs.DirWriteSim11
/-! Directory WRITES, part 12 (generic): `create_file(name)` in a directory given as a write family, end to end. -/
namespace FatVerif.DirSim
open FatVerif.FileSim DirEntryData DirAlias

section generic
variable {Inv : Dev → Prop} {F G : Nat → DirStream} {N : Nat} {src room : Nat → Nat} {Extra : Nat → Prop}
  {DropPost : Img → Img → Prop}

/-- **`create_file(name)`, generic**, single-component path, free name, `alloc` feature -/
theorem WFam.createFile (IO : InvOK Inv) (hg : SlotGeo N src) (W : WFam Inv F G N src room)
    (WG : WFam Inv G G N src room) (O : WOps Inv F G N src room Extra DropPost) (env : Env) (path name : String)
    (hsp : Names.splitPath path = (name, none)) (hdot : (name = "." || name = "..") = false)
    (hval : Names.validateLongName name = .ok ()) (d : Dev) (hinv : Inv d) (ha : d.fs.lfnAlloc = true) (a : List Nat)
    (hchk : DirAlias.checkForExistenceL env.upper (srcSlots d.img src N) name (some false) 70000 = .ok (.alias a))
    (hfit : DirSlots.findFree (srcSlots d.img src N) (Lfn.numParts (Names.encodeUtf16 name.toList).length + 1) +
      (Lfn.numParts (Names.encodeUtf16 name.toList).length + 1) ≤ N) (fuel : Nat) :
    ∃ (d' : Dev) (e : DirEntry), run (FatVerif.createFile env (fuel + 1) (F 0) path) d =
        (.ok (FileH.new (e.firstCluster d.fs) (some e.editor)), d') ∧
      e.data = sfnAt d.fs d.clock a 0 none ∧ e.lfn = Names.encodeUtf16 name.toList ∧
      VolStep d d' ∧ d'.fs.curDirty = true ∧ Inv d' ∧
      srcSlots d'.img src N = DirSlots.writeEntry (srcSlots d.img src N) (Names.encodeUtf16 name.toList)
        (sfnAt d.fs d.clock a 0 none).serialize ∧
      FrameOutE N src Extra d d' ∧ MidImg N src DropPost d d' := by
  have hce := (O.dsrc d hinv).checkForExistence_sim (O.fuel d hinv) ha env name (some false) d (SameVol.refl d)
  rw [hchk] at hce
  obtain ⟨d1, h1, hs1⟩ := hce
  have hinv1 := IO.vol d d1 hinv hs1 (run_clock _ _ _ _ h1)
  obtain ⟨hcan, hl11, _⟩ := C16dir.dir_alias_canon env.upper (srcSlots d.img src N) name (some false) 70000 a hchk
  have hrawwf := sfnAt_wf d.fs d.clock a 0 none hl11 (canon_lt hcan) (by omega)
  obtain ⟨d2, h2, hs2, hd2, hinv2, hsl2, hfr2, im, him1, him2⟩ := W.writeEntry IO hg WG O name (sfnAt d.fs d.clock a 0 none) hval hdot
    hrawwf d1 hinv1 (by rw [hs1.img]; exact hfit)
  rw [hs1.img] at h2 hsl2
  generalize hnum : Lfn.numParts (Names.encodeUtf16 name.toList).length + 1 = num at h2
  generalize hp : DirSlots.findFree (srcSlots d.img src N) num = p at h2
  refine ⟨d2, ⟨sfnAt d.fs d.clock a 0 none, Names.encodeUtf16 name.toList, src (32 * (p + num) - 32) + 32 - 32, 32 * p,
    32 * (p + num)⟩, ?_, rfl, rfl, (VolStep.of_sameVol hs1).trans hs2, hd2, hinv2, hsl2, fun q hq hn he => by
    rw [hfr2 q hq hn he, hs1.img], ⟨im, fun q hq hn => by rw [him1 q hq hn, hs1.img], him2⟩⟩
  unfold FatVerif.createFile
  rw [run_bind_ok (run_getFs d), hsp]
  simp only [hdot, Bool.false_eq_true, if_false]
  rw [run_bind_ok h1]
  simp only [liftEOA]
  rw [run_bind_ok (run_createSfnEntry a 0 none d1), hs1.fs, run_clock _ _ _ _ h1, run_bind_ok h2]
  unfold DirEntry.toFile
  have : (⟨sfnAt d.fs d.clock a 0 none, Names.encodeUtf16 name.toList, src (32 * (p + num) - 32) + 32 - 32, 32 * p,
      32 * (p + num)⟩ : DirEntry).isDir = false := sfnAt_isDir_false d.fs d.clock a none
  rw [this]
  rfl

end generic

end FatVerif.DirSim
