import FatVerif.Proofs.FormatMount1
import FatVerif.Proofs.ImgReplay
import FatVerif.Props.C06image
import FatVerif.Props.C07run
/-! `format_then_mount`, part 2: the image after a successful `format_volume` holds the serialised boot sector at
    sector 0 (and the FS-info sector on FAT32), byte for byte. -/
namespace FatVerif
open Format FormatSpec

/-! ### from the write log to the image (on top of agent-effects' `run_img_eq_replay`) -/

theorem replay_norm (g : Nat → Nat) (hg : ∀ q, g q < 256) : ∀ (l : List LogItem) (q : Nat),
    replay g (l.map LogItem.norm) q = replay g l q % 256 := by
  intro l
  induction l with
  | nil => intro q; simp only [List.map_nil, replay]; exact (Nat.mod_eq_of_lt (hg q)).symm
  | cons it l ih =>
    intro q
    cases it with
    | flush => simp only [List.map_cons, LogItem.norm, replay, applyRec]; exact ih q
    | write off bs =>
      simp only [List.map_cons, LogItem.norm, replay, applyRec, List.length_map]
      split
      · exact getD_map_mod bs _
      · exact ih q

/-- from a well-formed image with an empty log: the resulting image is well-formed and its bytes are the replay of
    the final log over the initial bytes, modulo 256 -/
theorem run_img_replay {α} (p : Prog α) (d : Dev) (r : Except Err α) (d' : Dev) (hr : run p d = (r, d'))
    (hwf : d.img.WF) (hlog : d.log = []) :
    d'.img.WF ∧ ∀ k, d'.img.getByte k = d'.bytes d.img.getByte k % 256 := by
  obtain ⟨h1, items, hl, hv⟩ := run_img_eq_replay p d r d' hr hwf
  refine ⟨h1, fun k => ?_⟩
  rw [hv k, replay_norm _ (Img.getByte_lt _) items k]
  unfold Dev.bytes
  rw [hl, hlog, List.append_nil]

/-- all elements are bytes -/
def AllB (l : List Nat) : Prop := ∀ b ∈ l, b < 256

theorem allB_append (a b : List Nat) : AllB (a ++ b) ↔ AllB a ∧ AllB b := by
  unfold AllB; simp only [List.mem_append]
  exact ⟨fun h => ⟨fun x hx => h x (Or.inl hx), fun x hx => h x (Or.inr hx)⟩,
    fun h x hx => hx.elim (h.1 x) (h.2 x)⟩

theorem allB_cons (x : Nat) (l : List Nat) : AllB (x :: l) ↔ x < 256 ∧ AllB l := by
  unfold AllB; simp only [List.mem_cons]
  exact ⟨fun h => ⟨h x (Or.inl rfl), fun y hy => h y (Or.inr hy)⟩, fun h y hy => hy.elim (fun e => e ▸ h.1) (h.2 y)⟩

theorem allB_nil : AllB [] := by intro b hb; cases hb

theorem allB_le16 (v : Nat) : AllB (bytesLe16 v) := by
  intro b hb; simp only [bytesLe16, List.mem_cons, List.mem_nil_iff, or_false] at hb
  rcases hb with rfl | rfl <;> omega

theorem allB_le32 (v : Nat) : AllB (bytesLe32 v) := by
  intro b hb; simp only [bytesLe32, List.mem_cons, List.mem_nil_iff, or_false] at hb
  rcases hb with rfl | rfl | rfl | rfl <;> omega

theorem allB_replicate0 (n : Nat) : AllB (List.replicate n 0) := by
  intro b hb; have := (List.mem_replicate.mp hb).2; omega

theorem allB_take {l : List Nat} (h : AllB l) (n : Nat) : AllB (l.take n) := fun b hb => h b (List.mem_of_mem_take hb)

theorem bootCode_lt (ft : FatType) : AllB (bootCodeFor ft) := by
  cases ft <;> (unfold AllB; decide +kernel)
theorem bootJmp_lt (ft : FatType) : AllB (bootJmpFor ft) := by
  cases ft <;> (unfold AllB; decide +kernel)
theorem fsTypeLabel_lt (ft : FatType) : AllB (fsTypeLabelOf ft) := by
  cases ft <;> (unfold AllB; decide +kernel)
theorem oemName_lt : AllB Format.oemName := by unfold AllB; decide +kernel
theorem noName_lt : AllB noNameLabel := by unfold AllB; decide +kernel

/-- every byte of a formatted boot sector is a byte, provided the label bytes are -/
theorem bootOf_serialize_lt (o : FormatOpts) (t : Nat) (ft : FatType) (spf spc : Nat)
    (hl : ∀ l, o.label = some l → AllB l) : AllB (bootOf o t ft spf spc).serialize := by
  have hlab : AllB (o.label.getD noNameLabel) := by
    cases h : o.label with
    | none => exact noName_lt
    | some l => exact hl l h
  have hmod : ∀ x : Nat, x % 256 < 256 := fun x => Nat.mod_lt _ (by omega)
  unfold FBoot.serialize FBpb.serialize
  simp only [allB_append, allB_cons]
  have e1 : (bootOf o t ft spf spc).bootjmp = bootJmpFor ft := rfl
  have e2 : (bootOf o t ft spf spc).oemName = Format.oemName := rfl
  have e3 : (bootOf o t ft spf spc).bootCode = bootCodeFor ft := rfl
  have e4 : (bootOf o t ft spf spc).bootSig = [0x55, 0xAA] := rfl
  have e5 : (bootOf o t ft spf spc).bpb.label = o.label.getD noNameLabel := rfl
  have e6 : (bootOf o t ft spf spc).bpb.fsTypeLabel = fsTypeLabelOf ft := rfl
  have e7 : (bootOf o t ft spf spc).bpb.reserved0 = List.replicate 12 0 := rfl
  rw [e1, e2, e3, e4, e5, e6, e7]
  refine ⟨⟨⟨⟨bootJmp_lt ft, oemName_lt⟩, ?_⟩, ?_⟩, by simp only [allB_cons]; exact ⟨by omega, by omega, allB_nil⟩⟩
  · refine ⟨⟨⟨⟨⟨⟨⟨⟨⟨⟨⟨⟨⟨⟨⟨⟨allB_le16 _, hmod _, allB_nil⟩, allB_le16 _⟩, hmod _, allB_nil⟩, allB_le16 _⟩, allB_le16 _⟩,
      hmod _, allB_nil⟩, allB_le16 _⟩, allB_le16 _⟩, allB_le16 _⟩, allB_le32 _⟩, allB_le32 _⟩, ?_⟩,
      hmod _, hmod _, hmod _, allB_nil⟩, allB_le32 _⟩, hlab⟩, fsTypeLabel_lt ft⟩
    split
    · simp only [allB_append]
      exact ⟨⟨⟨⟨⟨⟨allB_le32 _, allB_le16 _⟩, allB_le16 _⟩, allB_le32 _⟩, allB_le16 _⟩, allB_le16 _⟩, allB_replicate0 _⟩
    · exact allB_nil
  · split <;> exact allB_take (bootCode_lt ft) _

/-! ### the FS-info sector read back -/

theorem u32At_mid (pre post : List Nat) (v k : Nat) (hk : pre.length = k) :
    u32At (pre ++ (bytesLe32 v ++ post)) k = v % 4294967296 := by
  subst hk
  unfold u32At le32
  have g : ∀ j, j < 4 → (pre ++ (bytesLe32 v ++ post)).getD (pre.length + j) 0 = (bytesLe32 v).getD j 0 := by
    intro j hj
    rw [getD_append_ge' (by omega), Nat.add_sub_cancel_left, getD_append_lt' (by simp [bytesLe32]; omega)]
  have g0 := g 0 (by omega)
  rw [Nat.add_zero] at g0
  rw [g0, g 1 (by omega), g 2 (by omega), g 3 (by omega)]
  simp only [bytesLe32, List.getD_cons_zero, List.getD_cons_succ]
  omega

theorem fsInfoBytes_allB (i : FsInfoSt) : AllB (fsInfoBytes i) := by
  unfold fsInfoBytes
  simp only [allB_append]
  exact ⟨⟨⟨⟨⟨⟨allB_le32 _, allB_replicate0 _⟩, allB_le32 _⟩, allB_le32 _⟩, allB_le32 _⟩, allB_replicate0 _⟩, allB_le32 _⟩

theorem len_le32 (v : Nat) : (bytesLe32 v).length = 4 := rfl

theorem u32At_head (post : List Nat) (v : Nat) : u32At (bytesLe32 v ++ post) 0 = v % 4294967296 := by
  unfold u32At le32
  simp only [bytesLe32, List.cons_append, List.getD_cons_zero, List.getD_cons_succ, Nat.zero_add]
  omega

/-- what `FsInfoSector::deserialize` makes of the sector `format_volume` wrote -/
theorem fsInfo_deserialize_fmt (a n : Nat) (ha : a < 4294967295) (hn : 2 ≤ n) (hn2 : n < 4294967295) :
    FsInfo.deserialize (fsInfoBytes { free := some a, next := some n, dirty := false }) =
      .ok { freeClusterCount := some a, nextFreeCluster := some n, dirty := false } := by
  unfold fsInfoBytes
  simp only [Option.getD_some]
  generalize hZ : List.replicate 480 0 = Z
  generalize hY : List.replicate 12 0 = Y
  have lZ : Z.length = 480 := by rw [← hZ, List.length_replicate]
  have lY : Y.length = 12 := by rw [← hY, List.length_replicate]
  have e0 : u32At (bytesLe32 0x41615252 ++ Z ++ bytesLe32 0x61417272 ++ bytesLe32 a ++ bytesLe32 n ++ Y ++
      bytesLe32 0xAA550000) 0 = 0x41615252 := by
    have := u32At_head (Z ++ bytesLe32 0x61417272 ++ bytesLe32 a ++ bytesLe32 n ++ Y ++ bytesLe32 0xAA550000)
      0x41615252
    simp only [List.append_assoc] at this ⊢
    exact this
  have e484 : u32At (bytesLe32 0x41615252 ++ Z ++ bytesLe32 0x61417272 ++ bytesLe32 a ++ bytesLe32 n ++ Y ++
      bytesLe32 0xAA550000) 484 = 0x61417272 := by
    have := u32At_mid (bytesLe32 0x41615252 ++ Z) (bytesLe32 a ++ bytesLe32 n ++ Y ++ bytesLe32 0xAA550000)
      0x61417272 484 (by rw [List.length_append, len_le32, lZ])
    simp only [List.append_assoc] at this ⊢
    exact this
  have e488 : u32At (bytesLe32 0x41615252 ++ Z ++ bytesLe32 0x61417272 ++ bytesLe32 a ++ bytesLe32 n ++ Y ++
      bytesLe32 0xAA550000) 488 = a % 4294967296 := by
    have := u32At_mid (bytesLe32 0x41615252 ++ Z ++ bytesLe32 0x61417272) (bytesLe32 n ++ Y ++ bytesLe32 0xAA550000)
      a 488 (by rw [List.length_append, List.length_append, len_le32, len_le32, lZ])
    simp only [List.append_assoc] at this ⊢
    exact this
  have e492 : u32At (bytesLe32 0x41615252 ++ Z ++ bytesLe32 0x61417272 ++ bytesLe32 a ++ bytesLe32 n ++ Y ++
      bytesLe32 0xAA550000) 492 = n % 4294967296 := by
    have := u32At_mid (bytesLe32 0x41615252 ++ Z ++ bytesLe32 0x61417272 ++ bytesLe32 a) (Y ++ bytesLe32 0xAA550000)
      n 492 (by rw [List.length_append, List.length_append, List.length_append, len_le32, len_le32, len_le32, lZ])
    simp only [List.append_assoc] at this ⊢
    exact this
  have e508 : u32At (bytesLe32 0x41615252 ++ Z ++ bytesLe32 0x61417272 ++ bytesLe32 a ++ bytesLe32 n ++ Y ++
      bytesLe32 0xAA550000) 508 = 0xAA550000 := by
    have := u32At_mid (bytesLe32 0x41615252 ++ Z ++ bytesLe32 0x61417272 ++ bytesLe32 a ++ bytesLe32 n ++ Y) []
      0xAA550000 508 (by
        rw [List.length_append, List.length_append, List.length_append, List.length_append, List.length_append,
          len_le32, len_le32, len_le32, len_le32, lZ, lY])
    simp only [List.append_nil, List.append_assoc] at this ⊢
    exact this
  generalize hX : bytesLe32 0x41615252 ++ Z ++ bytesLe32 0x61417272 ++ bytesLe32 a ++ bytesLe32 n ++ Y ++
      bytesLe32 0xAA550000 = X at e0 e484 e488 e492 e508 ⊢
  have ea : a % 4294967296 = a := Nat.mod_eq_of_lt (by omega)
  have en : n % 4294967296 = n := Nat.mod_eq_of_lt (by omega)
  rw [ea] at e488
  rw [en] at e492
  have hf : FsInfo.decodeFree a = some a := by unfold FsInfo.decodeFree; rw [if_neg (by omega)]
  have hx : FsInfo.decodeNext n = some n := by unfold FsInfo.decodeNext; rw [if_neg (by omega)]
  unfold FsInfo.deserialize
  rw [if_neg (show ¬ (u32At X 0 ≠ FsInfo.LEAD_SIG) by rw [e0]; exact fun h => h rfl),
    if_neg (show ¬ (u32At X 484 ≠ FsInfo.STRUC_SIG) by rw [e484]; exact fun h => h rfl),
    if_neg (show ¬ (u32At X 508 ≠ FsInfo.TRAIL_SIG) by rw [e508]; exact fun h => h rfl), e488, e492, hf, hx]

end FatVerif
