import FatVerif.Proofs.FatSpecEq
/-! Error shapes of `set`/`alloc`, NotEnoughSpace inversion, and view = specification decoder on sane tables. -/
namespace FatVerif.Fat
open FatVerif.FatSpec

theorem getRaw_err (ft : FatType) (f : Array Nat) (c : Nat) (e : Err) (h : getRaw ft f c = .error e) :
    e = .panic ∨ e = .eof := by
  cases ft <;> simp only [getRaw, getRaw12, getRaw16, getRaw32] at h <;>
    (split at h; · cases h; exact Or.inl rfl) <;> (split at h; · cases h; exact Or.inr rfl) <;> cases h

/-- `set` fails only with `panic`, `eof` (FAT12/32: the read of the old word) or `writeZero` -/
theorem set_err (ft : FatType) (f : Array Nat) (c : Nat) (v : FatValue) (e : Err) (h : set ft f c v = .error e) :
    e = .panic ∨ e = .eof ∨ e = .writeZero := by
  cases ft
  · simp only [set, setRaw12] at h
    split at h; · cases h; exact Or.inl rfl
    split at h; · cases h; exact Or.inr (Or.inl rfl)
    cases h
  · simp only [set, setRaw16] at h
    split at h; · cases h; exact Or.inl rfl
    split at h; · cases h; exact Or.inr (Or.inr rfl)
    cases h
  · simp only [set, set32] at h
    cases hg : getRaw32 f c with
    | error e' =>
      rw [hg] at h; cases h
      rcases getRaw_err .fat32 f c e hg with h | h
      · exact Or.inl h
      · exact Or.inr (Or.inl h)
    | ok old =>
      rw [hg] at h
      simp only at h
      split at h; · cases h; exact Or.inl rfl
      simp only [setRaw32] at h
      split at h; · cases h; exact Or.inl rfl
      split at h; · cases h; exact Or.inr (Or.inr rfl)
      cases h

theorem allocLink_err (ft : FatType) (f : Array Nat) (prev : Option Nat) (n : Nat) (e : Err)
    (h : (allocLink ft f prev n).out = .error e) : e ≠ .noSpace := by
  unfold allocLink at h
  cases h1 : set ft f n .eoc with
  | error e1 =>
    rw [h1] at h; simp only at h; cases h
    rcases set_err _ _ _ _ _ h1 with h | h | h <;> rw [h] <;> intro x <;> cases x
  | ok f1 =>
    rw [h1] at h; simp only at h
    unfold allocLinkPrev at h
    cases prev with
    | none => simp only at h; cases h
    | some p =>
      simp only at h
      cases h2 : set ft f1 p (.data n) with
      | error e2 =>
        rw [h2] at h; simp only at h; cases h
        rcases set_err _ _ _ _ _ h2 with h | h | h <;> rw [h] <;> intro x <;> cases x
      | ok f2 => rw [h2] at h; simp only at h; cases h

/-- NotEnoughSpace from `alloc_cluster` comes from the scans, i.e. from the view-level allocator -/
theorem allocCluster_noSpace_inv {ft : FatType} {f : Array Nat} {total : Nat} (ht : TableOk ft f total)
    (prev hint : Option Nat)
    (h : (allocCluster f ft prev hint total).out = .error .noSpace) :
    allocFindV (view ft f) hint total = none := by
  have hsmall := ht.small
  unfold allocCluster at h
  rw [if_neg (by cases ft <;> simp only [badMark, u32Lim] at * <;> omega)] at h
  rw [allocFind_sim ht hint] at h
  cases hf : allocFindV (view ft f) hint total with
  | none => rfl
  | some c =>
    rw [hf] at h
    simp only [scanRes] at h
    exact absurd rfl (allocLink_err _ _ _ _ _ h)

theorem specClassify_free_iff (bits v : Nat) : specClassify bits v = .free ↔ v = 0 := by
  unfold specClassify
  constructor
  · intro h
    split at h
    · assumption
    · split at h
      · cases h
      · split at h <;> cases h
  · intro h; rw [if_pos h]

/-- on a sane table the view is the specification decoder -/
theorem view_spec {ft : FatType} {f : Array Nat} {total : Nat} (ht : TableOk ft f total) {c : Nat}
    (hc : c < total + 2) : view ft f c = specValue ft.bits f c := by
  unfold view
  rw [get_spec ft f ht.wf c (ht.plain hc)]

theorem countFreeV_spec {ft : FatType} {f : Array Nat} {total : Nat} (ht : TableOk ft f total) :
    countFreeV (view ft f) total = specCountFree ft.bits f total := by
  unfold countFreeV specCountFree
  apply List.countP_congr
  intro i hi
  have := List.mem_range.mp hi
  simp only [decide_eq_true_eq]
  rw [view_spec ht (by omega)]
  exact specClassify_free_iff _ _

end FatVerif.Fat
